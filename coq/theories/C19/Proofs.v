(* C19/Proofs.v *)
From Coq Require Import ZArith List Bool Lia Arith.
From FV Require Import Base.Ser Base.Res Data.Data_filenames C19.Model.
Import ListNotations.
Open Scope Z_scope.

(* ---------- uniqueness: the result never clashes, ignoring case ---------- *)
Lemma clash1_loop_unique fuel : forall counter u p s ex name,
  clash1_loop fuel counter u p s ex = Ok name -> mems (lower name) ex = false.
Proof.
  induction fuel as [|f IH]; intros counter u p s ex name H; cbn [clash1_loop] in H; [discriminate|].
  destruct (negb (mems (lower (p ++ (u ++ zfill15 counter) ++ s)) ex)) eqn:E.
  - apply Ok_inj in H. subst name. apply negb_true_iff in E. exact E.
  - eapply IH. exact H.
Qed.

Lemma handleClash1_unique cf u ex p s name :
  handleClash1 cf u ex p s = Ok name -> mems (lower name) ex = false.
Proof. unfold handleClash1. apply clash1_loop_unique. Qed.

Theorem filename_unique cf u ex p s name :
  userNameToFileName cf u ex p s = Ok name -> mems (lower name) ex = false.
Proof.
  unfold userNameToFileName. destruct u as [|c0 rest].
  - destruct p as [|p0 pr]; [discriminate|].
    destruct (mems (lower ((p0 :: pr) ++ [] ++ s)) ex) eqn:E; [apply handleClash1_unique|].
    intros H. apply Ok_inj in H. subst name. exact E.
  - match goal with |- (if mems (lower ?full) ex then _ else _) = _ -> _ => destruct (mems (lower full) ex) eqn:E end;
      [apply handleClash1_unique|].
    intros H. apply Ok_inj in H. subst name. exact E.
Qed.

(* a whole sequence of names: pairwise distinct ignoring case *)
Lemma mems_false_not_in s l : mems s l = false -> ~ In s l.
Proof.
  unfold mems. intros H Hin. assert (existsb (list_Z_eqb s) l = true); [|congruence].
  apply existsb_exists. exists s. split; [exact Hin|].
  clear. induction s; cbn; auto. rewrite Z.eqb_refl. exact IHs.
Qed.

Theorem name_sequence_distinct cf names : forall ex p s fs,
  name_sequence cf names ex p s = Ok fs ->
  NoDup (map lower fs) /\ (forall f, In f fs -> ~ In (lower f) ex).
Proof.
  induction names as [|n r IH]; intros ex p s fs H; cbn [name_sequence] in H.
  - apply Ok_inj in H. subst fs. split; [constructor|intros f []].
  - destruct (userNameToFileName cf n ex p s) as [f|e] eqn:E1; [|discriminate]. cbn [bind] in H.
    destruct (name_sequence cf r (lower f :: ex) p s) as [fs'|e] eqn:E2; [|discriminate]. cbn [bind] in H.
    apply Ok_inj in H. subst fs.
    destruct (IH _ _ _ _ E2) as [ND NI].
    pose proof (mems_false_not_in _ _ (filename_unique _ _ _ _ _ _ E1)) as U.
    split.
    + cbn [map]. constructor; [|exact ND].
      intros Hin. apply in_map_iff in Hin. destruct Hin as [g [Hg Hin]].
      apply (NI g Hin). left. symmetry. exact Hg.
    + intros g [<-|Hin]; [exact U|]. intros Hex. apply (NI g Hin). right. exact Hex.
Qed.

(* ---------- legality: no character of the module's illegal set survives in the generated part ---------- *)
Definition legal (cf : cfg) (c : Z) : Prop := memz c (illegal cf) = false.

Definition glue_ok (cf : cfg) : bool :=
  negb (memz 95 (illegal cf)) && negb (memz 46 (illegal cf)) &&
  forallb (fun d => negb (memz d (illegal cf))) [48; 49; 50; 51; 52; 53; 54; 55; 56; 57].

Lemma filter_char_legal cf c : legal cf 95 -> Forall (legal cf) (filter_char cf c).
Proof.
  intros U. unfold filter_char. destruct (memz c (illegal cf)) eqn:E; [repeat constructor; exact U|].
  destruct (negb (c =? lower_c c)); repeat constructor; auto.
Qed.

Lemma Forall_firstn {A} (P : A -> Prop) n : forall l, Forall P l -> Forall P (firstn n l).
Proof. induction n; intros l H; [constructor|]. destruct l; [constructor|]. inversion H; subst. constructor; auto. Qed.

Lemma slice_to_legal cf s k : Forall (legal cf) s -> Forall (legal cf) (slice_to s k).
Proof. intros H. unfold slice_to. destruct (0 <=? k); apply Forall_firstn; exact H. Qed.

Lemma split_dot_nonempty s : split_dot s <> [].
Proof. destruct s as [|c r]; cbn; [discriminate|]. destruct (c =? 46); [discriminate|]. destruct (split_dot r); discriminate. Qed.

Lemma split_dot_legal cf s : Forall (legal cf) s -> Forall (Forall (legal cf)) (split_dot s).
Proof.
  induction s as [|c r IH]; intros H; cbn [split_dot]; [repeat constructor|].
  inversion H as [|? ? Hc Hr]; subst. specialize (IH Hr).
  destruct (c =? 46); [constructor; [constructor|exact IH]|].
  destruct (split_dot r) as [|q qs]; [repeat constructor; exact Hc|].
  inversion IH; subst. constructor; [constructor; assumption|assumption].
Qed.

Lemma join_dot_legal cf ps : legal cf 46 -> Forall (Forall (legal cf)) ps -> Forall (legal cf) (join_dot ps).
Proof.
  intros D. induction ps as [|q r IH]; intros H; cbn [join_dot]; [constructor|].
  inversion H as [|? ? Hq Hr]; subst. destruct r as [|q2 r2]; [exact Hq|].
  apply Forall_app. split; [exact Hq|]. constructor; [exact D|apply IH; exact Hr].
Qed.

Lemma fix_part_legal cf q : legal cf 95 -> Forall (legal cf) q -> Forall (legal cf) (fix_part cf q).
Proof. intros U H. unfold fix_part. destruct (mems (lower q) (reserved cf)); [constructor; assumption|assumption]. Qed.

Lemma zfill15_legal cf c : glue_ok cf = true -> Forall (legal cf) (zfill15 c).
Proof.
  intros G. unfold glue_ok in G. apply andb_prop in G. destruct G as [_ G].
  rewrite forallb_forall in G.
  unfold zfill15. apply Forall_forall. intros x Hx. apply in_map_iff in Hx. destruct Hx as [i [<- _]].
  assert (B: 0 <= (c / 10 ^ i) mod 10 < 10) by (apply Z.mod_pos_bound; lia).
  unfold legal. apply negb_true_iff. apply G.
  remember ((c / 10 ^ i) mod 10) as d.
  assert (C: d = 0 \/ d = 1 \/ d = 2 \/ d = 3 \/ d = 4 \/ d = 5 \/ d = 6 \/ d = 7 \/ d = 8 \/ d = 9) by lia.
  cbn [In]. repeat (destruct C as [C|C]; [subst d; rewrite C; cbn; tauto|]). subst d. rewrite C. cbn. tauto.
Qed.

Lemma clash1_loop_shape fuel : forall counter u p s ex name,
  clash1_loop fuel counter u p s ex = Ok name -> exists c, name = p ++ (u ++ zfill15 c) ++ s.
Proof.
  induction fuel as [|f IH]; intros counter u p s ex name H; cbn [clash1_loop] in H; [discriminate|].
  destruct (negb (mems (lower (p ++ (u ++ zfill15 counter) ++ s)) ex)).
  - apply Ok_inj in H. exists counter. symmetry. exact H.
  - eapply IH. exact H.
Qed.

Lemma handleClash1_legal cf u ex p s name :
  glue_ok cf = true -> Forall (legal cf) u ->
  handleClash1 cf u ex p s = Ok name -> exists body, name = p ++ body ++ s /\ Forall (legal cf) body.
Proof.
  intros G Hu H. unfold handleClash1 in H. apply clash1_loop_shape in H. destruct H as [c ->].
  eexists. split; [reflexivity|]. apply Forall_app. split; [|apply zfill15_legal; exact G].
  destruct (maxlen cf <? _); [apply slice_to_legal|]; exact Hu.
Qed.

Theorem filename_legal cf u ex p s name :
  glue_ok cf = true ->
  userNameToFileName cf u ex p s = Ok name ->
  exists body, name = p ++ body ++ s /\ Forall (legal cf) body.
Proof.
  intros G. assert (G' := G). unfold glue_ok in G'. apply andb_prop in G'. destruct G' as [G1 _].
  apply andb_prop in G1. destruct G1 as [GU GD]. apply negb_true_iff in GU. apply negb_true_iff in GD.
  unfold userNameToFileName. destruct u as [|c0 rest].
  - destruct p as [|p0 pr]; [discriminate|].
    destruct (mems _ ex); [apply handleClash1_legal; [exact G|constructor]|].
    intros H. apply Ok_inj in H. subst name. exists []. split; [reflexivity|constructor].
  - set (u1 := match p with [] => if c0 =? 46 then 95 :: rest else c0 :: rest | _ => c0 :: rest end).
    set (u2 := flat_map (filter_char cf) u1).
    set (u3 := slice_to u2 (maxlen cf - Z.of_nat (length p) - Z.of_nat (length s))).
    set (u4 := join_dot (map (fix_part cf) (split_dot u3))).
    assert (L2: Forall (legal cf) u2).
    { unfold u2. apply Forall_forall. intros x Hx. apply in_flat_map in Hx. destruct Hx as [c [_ Hc]].
      pose proof (filter_char_legal cf c GU) as F. rewrite Forall_forall in F. apply F. exact Hc. }
    assert (L3: Forall (legal cf) u3) by (apply slice_to_legal; exact L2).
    assert (L4: Forall (legal cf) u4).
    { unfold u4. apply join_dot_legal; [exact GD|].
      pose proof (split_dot_legal cf u3 L3) as S. induction S; cbn [map]; constructor; auto.
      apply fix_part_legal; assumption. }
    destruct (mems _ ex); [apply handleClash1_legal; assumption|].
    intros H. apply Ok_inj in H. subst name. exists u4. split; [reflexivity|exact L4].
Qed.

(* ---------- length ---------- *)
Lemma slice_to_length s k : 0 <= k -> (length (slice_to s k) <= Z.to_nat k)%nat.
Proof. intros Hk. unfold slice_to. replace (0 <=? k) with true by lia. rewrite firstn_length. lia. Qed.

Lemma zfill15_length c : length (zfill15 c) = 15%nat.
Proof. reflexivity. Qed.

(* the clash fallback respects the limit whenever prefix+suffix leave room for the 15-digit counter *)
Theorem clash_name_length cf u ex p s name :
  Z.of_nat (length p) + Z.of_nat (length s) + 15 <= maxlen cf ->
  handleClash1 cf u ex p s = Ok name -> Z.of_nat (length name) <= maxlen cf.
Proof.
  intros Hroom H. unfold handleClash1 in H. apply clash1_loop_shape in H. destruct H as [c ->].
  rewrite !app_length, zfill15_length.
  set (l := Z.of_nat (length p) + Z.of_nat (length u) + Z.of_nat (length s) + 15) in *.
  destruct (maxlen cf <? l) eqn:E.
  - unfold slice_to. replace (0 <=? maxlen cf - l) with false by lia.
    rewrite firstn_length. unfold l in *. lia.
  - unfold l in *. lia.
Qed.

(* full-strength length bound is FALSE on the current code (finding F1): *)
Theorem filename_length_refuted :
  exists u name, userNameToFileName cfg_ufo u [] [] [] = Ok name /\ maxlen cfg_ufo < Z.of_nat (length name).
Proof.
  exists (flat_map (fun _ => [99; 111; 110; 46]) (seq 0 70)).
  eexists. split; [vm_compute; reflexivity|vm_compute; reflexivity].
Qed.

(* ---------- the regenerated tables contain what every target file system forbids ---------- *)
Definition spec_forbidden : list Z :=
  [0;1;2;3;4;5;6;7;8;9;10;11;12;13;14;15;16;17;18;19;20;21;22;23;24;25;26;27;28;29;30;31;
   34; 42; 47; 58; 60; 62; 63; 92; 124; 127].
Definition spec_reserved : list (list Z) :=
  [[99;111;110]; [112;114;110]; [97;117;120]; [110;117;108]; [99;111;109;49]; [108;112;116;49]].

Theorem tables_cover_spec :
  forallb (fun c => memz c (illegal cfg_ufo) && memz c (illegal cfg_misc)) spec_forbidden = true /\
  forallb (fun r => mems r (reserved cfg_ufo) && mems r (reserved cfg_misc)) spec_reserved = true /\
  glue_ok cfg_ufo = true /\ glue_ok cfg_misc = true /\ maxlen cfg_ufo = 255 /\ maxlen cfg_misc = 255.
Proof. repeat split; vm_compute; reflexivity. Qed.
