From Coq Require Import ZArith List String Bool.
From Coq Require Import QArith.
From FV Require Import Base.Ser Base.Res C19.Model C19.ModelAxisMap.
From FV Require C19.ModelKerning.
Import ListNotations.
Open Scope string_scope.
Definition cfg_of (z : Z) : cfg := if (z =? 0)%Z then cfg_ufo else cfg_misc.
Definition u2f (which : Z) (u : list Z) (ex : list (list Z)) (p s : list Z) := userNameToFileName (cfg_of which) u ex p s.
Definition seqf (which : Z) (names : list (list Z)) (p s : list Z) := name_sequence (cfg_of which) names [] p s.
Definition run5 {A B C D E F} `{De A} `{De B} `{De C} `{De D} `{De E} `{Ser F}
  (f : A -> B -> C -> D -> E -> F) (inp : list Z) : list Z :=
  run1 (fun p : A * B * C * D * E => f (fst (fst (fst (fst p)))) (snd (fst (fst (fst p)))) (snd (fst (fst p))) (snd (fst p)) (snd p)) inp.
Definition reg : registry := [
  ("userNameToFileName", run5 u2f);
  ("name_sequence", run4 seqf);
  ("axis_map_forward", run2 axis_map_forward);
  ("axis_map_backward", run2 axis_map_backward);
  ("convert_kerning", run3 ModelKerning.convert)
].
Definition fv_entry := dispatch reg.
