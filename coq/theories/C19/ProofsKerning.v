(* C19/ProofsKerning.v — the new group names are pairwise different and none of them is an existing group name *)
From Coq Require Import ZArith List Bool Lia.
From FV Require Import Base.Ser Base.Res C18.Model C18.Proofs C19.ModelKerning.
Import ListNotations.
Open Scope Z_scope.

Lemma memn_In n l : memn n l = true <-> In n l.
Proof.
  unfold memn. rewrite existsb_exists. split.
  - intros (x & Hx & E). apply eqb_eq in E. subst. exact Hx.
  - intros H. exists n. split; [exact H | apply eqb_eq; reflexivity].
Qed.
Lemma memn_false n l : memn n l = false <-> ~ In n l.
Proof. rewrite <- memn_In. destruct (memn n l); split; intros; try congruence; tauto. Qed.

Lemma unique_name_fresh fuel : forall nm taken c r, unique_name fuel nm taken c = Some r -> ~ In r taken.
Proof.
  induction fuel as [|f IH]; intros nm taken c r; cbn [unique_name]; [discriminate|].
  intros H. cbv zeta in H.
  match type of H with context [memn ?x taken] => destruct (memn x taken) eqn:E end.
  - apply (IH _ _ _ _ H).
  - injection H as <-. apply memn_false. exact E.
Qed.
Lemma starts_with_app p s : starts_with p (p ++ s) = true.
Proof. induction p as [|a p IH]; cbn; [reflexivity|]. rewrite Z.eqb_refl, IH. reflexivity. Qed.
Lemma unique_name_prefix fuel : forall p body taken c r, unique_name fuel (p ++ body) taken c = Some r -> starts_with p r = true.
Proof.
  induction fuel as [|f IH]; intros p body taken c r; cbn [unique_name]; [discriminate|].
  intros H. cbv zeta in H.
  match type of H with context [memn ?x taken] => destruct (memn x taken) eqn:E end.
  - apply (IH _ _ _ _ _ H).
  - injection H as <-. destruct (0 <? c); [rewrite <- app_assoc|]; apply starts_with_app.
Qed.

Lemma rename_loop_spec old new gnames todo : forall done res,
  rename_loop old new gnames todo done = Some res ->
  NoDup (map snd done) -> (forall v, In v (map snd done) -> ~ In v gnames /\ starts_with new v = true) ->
  NoDup (map snd res) /\ (forall v, In v (map snd res) -> ~ In v gnames /\ starts_with new v = true) /\
  map fst res = map fst done ++ todo.
Proof.
  induction todo as [|g r IH]; intros done res; cbn [rename_loop].
  - intros [= <-] Hnd Hf. rewrite app_nil_r. auto.
  - destruct (unique_name _ _ _ 0) as [n|] eqn:Eu; [|discriminate].
    intros Hr Hnd Hf.
    assert (Hfresh := unique_name_fresh _ _ _ _ _ Eu). assert (Hpre := unique_name_prefix _ _ _ _ _ _ Eu).
    destruct (IH (done ++ [(g, n)]) res Hr) as (R1 & R2 & R3).
    + rewrite map_app. cbn [map]. apply NoDup_app_snoc; [exact Hnd|]. intros Hin. apply Hfresh. apply in_or_app. right. exact Hin.
    + intros v Hv. rewrite map_app in Hv. apply in_app_or in Hv. destruct Hv as [Hv | [<- | []]]; [apply Hf; exact Hv|].
      split; [|exact Hpre]. intros Hin. apply Hfresh. apply in_or_app. left. exact Hin.
    + split; [exact R1|]. split; [exact R2|]. rewrite R3, map_app, <- app_assoc. reflexivity.
Qed.

Lemma kern_prefixes_differ v : starts_with KERN1 v = true -> starts_with KERN2 v = false.
Proof.
  unfold KERN1, KERN2. intros H.
  repeat (destruct v as [|? v]; [cbn in H; try discriminate|]; cbn [starts_with] in H |- *;
          match type of H with (?a =? ?b) && _ = true => destruct (Z.eqb_spec a b); [subst|discriminate] end; cbn [andb] in H |- *).
  all: try reflexivity.
Qed.

(* sorted(set(...)) has no repetitions *)
From Coq Require Import Permutation.
Lemma insert_name_perm n l : Permutation (insert_name n l) (n :: l).
Proof. induction l as [|m r IH]; cbn; [reflexivity|]. destruct (name_ltb n m); [reflexivity|]. rewrite IH. apply perm_swap. Qed.
Lemma dedupe_nodup l : NoDup (dedupe l).
Proof.
  induction l as [|n r IH]; cbn; [constructor|]. destruct (memn n r) eqn:E; [exact IH|].
  constructor; [|exact IH]. intros Hin. apply memn_false in E. apply E.
  clear -Hin. induction r as [|m r IH]; cbn in Hin; [destruct Hin|]. destruct (memn m r); [right; auto|]. destruct Hin as [<- | Hin]; [left; reflexivity | right; auto].
Qed.
Lemma sort_names_nodup l : NoDup (sort_names l).
Proof.
  unfold sort_names. assert (H := dedupe_nodup l). induction (dedupe l) as [|n r IH]; cbn; [constructor|].
  apply NoDup_cons_iff in H. destruct H as [Hni Hnd].
  apply (Permutation_NoDup (l := n :: fold_right insert_name [] r)); [symmetry; apply insert_name_perm|].
  constructor; [|apply IH; exact Hnd]. intros Hin. apply Hni.
  clear -Hin. revert Hin. induction r as [|m r IH]; cbn; [tauto|]. intros Hin.
  apply (Permutation_in (l' := m :: fold_right insert_name [] r)) in Hin; [|apply insert_name_perm].
  destruct Hin as [<- | Hin]; [left; reflexivity | right; auto].
Qed.

(* ---- the property of the renaming *)
Theorem renamed_groups_distinct kerning groups glyphSet k g r1 r2 :
  convert kerning groups glyphSet = Ok (k, g, r1, r2) ->
  NoDup (map snd r1 ++ map snd r2) /\
  (forall v, In v (map snd r1 ++ map snd r2) -> ~ In v (map fst groups)) /\
  NoDup (map fst r1) /\ NoDup (map fst r2).
Proof.
  unfold convert.
  destruct (rename_loop MMK_L KERN1 _ _ []) as [a|] eqn:E1; [|discriminate].
  destruct (rename_loop MMK_R KERN2 _ _ []) as [b|] eqn:E2; [|discriminate].
  intros [= <- <- <- <-].
  destruct (rename_loop_spec _ _ _ _ _ _ E1) as (A1 & A2 & A3); [constructor | intros v [] |].
  destruct (rename_loop_spec _ _ _ _ _ _ E2) as (B1 & B2 & B3); [constructor | intros v [] |].
  cbn [map app] in A3, B3.
  split; [|split; [|split]].
  - clear -A1 A2 B1 B2. induction (map snd a) as [|x xs IH]; cbn; [exact B1|].
    apply NoDup_cons_iff in A1. destruct A1 as [Hni Hnd].
    constructor.
    + intros Hin. apply in_app_or in Hin. destruct Hin as [Hin | Hin]; [tauto|].
      destruct (A2 x (or_introl eq_refl)) as [_ P1]. destruct (B2 x Hin) as [_ P2]. rewrite (kern_prefixes_differ x P1) in P2. discriminate.
    + apply IH; [exact Hnd|]. intros v Hv. apply A2. right. exact Hv.
  - intros v Hv Hin. apply in_app_or in Hv.
    destruct Hv as [Hv | Hv]; [apply (proj1 (A2 v Hv)) | apply (proj1 (B2 v Hv))]; apply in_or_app; left; exact Hin.
  - rewrite A3. apply sort_names_nodup.
  - rewrite B3. apply sort_names_nodup.
Qed.

(* ... and none of them is a key of the kerning it will be put into (so no kerning row or value is overwritten) *)
Theorem new_names_not_kerning_keys kerning groups glyphSet k g r1 r2 :
  convert kerning groups glyphSet = Ok (k, g, r1, r2) ->
  (forall v, In v (map snd r1) -> ~ In v (map fst kerning)) /\
  (forall v, In v (map snd r2) -> ~ In v (flat_map (fun row => map fst (snd row)) kerning)).
Proof.
  unfold convert.
  destruct (rename_loop MMK_L KERN1 _ _ []) as [a|] eqn:E1; [|discriminate].
  destruct (rename_loop MMK_R KERN2 _ _ []) as [b|] eqn:E2; [|discriminate].
  intros [= <- <- <- <-].
  destruct (rename_loop_spec _ _ _ _ _ _ E1) as (A1 & A2 & A3); [constructor | intros v [] |].
  destruct (rename_loop_spec _ _ _ _ _ _ E2) as (B1 & B2 & B3); [constructor | intros v [] |].
  split; intros v Hv Hin.
  - apply (proj1 (A2 v Hv)). apply in_or_app. right. exact Hin.
  - apply (proj1 (B2 v Hv)). apply in_or_app. right. exact Hin.
Qed.

Example conversion_example :
  convert [([64; 77; 77; 75; 95; 76; 95; 65], [([120], -10)]); ([65], [([120], -20)])]
          [([64; 77; 77; 75; 95; 76; 95; 65], [[97]]); ([65], [[98]]); ([120], [[121]])] [] =
  Ok ([(KERN1 ++ [65], [(KERN2 ++ [120], -10)]); (KERN1 ++ [65; 49], [(KERN2 ++ [120], -20)])],
      [([64; 77; 77; 75; 95; 76; 95; 65], [[97]]); ([65], [[98]]); ([120], [[121]]);
       (KERN1 ++ [65], [[97]]); (KERN1 ++ [65; 49], [[98]]); (KERN2 ++ [120], [[121]])],
      [([64; 77; 77; 75; 95; 76; 95; 65], KERN1 ++ [65]); ([65], KERN1 ++ [65; 49])], [([120], KERN2 ++ [120])]).
Proof. vm_compute. reflexivity. Qed.
