(* C19/ProofsAxisMap.v — map_backward undoes map_forward on strictly monotone maps *)
From Coq Require Import QArith List Bool Lqa Lia Sorted.
From FV Require Import Base.Ser Base.Res Geom.QTools C09.Model C19.ModelAxisMap.
Import ListNotations.
Open Scope Q_scope.

Ltac qb :=
  repeat match goal with
  | H : Qleb _ _ = true |- _ => apply (reflect_iff _ _ (Qleb_spec _ _)) in H
  | H : Qltb _ _ = true |- _ => apply (reflect_iff _ _ (Qltb_spec _ _)) in H
  | H : Qeqb _ _ = true |- _ => apply (reflect_iff _ _ (Qeqb_spec _ _)) in H
  | H : Qleb ?a ?b = false |- _ => assert (~ a <= b) by (intro; destruct (Qleb_spec a b); [discriminate | tauto]); clear H
  | H : Qltb ?a ?b = false |- _ => assert (~ a < b) by (intro; destruct (Qltb_spec a b); [discriminate | tauto]); clear H
  | H : Qeqb ?a ?b = false |- _ => assert (~ a == b) by (intro; destruct (Qeqb_spec a b); [discriminate | tauto]); clear H
  end.

(* ------------------------------------------------------------------ the dictionary scans of piecewiseLinearMap *)
Lemma find_key_some v m x : find_key v m = Some x -> exists k, In (k, x) m /\ v == k.
Proof.
  induction m as [|[k y] r IH]; cbn; [discriminate|].
  destruct (Qeqb v k) eqn:E.
  - intros [= <-]. qb. exists k. auto.
  - intros H. destruct (IH H) as (k' & Hin & He). exists k'. auto.
Qed.
Lemma find_key_none v m : find_key v m = None -> forall p, In p m -> ~ v == fst p.
Proof.
  induction m as [|[k y] r IH]; cbn; [tauto|].
  destruct (Qeqb v k) eqn:E; [discriminate|]. intros H p [<- | Hin]; qb; cbn; auto.
Qed.

Lemma min_key_spec m : forall best,
  (In (min_key m best) (best :: m)) /\ (forall p, In p (best :: m) -> fst (min_key m best) <= fst p).
Proof.
  induction m as [|[k x] r IH]; intros best; cbn [min_key].
  - split; [left; auto|]. intros p [<- | []]. lra.
  - destruct (Qltb k (fst best)) eqn:E; qb.
    + destruct (IH (k, x)) as [Hin Hmin]. split.
      * destruct Hin as [<- | Hin]; [right; left; auto | right; right; auto].
      * intros p [<- | [<- | Hp]].
        -- specialize (Hmin (k, x) (or_introl eq_refl)). cbn in Hmin. lra.
        -- apply Hmin. left; auto.
        -- apply Hmin. right; auto.
    + destruct (IH best) as [Hin Hmin]. split.
      * destruct Hin as [<- | Hin]; [left; auto | right; right; auto].
      * intros p [<- | [<- | Hp]].
        -- apply Hmin. left; auto.
        -- specialize (Hmin best (or_introl eq_refl)). cbn. lra.
        -- apply Hmin. right; auto.
Qed.
Lemma max_key_spec m : forall best,
  (In (max_key m best) (best :: m)) /\ (forall p, In p (best :: m) -> fst p <= fst (max_key m best)).
Proof.
  induction m as [|[k x] r IH]; intros best; cbn [max_key].
  - split; [left; auto|]. intros p [<- | []]. lra.
  - destruct (Qltb (fst best) k) eqn:E; qb.
    + destruct (IH (k, x)) as [Hin Hmax]. split.
      * destruct Hin as [<- | Hin]; [right; left; auto | right; right; auto].
      * intros p [<- | [<- | Hp]].
        -- specialize (Hmax (k, x) (or_introl eq_refl)). cbn in Hmax. lra.
        -- apply Hmax. left; auto.
        -- apply Hmax. right; auto.
    + destruct (IH best) as [Hin Hmax]. split.
      * destruct Hin as [<- | Hin]; [left; auto | right; right; auto].
      * intros p [<- | [<- | Hp]].
        -- apply Hmax. left; auto.
        -- specialize (Hmax best (or_introl eq_refl)). cbn. lra.
        -- apply Hmax. right; auto.
Qed.

Notation optIn o p := (o = Some p) (only parsing).

Lemma below_spec v m : forall best,
  (forall p, optIn best p -> fst p < v) ->
  match below v m best with
  | None => best = None /\ forall p, In p m -> ~ fst p < v
  | Some r => fst r < v /\ (In r m \/ optIn best r) /\
              (forall p, In p m -> fst p < v -> fst p <= fst r) /\ (forall p, optIn best p -> fst p <= fst r)
  end.
Proof.
  induction m as [|[k x] r IH]; intros best Hb; cbn [below].
  - destruct best as [b|].
    + split; [apply Hb; reflexivity|]. split; [right; reflexivity|]. split; [intros p []|].
      intros p [= <-]. lra.
    + split; auto.
  - set (best' := if Qltb k v then match best with Some (bk, _) => if Qltb bk k then Some (k, x) else best | None => Some (k, x) end else best).
    assert (Hb' : forall p, optIn best' p -> fst p < v).
    { intros p. unfold best'. destruct (Qltb k v) eqn:E; [|apply Hb].
      qb. destruct best as [[bk bx]|].
      - destruct (Qltb bk k); [intros [= <-]; auto | apply Hb].
      - intros [= <-]; auto. }
    specialize (IH best' Hb').
    (* how best' relates to best and (k,x) *)
    assert (Hrel : (forall p, optIn best p -> exists q, optIn best' q /\ fst p <= fst q) /\
                   (Qltb k v = true -> exists q, optIn best' q /\ k <= fst q) /\
                   (forall q, optIn best' q -> q = (k, x) /\ Qltb k v = true \/ optIn best q)).
    { unfold best'. destruct (Qltb k v) eqn:E.
      - destruct best as [[bk bx]|].
        + destruct (Qltb bk k) eqn:E2; qb.
          * split; [intros p [= <-]; exists (k, x); split; [reflexivity | cbn; lra]|].
            split; [intros _; exists (k, x); split; [reflexivity | cbn; lra]|].
            intros q [= <-]. left; auto.
          * split; [intros p [= <-]; exists (bk, bx); split; [reflexivity | cbn; lra]|].
            split; [intros _; exists (bk, bx); split; [reflexivity | cbn; lra]|].
            intros q Hq. right; auto.
        + split; [intros p [=]|]. split; [intros _; exists (k, x); split; [reflexivity | cbn; lra]|].
          intros q [= <-]. left; auto.
      - split; [intros p Hp; exists p; split; [auto | lra]|]. split; [discriminate|]. intros q Hq; right; auto. }
    destruct Hrel as (R1 & R2 & R3).
    destruct (below v r best') as [res|].
    + destruct IH as (I1 & I2 & I3 & I4). split; [auto|]. split.
      * destruct I2 as [I2 | I2]; [left; right; auto|].
        destruct (R3 _ I2) as [[-> _] | Hq]; [left; left; auto | right; auto].
      * split.
        -- intros p [<- | Hp] Hlt; [|apply I3; auto]. cbn in *.
           destruct (Qltb_spec k v) as [T|F]; [|tauto].
           destruct (R2 eq_refl) as (q & Hq & Hle). specialize (I4 q Hq). lra.
        -- intros p Hp. destruct (R1 p Hp) as (q & Hq & Hle). specialize (I4 q Hq). lra.
    + destruct IH as (I1 & I2). split.
      * destruct best as [b|]; auto. destruct (R1 b eq_refl) as (q & Hq & _). rewrite I1 in Hq. discriminate.
      * intros p [<- | Hp]; [|apply I2; auto]. cbn. intro Hlt.
        destruct (Qltb_spec k v) as [T|F]; [|tauto]. destruct (R2 eq_refl) as (q & Hq & _). rewrite I1 in Hq. discriminate.
Qed.

Lemma above_spec v m : forall best,
  (forall p, optIn best p -> v < fst p) ->
  match above v m best with
  | None => best = None /\ forall p, In p m -> ~ v < fst p
  | Some r => v < fst r /\ (In r m \/ optIn best r) /\
              (forall p, In p m -> v < fst p -> fst r <= fst p) /\ (forall p, optIn best p -> fst r <= fst p)
  end.
Proof.
  induction m as [|[k x] r IH]; intros best Hb; cbn [above].
  - destruct best as [b|].
    + split; [apply Hb; reflexivity|]. split; [right; reflexivity|]. split; [intros p []|].
      intros p [= <-]. lra.
    + split; auto.
  - set (best' := if Qltb v k then match best with Some (bk, _) => if Qltb k bk then Some (k, x) else best | None => Some (k, x) end else best).
    assert (Hb' : forall p, optIn best' p -> v < fst p).
    { intros p. unfold best'. destruct (Qltb v k) eqn:E; [|apply Hb].
      qb. destruct best as [[bk bx]|].
      - destruct (Qltb k bk); [intros [= <-]; auto | apply Hb].
      - intros [= <-]; auto. }
    specialize (IH best' Hb').
    assert (Hrel : (forall p, optIn best p -> exists q, optIn best' q /\ fst q <= fst p) /\
                   (Qltb v k = true -> exists q, optIn best' q /\ fst q <= k) /\
                   (forall q, optIn best' q -> q = (k, x) /\ Qltb v k = true \/ optIn best q)).
    { unfold best'. destruct (Qltb v k) eqn:E.
      - destruct best as [[bk bx]|].
        + destruct (Qltb k bk) eqn:E2; qb.
          * split; [intros p [= <-]; exists (k, x); split; [reflexivity | cbn; lra]|].
            split; [intros _; exists (k, x); split; [reflexivity | cbn; lra]|].
            intros q [= <-]. left; auto.
          * split; [intros p [= <-]; exists (bk, bx); split; [reflexivity | cbn; lra]|].
            split; [intros _; exists (bk, bx); split; [reflexivity | cbn; lra]|].
            intros q Hq. right; auto.
        + split; [intros p [=]|]. split; [intros _; exists (k, x); split; [reflexivity | cbn; lra]|].
          intros q [= <-]. left; auto.
      - split; [intros p Hp; exists p; split; [auto | lra]|]. split; [discriminate|]. intros q Hq; right; auto. }
    destruct Hrel as (R1 & R2 & R3).
    destruct (above v r best') as [res|].
    + destruct IH as (I1 & I2 & I3 & I4). split; [auto|]. split.
      * destruct I2 as [I2 | I2]; [left; right; auto|].
        destruct (R3 _ I2) as [[-> _] | Hq]; [left; left; auto | right; auto].
      * split.
        -- intros p [<- | Hp] Hlt; [|apply I3; auto]. cbn in *.
           destruct (Qltb_spec v k) as [T|F]; [|tauto].
           destruct (R2 eq_refl) as (q & Hq & Hle). specialize (I4 q Hq). lra.
        -- intros p Hp. destruct (R1 p Hp) as (q & Hq & Hle). specialize (I4 q Hq). lra.
    + destruct IH as (I1 & I2). split.
      * destruct best as [b|]; auto. destruct (R1 b eq_refl) as (q & Hq & _). rewrite I1 in Hq. discriminate.
      * intros p [<- | Hp]; [|apply I2; auto]. cbn. intro Hlt.
        destruct (Qltb_spec v k) as [T|F]; [|tauto]. destruct (R2 eq_refl) as (q & Hq & _). rewrite I1 in Hq. discriminate.
Qed.

(* ------------------------------------------------------------------ sorted((design, user) ...) *)
Definition klt (p q : Q * Q) : Prop := fst p < fst q.
Definition ssorted (l : list (Q * Q)) : Prop := StronglySorted klt l.
(* pairwise comparable first components (no two equal) *)
Fixpoint dist (l : list (Q * Q)) : Prop :=
  match l with [] => True | p :: r => (forall q, In q r -> fst p < fst q \/ fst q < fst p) /\ dist r end.

Lemma insert_In p q l : In p (insert q l) <-> p = q \/ In p l.
Proof.
  induction l as [|h t IH]; cbn; [intuition|].
  destruct (lexle q h); cbn; [intuition|]. rewrite IH. intuition.
Qed.
Lemma isort_In p l : In p (isort l) <-> In p l.
Proof. induction l as [|h t IH]; cbn; [tauto|]. rewrite insert_In, IH. intuition. Qed.

Lemma insert_sorted p l :
  (forall q, In q l -> fst p < fst q \/ fst q < fst p) -> ssorted l -> ssorted (insert p l).
Proof.
  unfold ssorted. induction l as [|h t IH]; intros Hd Hs; cbn.
  - constructor; constructor.
  - apply StronglySorted_inv in Hs. destruct Hs as [Hs Hall].
    destruct (lexle p h) eqn:E.
    + constructor; [constructor; auto|].
      assert (Hph : fst p < fst h).
      { unfold lexle in E. apply orb_true_iff in E. destruct E as [E | E]; [qb; auto|].
        apply andb_true_iff in E. destruct E as [E _]. qb. destruct (Hd h (or_introl eq_refl)); lra. }
      constructor; [exact Hph|]. rewrite Forall_forall in *. intros x Hx. specialize (Hall x Hx). unfold klt in *. lra.
    + assert (Hhp : fst h < fst p).
      { unfold lexle in E. apply orb_false_iff in E. destruct E as [E _]. qb.
        destruct (Hd h (or_introl eq_refl)); [tauto | auto]. }
      constructor.
      * apply IH; auto. intros q Hq. apply Hd. right; auto.
      * rewrite Forall_forall in *. intros x Hx. apply insert_In in Hx. destruct Hx as [-> | Hx]; [exact Hhp | auto].
Qed.
Lemma dist_In_isort l p : dist l -> dist (p :: l) -> forall q, In q (isort l) -> fst p < fst q \/ fst q < fst p.
Proof. intros _ [H _] q Hq. apply H. apply isort_In; auto. Qed.
Lemma isort_sorted l : dist l -> ssorted (isort l).
Proof.
  induction l as [|h t IH]; intros Hd; cbn.
  - constructor.
  - destruct Hd as [Hh Ht]. apply insert_sorted; auto. intros q Hq. apply Hh. apply isort_In; auto.
Qed.

(* ------------------------------------------------------------------ the walk over a strictly sorted list *)
Lemma sorted_app_inv l1 l2 : ssorted (l1 ++ l2) -> ssorted l2 /\ (forall p q, In p l1 -> In q l2 -> fst p < fst q).
Proof.
  unfold ssorted. induction l1 as [|h t IH]; cbn; intros Hs.
  - split; auto. intros p q [].
  - apply StronglySorted_inv in Hs. destruct Hs as [Hs Hall]. destruct (IH Hs) as [S2 Hlt]. split; auto.
    intros p q [<- | Hp] Hq; [|auto]. rewrite Forall_forall in Hall. apply Hall. apply in_or_app; auto.
Qed.

Lemma walk_seg l1 : forall l d1 u1 d2 u2 l2 y,
  ssorted l -> l = l1 ++ (d1, u1) :: (d2, u2) :: l2 -> d1 < y -> y <= d2 ->
  bwd_walk l y == u1 + (u2 - u1) * (y - d1) / (d2 - d1).
Proof.
  induction l1 as [|[d u] t IH]; intros l d1 u1 d2 u2 l2 y Hs -> H1 H2.
  - cbn. destruct (Qleb_spec d1 y) as [A|A]; [|lra]. destruct (Qleb_spec y d2) as [B|B]; [|lra]. cbn.
    destruct (Qeqb_spec d1 d2) as [C|C]; [lra | reflexivity].
  - assert (Hs' := Hs). apply (sorted_app_inv [(d, u)]) in Hs'. destruct Hs' as [Hs' _].
    assert (Hnext : exists d' u' rest, t ++ (d1, u1) :: (d2, u2) :: l2 = (d', u') :: rest /\ d' <= d1).
    { destruct t as [|[d' u'] t'].
      - exists d1, u1, ((d2, u2) :: l2). split; [reflexivity | lra].
      - exists d', u', (t' ++ (d1, u1) :: (d2, u2) :: l2). split; [reflexivity|].
        apply (sorted_app_inv ((d', u') :: t')) in Hs'. destruct Hs' as [_ Hlt].
        specialize (Hlt (d', u') (d1, u1) (or_introl eq_refl) (or_introl eq_refl)). cbn in Hlt. lra. }
    destruct Hnext as (d' & u' & rest & Heq & Hle).
    cbn [app bwd_walk]. rewrite Heq.
    destruct (Qleb_spec y d') as [B|B]; [lra|]. rewrite andb_false_r. rewrite <- Heq.
    apply (IH _ d1 u1 d2 u2 l2 y); auto.
Qed.

Lemma walk_last l1 : forall l dN uN y,
  ssorted l -> l = l1 ++ [(dN, uN)] -> dN < y -> bwd_walk l y == y + uN - dN.
Proof.
  induction l1 as [|[d u] t IH]; intros l dN uN y Hs -> H1.
  - cbn. reflexivity.
  - assert (Hs' := Hs). apply (sorted_app_inv [(d, u)]) in Hs'. destruct Hs' as [Hs' _].
    assert (Hnext : exists d' u' rest, t ++ [(dN, uN)] = (d', u') :: rest /\ d' <= dN).
    { destruct t as [|[d' u'] t'].
      - exists dN, uN, []. split; [reflexivity | lra].
      - exists d', u', (t' ++ [(dN, uN)]). split; [reflexivity|].
        apply (sorted_app_inv ((d', u') :: t')) in Hs'. destruct Hs' as [_ Hlt].
        specialize (Hlt (d', u') (dN, uN) (or_introl eq_refl) (or_introl eq_refl)). cbn in Hlt. lra. }
    destruct Hnext as (d' & u' & rest & Heq & Hle).
    cbn [app bwd_walk]. rewrite Heq.
    destruct (Qleb_spec y d') as [B|B]; [lra|]. rewrite andb_false_r. rewrite <- Heq.
    apply (IH _ dN uN y); auto.
Qed.

(* ------------------------------------------------------------------ positions in a strictly sorted list *)
Lemma sorted_head_lt h t : ssorted (h :: t) -> forall q, In q t -> fst h < fst q.
Proof. intros Hs q Hq. apply StronglySorted_inv in Hs. destruct Hs as [_ Hall]. rewrite Forall_forall in Hall. apply Hall; auto. Qed.
Lemma sorted_tail h t : ssorted (h :: t) -> ssorted t.
Proof. intros Hs. apply StronglySorted_inv in Hs. tauto. Qed.

Lemma adj_consecutive l : forall p q, ssorted l -> In p l -> In q l -> fst p < fst q ->
  (forall r, In r l -> ~ (fst p < fst r /\ fst r < fst q)) -> exists l1 l2, l = l1 ++ p :: q :: l2.
Proof.
  induction l as [|h t IH]; intros p q Hs Hp Hq Hlt Hno; [destruct Hp|].
  assert (Hh := sorted_head_lt _ _ Hs).
  destruct Hp as [<- | Hp].
  - destruct Hq as [<- | Hq]; [lra|].
    destruct t as [|h2 t2]; [destruct Hq|].
    destruct Hq as [<- | Hq]; [exists [], t2; reflexivity|].
    exfalso. apply (Hno h2); [right; left; auto|]. split; [apply Hh; left; auto|].
    apply (sorted_head_lt _ _ (sorted_tail _ _ Hs)); auto.
  - destruct Hq as [<- | Hq]; [specialize (Hh p Hp); lra|].
    destruct (IH p q (sorted_tail _ _ Hs) Hp Hq Hlt) as (l1 & l2 & ->).
    + intros r Hr. apply Hno. right; auto.
    + exists (h :: l1), l2. reflexivity.
Qed.

Lemma head_min l p : ssorted l -> In p l -> (forall q, In q l -> fst p <= fst q) -> exists t, l = p :: t.
Proof.
  destruct l as [|h t]; intros Hs Hp Hmin; [destruct Hp|].
  destruct Hp as [<- | Hp]; [exists t; reflexivity|].
  exfalso. assert (A := sorted_head_lt _ _ Hs p Hp). specialize (Hmin h (or_introl eq_refl)). lra.
Qed.
Lemma last_max l : forall p, ssorted l -> In p l -> (forall q, In q l -> fst q <= fst p) -> exists l1, l = l1 ++ [p].
Proof.
  induction l as [|h t IH]; intros p Hs Hp Hmax; [destruct Hp|].
  destruct t as [|h2 t2].
  - destruct Hp as [<- | []]. exists []. reflexivity.
  - assert (Hp' : In p (h2 :: t2)).
    { destruct Hp as [<- | Hp]; auto. exfalso.
      assert (A := sorted_head_lt _ _ Hs h2 (or_introl eq_refl)). specialize (Hmax h2 (or_intror (or_introl eq_refl))). lra. }
    destruct (IH p (sorted_tail _ _ Hs) Hp') as (l1 & Heq); [intros q Hq; apply Hmax; right; auto|].
    exists (h :: l1). cbn. rewrite <- Heq. reflexivity.
Qed.
Lemma pred_exists (t : list (Q * Q)) : forall h q, In q t -> exists l1 p l2, h :: t = l1 ++ p :: q :: l2.
Proof.
  induction t as [|a t' IH]; intros h q Hq; [destruct Hq|].
  destruct Hq as [<- | Hq].
  - exists [], h, t'. reflexivity.
  - destruct (IH a q Hq) as (l1 & p & l2 & Heq). exists (h :: l1), p, l2. cbn. rewrite <- Heq. reflexivity.
Qed.

(* ------------------------------------------------------------------ map_backward on a map whose designs are pairwise different *)
Definition vals_apart (m : list (Q * Q)) : Prop :=
  forall p q, In p m -> In q m -> p <> q -> snd p < snd q \/ snd q < snd p.

Lemma dist_swap m : NoDup m -> vals_apart m -> dist (map swap m).
Proof.
  induction m as [|h t IH]; intros Hnd Hv; cbn; [exact I|].
  apply NoDup_cons_iff in Hnd. destruct Hnd as [Hnotin Hnd]. split.
  - intros q Hq. apply in_map_iff in Hq. destruct Hq as (q0 & <- & Hq0). cbn.
    apply Hv; [left; auto | right; auto | intros ->; tauto].
  - apply IH; auto. intros p q Hp Hq. apply Hv; right; auto.
Qed.
Lemma B_sorted m : NoDup m -> vals_apart m -> ssorted (isort (map swap m)).
Proof. intros. apply isort_sorted, dist_swap; auto. Qed.
Lemma B_In m k x : In (x, k) (isort (map swap m)) <-> In (k, x) m.
Proof.
  rewrite isort_In, in_map_iff. split.
  - intros ([a b] & E & Hin). unfold swap in E. cbn in E. inversion E; subst; auto.
  - intros Hin. exists (k, x). split; auto.
Qed.
Lemma B_In' m p : In p (isort (map swap m)) -> In (snd p, fst p) m.
Proof. destruct p as [x k]. apply B_In. Qed.

Lemma bwd_low m kmin xmin y : NoDup m -> vals_apart m ->
  In (kmin, xmin) m -> (forall p, In p m -> xmin <= snd p) -> y <= xmin -> map_backward m y == y + kmin - xmin.
Proof.
  intros Hnd Hv Hin Hmin Hy. unfold map_backward.
  destruct (head_min (isort (map swap m)) (xmin, kmin)) as (t & ->).
  - apply B_sorted; auto.
  - apply B_In; auto.
  - intros q Hq. apply B_In' in Hq. apply (Hmin _ Hq).
  - destruct (Qleb_spec y xmin); [reflexivity | tauto].
Qed.

Lemma B_head_le m d0 u0 t : NoDup m -> vals_apart m -> isort (map swap m) = (d0, u0) :: t ->
  forall p, In p m -> d0 <= snd p.
Proof.
  intros Hnd Hv HB [k x] Hp. cbn. assert (Hs := B_sorted m Hnd Hv). rewrite HB in Hs.
  apply B_In in Hp. rewrite HB in Hp. destruct Hp as [E | Hp].
  - inversion E; subst. lra.
  - assert (A := sorted_head_lt _ _ Hs _ Hp). cbn in A. lra.
Qed.

Lemma bwd_high m kmax xmax y : NoDup m -> vals_apart m ->
  In (kmax, xmax) m -> (forall p, In p m -> snd p <= xmax) -> xmax < y -> map_backward m y == y + kmax - xmax.
Proof.
  intros Hnd Hv Hin Hmax Hy. unfold map_backward.
  assert (Hs := B_sorted m Hnd Hv).
  destruct (last_max (isort (map swap m)) (xmax, kmax) Hs) as (l1 & HB).
  - apply B_In; auto.
  - intros q Hq. apply B_In' in Hq. apply (Hmax _ Hq).
  - destruct (isort (map swap m)) as [|[d0 u0] t] eqn:EB.
    + destruct l1; discriminate.
    + assert (Hd0 : d0 <= xmax) by (apply (B_head_le m d0 u0 t Hnd Hv EB (kmax, xmax) Hin)).
      destruct (Qleb_spec y d0); [lra|].
      apply (walk_last l1 _ xmax kmax y); [exact Hs | exact HB | exact Hy].
Qed.

Lemma bwd_seg m a va b vb y : NoDup m -> vals_apart m ->
  In (a, va) m -> In (b, vb) m -> va < vb -> (forall r, In r m -> ~ (va < snd r /\ snd r < vb)) ->
  va < y -> y <= vb -> map_backward m y == a + (b - a) * (y - va) / (vb - va).
Proof.
  intros Hnd Hv Ha Hb Hlt Hno H1 H2. unfold map_backward.
  assert (Hs := B_sorted m Hnd Hv).
  destruct (adj_consecutive (isort (map swap m)) (va, a) (vb, b) Hs) as (l1 & l2 & HB).
  - apply B_In; auto.
  - apply B_In; auto.
  - exact Hlt.
  - intros r Hr. apply B_In' in Hr. apply (Hno _ Hr).
  - destruct (isort (map swap m)) as [|[d0 u0] t] eqn:EB.
    + destruct l1; discriminate.
    + assert (Hd0 : d0 <= va) by (apply (B_head_le m d0 u0 t Hnd Hv EB (a, va) Ha)).
      destruct (Qleb_spec y d0); [lra|].
      apply (walk_seg l1 _ va a vb b l2 y); [exact Hs | exact HB | exact H1 | exact H2].
Qed.

Lemma bwd_node m k x : NoDup m -> vals_apart m -> In (k, x) m -> map_backward m x == k.
Proof.
  intros Hnd Hv Hin. unfold map_backward.
  assert (Hs := B_sorted m Hnd Hv).
  assert (HinB : In (x, k) (isort (map swap m))) by (apply B_In; auto).
  destruct (isort (map swap m)) as [|[d0 u0] t] eqn:EB; [destruct HinB|].
  destruct HinB as [E | Ht].
  - inversion E; subst. destruct (Qleb_spec x x); [ring | lra].
  - destruct (pred_exists t (d0, u0) (x, k) Ht) as (l1 & [d1 u1] & l2 & Heq).
    assert (Hd1 : d1 < x).
    { rewrite Heq in Hs. apply sorted_app_inv in Hs. destruct Hs as [Hs _].
      apply (sorted_head_lt _ _ Hs (x, k)). left; auto. }
    assert (Hd0 : d0 <= d1).
    { assert (Hp : In (d1, u1) ((d0, u0) :: t)) by (rewrite Heq; apply in_or_app; right; left; auto).
      destruct Hp as [E | Hp]; [inversion E; lra|]. assert (A := sorted_head_lt _ _ Hs _ Hp). cbn in A. lra. }
    destruct (Qleb_spec x d0); [lra|].
    rewrite (walk_seg l1 _ d1 u1 x k l2 x); auto; [|lra]. field. lra.
Qed.

(* ------------------------------------------------------------------ strictly monotone maps *)
Definition sinc (m : list (Q * Q)) : Prop :=
  forall p q, In p m -> In q m -> p <> q -> (fst p < fst q /\ snd p < snd q) \/ (fst q < fst p /\ snd q < snd p).
Definition sdec (m : list (Q * Q)) : Prop :=
  forall p q, In p m -> In q m -> p <> q -> (fst p < fst q /\ snd q < snd p) \/ (fst q < fst p /\ snd p < snd q).

Lemma sinc_apart m : sinc m -> vals_apart m.
Proof. intros H p q Hp Hq Hne. destruct (H p q Hp Hq Hne); tauto. Qed.
Lemma sdec_apart m : sdec m -> vals_apart m.
Proof. intros H p q Hp Hq Hne. destruct (H p q Hp Hq Hne); tauto. Qed.

Lemma pair_eq_dec (p q : Q * Q) : p = q \/ p <> q.
Proof.
  destruct p as [[a b] [c d]], q as [[a' b'] [c' d']].
  destruct (Z.eq_dec a a'), (Pos.eq_dec b b'), (Z.eq_dec c c'), (Pos.eq_dec d d'); subst; auto; right; congruence.
Qed.

(* the interpolated value lies inside the segment and solves back *)
Lemma interp_inc a va b vb v : a < v -> v < b -> va < vb ->
  let y := va + (vb - va) * (v - a) / (b - a) in
  va < y /\ y <= vb /\ a + (b - a) * (y - va) / (vb - va) == v.
Proof.
  intros H1 H2 H3 y. subst y.
  assert (Ht : (v - a) / (b - a) * (b - a) == v - a) by (field; lra).
  set (t := (v - a) / (b - a)) in *.
  assert (T0 : 0 < t) by (unfold t; apply Qlt_shift_div_l; lra).
  assert (T1 : t < 1) by (unfold t; apply Qlt_shift_div_r; lra).
  assert (E : va + (vb - va) * (v - a) / (b - a) == va + (vb - va) * t) by (unfold t; field; lra).
  split; [|split].
  - rewrite E. nra.
  - rewrite E. nra.
  - rewrite E. setoid_replace (va + (vb - va) * t - va) with ((vb - va) * t) by ring.
    setoid_replace ((b - a) * ((vb - va) * t) / (vb - va)) with ((b - a) * t) by (field; lra).
    rewrite Qmult_comm, Ht. ring.
Qed.
Lemma interp_dec a va b vb v : a < v -> v < b -> vb < va ->
  let y := va + (vb - va) * (v - a) / (b - a) in
  vb < y /\ y <= va /\ b + (a - b) * (y - vb) / (va - vb) == v.
Proof.
  intros H1 H2 H3 y. subst y.
  assert (Ht : (v - a) / (b - a) * (b - a) == v - a) by (field; lra).
  set (t := (v - a) / (b - a)) in *.
  assert (T0 : 0 < t) by (unfold t; apply Qlt_shift_div_l; lra).
  assert (T1 : t < 1) by (unfold t; apply Qlt_shift_div_r; lra).
  assert (E : va + (vb - va) * (v - a) / (b - a) == va + (vb - va) * t) by (unfold t; field; lra).
  split; [|split].
  - rewrite E. nra.
  - rewrite E. nra.
  - rewrite E. setoid_replace (va + (vb - va) * t - vb) with ((va - vb) * (1 - t)) by ring.
    setoid_replace ((a - b) * ((va - vb) * (1 - t)) / (va - vb)) with ((a - b) * (1 - t)) by (field; lra).
    setoid_replace (b + (a - b) * (1 - t)) with (a + t * (b - a)) by ring.
    rewrite Ht. ring.
Qed.

(* what piecewiseLinearMap returns, branch by branch *)
Inductive fwd_case (m : list (Q * Q)) (v : Q) (y : Q) : Prop :=
| FKey k : In (k, y) m -> v == k -> fwd_case m v y
| FLow kmin xmin : In (kmin, xmin) m -> (forall p, In p m -> kmin <= fst p) -> v < kmin -> y = v + xmin - kmin -> fwd_case m v y
| FHigh kmax xmax : In (kmax, xmax) m -> (forall p, In p m -> fst p <= kmax) -> kmax < v -> y = v + xmax - kmax -> fwd_case m v y
| FMid a va b vb : In (a, va) m -> In (b, vb) m -> a < v -> v < b ->
    (forall p, In p m -> ~ (a < fst p /\ fst p < b)) -> y = va + (vb - va) * (v - a) / (b - a) -> fwd_case m v y.

Lemma forward_cases m v : m <> [] -> fwd_case m v (map_forward m v).
Proof.
  destruct m as [|first r]; [congruence|]. intros _. unfold map_forward, piecewiseLinearMap.
  set (m := first :: r).
  destruct (find_key v m) as [x|] eqn:Ek.
  - destruct (find_key_some _ _ _ Ek) as (k & Hin & He). apply (FKey m v x k); auto.
  - assert (Hnk := find_key_none _ _ Ek).
    destruct (min_key_spec m first) as [Hmin_in Hmin].
    assert (Hmin_in' : In (min_key m first) m) by (destruct Hmin_in as [<- | ?]; [left; reflexivity | auto]).
    assert (Hmin' : forall p, In p m -> fst (min_key m first) <= fst p) by (intros p Hp; apply Hmin; right; auto).
    destruct (min_key m first) as [kmin xmin]. cbn [fst] in *.
    destruct (Qltb v kmin) eqn:E1; qb.
    { apply (FLow m v _ kmin xmin); auto. }
    destruct (max_key_spec m first) as [Hmax_in Hmax].
    assert (Hmax_in' : In (max_key m first) m) by (destruct Hmax_in as [<- | ?]; [left; reflexivity | auto]).
    assert (Hmax' : forall p, In p m -> fst p <= fst (max_key m first)) by (intros p Hp; apply Hmax; right; auto).
    destruct (max_key m first) as [kmax xmax]. cbn [fst] in *.
    destruct (Qltb kmax v) eqn:E2; qb.
    { apply (FHigh m v _ kmax xmax); auto. }
    assert (Hlo : kmin < v).
    { assert (A := Hnk _ Hmin_in'). cbn in A. destruct (Qlt_le_dec kmin v); auto. exfalso. apply A. lra. }
    assert (Hhi : v < kmax).
    { assert (A := Hnk _ Hmax_in'). cbn in A. destruct (Qlt_le_dec v kmax); auto. exfalso. apply A. lra. }
    assert (Bs := below_spec v m None). assert (As := above_spec v m None).
    destruct (below v m None) as [[a va]|].
    + destruct (above v m None) as [[b vb]|].
      * destruct Bs as (B1 & B2 & B3 & _); [intros p [=]|]. destruct As as (A1 & A2 & A3 & _); [intros p [=]|].
        cbn [fst] in *. destruct B2 as [B2 | [=]]. destruct A2 as [A2 | [=]].
        apply (FMid m v _ a va b vb); auto.
        intros p Hp [P1 P2]. destruct (Qlt_le_dec (fst p) v) as [L|L].
        -- specialize (B3 p Hp L). lra.
        -- destruct (Qlt_le_dec v (fst p)) as [L2|L2].
           ++ specialize (A3 p Hp L2). lra.
           ++ apply (Hnk p Hp). lra.
      * exfalso. destruct As as [_ As]; [intros p [=]|]. apply (As _ Hmax_in'). exact Hhi.
    + exfalso. destruct Bs as [_ Bs]; [intros p [=]|]. apply (Bs _ Hmin_in'). exact Hlo.
Qed.

(* ------------------------------------------------------------------ the property *)
Theorem backward_forward_increasing m v : NoDup m -> sinc m -> map_backward m (map_forward m v) == v.
Proof.
  intros Hnd Hinc. assert (Hv := sinc_apart m Hinc).
  destruct m as [|first r] eqn:Em; [cbn; reflexivity|]. rewrite <- Em in *.
  assert (Hne : m <> []) by (rewrite Em; discriminate).
  destruct (forward_cases m v Hne) as [k Hin He | kmin xmin Hin Hmin Hlt -> | kmax xmax Hin Hmax Hlt -> | a va b vb Ha Hb H1 H2 Hno ->].
  - rewrite (bwd_node m k _ Hnd Hv Hin). lra.
  - rewrite (bwd_low m kmin xmin); auto; [ring | | lra].
    intros p Hp. destruct (pair_eq_dec (kmin, xmin) p) as [<- | Hne']; [cbn; lra|].
    destruct (Hinc _ _ Hin Hp Hne') as [[_ A] | [A _]]; cbn in *; [lra|]. specialize (Hmin p Hp). lra.
  - rewrite (bwd_high m kmax xmax); auto; [ring | | lra].
    intros p Hp. destruct (pair_eq_dec (kmax, xmax) p) as [<- | Hne']; [cbn; lra|].
    destruct (Hinc _ _ Hin Hp Hne') as [[A _] | [_ A]]; cbn in *; [|lra]. specialize (Hmax p Hp). lra.
  - assert (Hab : (a, va) <> (b, vb)) by (intros E; inversion E; subst; lra).
    assert (Hvab : va < vb) by (destruct (Hinc _ _ Ha Hb Hab) as [[_ A] | [A _]]; cbn in *; lra).
    destruct (interp_inc a va b vb v H1 H2 Hvab) as (Y1 & Y2 & Y3).
    rewrite (bwd_seg m a va b vb); auto.
    intros p Hp [P1 P2]. apply (Hno p Hp).
    assert (Hpa : (a, va) <> p) by (intros <-; cbn in *; lra).
    assert (Hpb : (b, vb) <> p) by (intros <-; cbn in *; lra).
    destruct (Hinc _ _ Ha Hp Hpa) as [[A1 A2] | [A1 A2]]; cbn in *; [|lra].
    destruct (Hinc _ _ Hb Hp Hpb) as [[A3 A4] | [A3 A4]]; cbn in *; [lra|]. split; auto.
Qed.

(* a decreasing map: inside the range its nodes span *)
Theorem backward_forward_decreasing m v kmin xmin kmax xmax : NoDup m -> sdec m ->
  In (kmin, xmin) m -> In (kmax, xmax) m -> kmin <= v -> v <= kmax ->
  map_backward m (map_forward m v) == v.
Proof.
  intros Hnd Hdec Hinmin Hinmax Hlo Hhi. assert (Hv := sdec_apart m Hdec).
  assert (Hne : m <> []) by (intros ->; destruct Hinmin).
  destruct (forward_cases m v Hne) as [k Hin He | k x Hin Hmin Hlt -> | k x Hin Hmax Hlt -> | a va b vb Ha Hb H1 H2 Hno ->].
  - rewrite (bwd_node m k _ Hnd Hv Hin). lra.
  - exfalso. specialize (Hmin _ Hinmin). cbn in Hmin. lra.
  - exfalso. specialize (Hmax _ Hinmax). cbn in Hmax. lra.
  - assert (Hab : (a, va) <> (b, vb)) by (intros E; inversion E; subst; lra).
    assert (Hvab : vb < va) by (destruct (Hdec _ _ Ha Hb Hab) as [[_ A] | [A _]]; cbn in *; lra).
    destruct (interp_dec a va b vb v H1 H2 Hvab) as (Y1 & Y2 & Y3).
    rewrite (bwd_seg m b vb a va); auto.
    intros p Hp [P1 P2]. apply (Hno p Hp).
    assert (Hpa : (a, va) <> p) by (intros <-; cbn in *; lra).
    assert (Hpb : (b, vb) <> p) by (intros <-; cbn in *; lra).
    destruct (Hdec _ _ Ha Hp Hpa) as [[A1 A2] | [A1 A2]]; cbn in *; [|lra].
    destruct (Hdec _ _ Hb Hp Hpb) as [[A3 A4] | [A3 A4]]; cbn in *; [lra|]. split; auto.
Qed.

(* ------------------------------------------------------------------ the other direction: design -> user -> design *)
Lemma find_segment l : forall h d, ssorted (h :: l) -> fst h < d ->
  (exists l1 p q l2, h :: l = l1 ++ p :: q :: l2 /\ fst p < d /\ d <= fst q) \/
  (exists l1 p, h :: l = l1 ++ [p] /\ fst p < d).
Proof.
  induction l as [|a t IH]; intros h d Hs Hd.
  - right. exists [], h. auto.
  - destruct (Qlt_le_dec (fst a) d) as [L|L].
    + destruct (IH a d (sorted_tail _ _ Hs) L) as [(l1 & p & q & l2 & E & P1 & P2) | (l1 & p & E & P1)].
      * left. exists (h :: l1), p, q, l2. cbn. rewrite <- E. auto.
      * right. exists (h :: l1), p. cbn. rewrite <- E. auto.
    + left. exists [], h, a, t. auto.
Qed.

Inductive bwd_case (m : list (Q * Q)) (d : Q) (u : Q) : Prop :=
| BLow k x : In (k, x) m -> (forall p, In p m -> x <= snd p) -> d <= x -> u == d + k - x -> bwd_case m d u
| BHigh k x : In (k, x) m -> (forall p, In p m -> snd p <= x) -> x < d -> u == d + k - x -> bwd_case m d u
| BSeg a va b vb : In (a, va) m -> In (b, vb) m -> va < d -> d <= vb ->
    (forall p, In p m -> ~ (va < snd p /\ snd p < vb)) -> u == a + (b - a) * (d - va) / (vb - va) -> bwd_case m d u.

Lemma backward_cases m d : NoDup m -> vals_apart m -> m <> [] -> bwd_case m d (map_backward m d).
Proof.
  intros Hnd Hv Hne. assert (Hs := B_sorted m Hnd Hv).
  destruct (isort (map swap m)) as [|[d0 u0] t] eqn:EB.
  { exfalso. destruct m as [|p r]; [congruence|]. assert (A : In (swap p) (isort (map swap (p :: r)))) by (apply isort_In; left; auto).
    rewrite EB in A. destruct A. }
  assert (Hin0 : In (u0, d0) m) by (apply B_In; rewrite EB; left; auto).
  assert (Hmin0 := B_head_le m d0 u0 t Hnd Hv EB).
  destruct (Qlt_le_dec d0 d) as [L|L].
  - destruct (find_segment t (d0, u0) d Hs L) as [(l1 & [d1 u1] & [d2 u2] & l2 & E & P1 & P2) | (l1 & [dN uN] & E & P1)]; cbn [fst] in *.
    + assert (I1 : In (u1, d1) m) by (apply B_In; rewrite EB, E; apply in_or_app; right; left; auto).
      assert (I2 : In (u2, d2) m) by (apply B_In; rewrite EB, E; apply in_or_app; right; right; left; auto).
      apply (BSeg m d _ u1 d1 u2 d2); auto.
      * intros p Hp [Q1 Q2]. assert (HpB : In (snd p, fst p) (isort (map swap m))) by (apply B_In; destruct p; auto).
        rewrite EB, E in HpB. rewrite E in Hs. apply sorted_app_inv in Hs. destruct Hs as [Hs Hlt].
        apply in_app_or in HpB. destruct HpB as [HpB | [HpB | [HpB | HpB]]].
        -- specialize (Hlt _ (d1, u1) HpB (or_introl eq_refl)). cbn in Hlt. lra.
        -- inversion HpB; subst. lra.
        -- inversion HpB; subst. lra.
        -- assert (A := sorted_head_lt _ _ (sorted_tail _ _ Hs) _ HpB). cbn in A. lra.
      * unfold map_backward. rewrite EB. destruct (Qleb_spec d d0); [lra|].
        apply (walk_seg l1 _ d1 u1 d2 u2 l2 d); auto.
    + assert (IN : In (uN, dN) m) by (apply B_In; rewrite EB, E; apply in_or_app; right; left; auto).
      apply (BHigh m d _ uN dN); auto.
      * intros p Hp. assert (HpB : In (snd p, fst p) (isort (map swap m))) by (apply B_In; destruct p; auto).
        rewrite EB, E in HpB. rewrite E in Hs. apply sorted_app_inv in Hs. destruct Hs as [_ Hlt].
        apply in_app_or in HpB. destruct HpB as [HpB | [HpB | []]].
        -- specialize (Hlt _ (dN, uN) HpB (or_introl eq_refl)). cbn in Hlt. lra.
        -- inversion HpB; subst. lra.
      * unfold map_backward. rewrite EB. destruct (Qleb_spec d d0); [lra|].
        apply (walk_last l1 _ dN uN d); auto.
  - apply (BLow m d _ u0 d0); auto.
    unfold map_backward. rewrite EB. destruct (Qleb_spec d d0); [reflexivity | tauto].
Qed.

(* two entries with the same key are one entry, when keys are pairwise different *)
Definition keys_apart (m : list (Q * Q)) : Prop :=
  forall p q, In p m -> In q m -> p <> q -> fst p < fst q \/ fst q < fst p.
Lemma same_key m p q : keys_apart m -> In p m -> In q m -> fst p == fst q -> p = q.
Proof.
  intros Hk Hp Hq He. destruct (pair_eq_dec p q) as [E | Hne]; auto.
  destruct (Hk p q Hp Hq Hne); lra.
Qed.
Lemma sinc_keys m : sinc m -> keys_apart m.
Proof. intros H p q Hp Hq Hne. destruct (H p q Hp Hq Hne); tauto. Qed.
Lemma sdec_keys m : sdec m -> keys_apart m.
Proof. intros H p q Hp Hq Hne. destruct (H p q Hp Hq Hne); tauto. Qed.

Theorem forward_backward_increasing m d : NoDup m -> sinc m -> map_forward m (map_backward m d) == d.
Proof.
  intros Hnd Hinc. assert (Hv := sinc_apart m Hinc). assert (Hk := sinc_keys m Hinc).
  destruct m as [|first r] eqn:Em; [cbn; reflexivity|]. rewrite <- Em in *.
  assert (Hne : m <> []) by (rewrite Em; discriminate).
  (* order isomorphism *)
  assert (Hiso : forall p q, In p m -> In q m -> (fst p < fst q <-> snd p < snd q)).
  { intros p q Hp Hq. destruct (pair_eq_dec p q) as [-> | Hpq]; [split; lra|].
    destruct (Hinc p q Hp Hq Hpq) as [[A B] | [A B]]; split; intros; lra. }
  assert (Hiso_le : forall p q, In p m -> In q m -> (fst p <= fst q <-> snd p <= snd q)).
  { intros p q Hp Hq. destruct (pair_eq_dec p q) as [-> | Hpq]; [split; lra|].
    destruct (Hinc p q Hp Hq Hpq) as [[A B] | [A B]]; split; intros; lra. }
  set (u := map_backward m d).
  destruct (backward_cases m d Hnd Hv Hne) as [k x Hin Hmin Hle Hu | k x Hin Hmax Hlt Hu | a va b vb Ha Hb H1 H2 Hno Hu]; fold u in Hu.
  - (* at or below the lowest design node: u <= k, the lowest key *)
    assert (Hkmin : forall p, In p m -> k <= fst p) by (intros p Hp; apply (Hiso_le (k, x) p Hin Hp); cbn; auto).
    destruct (forward_cases m u Hne) as [k' Hin' He | k' x' Hin' Hmin' Hlt' -> | k' x' Hin' Hmax' Hlt' -> | a' va' b' vb' Ha' Hb' H1' H2' Hno' ->].
    + assert (k <= k') by (apply (Hkmin _ Hin')). assert (u == k) by lra.
      assert (E : (k', map_forward m u) = (k, x)) by (apply (same_key m); auto; cbn; lra). injection E as E1 E2. rewrite E2. lra.
    + assert (E : (k', x') = (k, x)).
      { apply (same_key m); auto. cbn. specialize (Hmin' _ Hin). specialize (Hkmin _ Hin'). cbn in *. lra. }
      inversion E; subst. lra.
    + exfalso. specialize (Hmax' _ Hin). cbn in Hmax'. lra.
    + exfalso. specialize (Hkmin _ Ha'). cbn in Hkmin. lra.
  - assert (Hkmax : forall p, In p m -> fst p <= k) by (intros p Hp; apply (Hiso_le p (k, x) Hp Hin); cbn; auto).
    destruct (forward_cases m u Hne) as [k' Hin' He | k' x' Hin' Hmin' Hlt' -> | k' x' Hin' Hmax' Hlt' -> | a' va' b' vb' Ha' Hb' H1' H2' Hno' ->].
    + exfalso. specialize (Hkmax _ Hin'). cbn in Hkmax. lra.
    + exfalso. specialize (Hmin' _ Hin). cbn in Hmin'. lra.
    + assert (E : (k', x') = (k, x)).
      { apply (same_key m); auto. cbn. specialize (Hmax' _ Hin). specialize (Hkmax _ Hin'). cbn in *. lra. }
      inversion E; subst. lra.
    + exfalso. specialize (Hkmax _ Hb'). cbn in Hkmax. lra.
  - assert (Hab : a < b) by (apply (Hiso (a, va) (b, vb) Ha Hb); cbn; lra).
    assert (Hnokey : forall p, In p m -> ~ (a < fst p /\ fst p < b)).
    { intros p Hp [P1 P2]. apply (Hno p Hp). split.
      - apply (Hiso (a, va) p Ha Hp). exact P1.
      - apply (Hiso p (b, vb) Hp Hb). exact P2. }
    (* u lies in (a, b] *)
    assert (Ht : (d - va) / (vb - va) * (vb - va) == d - va) by (field; lra).
    set (t := (d - va) / (vb - va)) in *.
    assert (T0 : 0 < t) by (unfold t; apply Qlt_shift_div_l; lra).
    assert (T1 : t <= 1) by (unfold t; apply Qle_shift_div_r; lra).
    assert (Eu : u == a + (b - a) * t) by (rewrite Hu; unfold t; field; lra).
    assert (U1 : a < u) by (rewrite Eu; nra). assert (U2 : u <= b) by (rewrite Eu; nra).
    destruct (forward_cases m u Hne) as [k' Hin' He | k' x' Hin' Hmin' Hlt' -> | k' x' Hin' Hmax' Hlt' -> | a' va' b' vb' Ha' Hb' H1' H2' Hno' ->].
    + (* u is a key: it is b *)
      assert (Hkb : k' == b).
      { destruct (Qlt_le_dec k' b) as [L|L]; [|lra]. exfalso. apply (Hnokey _ Hin'). cbn. split; lra. }
      assert (E : (k', map_forward m u) = (b, vb)) by (apply (same_key m); auto). injection E as E1 E2. rewrite E2.
      assert (Tt : t == 1). { assert (A : (b - a) * t == b - a) by lra. nra. }
      assert (d - va == vb - va) by (rewrite <- Ht, Tt; ring). lra.
    + exfalso. specialize (Hmin' _ Ha). cbn in Hmin'. lra.
    + exfalso. specialize (Hmax' _ Hb). cbn in Hmax'. lra.
    + assert (Ea : (a', va') = (a, va)).
      { apply (same_key m); auto. cbn.
        destruct (Qlt_le_dec a a') as [L|L].
        - exfalso. apply (Hnokey _ Ha'). cbn. split; lra.
        - destruct (Qlt_le_dec a' a) as [L2|L2]; [|lra]. exfalso. apply (Hno' _ Ha). cbn. split; lra. }
      assert (Eb : (b', vb') = (b, vb)).
      { apply (same_key m); auto. cbn.
        destruct (Qlt_le_dec b' b) as [L|L].
        - exfalso. apply (Hnokey _ Hb'). cbn. split; lra.
        - destruct (Qlt_le_dec b b') as [L2|L2]; [|lra]. exfalso. apply (Hno' _ Hb). cbn. split; lra. }
      inversion Ea; inversion Eb; subst.
      setoid_replace (va + (vb - va) * (u - a) / (b - a)) with (va + (vb - va) * t).
      * rewrite Qmult_comm, Ht. ring.
      * rewrite Eu. field. lra.
Qed.

(* forward at a node *)
Lemma fwd_node m k x : keys_apart m -> In (k, x) m -> map_forward m k == x.
Proof.
  intros Hk Hin. assert (Hne : m <> []) by (intros ->; destruct Hin).
  destruct (forward_cases m k Hne) as [k' Hin' He | k' x' Hin' Hmin' Hlt' _ | k' x' Hin' Hmax' Hlt' _ | a' va' b' vb' Ha' Hb' H1' H2' Hno' _].
  - assert (E : (k', map_forward m k) = (k, x)) by (apply (same_key m); auto; cbn; lra). injection E as _ E2. rewrite E2. reflexivity.
  - exfalso. specialize (Hmin' _ Hin). cbn in Hmin'. lra.
  - exfalso. specialize (Hmax' _ Hin). cbn in Hmax'. lra.
  - exfalso. apply (Hno' _ Hin). cbn. split; lra.
Qed.
Lemma fwd_proper m u u' : keys_apart m -> u == u' -> map_forward m u == map_forward m u'.
Proof.
  intros Hk He. destruct m as [|first r] eqn:Em; [cbn; auto|]. rewrite <- Em in *.
  assert (Hne : m <> []) by (rewrite Em; discriminate).
  destruct (forward_cases m u Hne) as [k Hin Hek | k x Hin Hmin Hlt -> | k x Hin Hmax Hlt -> | a va b vb Ha Hb H1 H2 Hno ->];
  destruct (forward_cases m u' Hne) as [k' Hin' He' | k' x' Hin' Hmin' Hlt' -> | k' x' Hin' Hmax' Hlt' -> | a' va' b' vb' Ha' Hb' H1' H2' Hno' ->].
  - assert (E : (k, map_forward m u) = (k', map_forward m u')) by (apply (same_key m); auto; cbn; lra). injection E as _ E2. rewrite E2. reflexivity.
  - exfalso. specialize (Hmin' _ Hin). cbn in *. lra.
  - exfalso. specialize (Hmax' _ Hin). cbn in *. lra.
  - exfalso. apply (Hno' _ Hin). cbn. split; lra.
  - exfalso. specialize (Hmin _ Hin'). cbn in *. lra.
  - assert (E : (k, x) = (k', x')).
    { apply (same_key m); auto. cbn. specialize (Hmin _ Hin'). specialize (Hmin' _ Hin). cbn in *. lra. }
    injection E as -> ->. lra.
  - exfalso. specialize (Hmax' _ Hin). cbn in *. lra.
  - exfalso. specialize (Hmin _ Ha'). cbn in *. lra.
  - exfalso. specialize (Hmax _ Hin'). cbn in *. lra.
  - exfalso. specialize (Hmin' _ Hin). cbn in *. lra.
  - assert (E : (k, x) = (k', x')).
    { apply (same_key m); auto. cbn. specialize (Hmax _ Hin'). specialize (Hmax' _ Hin). cbn in *. lra. }
    injection E as -> ->. lra.
  - exfalso. specialize (Hmax _ Hb'). cbn in *. lra.
  - exfalso. apply (Hno _ Hin'). cbn. split; lra.
  - exfalso. specialize (Hmin' _ Ha). cbn in *. lra.
  - exfalso. specialize (Hmax' _ Hb). cbn in *. lra.
  - assert (Ea : (a, va) = (a', va')).
    { apply (same_key m); auto. cbn.
      destruct (Qlt_le_dec a a') as [L|L]; [exfalso; apply (Hno _ Ha'); cbn; split; lra|].
      destruct (Qlt_le_dec a' a) as [L2|L2]; [exfalso; apply (Hno' _ Ha); cbn; split; lra | lra]. }
    assert (Eb : (b, vb) = (b', vb')).
    { apply (same_key m); auto. cbn.
      destruct (Qlt_le_dec b b') as [L|L]; [exfalso; apply (Hno' _ Hb); cbn; split; lra|].
      destruct (Qlt_le_dec b' b) as [L2|L2]; [exfalso; apply (Hno _ Hb'); cbn; split; lra | lra]. }
    injection Ea as <- <-. injection Eb as <- <-.
    assert (Hab : ~ b - a == 0) by lra.
    setoid_replace ((vb - va) * (u' - a) / (b - a)) with ((vb - va) * (u - a) / (b - a)); [reflexivity|].
    rewrite He. reflexivity.
Qed.

Theorem forward_backward_decreasing m d k1 dmin k2 dmax : NoDup m -> sdec m ->
  In (k1, dmin) m -> In (k2, dmax) m -> dmin <= d -> d <= dmax ->
  map_forward m (map_backward m d) == d.
Proof.
  intros Hnd Hdec Hin1 Hin2 Hlo Hhi. assert (Hv := sdec_apart m Hdec). assert (Hk := sdec_keys m Hdec).
  assert (Hne : m <> []) by (intros ->; destruct Hin1).
  assert (Hiso : forall p q, In p m -> In q m -> (fst p < fst q <-> snd q < snd p)).
  { intros p q Hp Hq. destruct (pair_eq_dec p q) as [-> | Hpq]; [split; lra|].
    destruct (Hdec p q Hp Hq Hpq) as [[A B] | [A B]]; split; intros; lra. }
  set (u := map_backward m d).
  destruct (backward_cases m d Hnd Hv Hne) as [k x Hin Hmin Hle Hu | k x Hin Hmax Hlt Hu | a va b vb Ha Hb H1 H2 Hno Hu]; fold u in Hu.
  - specialize (Hmin _ Hin1). cbn in Hmin. assert (Hd : d == x) by lra.
    rewrite (fwd_proper m u k Hk); [|lra]. rewrite (fwd_node m k x Hk Hin). lra.
  - exfalso. specialize (Hmax _ Hin2). cbn in Hmax. lra.
  - assert (Hba : b < a) by (apply (Hiso (b, vb) (a, va) Hb Ha); cbn; lra).
    assert (Hnokey : forall p, In p m -> ~ (b < fst p /\ fst p < a)).
    { intros p Hp [P1 P2]. apply (Hno p Hp). split.
      - apply (Hiso p (a, va) Hp Ha). exact P2.
      - apply (Hiso (b, vb) p Hb Hp). exact P1. }
    assert (Ht : (d - va) / (vb - va) * (vb - va) == d - va) by (field; lra).
    set (t := (d - va) / (vb - va)) in *.
    assert (T0 : 0 < t) by (unfold t; apply Qlt_shift_div_l; lra).
    assert (T1 : t <= 1) by (unfold t; apply Qle_shift_div_r; lra).
    assert (Eu : u == a + (b - a) * t) by (rewrite Hu; unfold t; field; lra).
    assert (U1 : u < a) by (rewrite Eu; nra). assert (U2 : b <= u) by (rewrite Eu; nra).
    destruct (forward_cases m u Hne) as [k' Hin' He | k' x' Hin' Hmin' Hlt' -> | k' x' Hin' Hmax' Hlt' -> | a' va' b' vb' Ha' Hb' H1' H2' Hno' ->].
    + assert (Hkb : k' == b).
      { destruct (Qlt_le_dec b k') as [L|L]; [|lra]. exfalso. apply (Hnokey _ Hin'). cbn. split; lra. }
      assert (E : (k', map_forward m u) = (b, vb)) by (apply (same_key m); auto). injection E as E1 E2. rewrite E2.
      assert (Tt : t == 1). { assert (A : (b - a) * t == b - a) by lra. nra. }
      assert (d - va == vb - va) by (rewrite <- Ht, Tt; ring). lra.
    + exfalso. specialize (Hmin' _ Hb). cbn in Hmin'. lra.
    + exfalso. specialize (Hmax' _ Ha). cbn in Hmax'. lra.
    + assert (Ea : (a', va') = (b, vb)).
      { apply (same_key m); auto. cbn.
        destruct (Qlt_le_dec b a') as [L|L].
        - exfalso. apply (Hnokey _ Ha'). cbn. split; lra.
        - destruct (Qlt_le_dec a' b) as [L2|L2]; [|lra]. exfalso. apply (Hno' _ Hb). cbn. split; lra. }
      assert (Eb : (b', vb') = (a, va)).
      { apply (same_key m); auto. cbn.
        destruct (Qlt_le_dec b' a) as [L|L].
        - exfalso. apply (Hnokey _ Hb'). cbn. split; lra.
        - destruct (Qlt_le_dec a b') as [L2|L2]; [|lra]. exfalso. apply (Hno' _ Ha). cbn. split; lra. }
      inversion Ea; inversion Eb; subst.
      setoid_replace (vb + (va - vb) * (u - b) / (a - b)) with (vb + (va - vb) * (1 - t)).
      * setoid_replace (vb + (va - vb) * (1 - t)) with (va + t * (vb - va)) by ring. rewrite Ht. ring.
      * rewrite Eu. field. lra.
Qed.

(* ------------------------------------------------------------------ the hypotheses are satisfiable, and get_validated_map *)
Example inc_example : let m := [(400, 100#1); (0, 0); (1000, 900#1)] in NoDup m /\ sinc m /\ Qred (map_forward m (700#1)) = 500#1.
Proof.
  cbn zeta. split; [|split].
  - repeat constructor; cbn; intuition congruence.
  - intros p q Hp Hq Hne. cbn in Hp, Hq.
    destruct Hp as [<- | [<- | [<- | []]]]; destruct Hq as [<- | [<- | [<- | []]]]; try congruence; cbn; lra.
  - vm_compute. reflexivity.
Qed.
Example dec_example : let m := [(-12#1, 12#1); (0, 0)] in NoDup m /\ sdec m /\ Qred (map_backward m (map_forward m (-9#1))) = -9#1.
Proof.
  cbn zeta. split; [|split].
  - repeat constructor; cbn; intuition congruence.
  - intros p q Hp Hq Hne. cbn in Hp, Hq.
    destruct Hp as [<- | [<- | []]]; destruct Hq as [<- | [<- | []]]; try congruence; cbn; lra.
  - vm_compute. reflexivity.
Qed.

(* ------------------------------------------------------------------ get_validated_map keeps a map whose inputs are pairwise different *)
Fixpoint kdist (m : list (Q * Q)) : Prop :=
  match m with [] => True | p :: r => (forall q, In q r -> ~ fst p == fst q) /\ kdist r end.
Lemma find_key_none_intro v m : (forall q, In q m -> ~ v == fst q) -> find_key v m = None.
Proof.
  induction m as [|[k x] r IH]; cbn; intros H; [reflexivity|].
  destruct (Qeqb_spec v k) as [E|E]; [exfalso; apply (H (k, x)); auto|]. apply IH. intros q Hq. apply H. auto.
Qed.
Lemma validate_id_aux m : forall acc, kdist m -> (forall p q, In p m -> In q acc -> ~ fst p == fst q) ->
  validate_aux m acc = Ok (acc ++ m).
Proof.
  induction m as [|[k x] r IH]; intros acc Hd Hacc; cbn [validate_aux].
  - rewrite app_nil_r. reflexivity.
  - destruct Hd as [Hk Hd]. rewrite find_key_none_intro.
    + rewrite IH; auto.
      * rewrite <- app_assoc. reflexivity.
      * intros p q Hp Hq. apply in_app_or in Hq. destruct Hq as [Hq | [<- | []]].
        -- apply Hacc; [right|]; auto.
        -- cbn. intro E. apply (Hk p Hp). cbn. lra.
    + intros q Hq. apply (Hacc (k, x) q); [left|]; auto.
Qed.
Lemma kdist_of m : NoDup m -> keys_apart m -> kdist m.
Proof.
  induction m as [|h t IH]; intros Hnd Hk; cbn; [exact I|].
  apply NoDup_cons_iff in Hnd. destruct Hnd as [Hnotin Hnd]. split.
  - intros q Hq E. destruct (Hk h q (or_introl eq_refl) (or_intror Hq)); [intros ->; tauto | lra | lra].
  - apply IH; auto. intros p q Hp Hq. apply Hk; right; auto.
Qed.
Lemma validate_id m : NoDup m -> keys_apart m -> get_validated_map m = Ok m.
Proof. intros Hnd Hk. unfold get_validated_map. rewrite validate_id_aux; auto. apply kdist_of; auto. Qed.

(* one input with two different outputs is refused *)
Lemma validate_conflict k x x' r : ~ x == x' -> get_validated_map ((k, x) :: (k, x') :: r) = Err ValueError.
Proof.
  intros Hne. unfold get_validated_map. cbn.
  destruct (Qeqb_spec k k) as [_|F]; [|exfalso; apply F; reflexivity].
  destruct (Qeqb_spec x x') as [E|_]; [tauto | reflexivity].
Qed.

(* the entry points, on the map as written *)
Theorem axis_map_roundtrip_increasing m v : NoDup m -> sinc m ->
  exists y v', axis_map_forward m v = Ok y /\ axis_map_backward m y = Ok v' /\ v' == v.
Proof.
  intros Hnd Hinc. unfold axis_map_forward, axis_map_backward. rewrite (validate_id m Hnd (sinc_keys m Hinc)).
  exists (map_forward m v), (map_backward m (map_forward m v)). split; [reflexivity|]. split; [reflexivity|].
  apply backward_forward_increasing; auto.
Qed.
Theorem axis_map_roundtrip_decreasing m v kmin xmin kmax xmax : NoDup m -> sdec m ->
  In (kmin, xmin) m -> In (kmax, xmax) m -> kmin <= v -> v <= kmax ->
  exists y v', axis_map_forward m v = Ok y /\ axis_map_backward m y = Ok v' /\ v' == v.
Proof.
  intros Hnd Hdec H1 H2 H3 H4. unfold axis_map_forward, axis_map_backward. rewrite (validate_id m Hnd (sdec_keys m Hdec)).
  exists (map_forward m v), (map_backward m (map_forward m v)). split; [reflexivity|]. split; [reflexivity|].
  apply (backward_forward_decreasing m v kmin xmin kmax xmax); auto.
Qed.
Theorem axis_map_design_roundtrip_increasing m d : NoDup m -> sinc m ->
  exists u d', axis_map_backward m d = Ok u /\ axis_map_forward m u = Ok d' /\ d' == d.
Proof.
  intros Hnd Hinc. unfold axis_map_forward, axis_map_backward. rewrite (validate_id m Hnd (sinc_keys m Hinc)).
  exists (map_backward m d), (map_forward m (map_backward m d)). split; [reflexivity|]. split; [reflexivity|].
  apply forward_backward_increasing; auto.
Qed.
Theorem axis_map_design_roundtrip_decreasing m d k1 dmin k2 dmax : NoDup m -> sdec m ->
  In (k1, dmin) m -> In (k2, dmax) m -> dmin <= d -> d <= dmax ->
  exists u d', axis_map_backward m d = Ok u /\ axis_map_forward m u = Ok d' /\ d' == d.
Proof.
  intros Hnd Hdec H1 H2 H3 H4. unfold axis_map_forward, axis_map_backward. rewrite (validate_id m Hnd (sdec_keys m Hdec)).
  exists (map_backward m d), (map_forward m (map_backward m d)). split; [reflexivity|]. split; [reflexivity|].
  apply (forward_backward_decreasing m d k1 dmin k2 dmax); auto.
Qed.

(* outside the node range a decreasing map is NOT undone (the extrapolation of map_forward continues with slope +1):
   the range hypothesis above is needed *)
Example decreasing_outside_range_refuted :
  let m := [(0, 10#1); (10#1, 0)] in
  NoDup m /\ sdec m /\ ~ map_backward m (map_forward m (-(5#1))) == -(5#1).
Proof.
  cbn zeta. split; [|split].
  - repeat constructor; cbn; intuition congruence.
  - intros p q Hp Hq Hne. cbn in Hp, Hq.
    destruct Hp as [<- | [<- | []]]; destruct Hq as [<- | [<- | []]]; try congruence; cbn; lra.
  - vm_compute. intros H. discriminate H.
Qed.
