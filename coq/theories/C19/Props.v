(* C19/Props.v — property theorems only *)
From Coq Require Import ZArith List Bool.
From FV Require Import Base.Ser Base.Res Data.Data_filenames C19.Model C19.Proofs.
Import ListNotations.
Open Scope Z_scope.

Theorem filename_unique : forall cf u ex p s name,
  userNameToFileName cf u ex p s = Ok name -> mems (lower name) ex = false.
Proof. exact Proofs.filename_unique. Qed.
Print Assumptions filename_unique.

(* any sequence of names written one after the other: pairwise distinct ignoring case *)
Theorem name_sequence_distinct : forall cf names ex p s fs,
  name_sequence cf names ex p s = Ok fs ->
  NoDup (map lower fs) /\ (forall f, In f fs -> ~ In (lower f) ex).
Proof. exact Proofs.name_sequence_distinct. Qed.
Print Assumptions name_sequence_distinct.

Theorem filename_legal : forall cf u ex p s name,
  glue_ok cf = true ->
  userNameToFileName cf u ex p s = Ok name ->
  exists body, name = p ++ body ++ s /\ Forall (legal cf) body.
Proof. exact Proofs.filename_legal. Qed.
Print Assumptions filename_legal.

Theorem clash_name_length : forall cf u ex p s name,
  Z.of_nat (length p) + Z.of_nat (length s) + 15 <= maxlen cf ->
  handleClash1 cf u ex p s = Ok name -> Z.of_nat (length name) <= maxlen cf.
Proof. exact Proofs.clash_name_length. Qed.
Print Assumptions clash_name_length.

(* the unconditional 255-character bound is false on the current code: known finding F1 *)
Theorem filename_length_refuted :
  exists u name, userNameToFileName cfg_ufo u [] [] [] = Ok name /\ maxlen cfg_ufo < Z.of_nat (length name).
Proof. exact Proofs.filename_length_refuted. Qed.
Print Assumptions filename_length_refuted.

(* tied to the source: the tables regenerated from both modules contain every character and name the
   target file systems forbid, and leave '_', '.', digits usable *)
Theorem tables_cover_spec :
  forallb (fun c => memz c (illegal cfg_ufo) && memz c (illegal cfg_misc)) spec_forbidden = true /\
  forallb (fun r => mems r (reserved cfg_ufo) && mems r (reserved cfg_misc)) spec_reserved = true /\
  glue_ok cfg_ufo = true /\ glue_ok cfg_misc = true /\ maxlen cfg_ufo = 255 /\ maxlen cfg_misc = 255.
Proof. exact Proofs.tables_cover_spec. Qed.
Print Assumptions tables_cover_spec.
