(* C19/Props.v — property theorems only *)
From Coq Require Import ZArith List Bool.
From Coq Require Import QArith.
From FV Require Import Base.Ser Base.Res Data.Data_filenames C19.Model C19.Proofs C19.ModelAxisMap C19.ProofsAxisMap.
Import ListNotations.
Open Scope Z_scope.

Theorem filename_unique : forall cf u ex p s name,
  userNameToFileName cf u ex p s = Ok name -> mems (lower name) ex = false.
Proof. exact Proofs.filename_unique. Qed.
Print Assumptions filename_unique.

(* any sequence of names written one after the other: pairwise distinct ignoring case *)
Theorem name_sequence_distinct : forall cf names ex p s fs,
  name_sequence cf names ex p s = Ok fs ->
  NoDup (map lower fs) /\ (forall f, In f fs -> ~ In (lower f) ex).
Proof. exact Proofs.name_sequence_distinct. Qed.
Print Assumptions name_sequence_distinct.

Theorem filename_legal : forall cf u ex p s name,
  glue_ok cf = true ->
  userNameToFileName cf u ex p s = Ok name ->
  exists body, name = p ++ body ++ s /\ Forall (legal cf) body.
Proof. exact Proofs.filename_legal. Qed.
Print Assumptions filename_legal.

Theorem clash_name_length : forall cf u ex p s name,
  Z.of_nat (length p) + Z.of_nat (length s) + 15 <= maxlen cf ->
  handleClash1 cf u ex p s = Ok name -> Z.of_nat (length name) <= maxlen cf.
Proof. exact Proofs.clash_name_length. Qed.
Print Assumptions clash_name_length.

(* the unconditional 255-character bound is false on the current code: known finding F1 *)
Theorem filename_length_refuted :
  exists u name, userNameToFileName cfg_ufo u [] [] [] = Ok name /\ maxlen cfg_ufo < Z.of_nat (length name).
Proof. exact Proofs.filename_length_refuted. Qed.
Print Assumptions filename_length_refuted.

(* tied to the source: the tables regenerated from both modules contain every character and name the
   target file systems forbid, and leave '_', '.', digits usable *)
Theorem tables_cover_spec :
  forallb (fun c => memz c (illegal cfg_ufo) && memz c (illegal cfg_misc)) spec_forbidden = true /\
  forallb (fun r => mems r (reserved cfg_ufo) && mems r (reserved cfg_misc)) spec_reserved = true /\
  glue_ok cfg_ufo = true /\ glue_ok cfg_misc = true /\ maxlen cfg_ufo = 255 /\ maxlen cfg_misc = 255.
Proof. exact Proofs.tables_cover_spec. Qed.
Print Assumptions tables_cover_spec.

(* ---- an axis's user -> design mapping and its inverse (ModelAxisMap.v: get_validated_map, map_forward = piecewiseLinearMap,
   map_backward with its sort and walk), on the map as the user wrote it: entries in ANY order, pairwise different, strictly monotone *)
Open Scope Q_scope.
Theorem axis_map_roundtrip_increasing : forall m v, NoDup m -> sinc m ->
  exists y v', axis_map_forward m v = Ok y /\ axis_map_backward m y = Ok v' /\ v' == v.
Proof. exact ProofsAxisMap.axis_map_roundtrip_increasing. Qed.
Print Assumptions axis_map_roundtrip_increasing.

Theorem axis_map_design_roundtrip_increasing : forall m d, NoDup m -> sinc m ->
  exists u d', axis_map_backward m d = Ok u /\ axis_map_forward m u = Ok d' /\ d' == d.
Proof. exact ProofsAxisMap.axis_map_design_roundtrip_increasing. Qed.
Print Assumptions axis_map_design_roundtrip_increasing.

(* a decreasing map (user up, design down) is undone inside the range its nodes span ... *)
Theorem axis_map_roundtrip_decreasing : forall m v kmin xmin kmax xmax, NoDup m -> sdec m ->
  In (kmin, xmin) m -> In (kmax, xmax) m -> kmin <= v -> v <= kmax ->
  exists y v', axis_map_forward m v = Ok y /\ axis_map_backward m y = Ok v' /\ v' == v.
Proof. exact ProofsAxisMap.axis_map_roundtrip_decreasing. Qed.
Print Assumptions axis_map_roundtrip_decreasing.

Theorem axis_map_design_roundtrip_decreasing : forall m d k1 dmin k2 dmax, NoDup m -> sdec m ->
  In (k1, dmin) m -> In (k2, dmax) m -> dmin <= d -> d <= dmax ->
  exists u d', axis_map_backward m d = Ok u /\ axis_map_forward m u = Ok d' /\ d' == d.
Proof. exact ProofsAxisMap.axis_map_design_roundtrip_decreasing. Qed.
Print Assumptions axis_map_design_roundtrip_decreasing.

(* ... and NOT outside it: map_forward extrapolates with slope +1 on both sides, so beyond its nodes a decreasing map is not
   monotone as a function and has no inverse; the range hypothesis above cannot be dropped *)
Theorem axis_map_decreasing_outside_range_refuted :
  let m := [(0, 10#1); (10#1, 0)] in
  NoDup m /\ sdec m /\ ~ map_backward m (map_forward m (-(5#1))) == -(5#1).
Proof. exact ProofsAxisMap.decreasing_outside_range_refuted. Qed.
Print Assumptions axis_map_decreasing_outside_range_refuted.

(* one input coordinate with two different outputs is refused *)
Theorem axis_map_conflict_refused : forall k x x' r, ~ x == x' -> get_validated_map ((k, x) :: (k, x') :: r) = Err ValueError.
Proof. exact ProofsAxisMap.validate_conflict. Qed.
Print Assumptions axis_map_conflict_refused.

(* ---- UFO 1/2 -> 3 conversion of kerning groups (ModelKerning.v: convertUFO1OrUFO2KerningToUFO3Kerning as repaired by c422dfc):
   every renamed group gets its own new name, none of them an existing group name, on both sides together *)
From FV Require C19.ModelKerning C19.ProofsKerning.
Theorem renamed_groups_distinct : forall kerning groups glyphSet k g r1 r2,
  ModelKerning.convert kerning groups glyphSet = Ok (k, g, r1, r2) ->
  NoDup (map snd r1 ++ map snd r2) /\
  (forall v, In v (map snd r1 ++ map snd r2) -> ~ In v (map fst groups)) /\
  NoDup (map fst r1) /\ NoDup (map fst r2).
Proof. exact ProofsKerning.renamed_groups_distinct. Qed.
Print Assumptions renamed_groups_distinct.

(* ---- the conversion keeps every kerning value (ProofsKernVal.v).  The proof first needed a side condition -- no kerning entry
   that is not itself renamed bears one of the new group names -- and the real code failed exactly there (a glyph called
   "public.kern1.A" in a UFO 2 source lost its kerning to the renamed group "@MMK_L_A"): defect F22, repaired in /repo (the names
   already used on that side of the kerning pairs are taken into account).  With the repaired conversion: *)
From FV Require C19.ProofsKernVal.
Theorem new_names_not_kerning_keys : forall kerning groups glyphSet k g r1 r2,
  ModelKerning.convert kerning groups glyphSet = Ok (k, g, r1, r2) ->
  (forall v, In v (map snd r1) -> ~ In v (map fst kerning)) /\
  (forall v, In v (map snd r2) -> ~ In v (flat_map (fun row => map fst (snd row)) kerning)).
Proof. exact ProofsKerning.new_names_not_kerning_keys. Qed.
Print Assumptions new_names_not_kerning_keys.

(* a kerning that is a dictionary of dictionaries keeps every value: the pair (first, second) is found under the renamed names *)
Theorem convert_keeps_every_value : forall kerning groups glyphSet k g r1 r2 first row second value,
  ModelKerning.convert kerning groups glyphSet = Ok (k, g, r1, r2) ->
  NoDup (map fst kerning) -> (forall f' row', In (f', row') kerning -> NoDup (map fst row')) ->
  ModelKerning.assoc_name first kerning = Some row -> ModelKerning.assoc_name second row = Some value ->
  exists row', ModelKerning.assoc_name (ModelKerning.renamed r1 first) k = Some row' /\
               ModelKerning.assoc_name (ModelKerning.renamed r2 second) row' = Some value.
Proof. exact ProofsKernVal.convert_keeps_every_value. Qed.
Print Assumptions convert_keeps_every_value.
