(* C08/ProofsSolve.v — _solve is EXACT: on the new axis range, the rebased tents (read in old coordinates) sum to the original tent *)
From Coq Require Import QArith List Bool Lqa Setoid Morphisms.
From FV Require Import Base.Ser Base.Res Geom.QTools C09.Model C09.Proofs C08.Model C08.Proofs.
Import ListNotations.
Open Scope Q_scope.

Lemma sols_raw_app a b x : sols_raw (a ++ b) x == sols_raw a x + sols_raw b x.
Proof. induction a as [|s a IH]; cbn [app sols_raw]; [ring|rewrite IH; ring]. Qed.

(* closed forms on closed intervals *)
Lemma rt_rise_le l p u x : l < p -> p <= u -> l <= x -> x <= p -> rawtent (l, p, u) x == (x - l) / (p - l).
Proof.
  intros H1 H0 H2 H3. unfold rawtent. destruct (Qeqb_spec x p) as [E|N]; [rewrite E; field; lra|].
  destruct (Qleb_spec x l) as [A|A]; cbn [orb].
  - assert (E : x == l) by lra. rewrite E. field. lra.
  - destruct (Qleb_spec u x) as [B|B]; [lra|]. destruct (Qltb_spec x p); [reflexivity|lra].
Qed.
Lemma rt_fall_le l p u x : p < u -> l <= p -> p <= x -> x <= u -> rawtent (l, p, u) x == (u - x) / (u - p).
Proof.
  intros H1 H0 H2 H3. unfold rawtent. destruct (Qeqb_spec x p) as [E|N]; [rewrite E; field; lra|].
  destruct (Qleb_spec x l) as [A|A]; cbn [orb]; [lra|].
  destruct (Qleb_spec u x) as [B|B].
  - assert (E : x == u) by lra. rewrite E. field. lra.
  - destruct (Qltb_spec x p); [lra|]. field. lra.
Qed.
Lemma rt_peak l p u x : x == p -> rawtent (l, p, u) x == 1.
Proof. intros E. unfold rawtent. destruct (Qeqb_spec x p); [reflexivity|contradiction]. Qed.

Lemma mul0 a b : a == 0 -> a * b == 0.
Proof. intros H. rewrite H. ring. Qed.

(* decide one tent from the hypotheses in context *)
Ltac rt1 :=
  match goal with
  | |- context [rawtent (?a, ?b, ?c) ?x] =>
    first [ rewrite (rt_peak a b c x) by lra
          | rewrite (rt_left a b c x) by lra
          | rewrite (rt_right a b c x) by lra
          | rewrite (rt_rise_le a b c x) by lra
          | rewrite (rt_fall_le a b c x) by lra ]
  end.

Definition pos_part (t : tent) (L : lim) (gain outGain : Q) : list sol :=
  let '(lower, peak, upper) := t in
  let axisMin := amin L in let axisDef := adef L in let axisMax := amax L in
    if Qleb outGain gain then
      let crossing := peak + (1 - gain) * (upper - peak) in
      let first := (1 - gain, Some (Qmax lower axisDef, peak, crossing)) in
      if Qleb axisMax upper then
        [first; (outGain - gain, Some (crossing, axisMax, axisMax))]
      else
        let upper' := if Qeqb upper axisDef then upper + EPSILON else upper in
        [first; (0 - gain, Some (crossing, upper', axisMax)); (0 - gain, Some (upper', axisMax, axisMax))]
    else
      let first := (1 - gain, Some (Qmax axisDef lower, peak, axisMax)) in
      if Qltb peak axisMax then [first; (outGain - gain, Some (peak, axisMax, axisMax))] else [first].
Definition neg_part (t : tent) (L : lim) (gain gm : Q) : list sol :=
  let '(lower, peak, upper) := t in
  let axisMin := amin L in let axisDef := adef L in let axisMax := amax L in
    if Qleb lower axisMin then
      [(gm - gain, Some (axisMin, axisMin, axisDef))]
    else
      let lower' := if Qeqb lower axisDef then lower - EPSILON else lower in
      [(0 - gain, Some (axisMin, lower', axisDef)); (0 - gain, Some (axisMin, axisMin, lower'))].
Lemma solve_main_split t L :
  solve_main t L = (tentval t (adef L), None) :: pos_part t L (tentval t (adef L)) (tentval t (amax L)) ++ neg_part t L (tentval t (adef L)) (tentval t (amin L)).
Proof. destruct t as [[l p] u]. reflexivity. Qed.

Section Main.
Variables l p u m d M dn dp : Q.
Let L := mkLim m d M dn dp.
Let t : tent := (l, p, u).
Hypothesis Hlp0 : l <= p.
Hypothesis Hlp : l < p \/ p <= m.
Hypothesis Hpu : p < u \/ (p == u /\ M == p).
Hypothesis Hmd : m <= d.
Hypothesis Hdp : d <= p.
Hypothesis HpM : p <= M.
Variables g oG : Q.
Hypothesis Hg : g == rawtent t d.
Hypothesis HoG : oG == rawtent t M.

Lemma g_bounds : 0 <= g /\ g <= 1.
Proof. rewrite Hg. apply rawtent_bounds; destruct Hpu; lra. Qed.

(* to the right of the default: the gain plus the positive-side tents *)
Lemma pos_right x : d <= x -> x <= M -> g + sols_raw (pos_part t L g oG) x == rawtent t x.
Proof.
  intros Hx1 Hx2. pose proof g_bounds as [G0 G1]. unfold pos_part, t, L. cbn [amin adef amax].
  destruct Hpu as [Hu|[Hu HM]].
  2:{ (* peak == upper == axisMax: only the rising side is inside the range *)
    assert (O1 : oG == 1) by (rewrite HoG; apply rt_peak; lra).
    destruct (Qleb_spec oG g) as [A|A].
    - (* gain == 1: the default sits on the peak *)
      assert (g == 1) by lra.
      destruct (Qleb_spec M u); [|lra]. cbn [sols_raw sol_raw fst snd].
      assert (Ed : d == p).
      { destruct Hlp as [Hl|Hm]; [|lra]. destruct (Qeq_dec d p) as [E|N]; [exact E|]. exfalso.
        assert (Hgd : g == rawtent (l, p, u) d) by exact Hg.
        destruct (Qlt_le_dec l d).
        - rewrite (rt_rise_le l p u d) in Hgd by lra. assert (X : (d - l) / (p - l) < 1) by (apply Qlt_shift_div_r; lra). lra.
        - rewrite (rt_left l p u d) in Hgd by lra. lra. }
      assert (x == p) by lra. rewrite (rt_peak l p u x) by lra.
      rewrite (mul0 (1 - g)) by lra. rewrite (mul0 (oG - g)) by lra. lra.
    - destruct (Qltb_spec p M); [lra|]. cbn [sols_raw sol_raw fst snd].
      assert (Hl : l < p).
      { destruct Hlp as [Hl|Hm]; [exact Hl|]. exfalso. assert (g == 1) by (rewrite Hg; apply rt_peak; lra). lra. }
      unfold Qmax. destruct (Qleb_spec d l) as [B|B].
      + assert (G : g == 0) by (rewrite Hg; apply rt_left; lra). rewrite G.
        destruct (Qlt_le_dec x l).
        * repeat rt1. ring.
        * rewrite (rt_rise_le l p M x) by lra. rewrite (rt_rise_le l p u x) by lra. ring.
      + assert (G : g == (d - l) / (p - l)) by (rewrite Hg; apply rt_rise_le; lra).
        destruct (Qeq_dec d p) as [E|N].
        * assert (x == p) by lra. repeat rt1. ring.
        * rewrite (rt_rise_le d p M x) by lra. rewrite (rt_rise_le l p u x) by lra. rewrite G. field. lra. }
  (* peak < upper *)
  assert (Tc : forall c, c == p + (1 - g) * (u - p) -> p <= c /\ c <= u /\ g == (u - c) / (u - p)).
  { intros c Hc. assert (0 <= (1 - g) * (u - p)) by (apply Qmult_le_0_compat; lra).
    assert ((1 - g) * (u - p) <= 1 * (u - p)) by (apply Qmult_le_compat_r; lra).
    repeat split; try lra. rewrite Hc. field. lra. }
  destruct (Qleb_spec oG g) as [A|A].
  - set (c := p + (1 - g) * (u - p)). destruct (Tc c ltac:(reflexivity)) as [C1 [C2 C3]]. clearbody c.
    destruct (Qleb_spec M u) as [B|B].
    + (* one closing tent *)
      assert (O : oG == (u - M) / (u - p)) by (rewrite HoG; apply rt_fall_le; lra).
      assert (CM : c <= M).
      { assert (X : (u - M) / (u - p) <= (u - c) / (u - p)) by lra.
        apply Qmult_le_compat_r with (z := u - p) in X; [|lra].
        setoid_replace ((u - M) / (u - p) * (u - p)) with (u - M) in X by (field; lra).
        setoid_replace ((u - c) / (u - p) * (u - p)) with (u - c) in X by (field; lra). lra. }
      cbn [sols_raw sol_raw fst snd]. unfold Qmax.
      destruct (Qlt_le_dec x p) as [R1|R1].
      * (* rising side *)
        assert (Hl : l < p) by (destruct Hlp; lra).
        rewrite (rt_left c M M x) by lra.
        destruct (Qleb_spec l d) as [D|D].
        -- assert (G : g == (d - l) / (p - l)) by (rewrite Hg; apply rt_rise_le; lra).
           rewrite (rt_rise_le d p c x) by lra. rewrite (rt_rise_le l p u x) by lra. rewrite G. field. lra.
        -- assert (G : g == 0) by (rewrite Hg; apply rt_left; lra). rewrite G.
           destruct (Qlt_le_dec x l).
           ++ repeat rt1. ring.
           ++ rewrite (rt_rise_le l p c x) by lra. rewrite (rt_rise_le l p u x) by lra. ring.
      * destruct (Qeq_dec c p) as [Ecp|Ncp].
        -- (* gain == 1 *)
           assert (G : g == 1) by (rewrite C3, Ecp; field; lra).
           rewrite (mul0 (1 - g)) by lra. rewrite G.
           destruct (Qeq_dec M c) as [EM|NM].
           ++ assert (x == p) by lra. rewrite (rt_peak l p u x) by lra.
              assert (O1 : oG == 1) by (rewrite O, EM, Ecp; field; lra). rewrite O1. ring.
           ++ rewrite (rt_rise_le c M M x) by lra. rewrite (rt_fall_le l p u x) by lra. rewrite O, Ecp. field. lra.
        -- destruct (Qlt_le_dec x c) as [R2|R2].
           ++ rewrite (rt_left c M M x) by lra. rewrite (rt_fall_le _ p c x) by (destruct (Qleb_spec l d); lra).
              rewrite (rt_fall_le l p u x) by lra. rewrite C3. field. lra.
           ++ rewrite (rt_right _ p c x) by lra.
              destruct (Qeq_dec M c) as [EM|NM].
              ** assert (x == c) by lra. rewrite (rt_peak c M M x) by lra. rewrite (rt_fall_le l p u x) by lra.
                 rewrite O, C3. rewrite EM. assert (E2 : x == c) by lra. rewrite E2. field. lra.
              ** rewrite (rt_rise_le c M M x) by lra. rewrite (rt_fall_le l p u x) by lra. rewrite O, C3. field. lra.
    + (* upper < axisMax: two tents keep the value down to the end of the range *)
      assert (O : oG == 0) by (rewrite HoG; apply rt_right; lra).
      destruct (Qeqb_spec u d) as [E|_]; [lra|].
      cbn [sols_raw sol_raw fst snd]. unfold Qmax.
      destruct (Qlt_le_dec x p) as [R1|R1].
      * assert (Hl : l < p) by (destruct Hlp; lra).
        rewrite (rt_left c u M x) by lra. rewrite (rt_left u M M x) by lra.
        destruct (Qleb_spec l d) as [D|D].
        -- assert (G : g == (d - l) / (p - l)) by (rewrite Hg; apply rt_rise_le; lra).
           rewrite (rt_rise_le d p c x) by lra. rewrite (rt_rise_le l p u x) by lra. rewrite G. field. lra.
        -- assert (G : g == 0) by (rewrite Hg; apply rt_left; lra). rewrite G.
           destruct (Qlt_le_dec x l).
           ++ repeat rt1. ring.
           ++ rewrite (rt_rise_le l p c x) by lra. rewrite (rt_rise_le l p u x) by lra. ring.
      * destruct (Qlt_le_dec x c) as [R2|R2].
        -- rewrite (rt_fall_le _ p c x) by (destruct (Qleb_spec l d); lra). rewrite (rt_left c u M x) by lra.
           rewrite (rt_left u M M x) by lra. rewrite (rt_fall_le l p u x) by lra. rewrite C3. field. lra.
        -- destruct (Qlt_le_dec x u) as [R3|R3].
           ++ rewrite (rt_rise_le c u M x) by lra. rewrite (rt_left u M M x) by lra. rewrite (rt_fall_le l p u x) by lra.
              destruct (Qeq_dec c p) as [Ecp|Ncp].
              ** rewrite (mul0 (1 - g)) by (rewrite C3, Ecp; field; lra). rewrite C3. field. lra.
              ** rewrite (rt_right _ p c x) by lra. rewrite C3. field. lra.
           ++ rewrite (rt_right _ p c x) by lra. rewrite (rt_fall_le c u M x) by lra. rewrite (rt_rise_le u M M x) by lra.
              rewrite (rt_right l p u x) by lra. field. lra.
  - (* outGain > gain: the peak's far side is still rising relative to the default *)
    assert (MU : M < u \/ M == p).
    { destruct (Qlt_le_dec M u); [left; assumption|]. exfalso. assert (oG == 0) by (rewrite HoG; apply rt_right; lra). lra. }
    unfold Qmax.
    assert (Hl : l < p).
    { destruct Hlp as [Hl|Hm]; [exact Hl|]. exfalso. assert (g == 1) by (rewrite Hg; apply rt_peak; lra). assert (oG <= 1) by (rewrite HoG; apply rawtent_bounds; lra). lra. }
    assert (Rise : forall x, d <= x -> x <= p -> g + (1 - g) * rawtent (if Qleb d l then l else d, p, M) x == rawtent (l, p, u) x).
    { intros y Y1 Y2. destruct (Qleb_spec d l) as [D|D].
      - assert (G : g == 0) by (rewrite Hg; apply rt_left; lra). rewrite G.
        destruct (Qlt_le_dec y l).
        + repeat rt1. ring.
        + rewrite (rt_rise_le l p M y) by lra. rewrite (rt_rise_le l p u y) by lra. ring.
      - assert (G : g == (d - l) / (p - l)) by (rewrite Hg; apply rt_rise_le; lra).
        destruct (Qeq_dec d p) as [E|N].
        + assert (y == p) by lra. repeat rt1. ring.
        + rewrite (rt_rise_le d p M y) by lra. rewrite (rt_rise_le l p u y) by lra. rewrite G. field. lra. }
    destruct (Qltb_spec p M) as [B|B]; cbn [sols_raw sol_raw fst snd].
    + destruct MU as [MU|MU]; [|lra].
      assert (O : oG == (u - M) / (u - p)) by (rewrite HoG; apply rt_fall_le; lra).
      destruct (Qlt_le_dec x p) as [R1|R1].
      * rewrite (rt_left p M M x) by lra. rewrite <- (Rise x) by lra. ring.
      * rewrite (rt_fall_le _ p M x) by (destruct (Qleb_spec d l); lra). rewrite (rt_rise_le p M M x) by lra.
        rewrite (rt_fall_le l p u x) by lra. rewrite O. field. lra.
    + assert (x <= p) by lra. rewrite <- (Rise x) by lra. ring.
Qed.

(* to the left of the default the positive-side tents vanish *)
Lemma pos_left x : x < d -> sols_raw (pos_part t L g oG) x == 0.
Proof.
  intros Hx. pose proof g_bounds as [G0 G1]. unfold pos_part, t, L. cbn [amin adef amax].
  assert (PU : p <= u) by (destruct Hpu; lra).
  set (c := p + (1 - g) * (u - p)).
  assert (C1 : p <= c) by (assert (0 <= (1 - g) * (u - p)) by (apply Qmult_le_0_compat; lra); unfold c; lra).
  assert (C2 : c <= u) by (assert ((1 - g) * (u - p) <= 1 * (u - p)) by (apply Qmult_le_compat_r; lra); unfold c; lra).
  clearbody c. unfold Qmax, EPSILON.
  destruct (Qleb oG g).
  - destruct (Qleb M u); cbn [sols_raw sol_raw fst snd].
    + destruct (Qleb_spec l d); rewrite (rt_left _ p c x) by lra; rewrite (rt_left c M M x) by lra; ring.
    + destruct (Qleb_spec l d); rewrite (rt_left _ p c x) by lra;
      destruct (Qeqb u d); rewrite (rt_left c _ M x) by lra; rewrite (rt_left _ M M x) by lra; ring.
  - destruct (Qltb p M); cbn [sols_raw sol_raw fst snd].
    + destruct (Qleb_spec d l); rewrite (rt_left _ p M x) by lra; rewrite (rt_left p M M x) by lra; ring.
    + destruct (Qleb_spec d l); rewrite (rt_left _ p M x) by lra; ring.
Qed.

Variable gm : Q.
Hypothesis Hgm : gm == rawtent t m.

(* to the left of the default: the gain plus the negative-side tents *)
Lemma neg_left x : m <= x -> x <= d -> g + sols_raw (neg_part t L g gm) x == rawtent t x.
Proof.
  intros Hx1 Hx2. pose proof g_bounds as [G0 G1]. unfold neg_part, t, L. cbn [amin adef amax].
  assert (PU : p <= u) by (destruct Hpu; lra).
  destruct Hlp as [Hl|Hm].
  2:{ (* nothing of the range lies left of the peak *)
    assert (Ex : x == m) by lra. assert (Exp : x == p) by lra.
    destruct (Qleb_spec l m) as [A|A]; [|lra]. cbn [sols_raw sol_raw fst snd].
    assert (g == 1) by (rewrite Hg; apply rt_peak; lra). assert (gm == 1) by (rewrite Hgm; apply rt_peak; lra).
    rewrite (mul0 (gm - g)) by lra. rewrite (rt_peak l p u x) by lra. lra. }
  destruct (Qleb_spec l m) as [A|A]; cbn [sols_raw sol_raw fst snd].
  - assert (G : g == (d - l) / (p - l)) by (rewrite Hg; apply rt_rise_le; lra).
    assert (Gm : gm == (m - l) / (p - l)) by (rewrite Hgm; apply rt_rise_le; lra).
    rewrite (rt_rise_le l p u x) by lra.
    destruct (Qeq_dec m d) as [E|N].
    + rewrite (rt_peak m m d x) by lra. rewrite G, Gm. assert (Ex : x == m) by lra. rewrite Ex, E. field. lra.
    + rewrite (rt_fall_le m m d x) by lra. rewrite G, Gm. field. lra.
  - destruct (Qleb_spec d l) as [B|B].
    + assert (G : g == 0) by (rewrite Hg; apply rt_left; lra).
      rewrite !(mul0 (0 - g)) by lra. rewrite (rt_left l p u x) by lra. lra.
    + destruct (Qeqb_spec l d) as [E|_]; [lra|].
      assert (G : g == (d - l) / (p - l)) by (rewrite Hg; apply rt_rise_le; lra).
      destruct (Qlt_le_dec x l) as [R|R].
      * rewrite (rt_rise_le m l d x) by lra. rewrite (rt_fall_le m m l x) by lra. rewrite (rt_left l p u x) by lra. field. lra.
      * rewrite (rt_fall_le m l d x) by lra. rewrite (rt_right m m l x) by lra. rewrite (rt_rise_le l p u x) by lra. rewrite G. field. lra.
Qed.

(* to the right of the default the negative-side tents vanish *)
Lemma neg_right x : d < x -> sols_raw (neg_part t L g gm) x == 0.
Proof.
  intros Hx. unfold neg_part, t, L. cbn [amin adef amax].
  destruct (Qleb_spec l m) as [A|A]; cbn [sols_raw sol_raw fst snd].
  - rewrite (rt_right m m d x) by lra. ring.
  - destruct (Qleb_spec d l) as [B|B].
    + assert (PU : p <= u) by (destruct Hpu; lra).
      assert (G : g == 0) by (rewrite Hg; apply rt_left; lra). rewrite !(mul0 (0 - g)) by lra. ring.
    + destruct (Qeqb_spec l d) as [E|_]; [lra|].
      rewrite (rt_right m l d x) by lra. rewrite (rt_right m m l x) by lra. ring.
Qed.

(* the main case of _solve: on the whole new range the pieces sum to the tent *)
Lemma main_exact x : m <= x -> x <= M ->
  sols_raw ((g, None) :: pos_part t L g oG ++ neg_part t L g gm) x == rawtent t x.
Proof.
  intros Hx1 Hx2. cbn [sols_raw sol_raw fst snd]. rewrite sols_raw_app.
  destruct (Qlt_le_dec x d) as [R|R].
  - rewrite (pos_left x R). rewrite <- (neg_left x) by lra. ring.
  - destruct (Qlt_le_dec d x) as [R2|R2].
    + rewrite (neg_right x R2). rewrite <- (pos_right x) by lra. ring.
    + pose proof (pos_right x R Hx2) as P. pose proof (neg_left x Hx1 R2) as N.
      assert (E : rawtent t x == g) by (rewrite Hg; apply rawtent_proper_x; lra).
      lra.
Qed.
End Main.

(* ---------- the recursion around the main case ---------- *)
Lemma tentval_raw l p u x : l <= p -> p <= u -> ~ p == 0 -> no_straddle (l, p, u) -> tentval (l, p, u) x = rawtent (l, p, u) x.
Proof.
  intros H1 H2 H0 NS. unfold tentval. destruct (Qeqb_spec p 0); [contradiction|].
  destruct (Qltb_spec p l); [lra|]. destruct (Qltb_spec u p); [lra|]. cbn [orb].
  cbn [no_straddle] in NS. destruct (Qltb_spec l 0); destruct (Qltb_spec 0 u); cbn [andb]; try reflexivity. lra.
Qed.

Lemma rawtent_rev l p u x : rawtent (tent_reverse_negate (l, p, u)) (- x) == rawtent (l, p, u) x.
Proof.
  unfold tent_reverse_negate, rawtent.
  destruct (Qeqb_spec (- x) (- p)); destruct (Qeqb_spec x p); try lra; try reflexivity.
  destruct (Qleb_spec (- x) (- u)); destruct (Qleb_spec u x); try lra;
  destruct (Qleb_spec (- l) (- x)); destruct (Qleb_spec x l); try lra; cbn [orb]; try reflexivity;
  destruct (Qltb_spec (- x) (- p)); destruct (Qltb_spec x p); try lra; field; lra.
Qed.

Lemma sols_raw_rev r x :
  sols_raw (map (fun s : sol => (fst s, option_map tent_reverse_negate (snd s))) r) x == sols_raw r (- x).
Proof.
  induction r as [|[w [[[a b] c]|]] r IH]; cbn [map sols_raw sol_raw fst snd option_map]; [reflexivity| |].
  - rewrite IH. setoid_replace x with (- - x) at 1 by ring. rewrite (rawtent_rev a b c (- x)). reflexivity.
  - rewrite IH. reflexivity.
Qed.
Lemma sols_raw_scale r k x : sols_raw (map (fun s : sol => (fst s * k, snd s)) r) x == k * sols_raw r x.
Proof.
  induction r as [|[w [tt|]] r IH]; cbn [map sols_raw sol_raw fst snd]; [ring| |]; rewrite IH; ring.
Qed.

Theorem solve_exact : forall fuel t L sols x,
  solve fuel t L = Ok sols -> amin L <= adef L -> adef L <= amax L -> good t L ->
  amin L <= x -> x <= amax L ->
  sols_raw sols x == rawtent t x.
Proof.
  induction fuel as [|f IH]; intros [[l p] u] L sols x HS Hmd HdM G Hx1 Hx2; [discriminate|].
  destruct G as [H1 [H2 [H0 [NS [GL GU]]]]]. cbn [solve] in HS.
  destruct (Qltb_spec p (adef L)) as [A|A].
  - (* mirror *)
    destruct (solve f (tent_reverse_negate (l, p, u)) (lim_reverse_negate L)) as [r|e] eqn:E; cbn [bind] in HS; [|discriminate].
    apply Ok_inj in HS. subst sols. rewrite sols_raw_rev.
    rewrite (IH _ _ r (- x) E).
    + apply rawtent_rev.
    + unfold lim_reverse_negate; cbn [amin adef amax]; lra.
    + unfold lim_reverse_negate; cbn [amin adef amax]; lra.
    + unfold tent_reverse_negate, good, lim_reverse_negate. cbn [amin adef amax no_straddle] in *.
      repeat split; try lra.
      all: first [ solve [destruct NS; [right|left]; lra] | solve [destruct GU; [left|right]; lra] | solve [destruct GL; [left|right]; lra] ].
    + unfold lim_reverse_negate; cbn [amin adef amax]; lra.
    + unfold lim_reverse_negate; cbn [amin adef amax]; lra.
  - destruct (Qleb_spec (amax L) l) as [B1|B1]; destruct (Qltb_spec (amax L) p) as [B2|B2]; cbn [andb] in HS.
    + apply Ok_inj in HS. subst sols. cbn [sols_raw]. symmetry. apply rt_left; lra.
    + (* amax <= l <= p <= amax *) 
      apply Ok_inj in HS. subst sols. rewrite solve_main_split.
      destruct L as [m d M dn dp]. cbn [amin adef amax] in *.
      rewrite !(tentval_raw l p u) by assumption.
      apply main_exact; try lra; try reflexivity.
      all: try solve [destruct GL; [left; assumption|right; assumption]].
    + (* the peak lies beyond the range: scale the clipped tent *)
      destruct (solve f (l, amax L, amax L) L) as [r|e] eqn:E; cbn [bind] in HS; [|discriminate].
      apply Ok_inj in HS. subst sols. rewrite sols_raw_scale.
      cbn [no_straddle] in NS.
      rewrite (IH _ _ r x E Hmd HdM); [| |exact Hx1|exact Hx2].
      * rewrite (tentval_raw l p u) by assumption.
        rewrite (rt_rise_le l p u (amax L)) by lra.
        destruct (Qlt_le_dec x l).
        -- rewrite (rt_left l (amax L) (amax L) x) by lra. rewrite (rt_left l p u x) by lra. ring.
        -- rewrite (rt_rise_le l (amax L) (amax L) x) by lra. rewrite (rt_rise_le l p u x) by lra. field. lra.
      * unfold good. cbn [no_straddle]. repeat split; try lra. all: try solve [destruct NS; [left; lra|right; lra]].
    + apply Ok_inj in HS. subst sols. rewrite solve_main_split.
      destruct L as [m d M dn dp]. cbn [amin adef amax] in *.
      rewrite !(tentval_raw l p u) by assumption.
      apply main_exact; try lra; try reflexivity.
      all: try solve [destruct GL; [left; assumption|right; assumption]].
      all: try solve [destruct (Qlt_le_dec p u); [left; assumption|right]; destruct GU; lra].
Qed.

(* dropping the pieces whose scalar is zero (rebaseTent does) does not change the sum *)
Lemma sols_raw_filter r x : sols_raw (filter (fun s : sol => negb (Qeqb (fst s) 0)) r) x == sols_raw r x.
Proof.
  induction r as [|[w o] r IH]; cbn [filter sols_raw fst]; [reflexivity|].
  destruct (Qeqb_spec w 0) as [E|N]; cbn [negb sols_raw]; rewrite IH; [|reflexivity].
  unfold sol_raw. cbn [fst snd]. destruct o; rewrite E; ring.
Qed.

(* the fuel of the model is enough: one mirror step, one clipping step, then the main case *)
Lemma solve_nomirror f l p u L : adef L <= p -> amin L <= adef L -> adef L <= amax L -> exists sols, solve (S (S f)) (l, p, u) L = Ok sols.
Proof.
  intros H Hmd HdM. cbn [solve]. destruct (Qltb_spec p (adef L)); [lra|].
  destruct (Qleb (amax L) l && Qltb (amax L) p); [eexists; reflexivity|].
  destruct (Qltb_spec (amax L) p); [|eexists; reflexivity].
  destruct (Qltb_spec (amax L) (adef L)); [lra|].
  destruct (Qltb_spec (amax L) (amax L)); [lra|]. rewrite andb_false_r. cbn [bind]. eexists; reflexivity.
Qed.
Lemma solve_total l p u L : amin L <= adef L -> adef L <= amax L -> exists sols, solve 4 (l, p, u) L = Ok sols.
Proof.
  intros Hmd HdM. destruct (Qlt_le_dec p (adef L)) as [A|A].
  - change 4%nat with (S (S (S 1))). rewrite solve_mirror_step by (destruct (Qltb_spec p (adef L)); [reflexivity|lra]).
    destruct (solve_nomirror 1 (- u) (- p) (- l) (lim_reverse_negate L)) as [r E];
      try (unfold lim_reverse_negate; cbn [amin adef amax]; lra).
    change (tent_reverse_negate (l, p, u)) with (- u, - p, - l). rewrite E. cbn [bind]. eexists; reflexivity.
  - apply (solve_nomirror 2); assumption.
Qed.

(* rebaseTent's pieces, before their corners are renormalised: exact on the whole new range *)
Theorem rebase_pieces_exact t L x :
  amin L <= adef L -> adef L <= amax L -> good t L -> amin L <= x -> x <= amax L ->
  exists sols, solve 4 t L = Ok sols /\
    sols_raw (filter (fun s : sol => negb (Qeqb (fst s) 0)) sols) x == rawtent t x.
Proof.
  intros Hmd HdM G Hx1 Hx2. destruct t as [[l p] u]. destruct (solve_total l p u L Hmd HdM) as [sols E].
  exists sols. split; [exact E|]. rewrite sols_raw_filter. apply (solve_exact 4 (l, p, u) L sols x E); assumption.
Qed.

(* non-vacuity: tent (0, 1/2, 1) under the limits -1/2 : 1/4 : 3/4 -- the main case with a crossing point, a closing tent and the
   two negative-side tents; five pieces, and at x = 5/8 they sum to the tent's 3/4 *)
Example rebase_pieces_example :
  let t : tent := (0, 1 # 2, 1) in let L := mkLim (- (1 # 2)) (1 # 4) (3 # 4) 1 1 in
  good t L /\ match solve 4 t L with Ok s => (length s = 5%nat /\ sols_raw s (5 # 8) == 3 # 4) | Err _ => False end.
Proof. split; [cbn; repeat split; try lra; left; lra|]. vm_compute. split; reflexivity. Qed.
