(* C08/ProofsRenormU.v — rebaseTent end to end, for every limit triple: renormalizeValue is "affine after the user-space map" on each
   side of the new default; pieces that span the old default come in rise/fall pairs *)
From Coq Require Import QArith List Bool Lqa Setoid Morphisms.
From FV Require Import Base.Ser Base.Res Geom.QTools C09.Model C09.Proofs C08.Model C08.Proofs C08.ProofsSolve C08.ProofsRenorm.
Import ListNotations.
Open Scope Q_scope.

Section User.
Variables dn dp : Q.
Hypothesis Hn : 0 < dn.
Hypothesis Hp : 0 < dp.
Let U := user_of dn dp.

Lemma U_nonneg v : 0 <= v -> U v == v * dp.
Proof. intros H. unfold U, user_of. destruct (Qleb_spec 0 v); [reflexivity|lra]. Qed.
Lemma U_nonpos v : v <= 0 -> U v == v * dn.
Proof. intros H. unfold U, user_of. destruct (Qleb_spec 0 v); [|reflexivity]. assert (E : v == 0) by lra. rewrite E. ring. Qed.
Lemma U_lt a b : a < b -> U a < U b.
Proof. apply user_mono; assumption. Qed.
Lemma U_le a b : a <= b -> U a <= U b.
Proof. apply user_mono_le; assumption. Qed.
Lemma U_eq a b : a == b -> U a == U b.
Proof. intros E. apply Qle_antisym; apply U_le; lra. Qed.
End User.

Ltac absU := repeat match goal with |- context [user_of ?a ?b ?c] => let x := fresh "uu" in set (x := user_of a b c) in *; clearbody x end.

Lemma renorm_right_user L v : 0 < dneg L -> 0 < dpos L -> adef L < amax L -> adef L <= v -> v <= amax L ->
  let U := user_of (dneg L) (dpos L) in
  renormalizeValue L v == (U v - U (adef L)) / (U (amax L) - U (adef L)).
Proof.
  destruct L as [m d M dn dp]. cbn [amin adef amax dneg dpos]. intros Hn Hp HdM H1 H2. cbv zeta.
  destruct (Qeq_dec v d) as [E|N].
  - assert (R : renormalizeValue (mkLim m d M dn dp) v == 0).
    { unfold renormalizeValue. cbn [adef]. destruct (Qeqb_spec v d); [reflexivity|contradiction]. }
    rewrite R. rewrite (U_eq dn dp Hn Hp v d E). pose proof (U_lt dn dp Hn Hp d M HdM). field. absU. lra.
  - unfold renormalizeValue, renorm_pos, lim_reverse_negate. cbn [amin adef amax dneg dpos].
    destruct (Qeqb_spec v d); [contradiction|].
    destruct (Qltb_spec d 0) as [D|D].
    + destruct (Qltb_spec (- d) (- v)); [lra|].
      rewrite (U_nonpos dn dp d) by lra.
      destruct (Qleb_spec 0 (- M)) as [B|B].
      * rewrite (U_nonpos dn dp v) by lra. rewrite (U_nonpos dn dp M) by lra. field. repeat split; try lra; nra.
      * rewrite (U_nonneg dn dp M) by lra.
        assert (T : ~ dp * - - M + dn * - d == 0) by nra.
        destruct (Qleb_spec 0 (- v)).
        -- rewrite (U_nonpos dn dp v) by lra. field. repeat split; try (intro X; apply T; rewrite <- X; ring); try exact T.
        -- rewrite (U_nonneg dn dp v) by lra. field. repeat split; try (intro X; apply T; rewrite <- X; ring); try exact T.
    + destruct (Qltb_spec d v); [|lra].
      rewrite (U_nonneg dn dp d) by lra. rewrite (U_nonneg dn dp v) by lra. rewrite (U_nonneg dn dp M) by lra. field. repeat split; try lra; nra.
Qed.

Lemma renorm_left_user L v : 0 < dneg L -> 0 < dpos L -> amin L < adef L -> amin L <= v -> v <= adef L ->
  let U := user_of (dneg L) (dpos L) in
  renormalizeValue L v == (U v - U (adef L)) / (U (adef L) - U (amin L)).
Proof.
  destruct L as [m d M dn dp]. cbn [amin adef amax dneg dpos]. intros Hn Hp Hmd H1 H2. cbv zeta.
  destruct (Qeq_dec v d) as [E|N].
  - assert (R : renormalizeValue (mkLim m d M dn dp) v == 0).
    { unfold renormalizeValue. cbn [adef]. destruct (Qeqb_spec v d); [reflexivity|contradiction]. }
    rewrite R. rewrite (U_eq dn dp Hn Hp v d E). pose proof (U_lt dn dp Hn Hp m d Hmd). field. absU. lra.
  - unfold renormalizeValue, renorm_pos, lim_reverse_negate. cbn [amin adef amax dneg dpos].
    destruct (Qeqb_spec v d); [contradiction|].
    destruct (Qltb_spec d 0) as [D|D].
    + destruct (Qltb_spec (- d) (- v)); [|lra].
      rewrite (U_nonpos dn dp d) by lra. rewrite (U_nonpos dn dp v) by lra. rewrite (U_nonpos dn dp m) by lra. field. repeat split; try lra; nra.
    + destruct (Qltb_spec d v); [lra|].
      rewrite (U_nonneg dn dp d) by lra.
      destruct (Qleb_spec 0 m) as [B|B].
      * rewrite (U_nonneg dn dp v) by lra. rewrite (U_nonneg dn dp m) by lra. field. repeat split; try lra; nra.
      * rewrite (U_nonpos dn dp m) by lra.
        assert (T : ~ dn * - m + dp * d == 0) by nra.
        destruct (Qleb_spec 0 v).
        -- rewrite (U_nonneg dn dp v) by lra. field. repeat split; try (intro X; apply T; rewrite <- X; ring); try exact T.
        -- rewrite (U_nonpos dn dp v) by lra. field. repeat split; try (intro X; apply T; rewrite <- X; ring); try exact T.
Qed.

(* ---------- tents read through the user-space map ---------- *)
Section UserTents.
Variables dn dp : Q.
Hypothesis Hn : 0 < dn.
Hypothesis Hp : 0 < dp.
Local Notation U := (user_of dn dp).

(* a tent that lies on one side of the old default keeps its values *)
Lemma rawtent_user a b c x : a <= b -> b <= c -> (0 <= a \/ c <= 0) ->
  rawtent (U a, U b, U c) (U x) == rawtent (a, b, c) x.
Proof.
  intros Hab Hbc Z.
  pose proof (U_le dn dp Hn Hp a b Hab) as Pab. pose proof (U_le dn dp Hn Hp b c Hbc) as Pbc.
  destruct Z as [Z|Z].
  - destruct (Qlt_le_dec x 0) as [X|X].
    + pose proof (U_lt dn dp Hn Hp x 0 X) as P1. pose proof (U_le dn dp Hn Hp 0 a Z) as P2.
      rewrite (rt_left a b c x) by lra. set (ua := U a) in *. set (ub := U b) in *. set (uc := U c) in *. set (ux := U x) in *. set (u0 := U 0) in *.
      clearbody ua ub uc ux u0. apply rt_left; lra.
    + assert (I : 0 < / dp) by (apply Qinv_lt_0_compat; exact Hp).
      rewrite (rawtent_ext (U a) (U b) (U c) (U x) (phi 0 (/ dp) a) (phi 0 (/ dp) b) (phi 0 (/ dp) c) (phi 0 (/ dp) x)).
      * apply rawtent_phi; assumption.
      * rewrite (U_nonneg dn dp a) by lra. unfold phi. field. lra.
      * rewrite (U_nonneg dn dp b) by lra. unfold phi. field. lra.
      * rewrite (U_nonneg dn dp c) by lra. unfold phi. field. lra.
      * rewrite (U_nonneg dn dp x) by lra. unfold phi. field. lra.
  - destruct (Qlt_le_dec 0 x) as [X|X].
    + pose proof (U_lt dn dp Hn Hp 0 x X) as P1. pose proof (U_le dn dp Hn Hp c 0 Z) as P2.
      rewrite (rt_right a b c x) by lra. set (ua := U a) in *. set (ub := U b) in *. set (uc := U c) in *. set (ux := U x) in *. set (u0 := U 0) in *.
      clearbody ua ub uc ux u0. apply rt_right; lra.
    + assert (I : 0 < / dn) by (apply Qinv_lt_0_compat; exact Hn).
      rewrite (rawtent_ext (U a) (U b) (U c) (U x) (phi 0 (/ dn) a) (phi 0 (/ dn) b) (phi 0 (/ dn) c) (phi 0 (/ dn) x)).
      * apply rawtent_phi; assumption.
      * rewrite (U_nonpos dn dp a) by lra. unfold phi. field. lra.
      * rewrite (U_nonpos dn dp b) by lra. unfold phi. field. lra.
      * rewrite (U_nonpos dn dp c) by lra. unfold phi. field. lra.
      * rewrite (U_nonpos dn dp x) by lra. unfold phi. field. lra.
Qed.

(* left of its peak a tent does not depend on its upper corner; right of it, not on its lower corner *)
Lemma rawtent_upper_irrelevant a b c c' x : b <= c -> b <= c' -> x < b -> rawtent (a, b, c) x == rawtent (a, b, c') x.
Proof.
  intros H1 H2 X. unfold rawtent. destruct (Qeqb_spec x b); [lra|].
  destruct (Qleb_spec c x); [lra|]. destruct (Qleb_spec c' x); [lra|]. rewrite !orb_false_r.
  destruct (Qleb x a); [reflexivity|]. destruct (Qltb_spec x b); [reflexivity|lra].
Qed.
Lemma rawtent_lower_irrelevant a a' b c x : a <= b -> a' <= b -> b < x -> rawtent (a, b, c) x == rawtent (a', b, c) x.
Proof.
  intros H1 H2 X. unfold rawtent. destruct (Qeqb_spec x b); [lra|].
  destruct (Qleb_spec x a); [lra|]. destruct (Qleb_spec x a'); [lra|]. cbn [orb].
  destruct (Qleb c x); [reflexivity|]. destruct (Qltb_spec x b); [lra|reflexivity].
Qed.

(* a falling tent and the rising tent that closes it: together they are 1 between their peaks, whatever the map does in between *)
Lemma pair_user_R a b c x : a <= b -> b < c -> (0 <= a \/ b <= 0) -> x <= c ->
  rawtent (U a, U b, U c) (U x) + rawtent (U b, U c, U c) (U x) == rawtent (a, b, c) x + rawtent (b, c, c) x.
Proof.
  intros Hab Hbc Z Xc.
  pose proof (U_le dn dp Hn Hp a b Hab) as Pab. pose proof (U_lt dn dp Hn Hp b c Hbc) as Pbc. pose proof (U_le dn dp Hn Hp x c Xc) as Pxc.
  destruct (Qlt_le_dec x b) as [X|X].
  - pose proof (U_lt dn dp Hn Hp x b X) as Pxb.
    rewrite (rt_left b c c x) by lra.
    rewrite (rawtent_upper_irrelevant a b c b x) by lra.
    rewrite <- (rawtent_user a b b x) by lra.
    set (ua := U a) in *. set (ub := U b) in *. set (uc := U c) in *. set (ux := U x) in *. clearbody ua ub uc ux.
    rewrite (rt_left ub uc uc ux) by lra. rewrite (rawtent_upper_irrelevant ua ub uc ub ux) by lra. reflexivity.
  - pose proof (U_le dn dp Hn Hp b x X) as Pbx.
    rewrite (rt_fall_le a b c x) by lra. rewrite (rt_rise_le b c c x) by lra.
    set (ua := U a) in *. set (ub := U b) in *. set (uc := U c) in *. set (ux := U x) in *. clearbody ua ub uc ux.
    rewrite (rt_fall_le ua ub uc ux) by lra. rewrite (rt_rise_le ub uc uc ux) by lra. field. split; lra.
Qed.
Lemma pair_user_L a b c x : a < b -> b <= c -> (0 <= b \/ c <= 0) -> a <= x ->
  rawtent (U a, U b, U c) (U x) + rawtent (U a, U a, U b) (U x) == rawtent (a, b, c) x + rawtent (a, a, b) x.
Proof.
  intros Hab Hbc Z Xa.
  pose proof (U_lt dn dp Hn Hp a b Hab) as Pab. pose proof (U_le dn dp Hn Hp b c Hbc) as Pbc. pose proof (U_le dn dp Hn Hp a x Xa) as Pax.
  destruct (Qlt_le_dec b x) as [X|X].
  - pose proof (U_lt dn dp Hn Hp b x X) as Pbx.
    rewrite (rt_right a a b x) by lra.
    rewrite (rawtent_lower_irrelevant a b b c x) by lra.
    rewrite <- (rawtent_user b b c x) by lra.
    set (ua := U a) in *. set (ub := U b) in *. set (uc := U c) in *. set (ux := U x) in *. clearbody ua ub uc ux.
    rewrite (rt_right ua ua ub ux) by lra. rewrite (rawtent_lower_irrelevant ua ub ub uc ux) by lra. reflexivity.
  - pose proof (U_le dn dp Hn Hp x b X) as Pxb.
    rewrite (rt_rise_le a b c x) by lra. rewrite (rt_fall_le a a b x) by lra.
    set (ua := U a) in *. set (ub := U b) in *. set (uc := U c) in *. set (ux := U x) in *. clearbody ua ub uc ux.
    rewrite (rt_rise_le ua ub uc ux) by lra. rewrite (rt_fall_le ua ua ub ux) by lra. field. split; lra.
Qed.
End UserTents.

(* ---------- pieces, renormalised, read at the renormalised location ---------- *)
Section Transport.
Variable L : lim.
Hypothesis Hn : 0 < dneg L.
Hypothesis Hp : 0 < dpos L.
Local Notation U := (user_of (dneg L) (dpos L)).
Local Notation n := (renormalizeValue L).
Local Notation phiR := (phi (U (adef L)) (U (amax L) - U (adef L))).
Local Notation phiL := (phi (U (adef L)) (U (adef L) - U (amin L))).

Lemma n_right v : adef L < amax L -> adef L <= v -> v <= amax L -> n v == phiR (U v).
Proof. intros. unfold phi. apply renorm_right_user; assumption. Qed.
Lemma n_left v : amin L < adef L -> amin L <= v -> v <= adef L -> n v == phiL (U v).
Proof. intros. unfold phi. apply renorm_left_user; assumption. Qed.
Lemma n_neg x : amin L <= x -> x < adef L -> n x < 0.
Proof.
  intros H1 H2. rewrite n_left by lra. unfold phi.
  pose proof (U_lt _ _ Hn Hp x (adef L) H2). pose proof (U_lt _ _ Hn Hp (amin L) (adef L) ltac:(lra)).
  apply Qlt_shift_div_r; absU; lra.
Qed.
Lemma n_pos x : adef L < x -> x <= amax L -> 0 < n x.
Proof.
  intros H1 H2. rewrite n_right by lra. unfold phi.
  pose proof (U_lt _ _ Hn Hp (adef L) x H1). pose proof (U_lt _ _ Hn Hp (adef L) (amax L) ltac:(lra)).
  apply Qlt_shift_div_l; absU; lra.
Qed.

(* in the coordinates phi(U .) of one side, a piece off the default is a proper OpenType tent *)
Lemma proper_right a b c y : adef L < amax L -> adef L <= a -> a <= b -> b <= c -> ~ b == adef L ->
  tentval (phiR (U a), phiR (U b), phiR (U c)) y == rawtent (phiR (U a), phiR (U b), phiR (U c)) y.
Proof.
  intros HdM Ha Hab Hbc Hbd.
  assert (HD : 0 < U (amax L) - U (adef L)) by (pose proof (U_lt _ _ Hn Hp _ _ HdM); absU; lra).
  pose proof (phi_le (U (adef L)) _ HD _ _ (U_le _ _ Hn Hp _ _ Hab)) as Pab. pose proof (phi_le (U (adef L)) _ HD _ _ (U_le _ _ Hn Hp _ _ Hbc)) as Pbc.
  pose proof (phi_le (U (adef L)) _ HD _ _ (U_le _ _ Hn Hp _ _ Ha)) as Pda.
  assert (Pdb : phiR (U (adef L)) < phiR (U b)).
  { apply phi_lt; [exact HD|]. apply U_lt; try assumption. destruct (Qlt_le_dec (adef L) b); [assumption|exfalso; apply Hbd; lra]. }
  assert (P0 : phiR (U (adef L)) == 0) by (unfold phi; field; absU; lra).
  rewrite tentval_raw; [reflexivity|lra|lra|lra|cbn [no_straddle]; left; lra].
Qed.
Lemma proper_left a b c y : amin L < adef L -> a <= b -> b <= c -> c <= adef L -> ~ b == adef L ->
  tentval (phiL (U a), phiL (U b), phiL (U c)) y == rawtent (phiL (U a), phiL (U b), phiL (U c)) y.
Proof.
  intros Hmd Hab Hbc Hc Hbd.
  assert (HD : 0 < U (adef L) - U (amin L)) by (pose proof (U_lt _ _ Hn Hp _ _ Hmd); absU; lra).
  pose proof (phi_le (U (adef L)) _ HD _ _ (U_le _ _ Hn Hp _ _ Hab)) as Pab. pose proof (phi_le (U (adef L)) _ HD _ _ (U_le _ _ Hn Hp _ _ Hbc)) as Pbc.
  pose proof (phi_le (U (adef L)) _ HD _ _ (U_le _ _ Hn Hp _ _ Hc)) as Pcd.
  assert (Pbd : phiL (U b) < phiL (U (adef L))).
  { apply phi_lt; [exact HD|]. apply U_lt; try assumption. destruct (Qlt_le_dec b (adef L)); [assumption|exfalso; apply Hbd; lra]. }
  assert (P0 : phiL (U (adef L)) == 0) by (unfold phi; field; absU; lra).
  rewrite tentval_raw; [reflexivity|lra|lra|lra|cbn [no_straddle]; right; lra].
Qed.

(* the value of a renormalised piece on the positive side, in terms of the user-space tent *)
Lemma right_piece a b c x : adef L < amax L -> adef L <= a -> a <= b -> b <= c -> c <= amax L -> ~ b == adef L ->
  amin L <= x -> x <= amax L ->
  tentval (n a, n b, n c) (n x) == if Qltb x (adef L) then 0 else rawtent (U a, U b, U c) (U x).
Proof.
  intros HdM Ha Hab Hbc Hc Hbd Hx1 Hx2.
  assert (HD : 0 < U (amax L) - U (adef L)) by (pose proof (U_lt _ _ Hn Hp _ _ HdM); absU; lra).
  pose proof (n_right a HdM ltac:(lra) ltac:(lra)) as Ea. pose proof (n_right b HdM ltac:(lra) ltac:(lra)) as Eb.
  pose proof (n_right c HdM ltac:(lra) ltac:(lra)) as Ec.
  destruct (Qltb_spec x (adef L)) as [X|X].
  - rewrite (tentval_ext _ _ _ _ _ _ _ (n x) Ea Eb Ec ltac:(reflexivity)). rewrite proper_right by assumption.
    pose proof (n_neg x Hx1 X) as Nx.
    pose proof (phi_le (U (adef L)) _ HD _ _ (U_le _ _ Hn Hp _ _ Hab)) as Pab. pose proof (phi_le (U (adef L)) _ HD _ _ (U_le _ _ Hn Hp _ _ Ha)) as Pda.
    assert (P0 : phiR (U (adef L)) == 0) by (unfold phi; field; absU; lra).
    apply rt_left; lra.
  - pose proof (n_right x HdM ltac:(lra) Hx2) as Ex.
    rewrite (tentval_ext _ _ _ _ _ _ _ _ Ea Eb Ec Ex). rewrite proper_right by assumption.
    apply rawtent_phi; [exact HD|apply U_le; assumption|apply U_le; assumption].
Qed.
Lemma left_piece a b c x : amin L < adef L -> amin L <= a -> a <= b -> b <= c -> c <= adef L -> ~ b == adef L ->
  amin L <= x -> x <= amax L ->
  tentval (n a, n b, n c) (n x) == if Qltb (adef L) x then 0 else rawtent (U a, U b, U c) (U x).
Proof.
  intros Hmd Ha Hab Hbc Hc Hbd Hx1 Hx2.
  assert (HD : 0 < U (adef L) - U (amin L)) by (pose proof (U_lt _ _ Hn Hp _ _ Hmd); absU; lra).
  pose proof (n_left a Hmd ltac:(lra) ltac:(lra)) as Ea. pose proof (n_left b Hmd ltac:(lra) ltac:(lra)) as Eb.
  pose proof (n_left c Hmd ltac:(lra) ltac:(lra)) as Ec.
  destruct (Qltb_spec (adef L) x) as [X|X].
  - rewrite (tentval_ext _ _ _ _ _ _ _ (n x) Ea Eb Ec ltac:(reflexivity)). rewrite proper_left by assumption.
    pose proof (n_pos x X Hx2) as Nx.
    pose proof (phi_le (U (adef L)) _ HD _ _ (U_le _ _ Hn Hp _ _ Hbc)) as Pbc. pose proof (phi_le (U (adef L)) _ HD _ _ (U_le _ _ Hn Hp _ _ Hc)) as Pcd.
    assert (P0 : phiL (U (adef L)) == 0) by (unfold phi; field; absU; lra).
    apply rt_right; lra.
  - pose proof (n_left x Hmd Hx1 ltac:(lra)) as Ex.
    rewrite (tentval_ext _ _ _ _ _ _ _ _ Ea Eb Ec Ex). rewrite proper_left by assumption.
    apply rawtent_phi; [exact HD|apply U_le; assumption|apply U_le; assumption].
Qed.
End Transport.

(* ---------- the shape of _solve's output: single pieces on one side of both defaults, and rise/fall pairs ---------- *)
Definition single_ok (L : lim) (a b c : Q) : Prop :=
  a <= b /\ b <= c /\ ~ b == adef L /\ (0 <= a \/ c <= 0) /\
  ((adef L <= a /\ c <= amax L /\ adef L < amax L) \/ (amin L <= a /\ c <= adef L /\ amin L < adef L)).
Definition pairR_ok (L : lim) (a b c : Q) : Prop :=
  adef L <= a /\ a <= b /\ b < c /\ c <= amax L /\ ~ b == adef L /\ (0 <= a \/ b <= 0).
Definition pairL_ok (L : lim) (a b c : Q) : Prop :=
  amin L <= a /\ a < b /\ b <= c /\ c <= adef L /\ ~ b == adef L /\ (0 <= b \/ c <= 0).
Inductive shaped (L : lim) : list sol -> Prop :=
| sh_nil : shaped L []
| sh_gain w r : shaped L r -> shaped L ((w, None) :: r)
| sh_zero w t r : w == 0 -> shaped L r -> shaped L ((w, Some t) :: r)
| sh_one w a b c r : single_ok L a b c -> shaped L r -> shaped L ((w, Some (a, b, c)) :: r)
| sh_pairR w a b c r : pairR_ok L a b c -> shaped L r -> shaped L ((w, Some (a, b, c)) :: (w, Some (b, c, c)) :: r)
| sh_pairL w a b c r : pairL_ok L a b c -> shaped L r -> shaped L ((w, Some (a, b, c)) :: (w, Some (a, a, b)) :: r).

Lemma shaped_app L a b : shaped L a -> shaped L b -> shaped L (a ++ b).
Proof. intros Ha Hb. induction Ha; cbn [app]; try (constructor; assumption). exact Hb. Qed.

Ltac geo := lazymatch goal with
  | |- _ /\ _ => split; geo
  | |- _ \/ _ => first [left; geo | right; geo]
  | |- _ => lra end.

Lemma shaped_rev L r : shaped (lim_reverse_negate L) r ->
  shaped L (map (fun s : sol => (fst s, option_map tent_reverse_negate (snd s))) r).
Proof.
  induction 1 as [|w r H IH|w [[a b] c] r Z H IH|w a b c r S H IH|w a b c r S H IH|w a b c r S H IH];
    cbn [map fst snd option_map tent_reverse_negate].
  - constructor.
  - constructor. exact IH.
  - apply sh_zero; assumption.
  - apply sh_one; [|exact IH]. unfold single_ok, lim_reverse_negate in *. cbn [amin adef amax] in *.
    destruct S as [S1 [S2 [S3 [[Z|Z] [[A1 [A2 A3]]|[A1 [A2 A3]]]]]]]; geo.
  - apply sh_pairL; [|exact IH]. unfold pairR_ok, pairL_ok, lim_reverse_negate in *. cbn [amin adef amax] in *.
    destruct S as [S1 [S2 [S3 [S4 [S5 [Z|Z]]]]]]; geo.
  - apply sh_pairR; [|exact IH]. unfold pairR_ok, pairL_ok, lim_reverse_negate in *. cbn [amin adef amax] in *.
    destruct S as [S1 [S2 [S3 [S4 [S5 [Z|Z]]]]]]; geo.
Qed.
Lemma shaped_scale L r k : shaped L r -> shaped L (map (fun s : sol => (fst s * k, snd s)) r).
Proof.
  induction 1 as [|w r H IH|w t r Z H IH|w a b c r S H IH|w a b c r S H IH|w a b c r S H IH]; cbn [map fst snd].
  - constructor.
  - constructor. exact IH.
  - apply sh_zero; [rewrite Z; ring|exact IH].
  - apply sh_one; assumption.
  - apply sh_pairR; assumption.
  - apply sh_pairL; assumption.
Qed.

Section Shaped.
Variables l p u m d M dn dp : Q.
Let L := mkLim m d M dn dp.
Let t : tent := (l, p, u).
Hypothesis Hlp0 : l <= p.
Hypothesis Hlp : l < p \/ p <= m.
Hypothesis Hpu : p < u \/ (p == u /\ M == p).
Hypothesis Hmd : m <= d.
Hypothesis Hdp : d <= p.
Hypothesis HpM : p <= M.
Hypothesis NS : 0 <= l \/ u <= 0.
Variables g oG gm : Q.
Hypothesis Hg : g == rawtent t d.
Hypothesis HoG : oG == rawtent t M.
Hypothesis Hgm : gm == rawtent t m.

Lemma pos_shaped : shaped L (pos_part t L g oG).
Proof.
  pose proof (g_bounds l p u d M Hlp0 Hpu g Hg) as [G0 G1].
  pose proof (oG_le_one l p u M Hlp0 Hpu oG HoG) as O1.
  unfold pos_part, t, L. cbn [amin adef amax].
  assert (PU : p <= u) by (destruct Hpu; lra).
  set (c := p + (1 - g) * (u - p)).
  assert (C1 : p <= c) by (assert (0 <= (1 - g) * (u - p)) by (apply Qmult_le_0_compat; lra); unfold c; lra).
  assert (C2 : c <= u) by (assert ((1 - g) * (u - p) <= 1 * (u - p)) by (apply Qmult_le_compat_r; lra); unfold c; lra).
  assert (Mx : forall a b, a <= Qmax a b /\ b <= Qmax a b /\ (Qmax a b == a \/ Qmax a b == b)).
  { intros a b. unfold Qmax. destruct (Qleb_spec a b); (split; [lra|split; [lra|]]); [right|left]; reflexivity. }
  destruct (Qeq_dec d p) as [Edp|Ndp].
  - pose proof (g_one_iff l p u d g Hg Edp) as G.
    destruct (Qleb_spec oG g) as [A|A]; [|lra].
    assert (Ec : c == p) by (unfold c; rewrite G; ring).
    destruct (Qleb_spec M u) as [B|B].
    + apply sh_zero; [lra|].
      destruct (Qeq_dec M d) as [EM|NM].
      * apply sh_zero; [|apply sh_nil]. assert (oG == 1) by (rewrite HoG; apply rt_peak; lra). lra.
      * apply sh_one; [|apply sh_nil]. unfold single_ok. cbn [amin adef amax]. destruct NS; geo.
    + destruct (Qeqb_spec u d) as [E|_]; [destruct Hpu; lra|].
      apply sh_zero; [lra|]. apply sh_pairR; [|apply sh_nil]. unfold pairR_ok. cbn [amin adef amax]. destruct NS; geo.
  - assert (Dp : d < p) by (destruct (Qlt_le_dec d p); [assumption|exfalso; apply Ndp; lra]).
    pose proof (g_lt_one l p u m d M Hlp Hpu Hmd Hdp g Hg Dp) as G.
    destruct (Qleb_spec oG g) as [A|A].
    + destruct (Mx l d) as [X1 [X2 X3]].
      destruct (Qleb_spec M u) as [B|B].
      * assert (CM : c <= M).
        { destruct Hpu as [Hu|[Hu HM]]; [|lra].
          assert (O : oG == (u - M) / (u - p)) by (rewrite HoG; apply rt_fall_le; lra).
          assert (C3 : g == (u - c) / (u - p)) by (unfold c; field; lra).
          assert (X : (u - M) / (u - p) <= (u - c) / (u - p)) by lra.
          apply Qmult_le_compat_r with (z := u - p) in X; [|lra].
          setoid_replace ((u - M) / (u - p) * (u - p)) with (u - M) in X by (field; lra).
          setoid_replace ((u - c) / (u - p) * (u - p)) with (u - c) in X by (field; lra). lra. }
        apply sh_one; [unfold single_ok; cbn [amin adef amax]; destruct NS; destruct X3; geo|].
        apply sh_one; [unfold single_ok; cbn [amin adef amax]; destruct NS; geo|apply sh_nil].
      * destruct (Qeqb_spec u d) as [E|_]; [lra|].
        apply sh_one; [unfold single_ok; cbn [amin adef amax]; destruct NS; destruct X3; geo|].
        apply sh_pairR; [unfold pairR_ok; cbn [amin adef amax]; destruct NS; geo|apply sh_nil].
    + destruct (Mx d l) as [X1 [X2 X3]].
      assert (MU : M <= u).
      { destruct (Qlt_le_dec u M); [|assumption]. exfalso. assert (oG == 0) by (rewrite HoG; apply rt_right; lra). lra. }
      destruct (Qltb_spec p M) as [B|B].
      * apply sh_one; [unfold single_ok; cbn [amin adef amax]; destruct NS; destruct X3; geo|].
        apply sh_one; [unfold single_ok; cbn [amin adef amax]; destruct NS; geo|apply sh_nil].
      * apply sh_one; [unfold single_ok; cbn [amin adef amax]; destruct NS; destruct X3; geo|apply sh_nil].
Qed.

Lemma neg_shaped : shaped L (neg_part t L g gm).
Proof.
  pose proof (g_bounds l p u d M Hlp0 Hpu g Hg) as [G0 G1].
  assert (PU : p <= u) by (destruct Hpu; lra).
  unfold neg_part, t, L. cbn [amin adef amax].
  destruct (Qleb_spec l m) as [A|A].
  - destruct (Qeq_dec m d) as [E|N].
    + apply sh_zero; [|apply sh_nil]. assert (gm == g) by (rewrite Hgm, Hg; apply rawtent_proper_x; exact E). lra.
    + apply sh_one; [|apply sh_nil]. unfold single_ok. cbn [amin adef amax]. destruct NS; geo.
  - destruct (Qleb_spec d l) as [B|B].
    + assert (G : g == 0) by (rewrite Hg; apply rt_left; lra).
      apply sh_zero; [lra|]. apply sh_zero; [lra|]. apply sh_nil.
    + destruct (Qeqb_spec l d) as [E|_]; [lra|].
      apply sh_pairL; [|apply sh_nil]. unfold pairL_ok. cbn [amin adef amax]. destruct NS; geo.
Qed.
End Shaped.

Theorem solve_shaped : forall fuel t L sols,
  solve fuel t L = Ok sols -> amin L <= adef L -> adef L <= amax L -> good t L -> shaped L sols.
Proof.
  induction fuel as [|f IH]; intros [[l p] u] L sols HS Hmd HdM G; [discriminate|].
  destruct G as [H1 [H2 [H0 [NS [GL GU]]]]]. cbn [solve] in HS.
  destruct (Qltb_spec p (adef L)) as [A|A].
  - destruct (solve f (tent_reverse_negate (l, p, u)) (lim_reverse_negate L)) as [r|e] eqn:E; cbn [bind] in HS; [|discriminate].
    apply Ok_inj in HS. subst sols. apply shaped_rev. apply (IH _ _ r E).
    + unfold lim_reverse_negate; cbn [amin adef amax]; lra.
    + unfold lim_reverse_negate; cbn [amin adef amax]; lra.
    + unfold tent_reverse_negate, good, lim_reverse_negate. cbn [amin adef amax no_straddle] in *.
      repeat split; try lra.
      all: first [ solve [destruct NS; [right|left]; lra] | solve [destruct GU; [left|right]; lra] | solve [destruct GL; [left|right]; lra] ].
  - destruct (Qleb_spec (amax L) l) as [B1|B1]; destruct (Qltb_spec (amax L) p) as [B2|B2]; cbn [andb] in HS.
    + apply Ok_inj in HS. subst sols. constructor.
    + apply Ok_inj in HS. subst sols. rewrite solve_main_split.
      destruct L as [m d M dn dp]. cbn [amin adef amax no_straddle] in *.
      rewrite !(tentval_raw l p u) by assumption.
      apply sh_gain. apply shaped_app.
      * apply pos_shaped; try lra; try reflexivity; try assumption.
        all: try solve [destruct GL; [left; assumption|right; assumption]].
        all: try solve [destruct (Qlt_le_dec p u); [left; assumption|right]; destruct GU; lra].
      * apply neg_shaped; try lra; try reflexivity; try assumption.
        all: try solve [destruct GL; [left; assumption|right; assumption]].
        all: try solve [destruct (Qlt_le_dec p u); [left; assumption|right]; destruct GU; lra].
    + destruct (solve f (l, amax L, amax L) L) as [r|e] eqn:E; cbn [bind] in HS; [|discriminate].
      apply Ok_inj in HS. subst sols. cbn [no_straddle] in NS.
      apply shaped_scale. apply (IH _ _ r E Hmd HdM). unfold good. cbn [no_straddle]. repeat split; try lra.
      all: try solve [destruct NS; [left; lra|right; lra]].
    + apply Ok_inj in HS. subst sols. rewrite solve_main_split.
      destruct L as [m d M dn dp]. cbn [amin adef amax no_straddle] in *.
      rewrite !(tentval_raw l p u) by assumption.
      apply sh_gain. apply shaped_app.
      * apply pos_shaped; try lra; try reflexivity; try assumption.
        all: try solve [destruct GL; [left; assumption|right; assumption]].
        all: try solve [destruct (Qlt_le_dec p u); [left; assumption|right]; destruct GU; lra].
      * apply neg_shaped; try lra; try reflexivity; try assumption.
        all: try solve [destruct GL; [left; assumption|right; assumption]].
        all: try solve [destruct (Qlt_le_dec p u); [left; assumption|right]; destruct GU; lra].
Qed.

(* ---------- values ---------- *)
Section Values.
Variable L : lim.
Hypothesis Hn : 0 < dneg L.
Hypothesis Hp : 0 < dpos L.
Variable x : Q.
Hypothesis Hx1 : amin L <= x.
Hypothesis Hx2 : x <= amax L.
Local Notation U := (user_of (dneg L) (dpos L)).
Local Notation n := (renormalizeValue L).

Lemma single_value a b c : single_ok L a b c -> tentval (n a, n b, n c) (n x) == rawtent (a, b, c) x.
Proof.
  intros [Hab [Hbc [Hbd [Z [[S1 [S2 S3]]|[S1 [S2 S3]]]]]]].
  - rewrite (right_piece L Hn Hp a b c x) by assumption.
    destruct (Qltb_spec x (adef L)) as [X|X].
    + symmetry. apply rt_left; lra.
    + apply rawtent_user; assumption.
  - rewrite (left_piece L Hn Hp a b c x) by assumption.
    destruct (Qltb_spec (adef L) x) as [X|X].
    + symmetry. apply rt_right; lra.
    + apply rawtent_user; assumption.
Qed.

Lemma pairR_value a b c : pairR_ok L a b c ->
  tentval (n a, n b, n c) (n x) + tentval (n b, n c, n c) (n x) == rawtent (a, b, c) x + rawtent (b, c, c) x.
Proof.
  intros [S1 [S2 [S3 [S4 [S5 Z]]]]].
  rewrite (right_piece L Hn Hp a b c x) by (try assumption; lra).
  rewrite (right_piece L Hn Hp b c c x) by (try assumption; lra).
  destruct (Qltb_spec x (adef L)) as [X|X].
  - rewrite (rt_left a b c x) by lra. rewrite (rt_left b c c x) by lra. reflexivity.
  - destruct (Qlt_le_dec c x) as [Xc|Xc].
    + pose proof (U_lt _ _ Hn Hp c x Xc) as P1. pose proof (U_le _ _ Hn Hp a b S2) as P2. pose proof (U_lt _ _ Hn Hp b c S3) as P3.
      rewrite (rt_right a b c x) by lra. rewrite (rt_right b c c x) by lra.
      absU. rewrite rt_right by lra. rewrite rt_right by lra. reflexivity.
    + apply pair_user_R; assumption.
Qed.
Lemma pairL_value a b c : pairL_ok L a b c ->
  tentval (n a, n b, n c) (n x) + tentval (n a, n a, n b) (n x) == rawtent (a, b, c) x + rawtent (a, a, b) x.
Proof.
  intros [S1 [S2 [S3 [S4 [S5 Z]]]]].
  rewrite (left_piece L Hn Hp a b c x) by (try assumption; lra).
  rewrite (left_piece L Hn Hp a a b x) by (try assumption; lra).
  destruct (Qltb_spec (adef L) x) as [X|X].
  - rewrite (rt_right a b c x) by lra. rewrite (rt_right a a b x) by lra. reflexivity.
  - destruct (Qlt_le_dec x a) as [Xa|Xa].
    + pose proof (U_lt _ _ Hn Hp x a Xa) as P1. pose proof (U_lt _ _ Hn Hp a b S2) as P2. pose proof (U_le _ _ Hn Hp b c S3) as P3.
      rewrite (rt_left a b c x) by lra. rewrite (rt_left a a b x) by lra.
      absU. rewrite rt_left by lra. rewrite rt_left by lra. reflexivity.
    + apply pair_user_L; assumption.
Qed.

Local Notation renorm_piece := (fun s : sol => (fst s, option_map (fun v : tent => let '(a, b, c) := v in (n a, n b, n c)) (snd s))).
Local Notation nonzero := (fun s : sol => negb (Qeqb (fst s) 0)).

Lemma shaped_value sols : shaped L sols ->
  sols_value (map renorm_piece (filter nonzero sols)) (n x) == sols_raw (filter nonzero sols) x.
Proof.
  induction 1 as [|w r H IH|w [[a b] c] r Z H IH|w a b c r S H IH|w a b c r S H IH|w a b c r S H IH]; cbn [filter fst].
  - reflexivity.
  - destruct (Qeqb w 0); cbn [negb]; [exact IH|]. cbn [map sols_value sols_raw]. rewrite IH. reflexivity.
  - destruct (Qeqb_spec w 0); [cbn [negb]; exact IH|contradiction].
  - destruct (Qeqb w 0); cbn [negb]; [exact IH|]. cbn [map sols_value sols_raw]. rewrite IH.
    unfold sol_value, sol_raw. cbn [fst snd option_map]. rewrite (single_value a b c S). reflexivity.
  - destruct (Qeqb w 0); cbn [negb]; [exact IH|]. cbn [map sols_value sols_raw]. rewrite IH.
    unfold sol_value, sol_raw. cbn [fst snd option_map]. pose proof (pairR_value a b c S) as P.
    set (v1 := tentval (n a, n b, n c) (n x)) in *. set (v2 := tentval (n b, n c, n c) (n x)) in *.
    set (r1 := rawtent (a, b, c) x) in *. set (r2 := rawtent (b, c, c) x) in *.
    setoid_replace (w * v1 + (w * v2 + sols_raw (filter nonzero r) x)) with (w * (v1 + v2) + sols_raw (filter nonzero r) x) by ring.
    rewrite P. ring.
  - destruct (Qeqb w 0); cbn [negb]; [exact IH|]. cbn [map sols_value sols_raw]. rewrite IH.
    unfold sol_value, sol_raw. cbn [fst snd option_map]. pose proof (pairL_value a b c S) as P.
    set (v1 := tentval (n a, n b, n c) (n x)) in *. set (v2 := tentval (n a, n a, n b) (n x)) in *.
    set (r1 := rawtent (a, b, c) x) in *. set (r2 := rawtent (a, a, b) x) in *.
    setoid_replace (w * v1 + (w * v2 + sols_raw (filter nonzero r) x)) with (w * (v1 + v2) + sols_raw (filter nonzero r) x) by ring.
    rewrite P. ring.
Qed.
End Values.

(* rebaseTent END TO END, every limit triple *)
Theorem rebase_exact t L out x :
  rebaseTent t L = Ok out -> good t L -> 0 < dneg L -> 0 < dpos L -> amin L <= x -> x <= amax L ->
  sols_value out (renormalizeValue L x) == tentval t x.
Proof.
  destruct t as [[l p] u]. intros H G Hn Hp Hx1 Hx2. unfold rebaseTent in H.
  destruct (Qleb_spec (-1) (amin L)); cbn [andb negb] in H; [|discriminate].
  destruct (Qleb_spec (amin L) (adef L)) as [Hmd|]; cbn [andb negb] in H; [|discriminate].
  destruct (Qleb_spec (adef L) (amax L)) as [HdM|]; cbn [andb negb] in H; [|discriminate].
  destruct (Qleb_spec (amax L) 1); cbn [andb negb] in H; [|discriminate].
  destruct (negb (Qleb (-2) l && Qleb l p && Qleb p u && Qleb u 2)); [discriminate|].
  destruct (Qeqb p 0); [discriminate|].
  destruct (solve 4 (l, p, u) L) as [sols|e] eqn:E; cbn [bind] in H; [|discriminate].
  apply Ok_inj in H. subst out.
  rewrite (shaped_value L Hn Hp x Hx1 Hx2 sols (solve_shaped 4 (l, p, u) L sols E Hmd HdM G)).
  rewrite sols_raw_filter. rewrite (solve_exact 4 (l, p, u) L sols x E Hmd HdM G Hx1 Hx2).
  destruct G as [H1 [H2 [H0 [NS _]]]]. rewrite tentval_raw by assumption. reflexivity.
Qed.

(* non-vacuity: an asymmetric axis (user distances 300 below, 500 above the old default), the tent (-1, -1/2, -1/4) of a master on the
   negative side, and new limits -3/4 : -3/8 : 1/2 that move the default onto the tent's down-slope and span the old default: the two
   pieces that cancel the gain beyond the tent's upper end, (-3/8, -1/4, 1/2) and (-1/4, 1/2, 1/2), span the kink *)
Example rebase_exact_example :
  let t : tent := (-1, - (1 # 2), - (1 # 4)) in let L := mkLim (- (3 # 4)) (- (3 # 8)) (1 # 2) 300 500 in
  good t L /\
  match rebaseTent t L with Ok out => (sols_value out (renormalizeValue L (1 # 8)) == 0
                                       /\ sols_value out (renormalizeValue L (- (5 # 16))) == 1 # 4
                                       /\ sols_value out (renormalizeValue L (- (5 # 8))) == 3 # 4) | Err _ => False end.
Proof. split; [cbn; repeat split; try lra; first [left; lra|right; lra]|]. vm_compute. repeat split; reflexivity. Qed.
