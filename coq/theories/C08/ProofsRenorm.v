(* C08/ProofsRenorm.v — helpers for the end-to-end rebaseTent theorem: facts about the gain, tents read through an increasing affine map,
   extensionality of tents *)
From Coq Require Import QArith List Bool Lqa Setoid Morphisms.
From FV Require Import Base.Ser Base.Res Geom.QTools C09.Model C09.Proofs C08.Model C08.Proofs C08.ProofsSolve.
Import ListNotations.
Open Scope Q_scope.

Section Shape.
Variables l p u m d M dn dp : Q.
Let L := mkLim m d M dn dp.
Let t : tent := (l, p, u).
Hypothesis Hlp0 : l <= p.
Hypothesis Hlp : l < p \/ p <= m.
Hypothesis Hpu : p < u \/ (p == u /\ M == p).
Hypothesis Hmd : m <= d.
Hypothesis Hdp : d <= p.
Hypothesis HpM : p <= M.
Variables g oG gm : Q.
Hypothesis Hg : g == rawtent t d.
Hypothesis HoG : oG == rawtent t M.
Hypothesis Hgm : gm == rawtent t m.

Lemma g_one_iff : d == p -> g == 1.
Proof. intros E. rewrite Hg. apply rt_peak. exact E. Qed.
Lemma g_lt_one : d < p -> g < 1.
Proof.
  intros Hd. assert (PU : p <= u) by (destruct Hpu; lra).
  assert (Hl : l < p) by (destruct Hlp; lra).
  destruct (Qlt_le_dec l d).
  - assert (G : g == (d - l) / (p - l)) by (rewrite Hg; apply rt_rise_le; lra).
    rewrite G. apply Qlt_shift_div_r; lra.
  - assert (G : g == 0) by (rewrite Hg; apply rt_left; lra). lra.
Qed.
Lemma oG_le_one : oG <= 1.
Proof. rewrite HoG. apply rawtent_bounds; destruct Hpu; lra. Qed.

End Shape.

(* ---------- a tent read through an increasing affine map of the axis ---------- *)
Section Phi.
Variables d D : Q.
Hypothesis HD : 0 < D.
Definition phi (v : Q) : Q := (v - d) / D.
Lemma phi_lt v w : v < w -> phi v < phi w.
Proof. intros H. unfold phi, Qdiv. apply Qmult_lt_compat_r; [apply Qinv_lt_0_compat; exact HD|lra]. Qed.
Lemma phi_le v w : v <= w -> phi v <= phi w.
Proof. intros H. unfold phi, Qdiv. apply Qmult_le_compat_r; [lra|apply Qlt_le_weak, Qinv_lt_0_compat; exact HD]. Qed.
Lemma phi_eq v w : v == w -> phi v == phi w.
Proof. intros H. unfold phi. rewrite H. reflexivity. Qed.

Lemma rawtent_phi a b c x : a <= b -> b <= c -> rawtent (phi a, phi b, phi c) (phi x) == rawtent (a, b, c) x.
Proof.
  intros Hab Hbc.
  pose proof (phi_le a b Hab) as Pab. pose proof (phi_le b c Hbc) as Pbc.
  destruct (Q_dec x b) as [[Lt|Gt]|E].
  - pose proof (phi_lt x b Lt) as P1.
    destruct (Qlt_le_dec a x) as [Ax|Ax].
    + pose proof (phi_lt a x Ax) as P2.
      rewrite (rt_rise a b c x) by lra. 
      assert (R : rawtent (phi a, phi b, phi c) (phi x) == (phi x - phi a) / (phi b - phi a)).
      { set (fa := phi a) in *. set (fb := phi b) in *. set (fc := phi c) in *. set (fx := phi x) in *. apply rt_rise; lra. }
      rewrite R. unfold phi. field. split; lra.
    + pose proof (phi_le x a Ax) as P2.
      rewrite (rt_left a b c x) by lra.
      set (fa := phi a) in *. set (fb := phi b) in *. set (fc := phi c) in *. set (fx := phi x) in *. apply rt_left; lra.
  - pose proof (phi_lt b x Gt) as P1.
    destruct (Qlt_le_dec x c) as [Cx|Cx].
    + pose proof (phi_lt x c Cx) as P2.
      rewrite (rt_fall a b c x) by lra.
      assert (R : rawtent (phi a, phi b, phi c) (phi x) == (phi x - phi c) / (phi b - phi c)).
      { set (fa := phi a) in *. set (fb := phi b) in *. set (fc := phi c) in *. set (fx := phi x) in *. apply rt_fall; lra. }
      rewrite R. unfold phi. field. split; lra.
    + pose proof (phi_le c x Cx) as P2.
      rewrite (rt_right a b c x) by lra.
      set (fa := phi a) in *. set (fb := phi b) in *. set (fc := phi c) in *. set (fx := phi x) in *. apply rt_right; lra.
  - rewrite (rt_peak a b c x E). apply rt_peak. apply phi_eq. exact E.
Qed.
End Phi.

(* tents and their values respect == in every argument *)
Lemma Qeqb_ext a b a' b' : a == a' -> b == b' -> Qeqb a b = Qeqb a' b'.
Proof. intros. destruct (Qeqb_spec a b), (Qeqb_spec a' b'); try reflexivity; lra. Qed.
Lemma Qleb_ext a b a' b' : a == a' -> b == b' -> Qleb a b = Qleb a' b'.
Proof. intros. destruct (Qleb_spec a b), (Qleb_spec a' b'); try reflexivity; lra. Qed.
Lemma Qltb_ext a b a' b' : a == a' -> b == b' -> Qltb a b = Qltb a' b'.
Proof. intros. destruct (Qltb_spec a b), (Qltb_spec a' b'); try reflexivity; lra. Qed.
Lemma rawtent_ext a b c x a' b' c' x' : a == a' -> b == b' -> c == c' -> x == x' -> rawtent (a, b, c) x == rawtent (a', b', c') x'.
Proof.
  intros Ha Hb Hc Hx. unfold rawtent.
  rewrite (Qeqb_ext x b x' b' Hx Hb), (Qleb_ext x a x' a' Hx Ha), (Qleb_ext c x c' x' Hc Hx), (Qltb_ext x b x' b' Hx Hb).
  destruct (Qeqb x' b'); [reflexivity|]. destruct (Qleb x' a' || Qleb c' x'); [reflexivity|].
  destruct (Qltb x' b'); rewrite ?Ha, ?Hb, ?Hc, ?Hx; reflexivity.
Qed.
Lemma tentval_ext a b c x a' b' c' x' : a == a' -> b == b' -> c == c' -> x == x' -> tentval (a, b, c) x == tentval (a', b', c') x'.
Proof.
  intros Ha Hb Hc Hx. unfold tentval.
  rewrite (Qeqb_ext b 0 b' 0 Hb ltac:(reflexivity)), (Qltb_ext b a b' a' Hb Ha), (Qltb_ext c b c' b' Hc Hb),
          (Qltb_ext a 0 a' 0 Ha ltac:(reflexivity)), (Qltb_ext 0 c 0 c' ltac:(reflexivity) Hc).
  destruct (Qeqb b' 0); [reflexivity|]. destruct (Qltb b' a' || Qltb c' b'); [reflexivity|].
  destruct (Qltb a' 0 && Qltb 0 c'); [reflexivity|]. apply rawtent_ext; assumption.
Qed.

