(* C08/Model.v — instancing: the model is C09's (normalizeValue, tentval, renormalizeValue, _solve/rebaseTent);
   this file only adds the user-space reading of normalised coordinates that the property speaks about. *)
From Coq Require Import QArith List Bool.
From FV Require Import Base.Ser Base.Res Geom.QTools C09.Model.
Import ListNotations.
Open Scope Q_scope.

(* user-space offset from the axis default of the old-normalised coordinate v; dn/dp are the user-space distances
   default-minimum and maximum-default (NormalizedAxisTripleAndDistances.distanceNegative/Positive) *)
Definition user_of (dn dp : Q) (v : Q) : Q := if Qleb 0 v then v * dp else v * dn.

(* value of a rebased solution list at the new-normalised coordinate y: the gain (tent None) is always on *)
Definition sol_value (s : sol) (y : Q) : Q :=
  match snd s with None => fst s | Some t => fst s * tentval t y end.
Fixpoint sols_value (l : list sol) (y : Q) : Q :=
  match l with [] => 0 | s :: r => sol_value s y + sols_value r y end.

(* a tent that does not span zero (OpenType ignores the others) *)
Definition no_straddle (t : tent) : Prop := let '(l, p, u) := t in 0 <= l \/ u <= 0.
Fixpoint sum_fst (l : list sol) : Q := match l with [] => 0 | s :: r => fst s + sum_fst r end.
