(* C08/Model.v — instancing: the model is C09's (normalizeValue, tentval, renormalizeValue, _solve/rebaseTent);
   this file only adds the user-space reading of normalised coordinates that the property speaks about. *)
From Coq Require Import QArith List Bool.
From FV Require Import Base.Ser Base.Res Geom.QTools C09.Model.
Import ListNotations.
Open Scope Q_scope.

(* user-space offset from the axis default of the old-normalised coordinate v; dn/dp are the user-space distances
   default-minimum and maximum-default (NormalizedAxisTripleAndDistances.distanceNegative/Positive) *)
Definition user_of (dn dp : Q) (v : Q) : Q := if Qleb 0 v then v * dp else v * dn.

(* value of a rebased solution list at the new-normalised coordinate y: the gain (tent None) is always on *)
Definition sol_value (s : sol) (y : Q) : Q :=
  match snd s with None => fst s | Some t => fst s * tentval t y end.
Fixpoint sols_value (l : list sol) (y : Q) : Q :=
  match l with [] => 0 | s :: r => sol_value s y + sols_value r y end.

(* a tent that does not span zero (OpenType ignores the others) *)
Definition no_straddle (t : tent) : Prop := let '(l, p, u) := t in 0 <= l \/ u <= 0.
Fixpoint sum_fst (l : list sol) : Q := match l with [] => 0 | s :: r => fst s + sum_fst r end.

(* ---- _solve's pieces read in OLD coordinates with the plain tent function (before rebaseTent renormalises their corners) *)
Definition sol_raw (s : sol) (x : Q) : Q := match snd s with None => fst s | Some t => fst s * rawtent t x end.
Fixpoint sols_raw (l : list sol) (x : Q) : Q := match l with [] => 0 | s :: r => sol_raw s x + sols_raw r x end.

(* the tents the theorem speaks about: a proper OpenType tent (ordered, peak not 0, not spanning 0) that is CONTINUOUS on the new range:
   a vertical flank (lower == peak or peak == upper) is allowed only at or beyond the end of the range *)
Definition good (t : tent) (L : lim) : Prop :=
  let '(l, p, u) := t in
  l <= p /\ p <= u /\ ~ p == 0 /\ no_straddle t /\ (l < p \/ p <= amin L) /\ (p < u \/ amax L <= p).
