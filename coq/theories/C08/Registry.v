From Coq Require Import QArith List String Bool.
From FV Require Import Base.Ser Base.Res C09.Model C09.Registry C08.Model.
Import ListNotations.
Open Scope string_scope.
(* the instancing arithmetic is C09's model (one model, two properties) *)
Definition reg : registry := C09.Registry.reg.
Definition fv_entry := dispatch reg.
