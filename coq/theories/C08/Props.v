(* C08/Props.v — property theorems only *)
From Coq Require Import QArith List Bool.
From FV Require Import Base.Ser Base.Res Geom.QTools C09.Model C08.Model C08.Proofs C08.ProofsSolve C08.ProofsRenorm C08.ProofsRenormU.
Import ListNotations.
Open Scope Q_scope.

(* the new normalised coordinate of any point of the restricted range is exactly what normalising its USER-SPACE position against the
   new user-space (minimum, default, maximum) gives: user coordinates keep their meaning, for moved defaults on asymmetric axes too *)
Theorem renormalize_keeps_user_meaning : forall L v,
  amin L < adef L -> adef L < amax L -> 0 < dneg L -> 0 < dpos L -> amin L <= v -> v <= amax L ->
  let u := user_of (dneg L) (dpos L) in
  exists r, normalizeValue (u v) (u (amin L)) (u (adef L)) (u (amax L)) = Ok r /\ r == renormalizeValue L v.
Proof. exact Proofs.renormalize_keeps_user_meaning. Qed.
Print Assumptions renormalize_keeps_user_meaning.

(* instancing preserves the ORDER of locations along a restricted axis: the new normalised coordinate is strictly increasing in the old *)
Theorem renormalize_increasing : forall L v1 v2,
  amin L < adef L -> adef L < amax L -> 0 < dneg L -> 0 < dpos L -> amin L <= v1 -> v1 < v2 -> v2 <= amax L ->
  renormalizeValue L v1 < renormalizeValue L v2.
Proof. exact Proofs.renormalize_increasing. Qed.
Print Assumptions renormalize_increasing.

(* PINNING an axis (min = default = max): rebaseTent leaves at most the always-on delta set, scaled by the tent's value at the pin --
   for every tent shape, on either side of the pin, clipped or not; a pinned axis therefore disappears from the variation data *)
Theorem rebase_pin : forall t L sols, no_straddle t -> amin L == adef L -> amax L == adef L ->
  rebaseTent t L = Ok sols ->
  Forall (fun s : sol => snd s = None) sols /\ sum_fst sols == tentval t (adef L).
Proof. exact Proofs.rebase_pin. Qed.
Print Assumptions rebase_pin.
Example rebase_pin_example : rebaseTent (0, 1, 1) (mkLim (1 # 2) (1 # 2) (1 # 2) 1 1) = Ok [(1 # 2, None)].
Proof. vm_compute. reflexivity. Qed.

(* non-vacuity: wght 100-400-900 restricted to 100:700:900 (normalised -1, 0.6, 1), a master at 250 (normalised -0.5) *)
Example user_meaning_example :
  renormalizeValue (mkLim (-1) (6 # 10) 1 300 500) (- (1 # 2)) == - (450 # 600).
Proof. vm_compute. reflexivity. Qed.

(* _solve is EXACT: for every tent that is continuous on the new range (a vertical flank only at or beyond an end of the range), every
   limit triple min <= default <= max and every x in [min, max], the pieces _solve returns -- read in the OLD coordinates, before
   rebaseTent renormalises their corners -- sum to the original tent's value at x. All geometric cases at once: peak left or right of
   the new default (mirroring), peak beyond the range (clipping and scaling), crossing point, one or two closing tents, the EPSILON nudges
   (which only ever carry a zero scalar), default on the peak, min == default, default == max. *)
Theorem solve_exact : forall fuel t L sols x,
  solve fuel t L = Ok sols -> amin L <= adef L -> adef L <= amax L -> good t L ->
  amin L <= x -> x <= amax L ->
  sols_raw sols x == rawtent t x.
Proof. exact ProofsSolve.solve_exact. Qed.
Print Assumptions solve_exact.

(* ... the model's fuel always suffices, and dropping the zero-scalar pieces (as rebaseTent does) keeps the sum *)
Theorem rebase_pieces_exact : forall t L x,
  amin L <= adef L -> adef L <= amax L -> good t L -> amin L <= x -> x <= amax L ->
  exists sols, solve 4 t L = Ok sols /\
    sols_raw (filter (fun s : sol => negb (Qeqb (fst s) 0)) sols) x == rawtent t x.
Proof. exact ProofsSolve.rebase_pieces_exact. Qed.
Print Assumptions rebase_pieces_exact.

(* rebaseTent END TO END: the pieces it returns (zero scalars dropped, corners renormalised), evaluated the way OpenType evaluates
   regions (tentval: a region whose peak is 0 or that spans 0 is ignored) at the renormalised location, give the original tent's value
   at every location of the new range -- for every tent continuous on the new range, every limit triple (default kept or moved, range
   one-sided or spanning the old default) and every pair of positive user-space distances. The instanced font therefore weights each
   delta set exactly as the original does at the corresponding location. *)
Theorem rebase_exact : forall t L out x,
  rebaseTent t L = Ok out -> good t L -> 0 < dneg L -> 0 < dpos L -> amin L <= x -> x <= amax L ->
  sols_value out (renormalizeValue L x) == tentval t x.
Proof. exact ProofsRenormU.rebase_exact. Qed.
Print Assumptions rebase_exact.
