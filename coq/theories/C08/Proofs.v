(* C08/Proofs.v *)
From Coq Require Import QArith List Bool Lqa.
From FV Require Import Base.Ser Base.Res Geom.QTools C09.Model C08.Model.
Import ListNotations.
Open Scope Q_scope.

Lemma user_mono dn dp a b : 0 < dn -> 0 < dp -> a < b -> user_of dn dp a < user_of dn dp b.
Proof.
  intros Hn Hp H. unfold user_of. destruct (Qleb_spec 0 a); destruct (Qleb_spec 0 b); try nra.
Qed.
Lemma user_mono_le dn dp a b : 0 < dn -> 0 < dp -> a <= b -> user_of dn dp a <= user_of dn dp b.
Proof.
  intros Hn Hp H. unfold user_of. destruct (Qleb_spec 0 a); destruct (Qleb_spec 0 b); try nra.
Qed.

(* THE NEW NORMALISED COORDINATE OF A POINT IS WHAT NORMALISING ITS USER-SPACE POSITION ON THE NEW AXIS GIVES:
   user-space coordinates keep their meaning across instancing *)
Theorem renormalize_keeps_user_meaning L v :
  amin L < adef L -> adef L < amax L -> 0 < dneg L -> 0 < dpos L -> amin L <= v -> v <= amax L ->
  let u := user_of (dneg L) (dpos L) in
  exists r, normalizeValue (u v) (u (amin L)) (u (adef L)) (u (amax L)) = Ok r /\ r == renormalizeValue L v.
Proof.
  intros H1 H2 Hn Hp Hv1 Hv2 u.
  assert (MU: forall a b, a < b -> u a < u b) by (intros a b K; apply user_mono; assumption).
  assert (ML: forall a b, a <= b -> u a <= u b) by (intros a b K; apply user_mono_le; assumption).
  pose proof (MU _ _ H1) as M1. pose proof (MU _ _ H2) as M2. pose proof (ML _ _ Hv1) as M3. pose proof (ML _ _ Hv2) as M4.
  unfold normalizeValue.
  destruct (Qleb_spec (u (amin L)) (u (adef L))); [|lra]. destruct (Qleb_spec (u (adef L)) (u (amax L))); [|lra]. cbn [andb negb].
  assert (W: Qmax (Qmin (u v) (u (amax L))) (u (amin L)) == u v).
  { unfold Qmax, Qmin. destruct (Qleb_spec (u v) (u (amax L))); [|lra]. destruct (Qleb_spec (u v) (u (amin L))); lra. }
  set (w := Qmax (Qmin (u v) (u (amax L))) (u (amin L))) in *.
  destruct (Qeqb_spec w (u (adef L))) as [E|NE].
  - (* the point is the new default *)
    cbn [orb]. eexists. split; [reflexivity|].
    assert (v == adef L).
    { destruct (Qlt_le_dec v (adef L)) as [A|A]; [pose proof (MU _ _ A); lra|].
      destruct (Qlt_le_dec (adef L) v) as [B|B]; [pose proof (MU _ _ B); lra|lra]. }
    unfold renormalizeValue. destruct (Qeqb_spec v (adef L)); [reflexivity|contradiction].
  - assert (NV: ~ v == adef L).
    { intro K. apply NE. rewrite W. unfold u, user_of. destruct (Qleb_spec 0 v); destruct (Qleb_spec 0 (adef L)); try lra; rewrite K; reflexivity. }
    destruct (Qeqb_spec (u (amin L)) (u (amax L))); [lra|]. cbn [orb].
    destruct (Qeqb_spec (u (amin L)) (u (adef L))); [lra|]. destruct (Qeqb_spec (u (amax L)) (u (adef L))); [lra|].
    cbn [negb andb]. rewrite !andb_true_r, !andb_false_r, !orb_false_r.
    unfold renormalizeValue. destruct (Qeqb_spec v (adef L)); [contradiction|].
    unfold renorm_pos, lim_reverse_negate. cbn [amin adef amax dneg dpos].
    destruct (Qltb_spec w (u (adef L))) as [A|A].
    + (* below the new default *)
      assert (VA: v < adef L).
      { destruct (Qlt_le_dec v (adef L)) as [K|K]; [assumption|]. pose proof (ML _ _ K). lra. }
      eexists. split; [reflexivity|]. rewrite W. unfold u, user_of.
      destruct (Qltb_spec (adef L) 0).
      * destruct (Qltb_spec (- adef L) (- v)); [|lra].
        destruct (Qleb_spec 0 v); [lra|]. destruct (Qleb_spec 0 (adef L)); [lra|]. destruct (Qleb_spec 0 (amin L)); [lra|].
        field; repeat split; nra.
      * destruct (Qltb_spec (adef L) v); [lra|].
        destruct (Qleb_spec 0 (adef L)); [|lra].
        destruct (Qleb_spec 0 (amin L)).
        -- destruct (Qleb_spec 0 v); [|lra]. field; repeat split; nra.
        -- destruct (Qleb_spec 0 v).
           ++ assert (T: ~ dneg L * - amin L + dpos L * adef L == 0) by nra. field; repeat split; try exact T; nra.
           ++ assert (T: ~ dneg L * - amin L + dpos L * adef L == 0) by nra. field; repeat split; try exact T; nra.
    + (* above the new default *)
      assert (VA: adef L < v).
      { destruct (Qlt_le_dec (adef L) v) as [K|K]; [assumption|]. pose proof (ML _ _ K). lra. }
      eexists. split; [reflexivity|]. rewrite W. unfold u, user_of.
      destruct (Qltb_spec (adef L) 0).
      * destruct (Qltb_spec (- adef L) (- v)); [lra|].
        destruct (Qleb_spec 0 (adef L)); [lra|].
        destruct (Qleb_spec 0 (- amax L)).
        -- destruct (Qleb_spec 0 v).
           ++ destruct (Qleb_spec 0 (amax L)); [|lra]. assert (E1: v == 0) by lra. assert (E2: amax L == 0) by lra. rewrite E1, E2. field; repeat split; nra.
           ++ destruct (Qleb_spec 0 (amax L)).
              ** assert (E2: amax L == 0) by lra. rewrite E2. field; repeat split; nra.
              ** field; repeat split; nra.
        -- destruct (Qleb_spec 0 (amax L)); [|lra].
           destruct (Qleb_spec 0 (- v)).
           ++ destruct (Qleb_spec 0 v).
              ** assert (E1: v == 0) by lra. rewrite E1.
                 assert (T: ~ dpos L * - - amax L + dneg L * - adef L == 0) by nra. field; repeat split; try exact T; nra.
              ** assert (T: ~ dpos L * - - amax L + dneg L * - adef L == 0) by nra. field; repeat split; try exact T; nra.
           ++ destruct (Qleb_spec 0 v); [|lra].
              assert (T: ~ dpos L * - - amax L + dneg L * - adef L == 0) by nra. field; repeat split; try exact T; nra.
      * destruct (Qltb_spec (adef L) v); [|lra].
        destruct (Qleb_spec 0 v); [|lra]. destruct (Qleb_spec 0 (adef L)); [|lra]. destruct (Qleb_spec 0 (amax L)); [|lra].
        field; repeat split; nra.
Qed.
