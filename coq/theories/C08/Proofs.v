(* C08/Proofs.v *)
From Coq Require Import QArith List Bool Lqa Setoid Morphisms.
From FV Require Import Base.Ser Base.Res Geom.QTools C09.Model C09.Proofs C08.Model.
Import ListNotations.
Open Scope Q_scope.

Lemma user_mono dn dp a b : 0 < dn -> 0 < dp -> a < b -> user_of dn dp a < user_of dn dp b.
Proof.
  intros Hn Hp H. unfold user_of. destruct (Qleb_spec 0 a); destruct (Qleb_spec 0 b); try nra.
Qed.
Lemma user_mono_le dn dp a b : 0 < dn -> 0 < dp -> a <= b -> user_of dn dp a <= user_of dn dp b.
Proof.
  intros Hn Hp H. unfold user_of. destruct (Qleb_spec 0 a); destruct (Qleb_spec 0 b); try nra.
Qed.

(* THE NEW NORMALISED COORDINATE OF A POINT IS WHAT NORMALISING ITS USER-SPACE POSITION ON THE NEW AXIS GIVES:
   user-space coordinates keep their meaning across instancing *)
Theorem renormalize_keeps_user_meaning L v :
  amin L < adef L -> adef L < amax L -> 0 < dneg L -> 0 < dpos L -> amin L <= v -> v <= amax L ->
  let u := user_of (dneg L) (dpos L) in
  exists r, normalizeValue (u v) (u (amin L)) (u (adef L)) (u (amax L)) = Ok r /\ r == renormalizeValue L v.
Proof.
  intros H1 H2 Hn Hp Hv1 Hv2 u.
  assert (MU: forall a b, a < b -> u a < u b) by (intros a b K; apply user_mono; assumption).
  assert (ML: forall a b, a <= b -> u a <= u b) by (intros a b K; apply user_mono_le; assumption).
  pose proof (MU _ _ H1) as M1. pose proof (MU _ _ H2) as M2. pose proof (ML _ _ Hv1) as M3. pose proof (ML _ _ Hv2) as M4.
  unfold normalizeValue.
  destruct (Qleb_spec (u (amin L)) (u (adef L))); [|lra]. destruct (Qleb_spec (u (adef L)) (u (amax L))); [|lra]. cbn [andb negb].
  assert (W: Qmax (Qmin (u v) (u (amax L))) (u (amin L)) == u v).
  { unfold Qmax, Qmin. destruct (Qleb_spec (u v) (u (amax L))); [|lra]. destruct (Qleb_spec (u v) (u (amin L))); lra. }
  set (w := Qmax (Qmin (u v) (u (amax L))) (u (amin L))) in *.
  destruct (Qeqb_spec w (u (adef L))) as [E|NE].
  - (* the point is the new default *)
    cbn [orb]. eexists. split; [reflexivity|].
    assert (v == adef L).
    { destruct (Qlt_le_dec v (adef L)) as [A|A]; [pose proof (MU _ _ A); lra|].
      destruct (Qlt_le_dec (adef L) v) as [B|B]; [pose proof (MU _ _ B); lra|lra]. }
    unfold renormalizeValue. destruct (Qeqb_spec v (adef L)); [reflexivity|contradiction].
  - assert (NV: ~ v == adef L).
    { intro K. apply NE. rewrite W. unfold u, user_of. destruct (Qleb_spec 0 v); destruct (Qleb_spec 0 (adef L)); try lra; rewrite K; reflexivity. }
    destruct (Qeqb_spec (u (amin L)) (u (amax L))); [lra|]. cbn [orb].
    destruct (Qeqb_spec (u (amin L)) (u (adef L))); [lra|]. destruct (Qeqb_spec (u (amax L)) (u (adef L))); [lra|].
    cbn [negb andb]. rewrite !andb_true_r, !andb_false_r, !orb_false_r.
    unfold renormalizeValue. destruct (Qeqb_spec v (adef L)); [contradiction|].
    unfold renorm_pos, lim_reverse_negate. cbn [amin adef amax dneg dpos].
    destruct (Qltb_spec w (u (adef L))) as [A|A].
    + (* below the new default *)
      assert (VA: v < adef L).
      { destruct (Qlt_le_dec v (adef L)) as [K|K]; [assumption|]. pose proof (ML _ _ K). lra. }
      eexists. split; [reflexivity|]. rewrite W. unfold u, user_of.
      destruct (Qltb_spec (adef L) 0).
      * destruct (Qltb_spec (- adef L) (- v)); [|lra].
        destruct (Qleb_spec 0 v); [lra|]. destruct (Qleb_spec 0 (adef L)); [lra|]. destruct (Qleb_spec 0 (amin L)); [lra|].
        field; repeat split; nra.
      * destruct (Qltb_spec (adef L) v); [lra|].
        destruct (Qleb_spec 0 (adef L)); [|lra].
        destruct (Qleb_spec 0 (amin L)).
        -- destruct (Qleb_spec 0 v); [|lra]. field; repeat split; nra.
        -- destruct (Qleb_spec 0 v).
           ++ assert (T: ~ dneg L * - amin L + dpos L * adef L == 0) by nra. field; repeat split; try exact T; nra.
           ++ assert (T: ~ dneg L * - amin L + dpos L * adef L == 0) by nra. field; repeat split; try exact T; nra.
    + (* above the new default *)
      assert (VA: adef L < v).
      { destruct (Qlt_le_dec (adef L) v) as [K|K]; [assumption|]. pose proof (ML _ _ K). lra. }
      eexists. split; [reflexivity|]. rewrite W. unfold u, user_of.
      destruct (Qltb_spec (adef L) 0).
      * destruct (Qltb_spec (- adef L) (- v)); [lra|].
        destruct (Qleb_spec 0 (adef L)); [lra|].
        destruct (Qleb_spec 0 (- amax L)).
        -- destruct (Qleb_spec 0 v).
           ++ destruct (Qleb_spec 0 (amax L)); [|lra]. assert (E1: v == 0) by lra. assert (E2: amax L == 0) by lra. rewrite E1, E2. field; repeat split; nra.
           ++ destruct (Qleb_spec 0 (amax L)).
              ** assert (E2: amax L == 0) by lra. rewrite E2. field; repeat split; nra.
              ** field; repeat split; nra.
        -- destruct (Qleb_spec 0 (amax L)); [|lra].
           destruct (Qleb_spec 0 (- v)).
           ++ destruct (Qleb_spec 0 v).
              ** assert (E1: v == 0) by lra. rewrite E1.
                 assert (T: ~ dpos L * - - amax L + dneg L * - adef L == 0) by nra. field; repeat split; try exact T; nra.
              ** assert (T: ~ dpos L * - - amax L + dneg L * - adef L == 0) by nra. field; repeat split; try exact T; nra.
           ++ destruct (Qleb_spec 0 v); [|lra].
              assert (T: ~ dpos L * - - amax L + dneg L * - adef L == 0) by nra. field; repeat split; try exact T; nra.
      * destruct (Qltb_spec (adef L) v); [|lra].
        destruct (Qleb_spec 0 v); [|lra]. destruct (Qleb_spec 0 (adef L)); [|lra]. destruct (Qleb_spec 0 (amax L)); [|lra].
        field; repeat split; nra.
Qed.

(* ---------- pinning an axis: only the always-on delta remains, scaled by the tent's value at the pin ---------- *)
Lemma tentval_near_peak l p u x : l <= p -> p <= u -> x == p -> tentval (l, p, u) x == 1.
Proof.
  intros H1 H2 Hx. unfold tentval. destruct (Qeqb_spec p 0); [reflexivity|].
  destruct (Qltb_spec p l); [lra|]. destruct (Qltb_spec u p); [lra|]. cbn [orb].
  destruct (Qltb_spec l 0); destruct (Qltb_spec 0 u); cbn [andb]; try reflexivity;
    unfold rawtent; destruct (Qeqb_spec x p); try reflexivity; contradiction.
Qed.

(* with all three limits at the peak, _solve's main case keeps the gain 1 and every other piece has scalar 0 *)
Lemma solve_main_pin l p u L : l <= p -> p <= u -> amin L == p -> adef L == p -> amax L == p ->
  exists g rest, solve_main (l, p, u) L = (g, None) :: rest /\ g == 1 /\ Forall (fun s : sol => fst s == 0) rest.
Proof.
  intros H1 H2 Hmin Hdef Hmax. unfold solve_main.
  pose proof (tentval_near_peak l p u (adef L) H1 H2 Hdef) as G.
  pose proof (tentval_near_peak l p u (amax L) H1 H2 Hmax) as OG.
  pose proof (tentval_near_peak l p u (amin L) H1 H2 Hmin) as MG.
  set (gain := tentval (l, p, u) (adef L)) in *. set (outGain := tentval (l, p, u) (amax L)) in *.
  destruct (Qleb_spec outGain gain) as [_|N]; [|lra].
  destruct (Qleb_spec (amax L) u) as [_|N]; [|lra].
  destruct (Qleb_spec l (amin L)) as [_|N]; [|lra].
  eexists. eexists. split; [reflexivity|]. split; [exact G|].
  repeat constructor; cbn [fst]; lra.
Qed.

Global Instance tentval_proper_x t : Proper (Qeq ==> Qeq) (tentval t).
Proof.
  destruct t as [[l p] u]. intros x x' Hx. unfold tentval.
  destruct (Qeqb p 0); [reflexivity|]. destruct (Qltb p l || Qltb u p); [reflexivity|].
  destruct (Qltb l 0 && Qltb 0 u); [reflexivity|]. rewrite Hx. reflexivity.
Qed.

Definition pin_shape (sols : list sol) (v : Q) : Prop :=
  (sols = [] /\ v == 0) \/ (exists g rest, sols = (g, None) :: rest /\ g == v /\ Forall (fun s : sol => fst s == 0) rest).

Lemma Forall_scaled (rest : list sol) m : Forall (fun s : sol => fst s == 0) rest ->
  Forall (fun s : sol => fst s == 0) (map (fun s : sol => (fst s * m, snd s)) rest).
Proof. induction 1 as [|s r Hs F IH]; cbn [map]; constructor; [cbn [fst]; rewrite Hs; ring|exact IH]. Qed.

(* the tent's peak is at or above the pin *)
Lemma solve_pin_ge f l p u L c : l <= p -> p <= u -> ~ p == 0 -> no_straddle (l, p, u) ->
  amin L == c -> adef L == c -> amax L == c -> c <= p ->
  exists sols, solve (S (S f)) (l, p, u) L = Ok sols /\ pin_shape sols (tentval (l, p, u) c).
Proof.
  intros H1 H2 Hp0 NS Hmin Hdef Hmax Hcp.
  cbn [solve]. destruct (Qltb_spec p (adef L)) as [N|_]; [lra|].
  destruct (Qleb_spec (amax L) l) as [A1|A1]; destruct (Qltb_spec (amax L) p) as [A2|A2]; cbn [andb].
  - (* the whole tent lies beyond the pin *)
    exists []. split; [reflexivity|]. left. split; [reflexivity|].
    unfold tentval. destruct (Qeqb_spec p 0); [contradiction|].
    destruct (Qltb_spec p l); [lra|]. destruct (Qltb_spec u p); [lra|]. cbn [orb].
    assert (SF: Qltb l 0 && Qltb 0 u = false).
    { cbn [no_straddle] in NS. destruct (Qltb_spec l 0); destruct (Qltb_spec 0 u); cbn [andb]; try reflexivity. lra. }
    rewrite SF. apply rt_left; lra.
  - (* amax <= l, amax >= p: then p == c == l *)
    assert (E: p == c) by lra.
    destruct (solve_main_pin l p u L H1 H2) as [g [rest [S [G R]]]]; try lra.
    exists ((g, None) :: rest). split; [rewrite S; reflexivity|]. right. exists g, rest. split; [reflexivity|split; [|exact R]].
    rewrite G. symmetry. apply tentval_near_peak; lra.
  - (* the peak is beyond the pin: scale by the value at the pin and solve the clipped tent *)
    cbn [solve]. destruct (Qltb_spec (amax L) (adef L)) as [N|_]; [lra|].
    destruct (Qltb_spec (amax L) (amax L)) as [N|_]; [lra|].
    destruct (solve_main_pin l (amax L) (amax L) L) as [g [rest [S [G R]]]]; try lra.
    rewrite S. cbn [bind map fst snd].
    eexists. split; [reflexivity|]. right. eexists. eexists. split; [reflexivity|]. split.
    + rewrite G. rewrite Hmax. ring.
    + apply Forall_scaled. exact R.
  - assert (E: p == c) by lra.
    destruct (solve_main_pin l p u L H1 H2) as [g [rest [S [G R]]]]; try lra.
    exists ((g, None) :: rest). split; [rewrite S; reflexivity|]. right. exists g, rest. split; [reflexivity|split; [|exact R]].
    rewrite G. symmetry. apply tentval_near_peak; lra.
Qed.

Lemma tentval_rev l p u c : tentval (tent_reverse_negate (l, p, u)) (- c) == tentval (l, p, u) c.
Proof.
  unfold tent_reverse_negate, tentval.
  destruct (Qeqb_spec (- p) 0); destruct (Qeqb_spec p 0); try lra; try reflexivity.
  destruct (Qltb_spec (- p) (- u)); destruct (Qltb_spec u p); try lra;
  destruct (Qltb_spec (- l) (- p)); destruct (Qltb_spec p l); try lra; cbn [orb]; try reflexivity.
  destruct (Qltb_spec (- u) 0); destruct (Qltb_spec 0 u); try lra;
  destruct (Qltb_spec 0 (- l)); destruct (Qltb_spec l 0); try lra; cbn [andb]; try reflexivity;
  unfold rawtent;
  destruct (Qeqb_spec (- c) (- p)); destruct (Qeqb_spec c p); try lra; try reflexivity;
  destruct (Qleb_spec (- c) (- u)); destruct (Qleb_spec u c); try lra;
  destruct (Qleb_spec (- l) (- c)); destruct (Qleb_spec c l); try lra; cbn [orb]; try reflexivity;
  destruct (Qltb_spec (- c) (- p)); destruct (Qltb_spec c p); try lra; field; lra.
Qed.

Lemma pin_shape_map_rev sols v :
  pin_shape sols v -> pin_shape (map (fun s : sol => (fst s, option_map tent_reverse_negate (snd s))) sols) v.
Proof.
  intros [[-> H]|[g [rest [-> [G R]]]]]; [left; split; [reflexivity|exact H]|].
  right. exists g. eexists. split; [reflexivity|]. split; [exact G|].
  induction R as [|s r Hs F IH]; cbn [map]; constructor; [exact Hs|exact IH].
Qed.

Lemma solve_mirror_step f l p u L : Qltb p (adef L) = true ->
  solve (S f) (l, p, u) L =
    (let* r := solve f (tent_reverse_negate (l, p, u)) (lim_reverse_negate L) in
     Ok (map (fun s : sol => (fst s, option_map tent_reverse_negate (snd s))) r)).
Proof. intros H. cbn [solve]. rewrite H. reflexivity. Qed.

Lemma solve_pin f l p u L c : l <= p -> p <= u -> ~ p == 0 -> no_straddle (l, p, u) ->
  amin L == c -> adef L == c -> amax L == c ->
  exists sols, solve (S (S (S f))) (l, p, u) L = Ok sols /\ pin_shape sols (tentval (l, p, u) c).
Proof.
  intros H1 H2 Hp0 NS Hmin Hdef Hmax.
  destruct (Qlt_le_dec p c) as [Lt|Ge].
  - (* mirror *)
    rewrite solve_mirror_step by (destruct (Qltb_spec p (adef L)); [reflexivity|lra]).
    destruct (solve_pin_ge f (- u) (- p) (- l) (lim_reverse_negate L) (- c)) as [sols [S P]].
    { lra. } { lra. } { lra. } { cbn [no_straddle] in *. lra. }
    { unfold lim_reverse_negate; cbn [amin]; lra. } { unfold lim_reverse_negate; cbn [adef]; lra. }
    { unfold lim_reverse_negate; cbn [amax]; lra. } { lra. }
    change (tent_reverse_negate (l, p, u)) with (- u, - p, - l).
    rewrite S. cbn [bind]. eexists. split; [reflexivity|].
    apply pin_shape_map_rev.
    assert (E: tentval (- u, - p, - l) (- c) == tentval (l, p, u) c) by (apply (tentval_rev l p u c)).
    destruct P as [[-> H]|[g [rest [-> [G R]]]]]; [left; split; [reflexivity|lra]|].
    right. exists g, rest. split; [reflexivity|split; [lra|exact R]].
  - apply solve_pin_ge; assumption.
Qed.

Lemma filter_zero_rest (rest : list sol) : Forall (fun s : sol => fst s == 0) rest ->
  filter (fun s : sol => negb (Qeqb (fst s) 0)) rest = [].
Proof.
  induction 1 as [|s r Hs F IH]; [reflexivity|]. cbn [filter]. destruct (Qeqb_spec (fst s) 0); [cbn [negb]; exact IH|contradiction].
Qed.

(* PINNING: rebaseTent on limits min = default = max leaves at most the always-on delta, scaled by the tent's value at the pin *)
Theorem rebase_pin t L sols : no_straddle t -> amin L == adef L -> amax L == adef L ->
  rebaseTent t L = Ok sols ->
  Forall (fun s : sol => snd s = None) sols /\ sum_fst sols == tentval t (adef L).
Proof.
  destruct t as [[l p] u]. intros NS Hmin Hmax H. unfold rebaseTent in H.
  destruct (negb (Qleb (-1) (amin L) && Qleb (amin L) (adef L) && Qleb (adef L) (amax L) && Qleb (amax L) 1)); [discriminate|].
  destruct (Qleb_spec (-2) l); cbn [andb negb] in H; [|discriminate].
  destruct (Qleb_spec l p); cbn [andb negb] in H; [|discriminate].
  destruct (Qleb_spec p u); cbn [andb negb] in H; [|discriminate].
  destruct (Qleb_spec u 2); cbn [andb negb] in H; [|discriminate].
  destruct (Qeqb_spec p 0); [discriminate|].
  destruct (solve_pin 1%nat l p u L (adef L)) as [s0 [HS P]]; try assumption; try reflexivity.
  change (solve 4 (l, p, u) L) with (solve (Datatypes.S (Datatypes.S (Datatypes.S 1%nat))) (l, p, u) L) in H. rewrite HS in H. cbn [bind] in H.
  apply Ok_inj in H. subst sols.
  destruct P as [[-> Z]|[g [rest [-> [G R]]]]].
  - cbn. split; [constructor|]. rewrite Z. reflexivity.
  - cbn [filter fst]. rewrite (filter_zero_rest rest R).
    destruct (Qeqb_spec g 0) as [Z|NZ]; cbn [negb map].
    + split; [constructor|]. cbn [sum_fst]. rewrite <- G, Z. reflexivity.
    + cbn [option_map snd fst sum_fst]. split; [constructor; [reflexivity|constructor]|]. rewrite G. ring.
Qed.

(* ---------- order along the axis is preserved ---------- *)
Lemma div_lt a b c d : 0 < b -> 0 < d -> a * d < c * b -> a / b < c / d.
Proof.
  intros Hb Hd H. apply Qlt_shift_div_r; [exact Hb|].
  setoid_replace (c / d * b) with ((c * b) / d) by (field; lra).
  apply Qlt_shift_div_l; [exact Hd|exact H].
Qed.

(* normalizeValue is strictly increasing on the axis range *)
Lemma normalize_increasing lo d hi v1 v2 r1 r2 : lo < d -> d < hi -> lo <= v1 -> v1 < v2 -> v2 <= hi ->
  normalizeValue v1 lo d hi = Ok r1 -> normalizeValue v2 lo d hi = Ok r2 -> r1 < r2.
Proof.
  intros H1 H2 Hv1 Hlt Hv2. unfold normalizeValue.
  destruct (Qleb_spec lo d); [|lra]. destruct (Qleb_spec d hi); [|lra]. cbn [andb negb].
  assert (W: forall v, lo <= v -> v <= hi -> Qmax (Qmin v hi) lo == v).
  { intros v A B. unfold Qmax, Qmin. destruct (Qleb_spec v hi); [|lra]. destruct (Qleb_spec v lo); lra. }
  pose proof (W v1 Hv1 ltac:(lra)) as W1. pose proof (W v2 ltac:(lra) Hv2) as W2.
  set (w1 := Qmax (Qmin v1 hi) lo) in *. set (w2 := Qmax (Qmin v2 hi) lo) in *.
  destruct (Qeqb_spec lo hi); [lra|]. destruct (Qeqb_spec lo d); [lra|]. destruct (Qeqb_spec hi d); [lra|]. cbn [negb andb orb].
  rewrite !andb_true_r, !andb_false_r, !orb_false_r.
  assert (P1: 0 < d - lo) by lra. assert (P2: 0 < hi - d) by lra.
  destruct (Qeqb_spec w1 d); destruct (Qeqb_spec w2 d); cbn [orb]; try lra;
    destruct (Qltb_spec w1 d); destruct (Qltb_spec w2 d); try lra;
    intros E1 E2; apply Ok_inj in E1; apply Ok_inj in E2; rewrite <- E1, <- E2.
  all: first [ apply div_lt; [lra|lra|nra] | apply Qlt_shift_div_l; [lra|rewrite Qmult_0_l; lra] | apply Qlt_shift_div_r; [lra|rewrite Qmult_0_l; lra] | lra ].
Qed.

(* the new normalised coordinate is strictly increasing in the old one: order along the axis is preserved by instancing *)
Theorem renormalize_increasing L v1 v2 :
  amin L < adef L -> adef L < amax L -> 0 < dneg L -> 0 < dpos L -> amin L <= v1 -> v1 < v2 -> v2 <= amax L ->
  renormalizeValue L v1 < renormalizeValue L v2.
Proof.
  intros H1 H2 Hn Hp Hv1 Hlt Hv2.
  destruct (renormalize_keeps_user_meaning L v1 H1 H2 Hn Hp Hv1 ltac:(lra)) as [r1 [E1 Q1]].
  destruct (renormalize_keeps_user_meaning L v2 H1 H2 Hn Hp ltac:(lra) Hv2) as [r2 [E2 Q2]].
  cbv zeta in *. rewrite <- Q1, <- Q2.
  set (u := user_of (dneg L) (dpos L)) in *.
  apply (normalize_increasing (u (amin L)) (u (adef L)) (u (amax L)) (u v1) (u v2) r1 r2); try assumption;
    unfold u; first [apply user_mono; assumption | apply user_mono_le; assumption].
Qed.
