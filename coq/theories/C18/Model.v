(* C18/Model.v — merge: computeMegaGlyphOrder and the first-wins character map
   (merge/cmap.py:14-33, 95-160). *)
From Coq Require Import ZArith List Bool.
From FV Require Import Base.Ser Base.Res.
Import ListNotations.
Open Scope Z_scope.

Definition name := list Z.
Definition mega := list (name * Z).          (* insertion-ordered dict: glyph name -> counter *)

Definition mem (n : name) (m : mega) : bool := existsb (fun kv : name * Z => list_Z_eqb n (fst kv)) m.
Fixpoint get (n : name) (m : mega) : Z :=
  match m with [] => 0 | (k, v) :: r => if list_Z_eqb n k then v else get n r end.
Fixpoint set (n : name) (v : Z) (m : mega) : mega :=
  match m with
  | [] => [(n, v)]
  | (k, x) :: r => if list_Z_eqb n k then (k, v) :: r else (k, x) :: set n v r
  end.

(* repr(n) for n >= 0 *)
Fixpoint digits_aux (fuel : nat) (n : Z) (acc : list Z) : list Z :=
  match fuel with
  | O => acc
  | S f => let acc' := (48 + n mod 10) :: acc in if n <? 10 then acc' else digits_aux f (n / 10) acc'
  end.
Definition repr (n : Z) : list Z := digits_aux 30 n [].
Definition suffixed (g : name) (n : Z) : name := g ++ 46 :: repr n.

(* while (glyphName + "." + repr(n)) in megaOrder: n += 1 *)
Fixpoint find_free (fuel : nat) (g : name) (n : Z) (m : mega) : option Z :=
  match fuel with
  | O => None
  | S f => if mem (suffixed g n) m then find_free f g (n + 1) m else Some n
  end.

Definition add_glyph (m : mega) (g : name) : Res (mega * name) :=
  if mem g m then
    match find_free (S (length m)) g (get g m) m with
    | None => Err OutOfFuel
    | Some n =>
      let m1 := set g n m in
      let g' := suffixed g n in
      Ok (set g' 1 m1, g')
    end
  else Ok (set g 1 m, g).

Fixpoint add_order (m : mega) (order : list name) : Res (mega * list name) :=
  match order with
  | [] => Ok (m, [])
  | g :: r =>
    let* (m1, g') := add_glyph m g in
    let* (m2, r') := add_order m1 r in
    Ok (m2, g' :: r')
  end.

Fixpoint add_orders (m : mega) (orders : list (list name)) : Res (mega * list (list name)) :=
  match orders with
  | [] => Ok (m, [])
  | o :: r =>
    let* (m1, o') := add_order m o in
    let* (m2, r') := add_orders m1 r in
    Ok (m2, o' :: r')
  end.

(* returns (renamed glyph orders, merged glyph order) *)
Definition computeMegaGlyphOrder (orders : list (list name)) : Res (list (list name) * list name) :=
  let* (m, renamed) := add_orders [] orders in Ok (renamed, map fst m).

(* ---- merged character map: first font that maps a character wins (default-ignorables and U+25CC
   also keep the first mapping) *)
Fixpoint cmap_get (u : Z) (c : list (Z * name)) : option name :=
  match c with [] => None | (k, g) :: r => if k =? u then Some g else cmap_get u r end.
Fixpoint merge_one (acc : list (Z * name)) (table : list (Z * name)) : list (Z * name) :=
  match table with
  | [] => acc
  | (u, g) :: r =>
    match cmap_get u acc with
    | None => merge_one (acc ++ [(u, g)]) r
    | Some _ => merge_one acc r
    end
  end.
Definition computeMegaCmap (tables : list (list (Z * name))) : list (Z * name) := fold_left merge_one tables [].
