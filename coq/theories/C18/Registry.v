From Coq Require Import ZArith List String Bool.
From FV Require Import Base.Ser Base.Res C18.Model.
Import ListNotations.
Open Scope string_scope.
Definition reg : registry := [
  ("computeMegaGlyphOrder", run1 computeMegaGlyphOrder);
  ("computeMegaCmap", run1 computeMegaCmap)
].
Definition fv_entry := dispatch reg.
