From Coq Require Import ZArith List String Bool.
From FV Require Import Base.Ser Base.Res C18.Model.
From FV Require C18.ModelLayout.
Import ListNotations.
Open Scope string_scope.
Global Instance De_langsys : De ModelLayout.langsys :=
  fun l => match de l with Some ((r, f), rest) => Some (ModelLayout.mkLang r f, rest) | None => None end.
Global Instance Ser_langsys : Ser ModelLayout.langsys := fun x => ser (ModelLayout.req x, ModelLayout.feats x).
Global Instance De_script : De ModelLayout.script :=
  fun l => match de l with Some ((d, r), rest) => Some (ModelLayout.mkScript d r, rest) | None => None end.
Global Instance Ser_script : Ser ModelLayout.script := fun x => ser (ModelLayout.dflt x, ModelLayout.recs x).
Definition reg : registry := [
  ("computeMegaGlyphOrder", run1 computeMegaGlyphOrder);
  ("computeMegaCmap", run1 computeMegaCmap);
  ("mergeScriptRecords", run1 ModelLayout.mergeScriptRecords)
].
Definition fv_entry := dispatch reg.
