(* C18/ProofsLayout.v — grouping by tag and sorting: tags come out strictly increasing (binary-searchable) and every tag keeps, in
   input order, exactly what the inputs said about it *)
From Coq Require Import ZArith List Bool Lia Sorted Permutation.
From FV Require Import Base.Ser Base.Res C18.ModelLayout.
Import ListNotations.
Open Scope Z_scope.

Section Generic.
Context {A : Type}.
Fixpoint assoc {B} (k : Z) (l : list (Z * B)) : option B :=
  match l with [] => None | (k', v) :: r => if Z.eqb k k' then Some v else assoc k r end.
Definition tagged (t : Z) (l : list (Z * A)) : list A := map snd (filter (fun kv => Z.eqb (fst kv) t) l).

Lemma assoc_dict_add k x (d : list (Z * list A)) t :
  assoc t (dict_add k x d) =
  if Z.eqb t k then Some (match assoc k d with Some xs => xs ++ [x] | None => [x] end) else assoc t d.
Proof.
  induction d as [|[k' xs] r IH]; cbn.
  - reflexivity.
  - destruct (Z.eqb_spec k k') as [E|Hne]; cbn.
    + subst k'. destruct (Z.eqb t k); reflexivity.
    + rewrite IH. destruct (Z.eqb_spec t k') as [E1|N1]; destruct (Z.eqb_spec t k) as [E2|N2]; try reflexivity. congruence.
Qed.
Lemma keys_dict_add k x (d : list (Z * list A)) :
  NoDup (map fst d) -> NoDup (map fst (dict_add k x d)) /\ (forall t, In t (map fst (dict_add k x d)) <-> t = k \/ In t (map fst d)).
Proof.
  induction d as [|[k' xs] r IH]; cbn; intros Hnd.
  - split; [constructor; [intros []|constructor]|]. intros t. intuition.
  - apply NoDup_cons_iff in Hnd. destruct Hnd as [Hni Hnd].
    destruct (Z.eqb_spec k k') as [E|Hne]; cbn.
    + subst k'. split; [constructor; auto|]. intros t. intuition.
    + destruct (IH Hnd) as [IH1 IH2]. split.
      * constructor; auto. intros Hin. apply IH2 in Hin. destruct Hin as [E | Hin]; [congruence | tauto].
      * intros t. rewrite IH2. intuition.
Qed.

Lemma group_fold (l : list (Z * A)) : forall d t, 
  assoc t (fold_left (fun d kx => dict_add (fst kx) (snd kx) d) l d) =
  match assoc t d, tagged t l with
  | None, [] => None
  | None, vs => Some vs
  | Some xs, vs => Some (xs ++ vs)
  end.
Proof.
  induction l as [|[k x] r IH]; intros d t; cbn [fold_left].
  - unfold tagged. cbn. destruct (assoc t d); [rewrite app_nil_r|]; reflexivity.
  - rewrite IH. cbn [fst snd]. rewrite assoc_dict_add. unfold tagged. cbn [filter fst].
    destruct (Z.eqb_spec t k) as [->|Hne].
    + rewrite Z.eqb_refl. cbn [map snd]. destruct (assoc k d) as [xs|].
      * rewrite <- app_assoc. reflexivity.
      * reflexivity.
    + destruct (Z.eqb_spec k t); [congruence|]. reflexivity.
Qed.
Lemma assoc_group t (l : list (Z * A)) : assoc t (group l) = match tagged t l with [] => None | vs => Some vs end.
Proof. unfold group. rewrite group_fold. cbn. reflexivity. Qed.
Lemma group_keys_nodup (l : list (Z * A)) : NoDup (map fst (group l)).
Proof.
  unfold group. assert (H : forall d, NoDup (map fst d) -> NoDup (map fst (fold_left (fun d kx => dict_add (fst kx) (snd kx) d) l d))).
  { induction l as [|[k x] r IH]; intros d Hd; cbn [fold_left]; [exact Hd|]. apply IH. apply keys_dict_add. exact Hd. }
  apply H. constructor.
Qed.
End Generic.

Section SortTags.
Context {B : Type}.
Lemma insert_tag_perm (p : Z * B) l : Permutation (insert_tag p l) (p :: l).
Proof. induction l as [|q r IH]; cbn; [reflexivity|]. destruct (fst p <=? fst q); [reflexivity|]. rewrite IH. apply perm_swap. Qed.
Lemma sort_tags_perm (l : list (Z * B)) : Permutation (sort_tags l) l.
Proof. induction l as [|p r IH]; cbn; [reflexivity|]. rewrite insert_tag_perm. constructor. exact IH. Qed.
Definition tle (a b : Z * B) : Prop := fst a <= fst b.
Lemma insert_tag_sorted p l : Sorted tle l -> Sorted tle (insert_tag p l).
Proof.
  induction l as [|q r IH]; intros Hs; cbn; [constructor; constructor|].
  destruct (Z.leb_spec (fst p) (fst q)) as [L|L].
  - constructor; [exact Hs|]. constructor. exact L.
  - apply Sorted_inv in Hs. destruct Hs as [Hs Hd]. constructor; [apply IH; exact Hs|].
    destruct r as [|z r']; cbn; [constructor; unfold tle; lia|].
    apply HdRel_inv in Hd. destruct (Z.leb_spec (fst p) (fst z)); constructor; unfold tle in *; lia.
Qed.
Lemma sort_tags_sorted (l : list (Z * B)) : Sorted tle (sort_tags l).
Proof. induction l as [|p r IH]; cbn; [constructor|]. apply insert_tag_sorted. exact IH. Qed.

(* sorted (<=) with pairwise different keys is strictly sorted *)
Lemma sorted_nodup_strict (l : list (Z * B)) : Sorted tle l -> NoDup (map fst l) -> StronglySorted (fun a b => fst a < fst b) l.
Proof.
  intros Hs Hnd. apply Sorted_StronglySorted in Hs; [|intros a b c; unfold tle; lia].
  induction l as [|p r IH]; [constructor|].
  apply StronglySorted_inv in Hs. destruct Hs as [Hs Hall]. cbn in Hnd. apply NoDup_cons_iff in Hnd. destruct Hnd as [Hni Hnd].
  constructor; [apply IH; auto|]. rewrite Forall_forall in *. intros q Hq. specialize (Hall q Hq). unfold tle in Hall.
  assert (fst p <> fst q) by (intros E; apply Hni; rewrite E; apply in_map; exact Hq). lia.
Qed.
Lemma assoc_perm (l l' : list (Z * B)) t : Permutation l l' -> NoDup (map fst l) -> assoc t l = assoc t l'.
Proof.
  intros Hp. induction Hp as [|[k v] l l' Hp IH|[k v] [k' v'] l|l l' l'' Hp1 IH1 Hp2 IH2]; intros Hnd; cbn.
  - reflexivity.
  - cbn in Hnd. apply NoDup_cons_iff in Hnd. destruct (Z.eqb t k); [reflexivity | apply IH; tauto].
  - cbn in Hnd. apply NoDup_cons_iff in Hnd. destruct Hnd as [Hni _]. cbn in Hni.
    destruct (Z.eqb_spec t k) as [E1|N1]; destruct (Z.eqb_spec t k') as [E2|N2]; try reflexivity. exfalso. apply Hni. left. congruence.
  - rewrite IH1; auto. apply IH2. apply (Permutation_NoDup (l := map fst l)); [apply Permutation_map; exact Hp1 | exact Hnd].
Qed.
End SortTags.

(* ---- the two facts about "group by tag, then sort" *)
Theorem merge_tags_strictly_sorted {A} (lsts : list (list (Z * A))) :
  StronglySorted (fun a b => fst a < fst b) (merge_by_tag lsts).
Proof.
  unfold merge_by_tag. apply sorted_nodup_strict; [apply sort_tags_sorted|].
  apply (Permutation_NoDup (l := map fst (group (concat lsts)))); [apply Permutation_map; symmetry; apply sort_tags_perm | apply group_keys_nodup].
Qed.
Theorem merge_tag_content {A} (lsts : list (list (Z * A))) t :
  assoc t (merge_by_tag lsts) = match tagged t (concat lsts) with [] => None | vs => Some vs end.
Proof.
  unfold merge_by_tag. rewrite <- assoc_group. symmetry. apply assoc_perm; [symmetry; apply sort_tags_perm | apply group_keys_nodup].
Qed.

(* ---- instances *)
Lemma map_res_keys {A B} (f : A -> Res B) (l : list (Z * A)) rs :
  map_res (fun kv => match f (snd kv) with Ok x => Ok (fst kv, x) | Err e => Err e end) l = Ok rs -> map fst rs = map fst l.
Proof.
  revert rs. induction l as [|[k a] r IH]; cbn; intros rs.
  - intros [= <-]. reflexivity.
  - destruct (f a) as [x|e]; [|discriminate].
    destruct (map_res _ r) as [ys|e]; [|discriminate]. intros [= <-]. cbn. f_equal. apply IH. reflexivity.
Qed.
Lemma strict_keys {B} (l : list (Z * B)) : StronglySorted (fun a b => fst a < fst b) l -> StronglySorted Z.lt (map fst l).
Proof.
  induction 1 as [|p r Hs IH Hall]; cbn; [constructor|]. constructor; [exact IH|].
  rewrite Forall_forall in *. intros k Hk. apply in_map_iff in Hk. destruct Hk as (q & <- & Hq). apply Hall. exact Hq.
Qed.

Theorem merged_script_tags_sorted l r : mergeScriptRecords l = Ok r -> StronglySorted Z.lt (map fst r).
Proof.
  unfold mergeScriptRecords. intros H. rewrite (map_res_keys mergeScripts _ _ H). apply strict_keys, merge_tags_strictly_sorted.
Qed.
Theorem merged_langsys_tags_sorted l s : (2 <= length l)%nat -> mergeScripts l = Ok s -> StronglySorted Z.lt (map fst (recs s)).
Proof.
  intros Hlen. unfold mergeScripts. destruct l as [|a [|b r]]; cbn in Hlen; try lia.
  destruct (map_res _ (merge_by_tag (map recs (a :: b :: r)))) as [rs|e] eqn:E; [|discriminate].
  assert (Hk := map_res_keys mergeLangSyses _ _ E).
  assert (Hs : StronglySorted Z.lt (map fst rs)) by (rewrite Hk; apply strict_keys, merge_tags_strictly_sorted).
  destruct (somes (map dflt (a :: b :: r))) as [|d ds].
  - intros [= <-]. exact Hs.
  - destruct (mergeLangSyses (d :: ds)); [|discriminate]. intros [= <-]. exact Hs.
Qed.
Theorem merged_feature_tags_sorted l m : mergeLangSyses l = Ok m -> StronglySorted Z.lt (map fst (feats m)).
Proof.
  unfold mergeLangSyses. destruct l as [|a r]; [discriminate|]. destruct (forallb _ _); [|discriminate].
  intros [= <-]. cbn [feats]. unfold mergeFeatureLists. rewrite map_map. cbn [fst]. apply strict_keys, merge_tags_strictly_sorted.
Qed.

(* what a feature tag switches on: all lookups of all features carrying that tag, in order *)
Definition feat_lookups (fs : list (Z * feature)) (t : Z) : list Z := concat (tagged t fs).
Lemma tagged_app {A} t (a b : list (Z * A)) : tagged t (a ++ b) = tagged t a ++ tagged t b.
Proof. unfold tagged. rewrite filter_app, map_app. reflexivity. Qed.
Lemma tagged_concat {A} t (ls : list (list (Z * A))) : tagged t (concat ls) = concat (map (tagged t) ls).
Proof. induction ls as [|a r IH]; cbn [concat map]; [reflexivity|]. rewrite tagged_app, IH. reflexivity. Qed.
Lemma tagged_unique {B} t (l : list (Z * B)) : NoDup (map fst l) -> tagged t l = match assoc t l with Some v => [v] | None => [] end.
Proof.
  induction l as [|[k v] r IH]; cbn; intros Hnd; [reflexivity|].
  apply NoDup_cons_iff in Hnd. destruct Hnd as [Hni Hnd]. unfold tagged. cbn [filter fst].
  destruct (Z.eqb_spec k t) as [->|Hne].
  - rewrite Z.eqb_refl. cbn. f_equal. 
    assert (E : filter (fun kv : Z * B => fst kv =? t) r = []).
    { clear -Hni. induction r as [|[k' v'] r' IH]; cbn; [reflexivity|]. cbn in Hni.
      destruct (Z.eqb_spec k' t) as [->|]; [exfalso; apply Hni; left; reflexivity|]. apply IH. tauto. }
    rewrite E. reflexivity.
  - destruct (Z.eqb_spec t k); [congruence|]. apply IH. exact Hnd.
Qed.
Lemma assoc_map_snd {B C} (f : B -> C) (l : list (Z * B)) t :
  assoc t (map (fun kv => (fst kv, f (snd kv))) l) = option_map f (assoc t l).
Proof. induction l as [|[k v] r IH]; cbn; [reflexivity|]. destruct (Z.eqb t k); [reflexivity | exact IH]. Qed.
Lemma concat_concat {B} (l : list (list (list B))) : concat (concat l) = concat (map (@concat B) l).
Proof. induction l as [|a r IH]; cbn; [reflexivity|]. rewrite concat_app, IH. reflexivity. Qed.

Lemma strict_nodup (l : list Z) : StronglySorted Z.lt l -> NoDup l.
Proof.
  induction 1 as [|k r Hs IH Hall]; [constructor|]. constructor; [|exact IH].
  intros Hin. rewrite Forall_forall in Hall. specialize (Hall k Hin). lia.
Qed.
Theorem merged_feature_lookups ls t :
  feat_lookups (mergeFeatureLists ls) t = concat (map (fun fs => feat_lookups fs t) ls).
Proof.
  unfold feat_lookups, mergeFeatureLists.
  rewrite tagged_unique.
  2:{ rewrite map_map. cbn [fst]. apply strict_nodup. apply (strict_keys (merge_by_tag ls)), merge_tags_strictly_sorted. }
  rewrite assoc_map_snd, merge_tag_content, tagged_concat.
  unfold mergeFeatures.
  transitivity (concat (concat (map (tagged t) ls))).
  - destruct (concat (map (tagged t) ls)) as [|v vs]; cbn; [reflexivity|]. rewrite app_nil_r. reflexivity.
  - etransitivity; [apply (@concat_concat Z)|]. rewrite map_map. reflexivity.
Qed.

Example merge_example :
  mergeScripts [mkScript None [(3, mkLang NOREQ [(7, [1])]); (9, mkLang NOREQ [(7, [2])])];
                mkScript None [(1, mkLang NOREQ [(7, [3])]); (3, mkLang NOREQ [(5, [4]); (7, [5])])]]
  = Ok (mkScript None [(1, mkLang NOREQ [(7, [3])]); (3, mkLang NOREQ [(5, [4]); (7, [1; 5])]); (9, mkLang NOREQ [(7, [2])])]).
Proof. reflexivity. Qed.

Lemma merge_tag_content_langsys (lsts : list (list (Z * langsys))) t :
  assoc t (merge_by_tag lsts) = match tagged t (concat lsts) with [] => None | vs => Some vs end.
Proof. apply merge_tag_content. Qed.
