(* C18/Proofs.v *)
From Coq Require Import ZArith List Bool Lia.
From FV Require Import Base.Ser Base.Res C18.Model.
Import ListNotations.
Open Scope Z_scope.

Lemma eqb_eq a b : list_Z_eqb a b = true <-> a = b.
Proof.
  split.
  - revert b. induction a as [|x a IH]; intros [|y b] E; cbn in E; try discriminate; auto.
    apply andb_prop in E. destruct E as [E1 E2]. apply Z.eqb_eq in E1. subst. f_equal. apply IH. exact E2.
  - intros <-. induction a; cbn; auto. rewrite Z.eqb_refl. exact IHa.
Qed.

Lemma mem_In n m : mem n m = true <-> In n (map fst m).
Proof.
  unfold mem. rewrite existsb_exists. split.
  - intros [[k v] [Hin E]]. apply eqb_eq in E. cbn in E. subst. apply in_map_iff. exists (k, v). auto.
  - intros H. apply in_map_iff in H. destruct H as [[k v] [E Hin]]. cbn in E. subst. exists (n, v). split; auto. apply eqb_eq. reflexivity.
Qed.

(* set on an existing key keeps the key list; on a fresh key appends it *)
Lemma keys_set_existing n v m : mem n m = true -> map fst (set n v m) = map fst m.
Proof.
  induction m as [|[k x] r IH]; cbn [mem existsb set map fst]; [discriminate|].
  destruct (list_Z_eqb n k) eqn:E; cbn [orb map fst]; [reflexivity|].
  intros H. f_equal. apply IH. exact H.
Qed.
Lemma keys_set_fresh n v m : mem n m = false -> map fst (set n v m) = map fst m ++ [n].
Proof.
  induction m as [|[k x] r IH]; cbn [mem existsb set map fst app]; [reflexivity|].
  destruct (list_Z_eqb n k) eqn:E; cbn [orb]; [discriminate|].
  intros H. cbn [map fst]. f_equal. apply IH. exact H.
Qed.
Lemma mem_set_other a n v m : mem a (set n v m) = mem a m || list_Z_eqb a n.
Proof.
  induction m as [|[k x] r IH]; cbn [set mem existsb fst]; [rewrite orb_false_r; reflexivity|].
  destruct (list_Z_eqb n k) eqn:E; cbn [mem existsb fst].
  - apply eqb_eq in E. subst k. destruct (list_Z_eqb a n); cbn; [reflexivity|]. rewrite orb_false_r. reflexivity.
  - fold (mem a (set n v r)). rewrite IH. fold (mem a r). rewrite orb_assoc. reflexivity.
Qed.

Lemma find_free_spec fuel : forall g n m k, find_free fuel g n m = Some k -> mem (suffixed g k) m = false.
Proof.
  induction fuel as [|f IH]; intros g n m k H; cbn [find_free] in H; [discriminate|].
  destruct (mem (suffixed g n) m) eqn:E; [eapply IH; exact H|]. apply Some_inj in H. subst. exact E.
Qed.

(* every glyph receives a name that was not in use: the key list grows by exactly that name *)
Lemma add_glyph_keys m g m' g' : add_glyph m g = Ok (m', g') ->
  map fst m' = map fst m ++ [g'] /\ ~ In g' (map fst m).
Proof.
  unfold add_glyph. destruct (mem g m) eqn:E.
  - destruct (find_free (S (length m)) g (get g m) m) as [n|] eqn:F; [|discriminate].
    intros H. apply Ok_inj in H. injection H as <- <-.
    pose proof (find_free_spec _ _ _ _ _ F) as Fr.
    assert (Fr': mem (suffixed g n) (set g n m) = false).
    { rewrite mem_set_other, Fr. cbn [orb]. destruct (list_Z_eqb (suffixed g n) g) eqn:Q; [|reflexivity].
      apply eqb_eq in Q. unfold suffixed in Q. apply (f_equal (@length Z)) in Q. rewrite app_length in Q. cbn in Q. lia. }
    rewrite keys_set_fresh by exact Fr'. rewrite keys_set_existing by exact E.
    split; [reflexivity|]. intros Hin. apply mem_In in Hin. congruence.
  - intros H. apply Ok_inj in H. injection H as <- <-.
    rewrite keys_set_fresh by exact E. split; [reflexivity|]. intros Hin. apply mem_In in Hin. congruence.
Qed.

Lemma add_order_keys order : forall m m' r, add_order m order = Ok (m', r) -> map fst m' = map fst m ++ r.
Proof.
  induction order as [|g rest IH]; intros m m' r H; cbn [add_order] in H.
  - apply Ok_inj in H. injection H as <- <-. rewrite app_nil_r. reflexivity.
  - destruct (add_glyph m g) as [[m1 g']|e] eqn:E1; [|discriminate]. cbn [bind] in H.
    destruct (add_order m1 rest) as [[m2 r']|e] eqn:E2; [|discriminate]. cbn [bind] in H.
    apply Ok_inj in H. injection H as <- <-.
    rewrite (IH _ _ _ E2). destruct (add_glyph_keys _ _ _ _ E1) as [K _]. rewrite K, <- app_assoc. reflexivity.
Qed.

Lemma NoDup_app_snoc {A} (l : list A) x : NoDup l -> ~ In x l -> NoDup (l ++ [x]).
Proof.
  induction l as [|y r IH]; intros ND F; cbn [app]; [constructor; [intros []|constructor]|].
  inversion ND as [|? ? Hy Hr]; subst. constructor.
  - intros Hin. apply in_app_or in Hin. destruct Hin as [Hin|[E|[]]]; [contradiction|]. subst. apply F. left. reflexivity.
  - apply IH; [exact Hr|]. intros Hin. apply F. right. exact Hin.
Qed.

Lemma add_order_nodup order : forall m m' r, add_order m order = Ok (m', r) -> NoDup (map fst m) -> NoDup (map fst m').
Proof.
  induction order as [|g rest IH]; intros m m' r H ND; cbn [add_order] in H.
  - apply Ok_inj in H. injection H as <- _. exact ND.
  - destruct (add_glyph m g) as [[m1 g']|e] eqn:E1; [|discriminate]. cbn [bind] in H.
    destruct (add_order m1 rest) as [[m2 r']|e] eqn:E2; [|discriminate]. cbn [bind] in H.
    apply Ok_inj in H. injection H as <- _.
    apply (IH _ _ _ E2). destruct (add_glyph_keys _ _ _ _ E1) as [K F]. rewrite K.
    apply NoDup_app_snoc; assumption.
Qed.

Lemma add_orders_keys orders : forall m m' rs, add_orders m orders = Ok (m', rs) ->
  map fst m' = map fst m ++ concat rs /\ (NoDup (map fst m) -> NoDup (map fst m')).
Proof.
  induction orders as [|o rest IH]; intros m m' rs H; cbn [add_orders] in H.
  - apply Ok_inj in H. injection H as <- <-. cbn [concat]. rewrite app_nil_r. auto.
  - destruct (add_order m o) as [[m1 o']|e] eqn:E1; [|discriminate]. cbn [bind] in H.
    destruct (add_orders m1 rest) as [[m2 r']|e] eqn:E2; [|discriminate]. cbn [bind] in H.
    apply Ok_inj in H. injection H as <- <-.
    destruct (IH _ _ _ E2) as [K N]. split.
    + rewrite K, (add_order_keys _ _ _ _ E1). cbn [concat]. rewrite app_assoc. reflexivity.
    + intros ND. apply N. eapply add_order_nodup; eauto.
Qed.

(* In the merged glyph order every glyph of every input appears exactly once under a unique name:
   the merged order is the concatenation of the renamed input orders and has no duplicates. *)
Theorem mega_names_unique orders renamed merged :
  computeMegaGlyphOrder orders = Ok (renamed, merged) ->
  merged = concat renamed /\ NoDup merged /\
  length renamed = length orders.
Proof.
  unfold computeMegaGlyphOrder. destruct (add_orders [] orders) as [[m rs]|e] eqn:E; [|discriminate]. cbn [bind].
  intros H. apply Ok_inj in H. injection H as <- <-.
  destruct (add_orders_keys _ _ _ _ E) as [K N]. cbn [map app] in K.
  repeat split; [exact K|apply N; constructor|].
  clear - E. revert E. generalize (@nil (name * Z)) as m0. revert m rs.
  induction orders as [|o rest IH]; intros m rs m0 E; cbn [add_orders] in E.
  - apply Ok_inj in E. injection E as _ <-. reflexivity.
  - destruct (add_order m0 o) as [[m1 o']|e] eqn:E1; [|discriminate]. cbn [bind] in E.
    destruct (add_orders m1 rest) as [[m2 r']|e] eqn:E2; [|discriminate]. cbn [bind] in E.
    apply Ok_inj in E. injection E as _ <-. cbn [length]. f_equal. eapply IH. exact E2.
Qed.

(* renaming only appends a ".n" suffix: a glyph's new name starts with its old name, and each input
   keeps its length *)
Lemma add_glyph_prefix m g m' g' : add_glyph m g = Ok (m', g') -> exists suffix, g' = g ++ suffix.
Proof.
  unfold add_glyph. destruct (mem g m).
  - destruct (find_free _ _ _ _) as [n|]; [|discriminate]. intros H. apply Ok_inj in H. injection H as _ <-.
    unfold suffixed. eexists. reflexivity.
  - intros H. apply Ok_inj in H. injection H as _ <-. exists []. rewrite app_nil_r. reflexivity.
Qed.

Theorem renamed_order_shape order : forall m m' r, add_order m order = Ok (m', r) ->
  Forall2 (fun old new => exists suffix, new = old ++ suffix) order r.
Proof.
  induction order as [|g rest IH]; intros m m' r H; cbn [add_order] in H.
  - apply Ok_inj in H. injection H as _ <-. constructor.
  - destruct (add_glyph m g) as [[m1 g']|e] eqn:E1; [|discriminate]. cbn [bind] in H.
    destruct (add_order m1 rest) as [[m2 r']|e] eqn:E2; [|discriminate]. cbn [bind] in H.
    apply Ok_inj in H. injection H as _ <-. constructor; [eapply add_glyph_prefix; exact E1|eapply IH; exact E2].
Qed.

(* ---------- character map: the first input that maps a character decides ---------- *)
Lemma cmap_get_app u a b : cmap_get u (a ++ b) = match cmap_get u a with Some g => Some g | None => cmap_get u b end.
Proof. induction a as [|[k g] r IH]; cbn [app cmap_get]; [reflexivity|]. destruct (k =? u); [reflexivity|exact IH]. Qed.

Lemma merge_one_get u table : forall acc,
  cmap_get u (merge_one acc table) = match cmap_get u acc with Some g => Some g | None => cmap_get u table end.
Proof.
  induction table as [|[k g] r IH]; intros acc; cbn [merge_one cmap_get].
  - destruct (cmap_get u acc); reflexivity.
  - destruct (cmap_get k acc) as [g0|] eqn:E.
    + rewrite IH. destruct (cmap_get u acc) eqn:E2; [reflexivity|].
      destruct (Z.eqb_spec k u) as [->|N]; [congruence|reflexivity].
    + rewrite IH. rewrite cmap_get_app. cbn [cmap_get].
      destruct (cmap_get u acc) eqn:E2; [reflexivity|].
      destruct (Z.eqb_spec k u) as [->|N]; reflexivity.
Qed.

Fixpoint first_mapping (u : Z) (tables : list (list (Z * name))) : option name :=
  match tables with
  | [] => None
  | t :: r => match cmap_get u t with Some g => Some g | None => first_mapping u r end
  end.

Theorem cmap_first_wins tables u : cmap_get u (computeMegaCmap tables) = first_mapping u tables.
Proof.
  unfold computeMegaCmap.
  assert (G: forall acc, cmap_get u (fold_left merge_one tables acc) =
                         match cmap_get u acc with Some g => Some g | None => first_mapping u tables end).
  { induction tables as [|t r IH]; intros acc; cbn [fold_left first_mapping]; [destruct (cmap_get u acc); reflexivity|].
    rewrite IH, merge_one_get. destruct (cmap_get u acc); [reflexivity|]. destruct (cmap_get u t); reflexivity. }
  rewrite G. reflexivity.
Qed.
