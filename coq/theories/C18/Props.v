(* C18/Props.v — property theorems only *)
From Coq Require Import ZArith List Bool.
From FV Require Import Base.Ser Base.Res C18.Model C18.Proofs.
Import ListNotations.
Open Scope Z_scope.

(* every glyph of every input appears exactly once, under a unique name *)
Theorem mega_names_unique : forall orders renamed merged,
  computeMegaGlyphOrder orders = Ok (renamed, merged) ->
  merged = concat renamed /\ NoDup merged /\ length renamed = length orders.
Proof. exact Proofs.mega_names_unique. Qed.
Print Assumptions mega_names_unique.

Theorem renamed_order_shape : forall order m m' r, add_order m order = Ok (m', r) ->
  Forall2 (fun old new => exists suffix, new = old ++ suffix) order r.
Proof. exact Proofs.renamed_order_shape. Qed.
Print Assumptions renamed_order_shape.

(* a character maps to the glyph of the FIRST input that supports it *)
Theorem cmap_first_wins : forall tables u, cmap_get u (computeMegaCmap tables) = first_mapping u tables.
Proof. exact Proofs.cmap_first_wins. Qed.
Print Assumptions cmap_first_wins.
