(* C18/Props.v — property theorems only *)
From Coq Require Import ZArith List Bool.
From FV Require Import Base.Ser Base.Res C18.Model C18.Proofs.
Import ListNotations.
Open Scope Z_scope.

(* every glyph of every input appears exactly once, under a unique name *)
Theorem mega_names_unique : forall orders renamed merged,
  computeMegaGlyphOrder orders = Ok (renamed, merged) ->
  merged = concat renamed /\ NoDup merged /\ length renamed = length orders.
Proof. exact Proofs.mega_names_unique. Qed.
Print Assumptions mega_names_unique.

Theorem renamed_order_shape : forall order m m' r, add_order m order = Ok (m', r) ->
  Forall2 (fun old new => exists suffix, new = old ++ suffix) order r.
Proof. exact Proofs.renamed_order_shape. Qed.
Print Assumptions renamed_order_shape.

(* a character maps to the glyph of the FIRST input that supports it *)
Theorem cmap_first_wins : forall tables u, cmap_get u (computeMegaCmap tables) = first_mapping u tables.
Proof. exact Proofs.cmap_first_wins. Qed.
Print Assumptions cmap_first_wins.

(* ---- merging the layout tables' script / language-system / feature records (ModelLayout.v: mergeScriptRecords, mergeScripts,
   mergeLangSyses, mergeFeatureLists, mergeFeatures): records come out strictly sorted by tag, which is what a shaper's binary
   search relies on, and a feature tag switches on exactly the lookups the inputs gave it, in input order *)
From FV Require C18.ModelLayout C18.ProofsLayout.
Theorem merged_script_tags_sorted : forall l r, ModelLayout.mergeScriptRecords l = Ok r -> Sorted.StronglySorted Z.lt (map fst r).
Proof. exact ProofsLayout.merged_script_tags_sorted. Qed.
Print Assumptions merged_script_tags_sorted.

Theorem merged_langsys_tags_sorted : forall l s, (2 <= length l)%nat -> ModelLayout.mergeScripts l = Ok s ->
  Sorted.StronglySorted Z.lt (map fst (ModelLayout.recs s)).
Proof. exact ProofsLayout.merged_langsys_tags_sorted. Qed.
Print Assumptions merged_langsys_tags_sorted.

Theorem merged_feature_tags_sorted : forall l m, ModelLayout.mergeLangSyses l = Ok m ->
  Sorted.StronglySorted Z.lt (map fst (ModelLayout.feats m)).
Proof. exact ProofsLayout.merged_feature_tags_sorted. Qed.
Print Assumptions merged_feature_tags_sorted.

Theorem merged_feature_lookups : forall ls t,
  ProofsLayout.feat_lookups (ModelLayout.mergeFeatureLists ls) t = concat (map (fun fs => ProofsLayout.feat_lookups fs t) ls).
Proof. exact ProofsLayout.merged_feature_lookups. Qed.
Print Assumptions merged_feature_lookups.

(* the generic fact behind all three levels: group by tag, then sort *)
Theorem merge_tag_content : forall (lsts : list (list (Z * ModelLayout.langsys))) t,
  ProofsLayout.assoc t (ModelLayout.merge_by_tag lsts) =
  match ProofsLayout.tagged t (concat lsts) with [] => None | vs => Some vs end.
Proof. exact ProofsLayout.merge_tag_content_langsys. Qed.
Print Assumptions merge_tag_content.
