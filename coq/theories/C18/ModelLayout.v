(* C18/ModelLayout.v — merge/layout.py: mergeLookupLists, mergeFeatures, mergeFeatureLists, mergeLangSyses, mergeScripts,
   mergeScriptRecords (15-106).  Tags are 4-byte strings, here the integers they spell (same order); a lookup is an opaque id. *)
From Coq Require Import ZArith List Bool.
From FV Require Import Base.Ser Base.Res.
Import ListNotations.
Open Scope Z_scope.

(* ---- d = {}; for ... : d.setdefault(tag, []).append(x)  — an insertion-ordered dict of lists *)
Fixpoint dict_add {A} (k : Z) (x : A) (d : list (Z * list A)) : list (Z * list A) :=
  match d with
  | [] => [(k, [x])]
  | (k', xs) :: r => if Z.eqb k k' then (k', xs ++ [x]) :: r else (k', xs) :: dict_add k x r
  end.
Definition group {A} (l : list (Z * A)) : list (Z * list A) := fold_left (fun d kx => dict_add (fst kx) (snd kx) d) l [].

(* ---- sorted(d.items()) / sorted(d.keys()): keys are distinct *)
Fixpoint insert_tag {A} (p : Z * A) (l : list (Z * A)) : list (Z * A) :=
  match l with [] => [p] | q :: r => if fst p <=? fst q then p :: q :: r else q :: insert_tag p r end.
Fixpoint sort_tags {A} (l : list (Z * A)) : list (Z * A) :=
  match l with [] => [] | p :: r => insert_tag p (sort_tags r) end.

Definition merge_by_tag {A} (lsts : list (list (Z * A))) : list (Z * list A) := sort_tags (group (concat lsts)).

(* ---- the object model *)
Definition feature := list Z.                                   (* LookupListIndex *)
Record langsys := mkLang { req : Z; feats : list (Z * feature) }.    (* ReqFeatureIndex, FeatureIndex as (FeatureTag, Feature) after layoutPreMerge *)
Record script := mkScript { dflt : option langsys; recs : list (Z * langsys) }.

(* mergeFeatures: LookupListIndex = sumLists of the non-empty ones *)
Definition mergeFeatures (l : list feature) : feature := concat l.
Definition mergeFeatureLists (l : list (list (Z * feature))) : list (Z * feature) :=
  map (fun kv => (fst kv, mergeFeatures (snd kv))) (merge_by_tag l).
Definition NOREQ : Z := 65535.
Definition mergeLangSyses (l : list langsys) : Res langsys :=
  match l with
  | [] => Err AssertionError
  | _ => if forallb (fun x => Z.eqb (req x) NOREQ) l then Ok (mkLang NOREQ (mergeFeatureLists (map feats l))) else Err AssertionError
  end.

Fixpoint map_res {A B} (f : A -> Res B) (l : list A) : Res (list B) :=
  match l with
  | [] => Ok []
  | x :: r => match f x with Err e => Err e | Ok y => match map_res f r with Err e => Err e | Ok ys => Ok (y :: ys) end end
  end.
Definition somes {A} (l : list (option A)) : list A := concat (map (fun o => match o with Some x => [x] | None => [] end) l).

Definition mergeScripts (l : list script) : Res script :=
  match l with
  | [] => Err AssertionError
  | [s] => Ok s
  | _ =>
    match map_res (fun kv => match mergeLangSyses (snd kv) with Ok x => Ok (fst kv, x) | Err e => Err e end) (merge_by_tag (map recs l)) with
    | Err e => Err e
    | Ok rs =>
      match somes (map dflt l) with
      | [] => Ok (mkScript None rs)
      | ds => match mergeLangSyses ds with Ok d => Ok (mkScript (Some d) rs) | Err e => Err e end
      end
    end
  end.

Definition mergeScriptRecords (l : list (list (Z * script))) : Res (list (Z * script)) :=
  map_res (fun kv => match mergeScripts (snd kv) with Ok x => Ok (fst kv, x) | Err e => Err e end) (merge_by_tag l).
