(* C03/ModelProgram.v — ttLib/tables/ttProgram.py: the TrueType instruction disassembler (Program._disassemble with
   preserve=True, what Program.toXML writes) and assembler (Program._assemble, what fromXML runs), at the level of TOKENS.

   The two instruction tables are regenerated from the source on every run (Data/Data_ttops.v: `instructions` and
   `streamInstructions` as (opcode, argBits) by position; the translator aborts on duplicate mnemonics, overlapping opcode
   ranges, or stream instructions other than NPUSHB, NPUSHW, PUSHB, PUSHW, whose NAMES the assembler tests).  The text layer
   (the token regular expression, "[ ]", comments, binary digits of the argument) is outside the model: the harness parses the
   real assembly into these tokens and prints tokens as assembly, so it is exercised by the correspondence.

   Python                                               here
   opcodeDict[op] = (mnemonic, argBits, argoffset, _)   lookup tt_instructions op = Some (position, argBits, argoffset)
   "MNEMONIC[bits]"                                     TOp position nbits value        ("[ ]" is nbits = 0)
   "INSTRnnn[ ]"                                        TInstr nnn
   "PUSHB[ ] /* n values pushed */ v1 .. vn" etc.       TPush kind [v1; ..; vn]
   IndexError on a truncated push, AssertionError on a zero count: toXML then falls back to a hex dump (lossless) *)
From Coq Require Import ZArith List Bool.
From FV Require Import Base.Res Data.Data_ttops.
Import ListNotations.
Open Scope Z_scope.

Inductive pushkind := KPUSH | KNPUSHB | KNPUSHW | KPUSHB | KPUSHW.
Inductive tok :=
| TOp (mn : nat) (nbits : Z) (arg : Z)
| TInstr (op : Z)
| TPush (k : pushkind) (vals : list Z).

(* _makeDict: opcodeDict[op + i] for i < 2^argBits; argoffset is op when argBits > 0 and 0 otherwise. Later rows overwrite. *)
Fixpoint lookup_from (tbl : list (Z * Z)) (idx : nat) (op : Z) (acc : option (nat * Z * Z)) : option (nat * Z * Z) :=
  match tbl with
  | [] => acc
  | (o, ab) :: r =>
      let hit := if ab =? 0 then op =? o else (o <=? op) && (op <? o + 2 ^ ab) in
      lookup_from r (S idx) op (if hit then Some (idx, ab, if ab =? 0 then 0 else o) else acc)
  end.
Definition lookup (tbl : list (Z * Z)) (op : Z) := lookup_from tbl 0 op None.

Definition stream_kind (idx : nat) : pushkind :=
  match idx with 0%nat => KNPUSHB | 1%nat => KNPUSHW | 2%nat => KPUSHB | _ => KPUSHW end.
Definition is_words (k : pushkind) : bool := match k with KNPUSHW | KPUSHW => true | _ => false end.

(* n values from the instruction stream *)
Fixpoint read_bytes (n : nat) (bs : list Z) : Res (list Z * list Z) :=
  match n with
  | O => Ok ([], bs)
  | S m => match bs with
           | [] => Err IndexError
           | b :: r => let* (vs, rest) := read_bytes m r in Ok (b :: vs, rest)
           end
  end.
Definition signed16 (v : Z) : Z := if 32768 <=? v then v - 65536 else v.
Fixpoint read_words (n : nat) (bs : list Z) : Res (list Z * list Z) :=
  match n with
  | O => Ok ([], bs)
  | S m => match bs with
           | b1 :: b2 :: r => let* (vs, rest) := read_words m r in Ok (signed16 (Z.lor (Z.shiftl b1 8) b2) :: vs, rest)
           | _ => Err IndexError
           end
  end.

(* one instruction from the front of the bytecode (preserve=True: every push instruction is a token of its own) *)
Definition dis_one (bs : list Z) : Res (tok * list Z) :=
  match bs with
  | [] => Err IndexError
  | op :: rest =>
      match lookup tt_instructions op with
      | Some (mn, ab, off) => Ok (TOp mn ab (if ab =? 0 then 0 else op - off), rest)
      | None =>
          match lookup tt_stream op with
          | Some (si, ab, off) =>
              let k := stream_kind si in
              let* (n, rest1) := (if ab =? 0 then match rest with [] => Err IndexError | c :: r => Ok (c, r) end
                                  else Ok (op - off + 1, rest)) in
              if n <=? 0 then Err AssertionError
              else let* (vs, rest2) := (if is_words k then read_words (Z.to_nat n) rest1 else read_bytes (Z.to_nat n) rest1) in
                   Ok (TPush k vs, rest2)
          | None => Ok (TInstr op, rest)
          end
      end
  end.

Fixpoint dis_fuel (fuel : nat) (bs : list Z) : Res (list tok) :=
  match bs with
  | [] => Ok []
  | _ => match fuel with
         | O => Err OutOfFuel
         | S f => let* (t, rest) := dis_one bs in let* ts := dis_fuel f rest in Ok (t :: ts)
         end
  end.
(* every instruction consumes at least one byte *)
Definition disassemble (bs : list Z) : Res (list tok) := dis_fuel (length bs) bs.

(* ---- assembler ---- *)
Definition word_bytes (v : Z) : list Z := [Z.land (Z.shiftr v 8) 255; Z.land v 255].
Definition in_word (v : Z) : bool := (-32768 <=? v) && (v <? 32768).
Definition in_byte (v : Z) : bool := (0 <=? v) && (v <=? 255).

Definition stream_op (k : pushkind) : Z :=
  match k with
  | KNPUSHB => fst (nth 0 tt_stream (0, 0)) | KNPUSHW => fst (nth 1 tt_stream (0, 0))
  | KPUSHB => fst (nth 2 tt_stream (0, 0)) | KPUSHW => fst (nth 3 tt_stream (0, 0)) | KPUSH => 0
  end.

(* "Write exactly what we've been asked to" *)
Definition asm_push_exact (k : pushkind) (vals : list Z) : Res (list Z) :=
  let n := Z.of_nat (length vals) in
  let* head := (match k with
                | KPUSHB | KPUSHW => if n <=? 8 then Ok [stream_op k + n - 1] else Err AssertionError
                | _ => if n <? 256 then Ok [stream_op k; n] else Err AssertionError
                end) in
  if is_words k then
    if forallb in_word vals then Ok (head ++ flat_map word_bytes vals) else Err AssertionError
  else
    if forallb (fun v => (0 <=? v) && (v <? 256)) vals then Ok (head ++ vals) else Err AssertionError.

(* PUSH[ ]: "Automatically choose the most compact representation" — the three counting loops and the `continue` *)
Fixpoint count_while (p : Z -> bool) (limit : nat) (l : list Z) : nat :=
  match limit, l with
  | S m, x :: r => if p x then S (count_while p m r) else O
  | _, _ => O
  end.
Definition not_byte (v : Z) : bool := negb (in_byte v).

Fixpoint auto_fuel (fuel : nat) (args : list Z) (nWords : nat) : Res (list Z) :=
  match fuel with
  | O => Err OutOfFuel
  | S f =>
      match args with
      | [] => Ok []
      | _ =>
          let nArgs := length args in
          let nWords := (nWords + count_while not_byte (255 - nWords) (skipn nWords args))%nat in
          let nBytes := count_while in_byte 255 (skipn nWords args) in
          if (Nat.ltb nBytes 2 && Nat.ltb (nWords + nBytes) 255 && negb (Nat.eqb (nWords + nBytes) nArgs))%bool
          then auto_fuel f args (nWords + nBytes)
          else
            let ws := firstn nWords args in
            let bs := firstn nBytes (skipn nWords args) in
            let* wpart := (if Nat.eqb nWords 0 then Ok []
                           else if forallb in_word ws
                                then Ok ((if Nat.leb nWords 8 then [stream_op KPUSHW + Z.of_nat nWords - 1]
                                          else [stream_op KNPUSHW; Z.of_nat nWords]) ++ flat_map word_bytes ws)
                                else Err AssertionError) in
            let bpart := (if Nat.eqb nBytes 0 then []
                          else (if Nat.leb nBytes 8 then [stream_op KPUSHB + Z.of_nat nBytes - 1]
                                else [stream_op KNPUSHB; Z.of_nat nBytes]) ++ bs) in
            let* rest := auto_fuel f (skipn (nWords + nBytes) args) 0 in
            Ok (wpart ++ bpart ++ rest)
      end
  end.
Definition asm_push_auto (args : list Z) : Res (list Z) := auto_fuel (2 * length args + 2) args 0.

Definition asm_one (t : tok) : Res (list Z) :=
  match t with
  | TInstr op => Ok [op]
  | TOp mn nbits arg =>
      match nth_error tt_instructions mn with
      | None => Err KeyError
      | Some (o, ab) => if nbits =? ab then Ok [o + arg] else Err ValueError
      end
  | TPush KPUSH vals => asm_push_auto vals
  | TPush k vals => asm_push_exact k vals
  end.

Fixpoint asm_all (ts : list tok) : Res (list Z) :=
  match ts with
  | [] => Ok []
  | t :: r => let* b := asm_one t in let* bs := asm_all r in Ok (b ++ bs)
  end.

(* the closing `assert max(bytecode) < 256 and min(bytecode) >= 0` *)
Definition assemble (ts : list tok) : Res (list Z) :=
  let* bs := asm_all ts in
  if forallb in_byte bs then Ok bs else Err AssertionError.

(* ---- entry points for the driver: a token is (tag, numbers): 0 [mn; nbits; arg] | 1 [op] | 2..6 values (PUSH, NPUSHB, NPUSHW, PUSHB, PUSHW) *)
Definition tok_out (t : tok) : Z * list Z :=
  match t with
  | TOp mn nb a => (0, [Z.of_nat mn; nb; a])
  | TInstr op => (1, [op])
  | TPush k vs => ((match k with KPUSH => 2 | KNPUSHB => 3 | KNPUSHW => 4 | KPUSHB => 5 | KPUSHW => 6 end), vs)
  end.
Definition tok_in (t : Z * list Z) : tok :=
  let '(tag, l) := t in
  if tag =? 0 then TOp (Z.to_nat (nth 0 l 0)) (nth 1 l 0) (nth 2 l 0)
  else if tag =? 1 then TInstr (nth 0 l 0)
  else TPush (if tag =? 2 then KPUSH else if tag =? 3 then KNPUSHB else if tag =? 4 then KNPUSHW else if tag =? 5 then KPUSHB else KPUSHW) l.

Definition tt_disassemble (bs : list Z) : Res (list (Z * list Z)) :=
  match disassemble bs with Ok ts => Ok (map tok_out ts) | Err e => Err e end.
Definition tt_assemble (ts : list (Z * list Z)) : Res (list Z) := assemble (map tok_in ts).
