(* C03/Model.v — the text layer of TTX: misc/xmlWriter.py escape/escapeattr (196-221),
   misc/textTools.py hexStr/deHexStr (40-58), and a specification-level XML 1.0 un-escaper. *)
From Coq Require Import ZArith List Bool.
From FV Require Import Base.Ser Base.Res.
Import ListNotations.
Open Scope Z_scope.

Definition illegal_xml (c : Z) : bool :=
  ((0 <=? c) && (c <? 9)) || (c =? 11) || (c =? 12) || ((14 <=? c) && (c <? 32)) ||
  ((55296 <=? c) && (c <? 57344)) || (c =? 65534) || (c =? 65535).

(* escape: & < > CR are replaced, illegal characters become '?' *)
Definition escape_char (c : Z) : list Z :=
  if c =? 38 then [38; 97; 109; 112; 59]           (* &amp; *)
  else if c =? 60 then [38; 108; 116; 59]          (* &lt; *)
  else if c =? 62 then [38; 103; 116; 59]          (* &gt; *)
  else if c =? 13 then [38; 35; 49; 51; 59]        (* &#13; *)
  else if illegal_xml c then [63]                  (* REPLACEMENT "?" *)
  else [c].
Definition escape (s : list Z) : list Z := flat_map escape_char s.
Definition escapeattr_char (c : Z) : list Z :=
  if c =? 34 then [38; 113; 117; 111; 116; 59] else escape_char c.      (* &quot; *)
Definition escapeattr (s : list Z) : list Z := flat_map escapeattr_char s.

(* ---- what an XML 1.0 parser returns for character data / attribute values containing only the
   predefined entities and the character reference &#13; (written from the XML specification) *)
Fixpoint starts (p s : list Z) : bool :=
  match p, s with
  | [], _ => true
  | x :: p', y :: s' => (x =? y) && starts p' s'
  | _ :: _, [] => false
  end.
Fixpoint xml_unescape (fuel : nat) (s : list Z) : list Z :=
  match fuel with
  | O => []
  | S f =>
    match s with
    | [] => []
    | c :: r =>
      if c =? 38 then
        if starts [97; 109; 112; 59] r then 38 :: xml_unescape f (skipn 4 r)
        else if starts [108; 116; 59] r then 60 :: xml_unescape f (skipn 3 r)
        else if starts [103; 116; 59] r then 62 :: xml_unescape f (skipn 3 r)
        else if starts [113; 117; 111; 116; 59] r then 34 :: xml_unescape f (skipn 5 r)
        else if starts [35; 49; 51; 59] r then 13 :: xml_unescape f (skipn 4 r)
        else c :: xml_unescape f r
      else c :: xml_unescape f r
    end
  end.
(* attribute-value normalisation: literal TAB and LF become a space (CR only ever arrives as &#13;) *)
Definition attr_normalise (s : list Z) : list Z := map (fun c => if (c =? 9) || (c =? 10) then 32 else c) s.
Definition xml_attr_value (fuel : nat) (s : list Z) : list Z :=
  xml_unescape fuel (attr_normalise s).

(* ---- hexStr / deHexStr *)
Definition hexdigit (n : Z) : Z := if n <? 10 then 48 + n else 87 + n.      (* string.hexdigits: lower case *)
Definition hexStr (data : list Z) : list Z :=
  flat_map (fun b => [hexdigit (Z.land (Z.shiftr b 4) 15); hexdigit (Z.land b 15)]) data.
Definition hexval (c : Z) : Res Z :=
  if (48 <=? c) && (c <=? 57) then Ok (c - 48)
  else if (97 <=? c) && (c <=? 102) then Ok (c - 87)
  else if (65 <=? c) && (c <=? 70) then Ok (c - 55)
  else Err ValueError.
Definition is_space (c : Z) : bool := (c =? 32) || ((9 <=? c) && (c <=? 13)) || ((28 <=? c) && (c <=? 31)) || (c =? 133) || (c =? 160).
Fixpoint dehex_pairs (s : list Z) : Res (list Z) :=
  match s with
  | [] => Ok []
  | [a] => let* x := hexval a in Ok [x * 16]                    (* odd length: a "0" is appended *)
  | a :: b :: r => let* x := hexval a in let* y := hexval b in let* t := dehex_pairs r in Ok ((x * 16 + y) :: t)
  end.
Definition deHexStr (s : list Z) : Res (list Z) := dehex_pairs (filter (fun c => negb (is_space c)) s).
