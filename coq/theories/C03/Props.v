(* C03/Props.v — property theorems only *)
From Coq Require Import ZArith List Bool.
From FV Require Import Base.Ser Base.Res C03.Model C03.Proofs.
Import ListNotations.
Open Scope Z_scope.

Theorem escape_roundtrip : forall s fuel, Forall legal s -> (length s <= fuel)%nat ->
  xml_unescape fuel (escape s) = s.
Proof. exact Proofs.escape_roundtrip. Qed.
Print Assumptions escape_roundtrip.

Theorem escapeattr_roundtrip : forall s fuel, Forall legal s -> (length s <= fuel)%nat ->
  xml_attr_value fuel (escapeattr s) = attr_normalise s.
Proof. exact Proofs.escapeattr_roundtrip. Qed.
Print Assumptions escapeattr_roundtrip.

Theorem hex_roundtrip : forall data, Forall (fun b => 0 <= b < 256) data -> deHexStr (hexStr data) = Ok data.
Proof. exact Proofs.hex_roundtrip. Qed.
Print Assumptions hex_roundtrip.
