(* C03/Props.v — property theorems only *)
From Coq Require Import ZArith List Bool.
From FV Require Import Base.Ser Base.Res C03.Model C03.Proofs.
Import ListNotations.
Open Scope Z_scope.

Theorem escape_roundtrip : forall s fuel, Forall legal s -> (length s <= fuel)%nat ->
  xml_unescape fuel (escape s) = s.
Proof. exact Proofs.escape_roundtrip. Qed.
Print Assumptions escape_roundtrip.

Theorem escapeattr_roundtrip : forall s fuel, Forall legal s -> (length s <= fuel)%nat ->
  xml_attr_value fuel (escapeattr s) = attr_normalise s.
Proof. exact Proofs.escapeattr_roundtrip. Qed.
Print Assumptions escapeattr_roundtrip.

Theorem hex_roundtrip : forall data, Forall (fun b => 0 <= b < 256) data -> deHexStr (hexStr data) = Ok data.
Proof. exact Proofs.hex_roundtrip. Qed.
Print Assumptions hex_roundtrip.

(* bit fields (head.flags, head.macStyle, OS/2.fsType, OS/2.fsSelection, ...) are written as groups of binary digits
   (misc/textTools.py num2binary) and read back with binary2num: every value that fits the field's width comes back *)
From FV Require C03.ModelBinary C03.ProofsBinary.
Theorem binary_roundtrip : forall l bits, 0 <= bits -> 0 <= l < 2 ^ bits ->
  exists s, ModelBinary.num2binary l bits = Ok s /\ ModelBinary.binary2num s = l.
Proof. exact ProofsBinary.binary_roundtrip. Qed.
Print Assumptions binary_roundtrip.

(* TrueType instruction programs (ttProgram.py): whatever Program.toXML writes for a program — the disassembly with every push
   instruction kept as it is — Program.fromXML assembles back into exactly the same bytecode. For every byte string on which the
   disassembler succeeds (where it fails — a truncated push, a zero count — toXML writes a hex dump instead, which is lossless by
   hex_roundtrip), over the instruction tables regenerated from the source on every run. *)
From FV Require C03.ModelProgram C03.ProofsProgram.
Theorem program_roundtrip : forall bs toks, Forall ProofsProgram.byte bs ->
  ModelProgram.disassemble bs = Ok toks -> ModelProgram.assemble toks = Ok bs.
Proof. exact ProofsProgram.program_roundtrip. Qed.
Print Assumptions program_roundtrip.

(* the disassembler model's fuel (one unit per byte) always suffices *)
Theorem disassemble_fuel_suffices : forall bs, Forall ProofsProgram.byte bs -> ModelProgram.disassemble bs <> Err OutOfFuel.
Proof. exact ProofsProgram.disassemble_fuel_suffices. Qed.
Print Assumptions disassemble_fuel_suffices.

(* the automatic PUSH[ ] packing terminates: its loop — three counters and a `continue` that re-enters with more words — always
   makes progress (a byte run of length 0 cannot trigger the `continue`, an emitted group is never empty), so the model's fuel
   2 * len + 2 is never exhausted, whatever the arguments *)
From FV Require C03.ProofsPush.
Theorem push_auto_fuel_suffices : forall args, ModelProgram.asm_push_auto args <> Err OutOfFuel.
Proof. exact ProofsPush.push_auto_fuel_suffices. Qed.
Print Assumptions push_auto_fuel_suffices.

(* PUSH[ ] with ANY argument list the assembler accepts (every mixture of byte-sized and word-sized values, runs of any length:
   the 8-value opcode forms, the counted forms up to 255, short byte runs folded into words): the bytes it writes disassemble into
   push instructions only, and the values they push are exactly the arguments, in order *)
From FV Require C03.ProofsPushValues.
Theorem push_auto_values : forall args bs, ModelProgram.asm_push_auto args = Ok bs ->
  exists toks, ModelProgram.disassemble bs = Ok toks /\ ProofsPushValues.all_pushed toks = Some args.
Proof. exact ProofsPushValues.push_auto_values. Qed.
Print Assumptions push_auto_values.

(* the two instruction tables as the source has them now: no opcode is claimed by two rows or by both tables, so the
   dictionaries _makeDict builds do not depend on the order of the rows *)
Theorem opcode_classes_disjoint : forall op, 0 <= op < 256 ->
  (ProofsProgram.count_cover Data_ttops.tt_instructions op + ProofsProgram.count_cover Data_ttops.tt_stream op <= 1)%nat.
Proof. exact ProofsProgram.opcode_classes_disjoint. Qed.
Print Assumptions opcode_classes_disjoint.
