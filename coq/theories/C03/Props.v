(* C03/Props.v — property theorems only *)
From Coq Require Import ZArith List Bool.
From FV Require Import Base.Ser Base.Res C03.Model C03.Proofs.
Import ListNotations.
Open Scope Z_scope.

Theorem escape_roundtrip : forall s fuel, Forall legal s -> (length s <= fuel)%nat ->
  xml_unescape fuel (escape s) = s.
Proof. exact Proofs.escape_roundtrip. Qed.
Print Assumptions escape_roundtrip.

Theorem escapeattr_roundtrip : forall s fuel, Forall legal s -> (length s <= fuel)%nat ->
  xml_attr_value fuel (escapeattr s) = attr_normalise s.
Proof. exact Proofs.escapeattr_roundtrip. Qed.
Print Assumptions escapeattr_roundtrip.

Theorem hex_roundtrip : forall data, Forall (fun b => 0 <= b < 256) data -> deHexStr (hexStr data) = Ok data.
Proof. exact Proofs.hex_roundtrip. Qed.
Print Assumptions hex_roundtrip.

(* bit fields (head.flags, head.macStyle, OS/2.fsType, OS/2.fsSelection, ...) are written as groups of binary digits
   (misc/textTools.py num2binary) and read back with binary2num: every value that fits the field's width comes back *)
From FV Require C03.ModelBinary C03.ProofsBinary.
Theorem binary_roundtrip : forall l bits, 0 <= bits -> 0 <= l < 2 ^ bits ->
  exists s, ModelBinary.num2binary l bits = Ok s /\ ModelBinary.binary2num s = l.
Proof. exact ProofsBinary.binary_roundtrip. Qed.
Print Assumptions binary_roundtrip.
