From Coq Require Import ZArith List String Bool.
From FV Require Import Base.Ser Base.Res C03.Model.
From FV Require C03.ModelBinary C03.ModelProgram.
Import ListNotations.
Open Scope string_scope.
Definition unesc (s : list Z) : list Z := xml_unescape (S (List.length s)) s.
Definition reg : registry := [
  ("escape", run1 escape);
  ("escapeattr", run1 escapeattr);
  ("xml_unescape", run1 unesc);
  ("hexStr", run1 hexStr);
  ("deHexStr", run1 deHexStr);
  ("num2binary", run2 ModelBinary.num2binary);
  ("binary2num", run1 ModelBinary.binary2num);
  ("tt_disassemble", run1 ModelProgram.tt_disassemble);
  ("tt_assemble", run1 ModelProgram.tt_assemble)
].
Definition fv_entry := dispatch reg.
