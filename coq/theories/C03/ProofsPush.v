From Coq Require Import ZArith List Bool Lia Arith.
From FV Require Import Base.Res Data.Data_ttops C03.ModelProgram.
Import ListNotations.
Open Scope Z_scope.

Lemma count_le_limit p lim : forall l, (count_while p lim l <= lim)%nat.
Proof. induction lim as [|m IH]; intros l; cbn; [lia|]. destruct l as [|x r]; [lia|]. destruct (p x); [specialize (IH r); lia | lia]. Qed.
Lemma count_le_len p lim : forall l, (count_while p lim l <= length l)%nat.
Proof. induction lim as [|m IH]; intros l; cbn; [lia|]. destruct l as [|x r]; cbn; [lia|]. destruct (p x); [specialize (IH r); lia | lia]. Qed.
(* where the count stops short of both the limit and the list, the next element fails the test *)
Lemma count_stop p lim : forall l, (count_while p lim l < lim)%nat -> (count_while p lim l < length l)%nat ->
  exists x, nth_error l (count_while p lim l) = Some x /\ p x = false.
Proof.
  induction lim as [|m IH]; intros l H1 H2; cbn in *; [lia|].
  destruct l as [|x r]; cbn in *; [lia|]. destruct (p x) eqn:P.
  - destruct (IH r) as [y [N Q]]; [lia|lia|]. exists y. cbn. auto.
  - exists x. cbn. auto.
Qed.
Lemma count_pos p lim x r : (0 < lim)%nat -> p x = true -> (0 < count_while p lim (x :: r))%nat.
Proof. intros L P. destruct lim; [lia|]. cbn. rewrite P. lia. Qed.

Lemma nth_error_skipn' {A} n : forall (l : list A) k, nth_error (skipn n l) k = nth_error l (n + k).
Proof. induction n as [|n IH]; intros l k; [reflexivity|]. destruct l as [|x r]; [destruct k; reflexivity|]. cbn. apply IH. Qed.

Lemma skipn_nth {A} n : forall (l : list A) x, nth_error l n = Some x -> skipn n l = x :: skipn (S n) l.
Proof. induction n as [|n IH]; intros [|y l] x N; cbn in *; try discriminate; [injection N as ->; reflexivity | apply IH; exact N]. Qed.

Lemma in_byte_not x : not_byte x = false -> in_byte x = true.
Proof. unfold not_byte. destruct (in_byte x); auto. Qed.

Lemma auto_fuel_enough fuel : forall args nW, (nW <= length args)%nat -> (2 * length args - nW < fuel)%nat ->
  auto_fuel fuel args nW <> Err OutOfFuel.
Proof.
  induction fuel as [|f IH]; intros args nW Hn Hf; [lia|].
  cbn [auto_fuel]. destruct args as [|a0 ar] eqn:EA; [discriminate|]. rewrite <- EA in *.
  assert (LA: (0 < length args)%nat) by (subst; cbn; lia).
  set (cw := count_while not_byte (255 - nW) (skipn nW args)).
  set (nWords := (nW + cw)%nat).
  set (nBytes := count_while in_byte 255 (skipn nWords args)).
  assert (C1: (cw <= 255 - nW)%nat) by apply count_le_limit.
  assert (C2: (cw <= length (skipn nW args))%nat) by apply count_le_len.
  rewrite skipn_length in C2.
  assert (C3: (nBytes <= length (skipn nWords args))%nat) by apply count_le_len.
  rewrite skipn_length in C3.
  destruct (Nat.ltb nBytes 2 && Nat.ltb (nWords + nBytes) 255 && negb (Nat.eqb (nWords + nBytes) (length args)))%bool eqn:CONT.
  - (* continue: nBytes >= 1 *)
    apply andb_true_iff in CONT. destruct CONT as [CONT NE]. apply andb_true_iff in CONT. destruct CONT as [_ LT].
    apply Nat.ltb_lt in LT. apply negb_true_iff in NE. apply Nat.eqb_neq in NE.
    assert (NB: (1 <= nBytes)%nat).
    { destruct (Nat.eq_dec nBytes 0) as [Z0|]; [|lia]. exfalso.
      assert (S1: (cw < 255 - nW)%nat) by lia.
      assert (S2: (cw < length (skipn nW args))%nat) by (rewrite skipn_length; lia).
      destruct (count_stop not_byte _ _ S1 S2) as [x [N Q]].
      fold cw in N. rewrite nth_error_skipn' in N. fold nWords in N.
      pose proof (skipn_nth nWords args x N) as SK.
      unfold nBytes in Z0. rewrite SK in Z0.
      pose proof (count_pos in_byte 255 x (skipn (S nWords) args) ltac:(lia) (in_byte_not x Q)). lia. }
    apply IH; lia.
  - (* emit *)
    assert (NT: (1 <= nWords + nBytes)%nat).
    { destruct (Nat.eq_dec (nWords + nBytes) 0) as [Z0|]; [|lia]. exfalso.
      assert (nW = 0 /\ cw = 0 /\ nBytes = 0)%nat as [E0 [CW NB]] by (unfold nWords in *; lia).
      subst nW. unfold nBytes, nWords in NB. rewrite CW in NB. unfold cw in CW. rewrite EA in CW, NB.
      cbn [Nat.add skipn] in CW, NB. change (255 - 0)%nat with 255%nat in CW.
      destruct (in_byte a0) eqn:IB.
      - pose proof (count_pos in_byte 255 a0 ar ltac:(lia) IB). lia.
      - assert (NBT: not_byte a0 = true) by (unfold not_byte; rewrite IB; reflexivity).
        pose proof (count_pos not_byte 255 a0 ar ltac:(lia) NBT). lia. }
    destruct (if Nat.eqb nWords 0 then Ok [] else _) as [wp|e] eqn:WP; cbn [bind].
    + specialize (IH (skipn (nWords + nBytes) args) 0%nat ltac:(lia)).
      rewrite skipn_length in IH. specialize (IH ltac:(lia)).
      destruct (auto_fuel f (skipn (nWords + nBytes) args) 0) as [r|e]; cbn [bind]; [discriminate|].
      intros X. apply IH. exact X.
    + destruct (Nat.eqb nWords 0); [discriminate WP|]. destruct (forallb in_word (firstn nWords args)); [discriminate WP|].
      injection WP as <-. discriminate.
Qed.

Theorem push_auto_fuel_suffices args : asm_push_auto args <> Err OutOfFuel.
Proof. unfold asm_push_auto. apply auto_fuel_enough; lia. Qed.
