(* C03/ProofsPushValues.v — PUSH[ ] (automatic packing): the bytes written disassemble into push instructions only, and the
   values they push are exactly the arguments, in order *)
From Coq Require Import ZArith List Bool Lia Arith ZifyBool.
From FV Require Import Base.Res Base.Bits Data.Data_ttops C03.ModelProgram C03.ProofsProgram C03.ProofsPush.
Import ListNotations.
Open Scope Z_scope.
Ltac Zify.zify_post_hook ::= Z.to_euclidean_division_equations.
Local Arguments Z.shiftl : simpl never.
Local Arguments Z.shiftr : simpl never.
Local Arguments Z.lor : simpl never.
Local Arguments Z.land : simpl never.
Local Arguments Z.pow : simpl never.

(* the values a token pushes; None for anything that is not a push *)
Definition pushed (t : tok) : option (list Z) := match t with TPush _ vs => Some vs | _ => None end.
Fixpoint all_pushed (ts : list tok) : option (list Z) :=
  match ts with
  | [] => Some []
  | t :: r => match pushed t, all_pushed r with Some a, Some b => Some (a ++ b) | _, _ => None end
  end.

(* ---- table facts for the four push opcodes, by evaluation ---- *)
Definition short_ok (k : pushkind) (n : Z) : bool :=
  let op := stream_op k + n - 1 in
  match lookup tt_instructions op, lookup tt_stream op with
  | None, Some (si, ab, off) => negb (ab =? 0) && (off =? stream_op k) && Bool.eqb (is_words (stream_kind si)) (is_words k)
                                && (match k, stream_kind si with KPUSHB, KPUSHB | KPUSHW, KPUSHW => true | _, _ => false end)
  | _, _ => false
  end.
Lemma short_table : forallb (fun n => short_ok KPUSHB n && short_ok KPUSHW n) [1; 2; 3; 4; 5; 6; 7; 8] = true.
Proof. vm_compute. reflexivity. Qed.
Definition long_ok (k : pushkind) : bool :=
  match lookup tt_instructions (stream_op k), lookup tt_stream (stream_op k) with
  | None, Some (si, ab, off) => (ab =? 0) && (match k, stream_kind si with KNPUSHB, KNPUSHB | KNPUSHW, KNPUSHW => true | _, _ => false end)
  | _, _ => false
  end.
Lemma long_table : long_ok KNPUSHB && long_ok KNPUSHW = true.
Proof. vm_compute. reflexivity. Qed.

(* ---- words: every int16 value survives word_bytes / the reader ---- *)
Lemma word_back_spec v : in_word v = true ->
  exists hi lo, word_bytes v = [hi; lo] /\ signed16 (Z.lor (Z.shiftl hi 8) lo) = v /\ in_byte hi = true /\ in_byte lo = true.
Proof.
  intros W. unfold in_word in W. apply andb_true_iff in W. destruct W as [W1 W2].
  exists (Z.land (Z.shiftr v 8) 255), (Z.land v 255). split; [reflexivity|].
  rewrite !land_255, Z.shiftr_div_pow2 by lia. change (2 ^ 8) with 256.
  assert (H1: 0 <= (v / 256) mod 256 < 256) by (apply Z.mod_pos_bound; lia).
  assert (H2: 0 <= v mod 256 < 256) by (apply Z.mod_pos_bound; lia).
  rewrite lor_shiftl_add by (change (2 ^ 8) with 256; lia). change (2 ^ 8) with 256.
  unfold signed16, in_byte. split; [|split; lia].
  destruct (32768 <=? (v / 256) mod 256 * 256 + v mod 256) eqn:E; lia.
Qed.

Lemma read_words_back ws : forall tail, forallb in_word ws = true ->
  read_words (length ws) (flat_map word_bytes ws ++ tail) = Ok (ws, tail).
Proof.
  induction ws as [|v ws IH]; intros tail W; [reflexivity|].
  cbn [forallb] in W. apply andb_true_iff in W. destruct W as [Wv Ws].
  destruct (word_back_spec v Wv) as [hi [lo [E [S _]]]].
  cbn [flat_map length read_words]. rewrite E. cbn [app]. rewrite (IH tail Ws). cbn [bind]. rewrite S. reflexivity.
Qed.
Lemma read_bytes_back bs : forall tail, read_bytes (length bs) (bs ++ tail) = Ok (bs, tail).
Proof. induction bs as [|b bs IH]; intros tail; [reflexivity|]. cbn [length read_bytes app]. rewrite IH. reflexivity. Qed.

(* one push group written by the packer reads back as one push token *)
Lemma dis_words ws tail : (1 <= length ws)%nat -> (length ws <= 255)%nat -> forallb in_word ws = true ->
  exists k, dis_one ((if Nat.leb (length ws) 8 then [stream_op KPUSHW + Z.of_nat (length ws) - 1]
                      else [stream_op KNPUSHW; Z.of_nat (length ws)]) ++ flat_map word_bytes ws ++ tail) = Ok (TPush k ws, tail).
Proof.
  intros L1 L2 W. destruct (Nat.leb (length ws) 8) eqn:LE.
  - apply Nat.leb_le in LE.
    pose proof short_table as T. rewrite forallb_forall in T.
    assert (IN: In (Z.of_nat (length ws)) [1; 2; 3; 4; 5; 6; 7; 8]).
    { assert (H: (length ws = 1 \/ length ws = 2 \/ length ws = 3 \/ length ws = 4 \/ length ws = 5 \/ length ws = 6 \/ length ws = 7 \/ length ws = 8)%nat) by lia.
      destruct H as [H|[H|[H|[H|[H|[H|[H|H]]]]]]]; rewrite H; cbn; tauto. }
    specialize (T _ IN). apply andb_true_iff in T. destruct T as [_ T]. unfold short_ok in T.
    cbn [app dis_one].
    destruct (lookup tt_instructions (stream_op KPUSHW + Z.of_nat (length ws) - 1)); [discriminate|].
    destruct (lookup tt_stream (stream_op KPUSHW + Z.of_nat (length ws) - 1)) as [[[si ab] off]|]; [|discriminate].
    apply andb_true_iff in T. destruct T as [T K]. apply andb_true_iff in T. destruct T as [T IW].
    apply andb_true_iff in T. destruct T as [AB OFF]. apply negb_true_iff in AB. apply Z.eqb_eq in OFF. rewrite AB. cbn [bind].
    destruct (stream_kind si) eqn:SK; try discriminate.
    subst off. replace (stream_op KPUSHW + Z.of_nat (length ws) - 1 - stream_op KPUSHW + 1) with (Z.of_nat (length ws)) by lia.
    replace (Z.of_nat (length ws) <=? 0) with false by lia. cbn [is_words]. rewrite Nat2Z.id.
    rewrite (read_words_back ws tail W). cbn [bind]. exists KPUSHW. reflexivity.
  - apply Nat.leb_gt in LE.
    pose proof long_table as T. apply andb_true_iff in T. destruct T as [_ T]. unfold long_ok in T.
    cbn [app dis_one].
    destruct (lookup tt_instructions (stream_op KNPUSHW)); [discriminate|].
    destruct (lookup tt_stream (stream_op KNPUSHW)) as [[[si ab] off]|]; [|discriminate].
    apply andb_true_iff in T. destruct T as [AB K]. rewrite AB. cbn [bind].
    destruct (stream_kind si) eqn:SK; try discriminate.
    replace (Z.of_nat (length ws) <=? 0) with false by lia. cbn [is_words]. rewrite Nat2Z.id.
    rewrite (read_words_back ws tail W). cbn [bind]. exists KNPUSHW. reflexivity.
Qed.

Lemma dis_bytes bs tail : (1 <= length bs)%nat -> (length bs <= 255)%nat ->
  exists k, dis_one ((if Nat.leb (length bs) 8 then [stream_op KPUSHB + Z.of_nat (length bs) - 1]
                      else [stream_op KNPUSHB; Z.of_nat (length bs)]) ++ bs ++ tail) = Ok (TPush k bs, tail).
Proof.
  intros L1 L2. destruct (Nat.leb (length bs) 8) eqn:LE.
  - apply Nat.leb_le in LE.
    pose proof short_table as T. rewrite forallb_forall in T.
    assert (IN: In (Z.of_nat (length bs)) [1; 2; 3; 4; 5; 6; 7; 8]).
    { assert (H: (length bs = 1 \/ length bs = 2 \/ length bs = 3 \/ length bs = 4 \/ length bs = 5 \/ length bs = 6 \/ length bs = 7 \/ length bs = 8)%nat) by lia.
      destruct H as [H|[H|[H|[H|[H|[H|[H|H]]]]]]]; rewrite H; cbn; tauto. }
    specialize (T _ IN). apply andb_true_iff in T. destruct T as [T _]. unfold short_ok in T.
    cbn [app dis_one].
    destruct (lookup tt_instructions (stream_op KPUSHB + Z.of_nat (length bs) - 1)); [discriminate|].
    destruct (lookup tt_stream (stream_op KPUSHB + Z.of_nat (length bs) - 1)) as [[[si ab] off]|]; [|discriminate].
    apply andb_true_iff in T. destruct T as [T K]. apply andb_true_iff in T. destruct T as [T IW].
    apply andb_true_iff in T. destruct T as [AB OFF]. apply negb_true_iff in AB. apply Z.eqb_eq in OFF. rewrite AB. cbn [bind].
    destruct (stream_kind si) eqn:SK; try discriminate.
    subst off. replace (stream_op KPUSHB + Z.of_nat (length bs) - 1 - stream_op KPUSHB + 1) with (Z.of_nat (length bs)) by lia.
    replace (Z.of_nat (length bs) <=? 0) with false by lia. cbn [is_words]. rewrite Nat2Z.id.
    rewrite (read_bytes_back bs tail). cbn [bind]. exists KPUSHB. reflexivity.
  - apply Nat.leb_gt in LE.
    pose proof long_table as T. apply andb_true_iff in T. destruct T as [T _]. unfold long_ok in T.
    cbn [app dis_one].
    destruct (lookup tt_instructions (stream_op KNPUSHB)); [discriminate|].
    destruct (lookup tt_stream (stream_op KNPUSHB)) as [[[si ab] off]|]; [|discriminate].
    apply andb_true_iff in T. destruct T as [AB K]. rewrite AB. cbn [bind].
    destruct (stream_kind si) eqn:SK; try discriminate.
    replace (Z.of_nat (length bs) <=? 0) with false by lia. cbn [is_words]. rewrite Nat2Z.id.
    rewrite (read_bytes_back bs tail). cbn [bind]. exists KNPUSHB. reflexivity.
Qed.

(* ---- composition ---- *)
Definition reads (bs vals : list Z) : Prop :=
  forall f, (length bs <= f)%nat -> exists toks, dis_fuel f bs = Ok toks /\ all_pushed toks = Some vals.

Lemma reads_nil : reads [] [].
Proof. intros f _. exists []. destruct f; split; reflexivity. Qed.

Lemma reads_cons X tail k vs vals : (1 <= length X)%nat ->
  dis_one (X ++ tail) = Ok (TPush k vs, tail) -> reads tail vals -> reads (X ++ tail) (vs ++ vals).
Proof.
  intros LX D R f Hf. rewrite app_length in Hf. destruct f as [|f']; [lia|].
  destruct (X ++ tail) as [|b r] eqn:E.
  - destruct X; cbn in *; [lia|discriminate].
  - cbn [dis_fuel]. rewrite D. cbn [bind].
    destruct (R f' ltac:(lia)) as [ts [DT AP]]. rewrite DT. cbn [bind].
    exists (TPush k vs :: ts). split; [reflexivity|]. cbn [all_pushed pushed]. rewrite AP. reflexivity.
Qed.

Lemma skipn_skipn' {A} a : forall b (l : list A), skipn a (skipn b l) = skipn (b + a) l.
Proof. intros b. induction b as [|b IH]; intros l; [reflexivity|]. destruct l as [|x r]; [destruct a; reflexivity|]. cbn. apply IH. Qed.

Lemma forallb_firstn {A} (p : A -> bool) n : forall l, forallb p l = true -> forallb p (firstn n l) = true.
Proof. induction n as [|n IH]; intros [|x l] H; cbn in *; auto. apply andb_true_iff in H. destruct H as [-> H]. cbn. auto. Qed.

Lemma auto_values fuel : forall args nW bs, (nW <= length args)%nat -> (nW <= 255)%nat ->
  auto_fuel fuel args nW = Ok bs -> reads bs args.
Proof.
  induction fuel as [|f IH]; intros args nW bs Hn H255 H; [discriminate|].
  cbn [auto_fuel] in H. destruct args as [|a0 ar] eqn:EA; [apply Ok_inj in H; subst; apply reads_nil|]. rewrite <- EA in *.
  set (cw := count_while not_byte (255 - nW) (skipn nW args)) in *.
  set (nWords := (nW + cw)%nat) in *.
  set (nBytes := count_while in_byte 255 (skipn nWords args)) in *.
  assert (C1: (cw <= 255 - nW)%nat) by apply count_le_limit.
  assert (C2: (cw <= length (skipn nW args))%nat) by apply count_le_len.
  rewrite skipn_length in C2.
  assert (C3: (nBytes <= length (skipn nWords args))%nat) by apply count_le_len.
  assert (C4: (nBytes <= 255)%nat) by apply count_le_limit.
  pose proof C3 as C3'. rewrite skipn_length in C3'.
  destruct (Nat.ltb nBytes 2 && Nat.ltb (nWords + nBytes) 255 && negb (Nat.eqb (nWords + nBytes) (length args)))%bool eqn:CONT.
  - apply andb_true_iff in CONT. destruct CONT as [CONT _]. apply andb_true_iff in CONT. destruct CONT as [_ LT].
    apply Nat.ltb_lt in LT. apply (IH args (nWords + nBytes)%nat bs); [unfold nWords in *; lia | lia | exact H].
  - set (ws := firstn nWords args) in *. set (bb := firstn nBytes (skipn nWords args)) in *.
    assert (Lws: length ws = nWords) by (unfold ws; rewrite firstn_length; unfold nWords in *; lia).
    assert (Lbb: length bb = nBytes) by (unfold bb; rewrite firstn_length; lia).
    assert (SPLIT: args = ws ++ bb ++ skipn (nWords + nBytes) args).
    { unfold ws, bb. rewrite <- (firstn_skipn nWords args) at 1. f_equal.
      rewrite <- (firstn_skipn nBytes (skipn nWords args)) at 1. f_equal. apply skipn_skipn'. }
    destruct (auto_fuel f (skipn (nWords + nBytes) args) 0) as [rest|e] eqn:REST.
    2:{ destruct (if Nat.eqb nWords 0 then Ok [] else _) as [?|?]; cbn [bind] in H; discriminate. }
    assert (RR: reads rest (skipn (nWords + nBytes) args)) by (apply (IH _ 0%nat rest); [lia | lia | exact REST]).
    (* the byte group *)
    assert (RB: reads ((if Nat.eqb nBytes 0 then []
                        else (if Nat.leb nBytes 8 then [stream_op KPUSHB + Z.of_nat nBytes - 1] else [stream_op KNPUSHB; Z.of_nat nBytes]) ++ bb) ++ rest)
                      (bb ++ skipn (nWords + nBytes) args)).
    { destruct (Nat.eqb nBytes 0) eqn:B0.
      - apply Nat.eqb_eq in B0. assert (BN: bb = []) by (apply length_zero_iff_nil; lia). rewrite BN. exact RR.
      - apply Nat.eqb_neq in B0. rewrite <- Lbb in *.
        destruct (dis_bytes bb rest ltac:(lia) ltac:(lia)) as [k D].
        set (hdr := if Nat.leb (length bb) 8 then [stream_op KPUSHB + Z.of_nat (length bb) - 1] else [stream_op KNPUSHB; Z.of_nat (length bb)]) in *.
        apply (reads_cons (hdr ++ bb) rest k bb).
        + rewrite app_length. lia.
        + rewrite <- app_assoc. exact D.
        + exact RR. }
    destruct (Nat.eqb nWords 0) eqn:W0.
    + apply Nat.eqb_eq in W0. cbn [bind] in H. apply Ok_inj in H. subst bs. cbn [app].
      assert (WN: ws = []) by (apply length_zero_iff_nil; lia).
      rewrite SPLIT. rewrite WN. cbn [app]. exact RB.
    + apply Nat.eqb_neq in W0. destruct (forallb in_word ws) eqn:IW; [|discriminate]. cbn [bind] in H. apply Ok_inj in H. subst bs.
      rewrite SPLIT. rewrite <- Lws in *.
      set (tailb := (if Nat.eqb nBytes 0 then []
                        else (if Nat.leb nBytes 8 then [stream_op KPUSHB + Z.of_nat nBytes - 1] else [stream_op KNPUSHB; Z.of_nat nBytes]) ++ bb) ++ rest) in *.
      destruct (dis_words ws tailb ltac:(lia) ltac:(unfold nWords in *; lia) IW) as [k D].
      set (hdr := if Nat.leb (length ws) 8 then [stream_op KPUSHW + Z.of_nat (length ws) - 1] else [stream_op KNPUSHW; Z.of_nat (length ws)]) in *.
      replace ((hdr ++ flat_map word_bytes ws) ++ (if Nat.eqb nBytes 0 then []
                        else (if Nat.leb nBytes 8 then [stream_op KPUSHB + Z.of_nat nBytes - 1] else [stream_op KNPUSHB; Z.of_nat nBytes]) ++ bb) ++ rest)
        with ((hdr ++ flat_map word_bytes ws) ++ tailb) by reflexivity.
      apply (reads_cons (hdr ++ flat_map word_bytes ws) tailb k ws).
      * rewrite app_length. assert (1 <= length hdr)%nat by (unfold hdr; destruct (Nat.leb (length ws) 8); cbn; lia). lia.
      * rewrite <- app_assoc. exact D.
      * exact RB.
Qed.

(* PUSH[ ] with any arguments the assembler accepts: the bytes are push instructions only, and they push exactly the arguments *)
Theorem push_auto_values args bs : asm_push_auto args = Ok bs ->
  exists toks, disassemble bs = Ok toks /\ all_pushed toks = Some args.
Proof.
  intros H. unfold asm_push_auto in H.
  pose proof (auto_values _ args 0%nat bs ltac:(lia) ltac:(lia) H) as R.
  apply (R (length bs)). lia.
Qed.
