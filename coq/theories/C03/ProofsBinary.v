(* C03/ProofsBinary.v — binary2num (num2binary l bits) = l *)
From Coq Require Import ZArith List Bool Lia.
From FV Require Import Base.Ser Base.Res C03.ModelBinary.
Import ListNotations.
Open Scope Z_scope.

Definition bitc (l : Z) : Z := if Z.land l 1 =? 1 then 49 else 48.
Fixpoint msb (n : nat) (l : Z) : list Z := match n with O => [] | S k => msb k (Z.shiftr l 1) ++ [bitc l] end.
Definition flat (binary : list Z) (items : list (list Z)) : list Z := binary ++ concat (rev items).
Definition digits (s : list Z) : Prop := Forall (fun c => c = 48 \/ c = 49) s.

Lemma bitc_digit l : bitc l = 48 \/ bitc l = 49.
Proof. unfold bitc. destruct (Z.land l 1 =? 1); auto. Qed.

Lemma loop_flat : forall n i l binary items l' b' it',
  n2b_loop n i l binary items = (l', b', it') ->
  flat b' it' = msb n l ++ flat binary items /\ l' = Z.shiftr l (Z.of_nat n) /\
  (digits binary -> Forall digits items -> digits b' /\ Forall digits it').
Proof.
  induction n as [|n IH]; intros i l binary items l' b' it' H; cbn [n2b_loop] in H.
  - inversion H; subst. repeat split; auto.
  - fold (bitc l) in H.
    assert (Hs : Z.shiftr (Z.shiftr l 1) (Z.of_nat n) = Z.shiftr l (Z.of_nat (S n))).
    { rewrite Z.shiftr_shiftr by lia. f_equal. lia. }
    destruct ((i + 1) mod 8 =? 0).
    + destruct (IH _ _ _ _ _ _ _ H) as [F [L D]]. split; [|split].
      * rewrite F. cbn [msb]. unfold flat. cbn [app]. rewrite rev_app_distr. cbn [rev app concat].
        rewrite <- !app_assoc. cbn [app]. rewrite ?app_nil_r. reflexivity.
      * rewrite L. exact Hs.
      * intros Db Di. apply D; [constructor|]. apply Forall_app. split; [exact Di|]. constructor; [|constructor].
        constructor; [apply bitc_digit|exact Db].
    + destruct (IH _ _ _ _ _ _ _ H) as [F [L D]]. split; [|split].
      * rewrite F. cbn [msb]. unfold flat. rewrite <- !app_assoc. reflexivity.
      * rewrite L. exact Hs.
      * intros Db Di. apply D; [|exact Di]. constructor; [apply bitc_digit|exact Db].
Qed.

Lemma digit_not_space c : c = 48 \/ c = 49 -> is_space c = false.
Proof. intros [-> | ->]; reflexivity. Qed.
Lemma filter_digits s : digits s -> filter (fun c => negb (is_space c)) s = s.
Proof.
  induction 1 as [|c r Hc Hr IH]; [reflexivity|]. cbn [filter]. rewrite (digit_not_space c Hc). cbn [negb]. rewrite IH. reflexivity.
Qed.
Lemma join_sp_cons x y r : join_sp (x :: y :: r) = x ++ 32 :: join_sp (y :: r).
Proof. reflexivity. Qed.
Lemma filter_join : forall xs, Forall digits xs -> filter (fun c => negb (is_space c)) (join_sp xs) = concat xs.
Proof.
  induction xs as [|x r IH]; intros HF; [reflexivity|]. inversion HF as [|? ? Hx Hr]; subst.
  destruct r as [|y r'].
  - cbn [join_sp concat]. rewrite app_nil_r. apply filter_digits, Hx.
  - rewrite join_sp_cons. cbn [concat]. rewrite filter_app. cbn [filter]. change (is_space 32) with true. cbn [negb].
    rewrite (filter_digits x Hx). rewrite (IH Hr). reflexivity.
Qed.

(* the reader *)
Definition rstep (l d : Z) : Z := let l2 := Z.shiftl l 1 in if d =? 48 then l2 else Z.lor l2 1.
Lemma lor_even_one x : Z.lor (2 * x) 1 = 2 * x + 1.
Proof.
  assert (D : Z.land (2 * x) 1 = 0).
  { change 1 with (Z.ones 1). rewrite Z.land_ones by lia. change (2 ^ 1) with 2. rewrite Z.mul_comm. apply Z.mod_mul. lia. }
  rewrite <- (Z.lxor_lor _ _ D). symmetry. apply Z.add_nocarry_lxor, D.
Qed.
Lemma land1 l : Z.land l 1 = l mod 2.
Proof. change 1 with (Z.ones 1). rewrite Z.land_ones by lia. reflexivity. Qed.
Lemma rstep_bit acc l : rstep acc (bitc l) = 2 * acc + l mod 2.
Proof.
  unfold rstep, bitc. rewrite land1, Z.shiftl_mul_pow2 by lia. change (2 ^ 1) with 2.
  pose proof (Z.mod_pos_bound l 2 ltac:(lia)) as B.
  destruct (Z.eqb_spec (l mod 2) 1) as [E|E].
  - change (49 =? 48) with false. cbv iota. rewrite Z.mul_comm, lor_even_one. lia.
  - change (48 =? 48) with true. cbv iota. lia.
Qed.
Lemma read_msb : forall n l acc, fold_left rstep (msb n l) acc = acc * 2 ^ Z.of_nat n + l mod 2 ^ Z.of_nat n.
Proof.
  induction n as [|n IH]; intros l acc.
  - cbn. rewrite Z.mod_1_r. lia.
  - cbn [msb]. rewrite fold_left_app. cbn [fold_left]. rewrite IH, rstep_bit.
    rewrite Z.shiftr_div_pow2 by lia. change (2 ^ 1) with 2.
    replace (Z.of_nat (S n)) with (1 + Z.of_nat n) by lia. rewrite Z.pow_add_r by lia. change (2 ^ 1) with 2.
    set (P := 2 ^ Z.of_nat n). assert (HP : 0 < P) by (apply Z.pow_pos_nonneg; lia).
    rewrite (Z.rem_mul_r l 2 P) by lia. lia.
Qed.

Theorem binary_roundtrip l bits : 0 <= bits -> 0 <= l < 2 ^ bits ->
  exists s, num2binary l bits = Ok s /\ binary2num s = l.
Proof.
  intros Hb Hl. unfold num2binary.
  destruct (n2b_loop (Z.to_nat bits) 0 l [] []) as [[l' binary] items] eqn:E.
  destruct (loop_flat _ _ _ _ _ _ _ _ E) as [F [L D]]. destruct (D ltac:(constructor) ltac:(constructor)) as [Db Di].
  rewrite Z2Nat.id in L by exact Hb.
  assert (Hl' : l' = 0) by (rewrite L, Z.shiftr_div_pow2 by exact Hb; apply Z.div_small; exact Hl).
  rewrite Hl'. cbn [Z.eqb orb].
  eexists. split; [reflexivity|]. unfold binary2num.
  set (items' := match binary with [] => items | _ :: _ => items ++ [binary] end).
  assert (Hd : Forall digits (rev items')).
  { apply Forall_rev. unfold items'. destruct binary; [exact Di|]. apply Forall_app. split; [exact Di|constructor; [exact Db|constructor]]. }
  rewrite (filter_join _ Hd).
  assert (Hc : concat (rev items') = flat binary items).
  { unfold items', flat. destruct binary as [|b r]; [reflexivity|]. rewrite rev_app_distr. cbn [rev app concat]. reflexivity. }
  rewrite Hc, F. unfold flat. cbn [rev concat app]. rewrite app_nil_r.
  change (fold_left (fun l0 d => let l2 := Z.shiftl l0 1 in if d =? 48 then l2 else Z.lor l2 1)) with (fold_left rstep).
  rewrite read_msb. rewrite Z2Nat.id by exact Hb. rewrite Z.mod_small by exact Hl. lia.
Qed.

Example binary_example : num2binary 5 12 = Ok [48; 48; 48; 48; 32; 48; 48; 48; 48; 48; 49; 48; 49] /\ binary2num [48; 48; 48; 48; 32; 48; 48; 48; 48; 48; 49; 48; 49] = 5.
Proof. split; vm_compute; reflexivity. Qed.
