(* C03/Proofs.v *)
From Coq Require Import ZArith List Bool Lia.
From FV Require Import Base.Ser Base.Bits Base.Res Base.BE C03.Model.
Import ListNotations.
Open Scope Z_scope.

Definition legal (c : Z) : Prop := illegal_xml c = false.

Lemma escape_char_length c : (1 <= length (escape_char c) <= 5)%nat.
Proof. unfold escape_char. repeat (match goal with |- context [if ?b then _ else _] => destruct b end); cbn; lia. Qed.

(* one escaped character, followed by anything, is read back as that character *)
Lemma unescape_one c rest f : legal c ->
  xml_unescape (S f) (escape_char c ++ rest) = c :: xml_unescape f rest.
Proof.
  intros L. unfold escape_char.
  destruct (c =? 38) eqn:E1; [apply Z.eqb_eq in E1; subst; reflexivity|].
  destruct (c =? 60) eqn:E2; [apply Z.eqb_eq in E2; subst; reflexivity|].
  destruct (c =? 62) eqn:E3; [apply Z.eqb_eq in E3; subst; reflexivity|].
  destruct (c =? 13) eqn:E4; [apply Z.eqb_eq in E4; subst; reflexivity|].
  unfold legal in L. rewrite L. cbn [app xml_unescape]. rewrite E1. reflexivity.
Qed.

(* ESCAPING IS LOSSLESS for every string of legal XML characters: an XML parser gives the text back *)
Theorem escape_roundtrip s : forall fuel, Forall legal s -> (length s <= fuel)%nat ->
  xml_unescape fuel (escape s) = s.
Proof.
  induction s as [|c r IH]; intros fuel H Hf; [destruct fuel; reflexivity|].
  inversion H as [|? ? Hc Hr]; subst. destruct fuel as [|f]; [cbn in Hf; lia|].
  unfold escape. cbn [flat_map]. fold (escape r). rewrite unescape_one by exact Hc.
  rewrite IH by (auto; cbn in Hf; lia). reflexivity.
Qed.

(* attribute values: the same, except that literal TAB / LF come back as a space — exactly the
   whitespace normalisation the property allows *)
Lemma unescape_one_attr c rest f : legal c ->
  xml_unescape (S f) (attr_normalise (escapeattr_char c) ++ rest) = (if (c =? 9) || (c =? 10) then 32 else c) :: xml_unescape f rest.
Proof.
  intros L. unfold escapeattr_char.
  destruct (c =? 34) eqn:E0; [apply Z.eqb_eq in E0; subst; reflexivity|].
  unfold escape_char.
  destruct (c =? 38) eqn:E1; [apply Z.eqb_eq in E1; subst; reflexivity|].
  destruct (c =? 60) eqn:E2; [apply Z.eqb_eq in E2; subst; reflexivity|].
  destruct (c =? 62) eqn:E3; [apply Z.eqb_eq in E3; subst; reflexivity|].
  destruct (c =? 13) eqn:E4; [apply Z.eqb_eq in E4; subst; reflexivity|].
  unfold legal in L. rewrite L. cbn [attr_normalise map app xml_unescape].
  destruct ((c =? 9) || (c =? 10)) eqn:E5.
  - reflexivity.
  - rewrite E1. reflexivity.
Qed.

Lemma attr_normalise_app a b : attr_normalise (a ++ b) = attr_normalise a ++ attr_normalise b.
Proof. unfold attr_normalise. apply map_app. Qed.

Theorem escapeattr_roundtrip s : forall fuel, Forall legal s -> (length s <= fuel)%nat ->
  xml_attr_value fuel (escapeattr s) = attr_normalise s.
Proof.
  unfold xml_attr_value.
  induction s as [|c r IH]; intros fuel H Hf; [destruct fuel; reflexivity|].
  inversion H as [|? ? Hc Hr]; subst. destruct fuel as [|f]; [cbn in Hf; lia|].
  unfold escapeattr. cbn [flat_map]. fold (escapeattr r). rewrite attr_normalise_app.
  rewrite unescape_one_attr by exact Hc. rewrite IH by (auto; cbn in Hf; lia). reflexivity.
Qed.

(* ---------- hex ---------- *)
Lemma hex_nibble n : 0 <= n < 16 -> hexval (hexdigit n) = Ok n.
Proof.
  intros H. unfold hexdigit, hexval. destruct (n <? 10) eqn:E.
  - replace ((48 <=? 48 + n) && (48 + n <=? 57)) with true by lia. f_equal. lia.
  - replace ((48 <=? 87 + n) && (87 + n <=? 57)) with false by lia.
    replace ((97 <=? 87 + n) && (87 + n <=? 102)) with true by lia. f_equal. lia.
Qed.
Lemma hexdigit_not_space n : 0 <= n < 16 -> is_space (hexdigit n) = false.
Proof. intros H. unfold hexdigit, is_space. destruct (n <? 10) eqn:E; lia. Qed.

Theorem hex_roundtrip data : Forall (fun b => 0 <= b < 256) data -> deHexStr (hexStr data) = Ok data.
Proof.
  unfold deHexStr.
  induction data as [|b r IH]; intros H; [reflexivity|].
  inversion H as [|? ? Hb Hr]; subst. specialize (IH Hr).
  unfold hexStr. cbn [flat_map app]. fold (hexStr r).
  assert (N1: 0 <= Z.land (Z.shiftr b 4) 15 < 16).
  { change 15 with (Z.ones 4). rewrite Z.land_ones by lia. apply Z.mod_pos_bound. lia. }
  assert (N2: 0 <= Z.land b 15 < 16).
  { change 15 with (Z.ones 4). rewrite Z.land_ones by lia. apply Z.mod_pos_bound. lia. }
  cbn [filter]. rewrite !hexdigit_not_space by assumption. cbn [negb dehex_pairs].
  rewrite !hex_nibble by assumption. cbn [bind]. rewrite IH. cbn [bind]. do 2 f_equal.
  change 15 with (Z.ones 4). rewrite !Z.land_ones by lia. rewrite Z.shiftr_div_pow2 by lia. change (2^4) with 16.
  pose proof (Z.div_mod b 16 ltac:(lia)). pose proof (Z.mod_pos_bound b 16 ltac:(lia)).
  assert (b / 16 < 16) by (apply Z.div_lt_upper_bound; lia). assert (0 <= b / 16) by (apply Z.div_pos; lia).
  rewrite (Z.mod_small (b / 16)) by lia. lia.
Qed.
