(* C03/ProofsProgram.v — what the disassembler writes for a TrueType program, the assembler turns back into the same bytes *)
From Coq Require Import ZArith List Bool Lia Arith.
From FV Require Import Base.Res Data.Data_ttops C03.ModelProgram.
Import ListNotations.
Open Scope Z_scope.
Local Arguments Z.shiftl : simpl never.
Local Arguments Z.shiftr : simpl never.
Local Arguments Z.lor : simpl never.
Local Arguments Z.land : simpl never.
Local Arguments Z.pow : simpl never.

Definition range256 : list Z := map Z.of_nat (seq 0 256).
Lemma in_range256 b : 0 <= b < 256 -> In b range256.
Proof.
  intros H. unfold range256. apply in_map_iff. exists (Z.to_nat b). split; [lia|].
  apply in_seq. lia.
Qed.

(* ---- facts about the regenerated tables, checked by evaluation over all 256 opcodes ---- *)
Definition plain_ok (op : Z) : bool :=
  match lookup tt_instructions op with
  | Some (mn, ab, off) =>
      match nth_error tt_instructions mn with
      | Some (o, ab') => (ab' =? ab) && (o + (if ab =? 0 then 0 else op - off) =? op)
      | None => false
      end
  | None => true
  end.
Lemma plain_table : forallb plain_ok range256 = true.
Proof. vm_compute. reflexivity. Qed.

Definition stream_ok (op : Z) : bool :=
  match lookup tt_stream op with
  | Some (si, ab, off) =>
      let k := stream_kind si in
      if ab =? 0 then (stream_op k =? op) && (match k with KNPUSHB | KNPUSHW => true | _ => false end)
      else (stream_op k =? off) && (match k with KPUSHB | KPUSHW => true | _ => false end) && (0 <=? op - off) && (op - off <? 8)
  | None => true
  end.
Lemma stream_table : forallb stream_ok range256 = true.
Proof. vm_compute. reflexivity. Qed.

(* ---- words ---- *)
Definition word_ok (b1 b2 : Z) : bool :=
  let v := signed16 (Z.lor (Z.shiftl b1 8) b2) in
  in_word v && (match word_bytes v with [x; y] => (x =? b1) && (y =? b2) | _ => false end).
Lemma word_table : forallb (fun b1 => forallb (word_ok b1) range256) range256 = true.
Proof. vm_compute. reflexivity. Qed.
Lemma word_roundtrip b1 b2 : 0 <= b1 < 256 -> 0 <= b2 < 256 ->
  in_word (signed16 (Z.lor (Z.shiftl b1 8) b2)) = true /\ word_bytes (signed16 (Z.lor (Z.shiftl b1 8) b2)) = [b1; b2].
Proof.
  intros H1 H2. pose proof word_table as T. rewrite forallb_forall in T.
  specialize (T b1 (in_range256 b1 H1)). rewrite forallb_forall in T. specialize (T b2 (in_range256 b2 H2)).
  unfold word_ok in T. apply andb_true_iff in T. destruct T as [W B]. split; [exact W|].
  destruct (word_bytes _) as [|x [|y [|? ?]]]; try discriminate.
  apply andb_true_iff in B. destruct B as [Bx By]. apply Z.eqb_eq in Bx, By. subst. reflexivity.
Qed.

Definition byte (b : Z) : Prop := 0 <= b < 256.

Lemma read_bytes_spec n : forall bs vs rest, read_bytes n bs = Ok (vs, rest) -> bs = vs ++ rest /\ length vs = n.
Proof.
  induction n as [|n IH]; intros bs vs rest H; cbn [read_bytes] in H.
  - apply Ok_inj in H. injection H as <- <-. auto.
  - destruct bs as [|b r]; [discriminate|].
    destruct (read_bytes n r) as [[vs' rest']|e] eqn:E; [|discriminate]. cbn [bind] in H.
    apply Ok_inj in H. injection H as <- <-. destruct (IH _ _ _ E) as [-> L]. split; [reflexivity|cbn; lia].
Qed.

Lemma read_words_spec n : forall bs vs rest, Forall byte bs -> read_words n bs = Ok (vs, rest) ->
  bs = flat_map word_bytes vs ++ rest /\ length vs = n /\ forallb in_word vs = true.
Proof.
  induction n as [|n IH]; intros bs vs rest F H; cbn [read_words] in H.
  - apply Ok_inj in H. injection H as <- <-. auto.
  - destruct bs as [|b1 [|b2 r]]; try discriminate.
    destruct (read_words n r) as [[vs' rest']|e] eqn:E; [|discriminate]. cbn [bind] in H.
    apply Ok_inj in H. injection H as <- <-.
    inversion F as [|? ? B1 F1]; subst. inversion F1 as [|? ? B2 F2]; subst.
    destruct (IH _ _ _ F2 E) as [-> [L W]].
    destruct (word_roundtrip b1 b2 B1 B2) as [IW WB].
    cbn [flat_map forallb length]. rewrite WB, IW, W. split; [reflexivity|]. split; [lia|reflexivity].
Qed.

Lemma Forall_byte_app_l (a b : list Z) : Forall byte (a ++ b) -> Forall byte a.
Proof. intros H. apply Forall_app in H. tauto. Qed.
Lemma Forall_byte_app_r (a b : list Z) : Forall byte (a ++ b) -> Forall byte b.
Proof. intros H. apply Forall_app in H. tauto. Qed.

Lemma forallb_byte_range (l : list Z) : Forall byte l -> forallb (fun v => (0 <=? v) && (v <? 256)) l = true.
Proof. induction 1 as [|x l Hx _ IH]; cbn; [reflexivity|]. unfold byte in Hx. rewrite IH. lia. Qed.
Lemma forallb_in_byte (l : list Z) : Forall byte l -> forallb in_byte l = true.
Proof. induction 1 as [|x l Hx _ IH]; cbn; [reflexivity|]. unfold byte in Hx. unfold in_byte at 1. rewrite IH. lia. Qed.

(* ---- one instruction ---- *)
Lemma dis_one_asm bs t rest : Forall byte bs -> dis_one bs = Ok (t, rest) ->
  exists pre, bs = pre ++ rest /\ asm_one t = Ok pre /\ pre <> [].
Proof.
  intros F H. destruct bs as [|op r]; [discriminate|]. cbn [dis_one] in H.
  inversion F as [|? ? Bop Fr]; subst.
  pose proof plain_table as PT. rewrite forallb_forall in PT. specialize (PT op (in_range256 op Bop)). unfold plain_ok in PT.
  pose proof stream_table as ST. rewrite forallb_forall in ST. specialize (ST op (in_range256 op Bop)). unfold stream_ok in ST.
  destruct (lookup tt_instructions op) as [[[mn ab] off]|].
  - (* plain *) apply Ok_inj in H. injection H as <- <-. exists [op]. split; [reflexivity|]. split; [|discriminate].
    cbn [asm_one]. destruct (nth_error tt_instructions mn) as [[o ab']|]; [|discriminate].
    apply andb_true_iff in PT. destruct PT as [E1 E2]. apply Z.eqb_eq in E1, E2. subst ab'.
    rewrite Z.eqb_refl. rewrite E2. reflexivity.
  - destruct (lookup tt_stream op) as [[[si ab] off]|].
    + (* push instruction *)
      set (k := stream_kind si) in *.
      destruct (ab =? 0) eqn:AB.
      * (* NPUSHB / NPUSHW: count byte *)
        destruct r as [|c r']; [discriminate|]. cbn [bind] in H.
        inversion Fr as [|? ? Bc Fr']; subst.
        destruct (c <=? 0) eqn:C0; [discriminate|].
        apply andb_true_iff in ST. destruct ST as [SO SK]. apply Z.eqb_eq in SO.
        destruct (is_words k) eqn:W.
        -- destruct (read_words (Z.to_nat c) r') as [[vs rest2]|e] eqn:R; [|discriminate]. cbn [bind] in H.
           apply Ok_inj in H. injection H as <- <-.
           destruct (read_words_spec _ _ _ _ Fr' R) as [-> [L IW]].
           exists (op :: c :: flat_map word_bytes vs). split; [reflexivity|]. split; [|discriminate].
           unfold byte in Bc.
           destruct k; try discriminate; unfold asm_one, asm_push_exact; cbn [is_words bind length]; rewrite L, Z2Nat.id by lia;
             (replace (c <? 256) with true by lia); cbn [bind]; rewrite IW, SO; reflexivity.
        -- destruct (read_bytes (Z.to_nat c) r') as [[vs rest2]|e] eqn:R; [|discriminate]. cbn [bind] in H.
           apply Ok_inj in H. injection H as <- <-.
           destruct (read_bytes_spec _ _ _ _ R) as [-> L].
           exists (op :: c :: vs). split; [reflexivity|]. split; [|discriminate].
           unfold byte in Bc. pose proof (forallb_byte_range vs (Forall_byte_app_l _ _ Fr')) as FB.
           destruct k; try discriminate; unfold asm_one, asm_push_exact; cbn [is_words bind length]; rewrite L, Z2Nat.id by lia;
             (replace (c <? 256) with true by lia); cbn [bind]; rewrite FB, SO; reflexivity.
      * (* PUSHB[n] / PUSHW[n] *)
        cbn [bind] in H.
        apply andb_true_iff in ST. destruct ST as [ST HI]. apply andb_true_iff in ST. destruct ST as [ST LO].
        apply andb_true_iff in ST. destruct ST as [SO SK]. apply Z.eqb_eq in SO.
        destruct (op - off + 1 <=? 0) eqn:C0; [discriminate|].
        destruct (is_words k) eqn:W.
        -- destruct (read_words (Z.to_nat (op - off + 1)) r) as [[vs rest2]|e] eqn:R; [|discriminate]. cbn [bind] in H.
           apply Ok_inj in H. injection H as <- <-.
           destruct (read_words_spec _ _ _ _ Fr R) as [-> [L IW]].
           exists (op :: flat_map word_bytes vs). split; [reflexivity|]. split; [|discriminate].
           destruct k; try discriminate; unfold asm_one, asm_push_exact; cbn [is_words bind length]; rewrite L, Z2Nat.id by lia;
             (replace (op - off + 1 <=? 8) with true by lia); cbn [bind]; rewrite IW, SO;
             (replace (off + (op - off + 1) - 1) with op by lia); reflexivity.
        -- destruct (read_bytes (Z.to_nat (op - off + 1)) r) as [[vs rest2]|e] eqn:R; [|discriminate]. cbn [bind] in H.
           apply Ok_inj in H. injection H as <- <-.
           destruct (read_bytes_spec _ _ _ _ R) as [-> L].
           exists (op :: vs). split; [reflexivity|]. split; [|discriminate].
           pose proof (forallb_byte_range vs (Forall_byte_app_l _ _ Fr)) as FB.
           destruct k; try discriminate; unfold asm_one, asm_push_exact; cbn [is_words bind length]; rewrite L, Z2Nat.id by lia;
             (replace (op - off + 1 <=? 8) with true by lia); cbn [bind]; rewrite FB, SO;
             (replace (off + (op - off + 1) - 1) with op by lia); reflexivity.
    + (* unknown opcode *) apply Ok_inj in H. injection H as <- <-. exists [op]. split; [reflexivity|]. split; [reflexivity|discriminate].
Qed.

Lemma dis_fuel_asm fuel : forall bs toks, Forall byte bs -> dis_fuel fuel bs = Ok toks -> asm_all toks = Ok bs.
Proof.
  induction fuel as [|f IH]; intros bs toks F H.
  - destruct bs; [apply Ok_inj in H; subst; reflexivity | discriminate].
  - destruct bs as [|b r]; [apply Ok_inj in H; subst; reflexivity|].
    cbn [dis_fuel] in H.
    destruct (dis_one (b :: r)) as [[t rest]|e] eqn:D; [|discriminate]. cbn [bind] in H.
    destruct (dis_fuel f rest) as [ts|e] eqn:R; [|discriminate]. cbn [bind] in H. apply Ok_inj in H. subst toks.
    destruct (dis_one_asm _ _ _ F D) as [pre [E [A _]]].
    rewrite E in F. cbn [asm_all]. rewrite A. cbn [bind]. rewrite (IH rest ts (Forall_byte_app_r _ _ F) R). cbn [bind].
    rewrite E. reflexivity.
Qed.

Theorem program_roundtrip bs toks : Forall byte bs -> disassemble bs = Ok toks -> assemble toks = Ok bs.
Proof.
  intros F H. unfold assemble. rewrite (dis_fuel_asm _ _ _ F H). cbn [bind]. rewrite (forallb_in_byte bs F). reflexivity.
Qed.

(* the fuel never runs out: every instruction consumes at least one byte *)
Lemma dis_fuel_enough fuel : forall bs, Forall byte bs -> (length bs <= fuel)%nat -> dis_fuel fuel bs <> Err OutOfFuel.
Proof.
  induction fuel as [|f IH]; intros bs F L.
  - destruct bs; [discriminate | cbn in L; lia].
  - destruct bs as [|b r]; [discriminate|]. cbn [dis_fuel].
    destruct (dis_one (b :: r)) as [[t rest]|e] eqn:D.
    + cbn [bind]. destruct (dis_one_asm _ _ _ F D) as [pre [E [_ NE]]].
      assert (LR: (length rest <= f)%nat).
      { assert (length (b :: r) = length pre + length rest)%nat by (rewrite E; apply app_length).
        destruct pre; [congruence|]. cbn in *. lia. }
      rewrite E in F. specialize (IH rest (Forall_byte_app_r _ _ F) LR).
      destruct (dis_fuel f rest) as [ts|e]; cbn [bind]; [discriminate|]. intros X. apply IH. exact X.
    + cbn [bind]. intros X. injection X as ->.
      (* dis_one itself never reports OutOfFuel *)
      destruct (lookup tt_instructions b) as [[[? ?] ?]|] eqn:L1; cbn [dis_one] in D; rewrite L1 in D; [discriminate|].
      destruct (lookup tt_stream b) as [[[si ab] off]|]; [|discriminate].
      destruct (ab =? 0).
      * destruct r as [|c r']; [discriminate|]. cbn [bind] in D. destruct (c <=? 0); [discriminate|].
        destruct (is_words (stream_kind si)).
        -- destruct (read_words (Z.to_nat c) r') as [[? ?]|e] eqn:R; [discriminate|]. cbn [bind] in D. injection D as ->.
           clear -R. revert r' R. induction (Z.to_nat c) as [|n IHn]; intros r' R; cbn [read_words] in R; [discriminate|].
           destruct r' as [|b1 [|b2 r'']]; try discriminate.
           destruct (read_words n r'') as [[? ?]|e] eqn:R2; [discriminate|]. cbn [bind] in R. injection R as ER. subst. eapply IHn; eauto.
        -- destruct (read_bytes (Z.to_nat c) r') as [[? ?]|e] eqn:R; [discriminate|]. cbn [bind] in D. injection D as ->.
           clear -R. revert r' R. induction (Z.to_nat c) as [|n IHn]; intros r' R; cbn [read_bytes] in R; [discriminate|].
           destruct r' as [|b1 r'']; try discriminate.
           destruct (read_bytes n r'') as [[? ?]|e] eqn:R2; [discriminate|]. cbn [bind] in R. injection R as ER. subst. eapply IHn; eauto.
      * cbn [bind] in D. destruct (b - off + 1 <=? 0); [discriminate|].
        destruct (is_words (stream_kind si)).
        -- destruct (read_words (Z.to_nat (b - off + 1)) r) as [[? ?]|e] eqn:R; [discriminate|]. cbn [bind] in D. injection D as ->.
           clear -R. revert r R. induction (Z.to_nat (b - off + 1)) as [|n IHn]; intros r R; cbn [read_words] in R; [discriminate|].
           destruct r as [|b1 [|b2 r'']]; try discriminate.
           destruct (read_words n r'') as [[? ?]|e] eqn:R2; [discriminate|]. cbn [bind] in R. injection R as ER. subst. eapply IHn; eauto.
        -- destruct (read_bytes (Z.to_nat (b - off + 1)) r) as [[? ?]|e] eqn:R; [discriminate|]. cbn [bind] in D. injection D as ->.
           clear -R. revert r R. induction (Z.to_nat (b - off + 1)) as [|n IHn]; intros r R; cbn [read_bytes] in R; [discriminate|].
           destruct r as [|b1 r'']; try discriminate.
           destruct (read_bytes n r'') as [[? ?]|e] eqn:R2; [discriminate|]. cbn [bind] in R. injection R as ER. subst. eapply IHn; eauto.
Qed.

Theorem disassemble_fuel_suffices bs : Forall byte bs -> disassemble bs <> Err OutOfFuel.
Proof. intros F. apply dis_fuel_enough; [exact F | lia]. Qed.

(* ---- the regenerated tables give every opcode at most one meaning ---- *)
Definition covers (r : Z * Z) (op : Z) : bool :=
  let '(o, ab) := r in if ab =? 0 then op =? o else (o <=? op) && (op <? o + 2 ^ ab).
Definition count_cover (tbl : list (Z * Z)) (op : Z) : nat := length (filter (fun r => covers r op) tbl).
Lemma opcode_classes_table :
  forallb (fun op => Nat.leb (count_cover tt_instructions op + count_cover tt_stream op) 1) range256 = true.
Proof. vm_compute. reflexivity. Qed.
Theorem opcode_classes_disjoint op : 0 <= op < 256 ->
  (count_cover tt_instructions op + count_cover tt_stream op <= 1)%nat.
Proof.
  intros H. pose proof opcode_classes_table as T. rewrite forallb_forall in T.
  specialize (T op (in_range256 op H)). apply Nat.leb_le in T. exact T.
Qed.
