(* C03/ModelBinary.v — misc/textTools.py num2binary (61-77) / binary2num (80-87): the text form of bit fields in TTX
   (head.flags, head.macStyle, OS/2.fsType, OS/2.fsSelection, ...): bits in groups of eight, most significant first.
   Characters are code points: '0' = 48, '1' = 49, ' ' = 32. *)
From Coq Require Import ZArith List Bool.
From FV Require Import Base.Ser Base.Res.
Import ListNotations.
Open Scope Z_scope.

(* the loop: i = number of bits written so far; binary = the group being filled (most significant first); items = finished groups,
   least significant group first *)
Fixpoint n2b_loop (n : nat) (i : Z) (l : Z) (binary : list Z) (items : list (list Z)) : Z * list Z * list (list Z) :=
  match n with
  | O => (l, binary, items)
  | S k =>
    let binary' := (if Z.land l 1 =? 1 then 49 else 48) :: binary in
    let l' := Z.shiftr l 1 in
    if (i + 1) mod 8 =? 0 then n2b_loop k (i + 1) l' [] (items ++ [binary'])
    else n2b_loop k (i + 1) l' binary' items
  end.
Fixpoint join_sp (items : list (list Z)) : list Z :=
  match items with [] => [] | [x] => x | x :: r => x ++ 32 :: join_sp r end.
Definition num2binary (l bits : Z) : Res (list Z) :=
  let '(l', binary, items) := n2b_loop (Z.to_nat bits) 0 l [] [] in
  let items' := match binary with [] => items | _ => items ++ [binary] end in
  if (l' =? 0) || (l' =? -1) then Ok (join_sp (rev items')) else Err AssertionError.

(* str.split(): every white-space character separates; here the strings hold digits and spaces (tab, newline, ... alike) *)
Definition is_space (c : Z) : bool := (c =? 32) || ((9 <=? c) && (c <=? 13)) || ((28 <=? c) && (c <=? 31)) || (c =? 133) || (c =? 160).
Definition binary2num (s : list Z) : Z :=
  fold_left (fun l d => let l2 := Z.shiftl l 1 in if d =? 48 then l2 else Z.lor l2 1) (filter (fun c => negb (is_space c)) s) 0.
