(* C07/ProofsLig.v — subsetting a ligature subtable does not change how any retained text is shaped *)
From Coq Require Import ZArith List Bool Lia.
From FV Require Import Base.Ser Base.Res C07.Model C07.Proofs C07.ModelLig.
Import ListNotations.
Open Scope Z_scope.

Lemma prefix_in : forall p s, prefix_eqb p s = true -> forall c, In c p -> In c s.
Proof.
  induction p as [|a p IH]; intros s H c Hc; [contradiction|]. destruct s as [|b s]; [discriminate|].
  cbn [prefix_eqb] in H. apply andb_true_iff in H. destruct H as [H1 H2]. apply Z.eqb_eq in H1. subst b.
  destruct Hc as [<-|Hc]; [left; reflexivity|right; eapply IH; eassumption].
Qed.
Lemma forall_skipn {A} (P : A -> Prop) : forall n (l : list A), Forall P l -> Forall P (skipn n l).
Proof. induction n; intros l H; [exact H|]. destruct l; [constructor|]. inversion H; subst. apply IHn. assumption. Qed.

(* the closure makes the retained set closed under the subtable *)
Definition lig_closed (l : lig) (keep : list glyph) : Prop := sub_closed (SLig l) keep.

Lemma find_lig_subset l keep : lig_closed l keep -> forall g rest, In g keep -> Forall (fun x => In x keep) rest ->
  find_lig (subset_lig l keep) g rest = find_lig l g rest /\
  (forall lg n, find_lig l g rest = Some (lg, n) -> In lg keep).
Proof.
  intros HC g rest Hg Hrest. unfold lig_closed, sub_closed in HC.
  induction l as [|[f [comps lg]] r IH]; [split; [reflexivity|discriminate]|].
  assert (HCr : forall f0 r0 lg0, In (f0, (r0, lg0)) r -> In f0 keep -> (forall c, In c r0 -> In c keep) -> In lg0 keep).
  { intros f0 r0 lg0 Hin. apply HC. right. exact Hin. }
  destruct (IH HCr) as [IH1 IH2]. cbn [subset_lig filter find_lig].
  destruct ((f =? g) && prefix_eqb comps rest) eqn:Ematch.
  - apply andb_true_iff in Ematch. destruct Ematch as [Ef Ep]. apply Z.eqb_eq in Ef. subst f.
    assert (Hcomps : forall c, In c comps -> In c keep).
    { intros c Hc. rewrite Forall_forall in Hrest. apply Hrest. eapply prefix_in; eassumption. }
    assert (Hlg : In lg keep) by (apply (HC g comps lg (or_introl eq_refl) Hg Hcomps)).
    assert (Hk : lig_kept keep (g, (comps, lg)) = true).
    { unfold lig_kept. cbn [fst snd]. rewrite (proj2 (memg_In g keep) Hg), (proj2 (memg_In lg keep) Hlg). cbn [andb].
      apply forallb_forall. intros c Hc. apply memg_In. apply Hcomps, Hc. }
    rewrite Hk. cbn [find_lig]. rewrite Z.eqb_refl, Ep. cbn [andb]. split; [reflexivity|].
    intros lg' n H. inversion H; subst. exact Hlg.
  - destruct (lig_kept keep (f, (comps, lg))).
    + cbn [find_lig]. rewrite Ematch. fold (subset_lig r keep). split; [exact IH1|exact IH2].
    + fold (subset_lig r keep). split; [exact IH1|exact IH2].
Qed.

Theorem subset_lig_preserves_text l keep : lig_closed l keep -> forall fuel s, Forall (fun x => In x keep) s ->
  apply_lig fuel (subset_lig l keep) s = apply_lig fuel l s /\ Forall (fun x => In x keep) (apply_lig fuel l s).
Proof.
  intros HC. induction fuel as [|k IH]; intros s Hs; [split; [reflexivity|exact Hs]|].
  destruct s as [|g rest]; [split; [reflexivity|constructor]|]. inversion Hs as [|? ? Hg Hrest]; subst.
  cbn [apply_lig]. destruct (find_lig_subset l keep HC g rest Hg Hrest) as [F1 F2]. rewrite F1.
  destruct (find_lig l g rest) as [[lg n]|] eqn:EF.
  - destruct (IH (skipn n rest) (forall_skipn _ n rest Hrest)) as [I1 I2]. rewrite I1.
    split; [reflexivity|]. constructor; [eapply F2; reflexivity|exact I2].
  - destruct (IH rest Hrest) as [I1 I2]. rewrite I1. split; [reflexivity|]. constructor; assumption.
Qed.

Corollary subset_lig_preserves_shaping l keep s : lig_closed l keep -> Forall (fun x => In x keep) s ->
  shape_lig (subset_lig l keep) s = shape_lig l s /\ Forall (fun x => In x keep) (shape_lig l s).
Proof. intros HC Hs. unfold shape_lig. apply subset_lig_preserves_text; assumption. Qed.

(* order matters: with two ligatures on the same first glyph the earlier one wins, before and after subsetting *)
Example lig_example :
  let l := [(1, ([2; 3], 10)); (1, ([2], 11)); (4, ([5], 12))] in
  shape_lig l [1; 2; 3; 1; 2; 4; 5; 4] = [10; 11; 12; 4] /\
  subset_lig l [1; 2; 11; 4] = [(1, ([2], 11))] /\
  shape_lig (subset_lig l [1; 2; 11; 4]) [1; 2; 4; 1] = shape_lig l [1; 2; 4; 1].
Proof. vm_compute. auto. Qed.
