From Coq Require Import ZArith List String Bool.
From FV Require Import Base.Ser Base.Res C07.Model.
Import ListNotations.
Open Scope string_scope.
Definition closure_reg (ls : list subst) (s : list glyph) : option (list glyph) := closure (S (S (List.length s + List.length (List.concat (List.concat (map (map snd) ls)))))) ls s.
Definition reg : registry := [
  ("subset_subst", run2 subset_subst);
  ("closure", run2 closure_reg);
  ("apply_seq", run2 apply_seq);
  ("classdef_subset", run3 classdef_subset);
  ("varstore_subset", run4 varstore_subset)
].
Definition fv_entry := dispatch reg.
