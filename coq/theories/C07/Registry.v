From Coq Require Import ZArith List String Bool.
From FV Require Import Base.Ser Base.Res C07.Model.
From FV Require C07.ModelLig.
Import ListNotations.
Open Scope string_scope.
Definition closure_reg (ls : list subst) (s : list glyph) : option (list glyph) := closure (S (S (List.length s + List.length (List.concat (List.concat (map (map snd) ls)))))) ls s.
Global Instance De_crule : De crule :=
  fun l => match de l with Some (((a, b), (c, d)), r) => Some (mkCR a b c d, r) | None => None end.
Global Instance De_sub : De sub :=
  fun l => match l with
           | 0%Z :: r => match de r with Some ((b, m), r') => Some (SMap b m, r') | None => None end
           | 1%Z :: r => match de r with Some (x, r') => Some (SLig x, r') | None => None end
           | 2%Z :: r => match de r with Some (x, r') => Some (SCtx x, r') | None => None end
           | _ => None
           end.
Definition closure_gsub_reg (fuel : nat) (lks : list lookup) (order : list nat) (s : list glyph) : option (list glyph) :=
  closure_gsub fuel (S (List.length lks)) lks order s.
Definition reg : registry := [
  ("subset_subst", run2 subset_subst);
  ("closure", run2 closure_reg);
  ("apply_seq", run2 apply_seq);
  ("classdef_subset", run3 classdef_subset);
  ("varstore_subset", run4 varstore_subset);
  ("closure_gsub", run4 closure_gsub_reg);
  ("subset_lig", run2 ModelLig.subset_lig);
  ("shape_lig", run2 ModelLig.shape_lig)
].
Definition fv_entry := dispatch reg.
