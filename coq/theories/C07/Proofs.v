(* C07/Proofs.v *)
From Coq Require Import ZArith List Bool Lia.
From FV Require Import Base.Ser Base.Res C07.Model.
Import ListNotations.
Open Scope Z_scope.

Lemma memg_In g s : memg g s = true <-> In g s.
Proof.
  unfold memg. rewrite existsb_exists. split.
  - intros [x [H E]]. apply Z.eqb_eq in E. subst. exact H.
  - intros H. exists g. split; [exact H|apply Z.eqb_refl].
Qed.

(* ---------- a retained glyph is substituted exactly as before ---------- *)
Lemma lookup_subset l keep : forall g v,
  lookupS l g = Some v -> memg g keep = true -> forallb (fun o => memg o keep) v = true ->
  lookupS (subset_subst l keep) g = Some v.
Proof.
  induction l as [|[k w] r IH]; intros g v H Hg Hv; cbn [lookupS subset_subst filter fst snd] in *; [discriminate|].
  destruct (k =? g) eqn:E.
  - apply Some_inj in H. subst w. apply Z.eqb_eq in E. subst k. rewrite Hg, Hv. cbn [andb lookupS]. rewrite Z.eqb_refl. reflexivity.
  - destruct (memg k keep && forallb (fun o => memg o keep) w); cbn [lookupS]; [rewrite E|]; apply IH; assumption.
Qed.

Lemma lookup_subset_none l keep : forall g, lookupS l g = None -> lookupS (subset_subst l keep) g = None.
Proof.
  induction l as [|[k w] r IH]; intros g H; cbn [lookupS subset_subst filter fst snd] in *; [reflexivity|].
  destruct (k =? g) eqn:E; [discriminate|].
  destruct (memg k keep && forallb (fun o => memg o keep) w); cbn [lookupS]; [rewrite E|]; apply IH; exact H.
Qed.

Theorem subset_preserves_glyph ls l keep g : In l ls -> closed ls keep -> In g keep ->
  apply1 (subset_subst l keep) g = apply1 l g.
Proof.
  intros Hl C Hg. unfold apply1. destruct (lookupS l g) as [v|] eqn:E.
  - rewrite (lookup_subset l keep g v E); [reflexivity|apply memg_In; exact Hg|].
    apply forallb_forall. intros o Ho. apply memg_In. eapply C; eauto.
  - rewrite (lookup_subset_none l keep g E). reflexivity.
Qed.

(* ... hence ANY text over the retained glyphs is rewritten identically, and stays inside the subset *)
Theorem subset_preserves_text ls l keep s : In l ls -> closed ls keep -> Forall (fun g => In g keep) s ->
  apply_seq (subset_subst l keep) s = apply_seq l s /\ Forall (fun g => In g keep) (apply_seq l s).
Proof.
  intros Hl C. induction 1 as [|g r Hg Hr IH]; cbn [apply_seq flat_map]; [split; [reflexivity|constructor]|].
  destruct IH as [IH1 IH2]. fold (apply_seq (subset_subst l keep) r). fold (apply_seq l r).
  rewrite (subset_preserves_glyph ls l keep g Hl C Hg), IH1. split; [reflexivity|].
  apply Forall_app. split; [|exact IH2].
  unfold apply1. destruct (lookupS l g) as [v|] eqn:E; [|constructor; [exact Hg|constructor]].
  apply Forall_forall. intros o Ho. eapply C; eauto.
Qed.

(* ---------- the closure computation ---------- *)
Lemma add_new_spec gs : forall s x, In x (add_new s gs) <-> In x s \/ In x gs.
Proof.
  unfold add_new. induction gs as [|g r IH]; intros s x; cbn [fold_left In]; [tauto|].
  rewrite IH. destruct (memg g s) eqn:E.
  - apply memg_In in E. split; [intros [H|H]; auto|intros [H|[H|H]]; auto; subst; auto].
  - rewrite in_app_iff. cbn [In]. split; [intros [[H|[H|[]]]|H]; auto|intros [H|[H|H]]; auto].
Qed.
Lemma add_new_incl gs s x : In x s -> In x (add_new s gs).
Proof. intros H. apply add_new_spec. left. exact H. Qed.

Lemma add_new_length gs : forall s, (length s <= length (add_new s gs))%nat.
Proof.
  unfold add_new. induction gs as [|g r IH]; intros s; cbn [fold_left]; [lia|].
  destruct (memg g s); [apply IH|]. eapply Nat.le_trans; [|apply IH]. rewrite app_length. cbn. lia.
Qed.

(* a list that grows by inclusion without growing in length keeps the same elements (it is a prefix extension) *)
Lemma add_new_prefix gs : forall s, exists ext, add_new s gs = s ++ ext.
Proof.
  unfold add_new. induction gs as [|g r IH]; intros s; cbn [fold_left]; [exists []; rewrite app_nil_r; reflexivity|].
  destruct (memg g s); [apply IH|]. destruct (IH (s ++ [g])) as [ext E]. rewrite E. exists (g :: ext). rewrite <- app_assoc. reflexivity.
Qed.

Lemma round_prefix ls : forall s, exists ext, closure_round ls s = s ++ ext.
Proof.
  unfold closure_round. induction ls as [|l r IH]; intros s; cbn [fold_left]; [exists []; rewrite app_nil_r; reflexivity|].
  destruct (add_new_prefix (flat_map (fun kv : glyph * list glyph => if memg (fst kv) s then snd kv else []) l) s) as [e1 E1].
  rewrite E1. destruct (IH (s ++ e1)) as [e2 E2]. rewrite E2. exists (e1 ++ e2). rewrite app_assoc. reflexivity.
Qed.

Lemma lookupS_In l g v : lookupS l g = Some v -> In (g, v) l.
Proof.
  induction l as [|[k w] r IH]; cbn [lookupS]; [discriminate|].
  destruct (k =? g) eqn:E; [intros H; apply Some_inj in H; subst; apply Z.eqb_eq in E; subst; left; reflexivity|intros H; right; apply IH; exact H].
Qed.

Lemma round_incl ls : forall s x, In x s -> In x (closure_round ls s).
Proof. intros s x H. destruct (round_prefix ls s) as [e P]. rewrite P. apply in_or_app. left. exact H. Qed.

(* one round adds every image of every current glyph *)
Lemma round_adds ls : forall s l g v o, In l ls -> In g s -> lookupS l g = Some v -> In o v -> In o (closure_round ls s).
Proof.
  unfold closure_round. induction ls as [|l0 r IH]; intros s l g v o Hl Hg Hv Ho; [contradiction|].
  cbn [fold_left].
  set (s1 := add_new s (flat_map (fun kv : glyph * list glyph => if memg (fst kv) s then snd kv else []) l0)).
  assert (Inc: forall x, In x s -> In x s1) by (intros x Hx; apply add_new_incl; exact Hx).
  destruct Hl as [->|Hl].
  - assert (In o s1).
    { apply add_new_spec. right. apply in_flat_map. exists (g, v). split; [apply lookupS_In; exact Hv|].
      cbn [fst snd]. replace (memg g s) with true by (symmetry; apply memg_In; exact Hg). exact Ho. }
    apply (round_incl r s1 o H).
  - apply (IH s1 l g v o Hl (Inc g Hg) Hv Ho).
Qed.

(* THE COMPUTED CLOSURE IS CLOSED under every lookup, and contains the requested glyphs *)
Theorem closure_closed fuel ls : forall s0 s, closure fuel ls s0 = Some s ->
  closed ls s /\ (forall x, In x s0 -> In x s).
Proof.
  induction fuel as [|f IH]; intros s0 s H; cbn [closure] in H; [discriminate|].
  destruct (Nat.eqb (length (closure_round ls s0)) (length s0)) eqn:E.
  - apply Some_inj in H. subst s. split; [|auto].
    apply Nat.eqb_eq in E. destruct (round_prefix ls s0) as [ext P]. rewrite P in E. rewrite app_length in E.
    assert (ext = []) by (destruct ext; [reflexivity|cbn in E; lia]). subst ext. rewrite app_nil_r in P.
    intros l g v Hl Hg Hv o Ho. rewrite <- P. eapply round_adds; eauto.
  - destruct (IH _ _ H) as [C I]. split; [exact C|]. intros x Hx. apply I.
    destruct (round_prefix ls s0) as [ext P]. rewrite P. apply in_or_app. left. exact Hx.
Qed.

(* ---------- ClassDef.subset with remapping keeps the class partition of retained glyphs ---------- *)
From Coq Require Import Sorted.

Lemma insert_uniq_In x l y : In y (insert_uniq x l) <-> y = x \/ In y l.
Proof.
  induction l as [|a r IH]; cbn [insert_uniq In]; [intuition|].
  destruct (x <? a) eqn:E1; [cbn [In]; intuition|].
  destruct (x =? a) eqn:E2; [apply Z.eqb_eq in E2; subst; cbn [In]; intuition|].
  cbn [In]. rewrite IH. intuition.
Qed.
Lemma insert_uniq_sorted x l : StronglySorted Z.lt l -> StronglySorted Z.lt (insert_uniq x l).
Proof.
  induction 1 as [|a r Hs IH Ha]; cbn [insert_uniq]; [constructor; constructor|].
  destruct (x <? a) eqn:E1.
  - apply Z.ltb_lt in E1. constructor; [constructor; assumption|].
    constructor; [exact E1|]. eapply Forall_impl; [|exact Ha]. intros; lia.
  - destruct (x =? a) eqn:E2; [constructor; assumption|].
    apply Z.ltb_ge in E1. apply Z.eqb_neq in E2. constructor; [exact IH|].
    apply Forall_forall. intros y Hy. apply insert_uniq_In in Hy. destruct Hy as [->|Hy]; [lia|].
    rewrite Forall_forall in Ha. apply Ha. exact Hy.
Qed.
Lemma uniq_sort_In l y : In y (uniq_sort l) <-> In y l.
Proof. induction l as [|a r IH]; cbn [uniq_sort fold_right In]; [tauto|]. rewrite insert_uniq_In. fold (uniq_sort r). rewrite IH. intuition. Qed.
Lemma uniq_sort_sorted l : StronglySorted Z.lt (uniq_sort l).
Proof. induction l as [|a r IH]; cbn [uniq_sort fold_right]; [constructor|]. apply insert_uniq_sorted. exact IH. Qed.

Lemma index_of_range l : forall i y, index_of y l i = -1 \/ i <= index_of y l i.
Proof.
  induction l as [|a r IH]; intros i y; cbn [index_of]; [left; reflexivity|].
  destruct (y =? a); [right; lia|]. destruct (IH (i + 1) y); [left; assumption|right; lia].
Qed.
Lemma index_of_found l : forall i x, In x l -> i <= index_of x l i.
Proof.
  induction l as [|a r IH]; intros i x Hx; [contradiction|]. cbn [index_of].
  destruct (x =? a) eqn:E; [lia|]. destruct Hx as [Hx|Hx]; [apply Z.eqb_neq in E; congruence|].
  specialize (IH (i + 1) x Hx). lia.
Qed.
Lemma index_of_inj l : forall i x y, 0 <= i -> In x l -> index_of x l i = index_of y l i -> x = y.
Proof.
  induction l as [|a r IH]; intros i x y Hi Hx H; [contradiction|].
  cbn [index_of] in H. destruct (x =? a) eqn:E1; destruct (y =? a) eqn:E2.
  - apply Z.eqb_eq in E1, E2. congruence.
  - destruct (index_of_range r (i + 1) y); lia.
  - destruct Hx as [Hx|Hx]; [apply Z.eqb_neq in E1; congruence|].
    pose proof (index_of_found r (i + 1) x Hx). lia.
  - destruct Hx as [Hx|Hx]; [apply Z.eqb_neq in E1; congruence|]. apply (IH (i + 1)); [lia|assumption|assumption].
Qed.

Lemma classOf_filter (p : glyph -> bool) c g : p g = true ->
  classOf (filter (fun kv : glyph * Z => p (fst kv)) c) g = classOf c g.
Proof.
  intros Hp. induction c as [|[k v] r IH]; cbn [filter classOf fst]; [reflexivity|].
  destruct (k =? g) eqn:E.
  - apply Z.eqb_eq in E. subst k. rewrite Hp. cbn [classOf]. rewrite Z.eqb_refl. reflexivity.
  - destruct (p k); cbn [classOf]; [rewrite E|]; exact IH.
Qed.
Lemma classOf_nokey c g : hasKey c g = false -> classOf c g = 0.
Proof.
  induction c as [|[k v] r IH]; cbn [hasKey existsb classOf fst]; [reflexivity|].
  destruct (k =? g); cbn [orb]; [discriminate|exact IH].
Qed.
Lemma classOf_key_In c g : hasKey c g = true -> In (classOf c g) (map snd c).
Proof.
  induction c as [|[k v] r IH]; cbn [hasKey existsb classOf fst map snd In]; [discriminate|].
  destruct (k =? g); cbn [orb]; [left; reflexivity|right; apply IH; assumption].
Qed.
Lemma classOf_map (f : Z -> Z) c g :
  classOf (map (fun kv : glyph * Z => (fst kv, f (snd kv))) c) g = if hasKey c g then f (classOf c g) else 0.
Proof.
  induction c as [|[k v] r IH]; cbn [map classOf hasKey existsb fst snd]; [reflexivity|].
  destruct (k =? g); cbn [orb]; [reflexivity|exact IH].
Qed.

Definition classes_nonneg (c : classdef) : Prop := Forall (fun kv : glyph * Z => 0 <= snd kv) c.

Lemma sorted_head_zero l : StronglySorted Z.lt l -> Forall (fun y => 0 <= y) l -> In 0 l -> index_of 0 l 0 = 0.
Proof.
  intros S F I. destruct l as [|m r]; [contradiction|]. cbn [index_of].
  destruct (0 =? m) eqn:E; [reflexivity|]. exfalso. apply Z.eqb_neq in E.
  inversion S as [|? ? _ Hm]; subst. inversion F as [|? ? Hm0 _]; subst.
  destruct I as [I|I]; [congruence|]. rewrite Forall_forall in Hm. specialize (Hm 0 I). lia.
Qed.

(* every retained glyph's new class is the rank of its old class among the classes in use *)
Lemma subset_class_is_rank c glyphs u g : classes_nonneg c -> In g glyphs ->
  let r := classdef_subset c glyphs u in
  classOf (fst r) g = index_of (classOf c g) (snd r) 0 /\ In (classOf c g) (snd r).
Proof.
  intros NN Hg. unfold classdef_subset. cbn [fst snd].
  set (c1 := filter (fun kv : glyph * Z => memg (fst kv) glyphs) c).
  set (zero := negb u || existsb (fun g0 => negb (hasKey c1 g0)) glyphs).
  set (indices := uniq_sort ((if zero then [0] else []) ++ map snd c1)).
  assert (E1: classOf c1 g = classOf c g) by (apply (classOf_filter (fun k => memg k glyphs)); apply memg_In; exact Hg).
  rewrite (classOf_map (fun v => index_of v indices 0) c1 g). destruct (hasKey c1 g) eqn:K.
  - rewrite E1. split; [reflexivity|]. apply uniq_sort_In. apply in_or_app. right. rewrite <- E1. apply classOf_key_In. exact K.
  - assert (Z0: zero = true).
    { unfold zero. apply orb_true_iff. right. apply existsb_exists. exists g. split; [exact Hg|]. rewrite K. reflexivity. }
    assert (C0: classOf c g = 0) by (rewrite <- E1; apply classOf_nokey; exact K).
    assert (I0: In 0 indices) by (apply uniq_sort_In; rewrite Z0; left; reflexivity).
    rewrite C0. split; [|exact I0]. symmetry. apply sorted_head_zero; [apply uniq_sort_sorted| |exact I0].
    apply Forall_forall. intros y Hy. unfold indices in Hy. apply (proj1 (uniq_sort_In _ _)) in Hy. apply in_app_or in Hy. destruct Hy as [Hy|Hy].
    + destruct zero; [destruct Hy as [<-|[]]; lia|contradiction].
    + apply in_map_iff in Hy. destruct Hy as [[k v] [<- Hkv]]. apply filter_In in Hkv. destruct Hkv as [Hkv _].
      unfold classes_nonneg in NN. rewrite Forall_forall in NN. apply (NN _ Hkv).
Qed.

Theorem classdef_subset_preserves_partition c glyphs u g h : classes_nonneg c -> In g glyphs -> In h glyphs ->
  let c' := fst (classdef_subset c glyphs u) in
  classOf c' g = classOf c' h <-> classOf c g = classOf c h.
Proof.
  intros NN Hg Hh. cbn zeta.
  destruct (subset_class_is_rank c glyphs u g NN Hg) as [Eg Ig].
  destruct (subset_class_is_rank c glyphs u h NN Hh) as [Eh Ih].
  rewrite Eg, Eh. split; [|intros ->; reflexivity].
  intros H. apply (index_of_inj _ 0 _ _ (Z.le_refl 0) Ig H).
Qed.
