(* C07/Proofs.v *)
From Coq Require Import ZArith List Bool Lia.
From FV Require Import Base.Ser Base.Res C07.Model.
Import ListNotations.
Open Scope Z_scope.

Lemma memg_In g s : memg g s = true <-> In g s.
Proof.
  unfold memg. rewrite existsb_exists. split.
  - intros [x [H E]]. apply Z.eqb_eq in E. subst. exact H.
  - intros H. exists g. split; [exact H|apply Z.eqb_refl].
Qed.

(* ---------- a retained glyph is substituted exactly as before ---------- *)
Lemma lookup_subset l keep : forall g v,
  lookupS l g = Some v -> memg g keep = true -> forallb (fun o => memg o keep) v = true ->
  lookupS (subset_subst l keep) g = Some v.
Proof.
  induction l as [|[k w] r IH]; intros g v H Hg Hv; cbn [lookupS subset_subst filter fst snd] in *; [discriminate|].
  destruct (k =? g) eqn:E.
  - apply Some_inj in H. subst w. apply Z.eqb_eq in E. subst k. rewrite Hg, Hv. cbn [andb lookupS]. rewrite Z.eqb_refl. reflexivity.
  - destruct (memg k keep && forallb (fun o => memg o keep) w); cbn [lookupS]; [rewrite E|]; apply IH; assumption.
Qed.

Lemma lookup_subset_none l keep : forall g, lookupS l g = None -> lookupS (subset_subst l keep) g = None.
Proof.
  induction l as [|[k w] r IH]; intros g H; cbn [lookupS subset_subst filter fst snd] in *; [reflexivity|].
  destruct (k =? g) eqn:E; [discriminate|].
  destruct (memg k keep && forallb (fun o => memg o keep) w); cbn [lookupS]; [rewrite E|]; apply IH; exact H.
Qed.

Theorem subset_preserves_glyph ls l keep g : In l ls -> closed ls keep -> In g keep ->
  apply1 (subset_subst l keep) g = apply1 l g.
Proof.
  intros Hl C Hg. unfold apply1. destruct (lookupS l g) as [v|] eqn:E.
  - rewrite (lookup_subset l keep g v E); [reflexivity|apply memg_In; exact Hg|].
    apply forallb_forall. intros o Ho. apply memg_In. eapply C; eauto.
  - rewrite (lookup_subset_none l keep g E). reflexivity.
Qed.

(* ... hence ANY text over the retained glyphs is rewritten identically, and stays inside the subset *)
Theorem subset_preserves_text ls l keep s : In l ls -> closed ls keep -> Forall (fun g => In g keep) s ->
  apply_seq (subset_subst l keep) s = apply_seq l s /\ Forall (fun g => In g keep) (apply_seq l s).
Proof.
  intros Hl C. induction 1 as [|g r Hg Hr IH]; cbn [apply_seq flat_map]; [split; [reflexivity|constructor]|].
  destruct IH as [IH1 IH2]. fold (apply_seq (subset_subst l keep) r). fold (apply_seq l r).
  rewrite (subset_preserves_glyph ls l keep g Hl C Hg), IH1. split; [reflexivity|].
  apply Forall_app. split; [|exact IH2].
  unfold apply1. destruct (lookupS l g) as [v|] eqn:E; [|constructor; [exact Hg|constructor]].
  apply Forall_forall. intros o Ho. eapply C; eauto.
Qed.

(* ---------- the closure computation ---------- *)
Lemma add_new_spec gs : forall s x, In x (add_new s gs) <-> In x s \/ In x gs.
Proof.
  unfold add_new. induction gs as [|g r IH]; intros s x; cbn [fold_left In]; [tauto|].
  rewrite IH. destruct (memg g s) eqn:E.
  - apply memg_In in E. split; [intros [H|H]; auto|intros [H|[H|H]]; auto; subst; auto].
  - rewrite in_app_iff. cbn [In]. split; [intros [[H|[H|[]]]|H]; auto|intros [H|[H|H]]; auto].
Qed.
Lemma add_new_incl gs s x : In x s -> In x (add_new s gs).
Proof. intros H. apply add_new_spec. left. exact H. Qed.

Lemma add_new_length gs : forall s, (length s <= length (add_new s gs))%nat.
Proof.
  unfold add_new. induction gs as [|g r IH]; intros s; cbn [fold_left]; [lia|].
  destruct (memg g s); [apply IH|]. eapply Nat.le_trans; [|apply IH]. rewrite app_length. cbn. lia.
Qed.

(* a list that grows by inclusion without growing in length keeps the same elements (it is a prefix extension) *)
Lemma add_new_prefix gs : forall s, exists ext, add_new s gs = s ++ ext.
Proof.
  unfold add_new. induction gs as [|g r IH]; intros s; cbn [fold_left]; [exists []; rewrite app_nil_r; reflexivity|].
  destruct (memg g s); [apply IH|]. destruct (IH (s ++ [g])) as [ext E]. rewrite E. exists (g :: ext). rewrite <- app_assoc. reflexivity.
Qed.

Lemma round_prefix ls : forall s, exists ext, closure_round ls s = s ++ ext.
Proof.
  unfold closure_round. induction ls as [|l r IH]; intros s; cbn [fold_left]; [exists []; rewrite app_nil_r; reflexivity|].
  destruct (add_new_prefix (flat_map (fun kv : glyph * list glyph => if memg (fst kv) s then snd kv else []) l) s) as [e1 E1].
  rewrite E1. destruct (IH (s ++ e1)) as [e2 E2]. rewrite E2. exists (e1 ++ e2). rewrite app_assoc. reflexivity.
Qed.

Lemma lookupS_In l g v : lookupS l g = Some v -> In (g, v) l.
Proof.
  induction l as [|[k w] r IH]; cbn [lookupS]; [discriminate|].
  destruct (k =? g) eqn:E; [intros H; apply Some_inj in H; subst; apply Z.eqb_eq in E; subst; left; reflexivity|intros H; right; apply IH; exact H].
Qed.

Lemma round_incl ls : forall s x, In x s -> In x (closure_round ls s).
Proof. intros s x H. destruct (round_prefix ls s) as [e P]. rewrite P. apply in_or_app. left. exact H. Qed.

(* one round adds every image of every current glyph *)
Lemma round_adds ls : forall s l g v o, In l ls -> In g s -> lookupS l g = Some v -> In o v -> In o (closure_round ls s).
Proof.
  unfold closure_round. induction ls as [|l0 r IH]; intros s l g v o Hl Hg Hv Ho; [contradiction|].
  cbn [fold_left].
  set (s1 := add_new s (flat_map (fun kv : glyph * list glyph => if memg (fst kv) s then snd kv else []) l0)).
  assert (Inc: forall x, In x s -> In x s1) by (intros x Hx; apply add_new_incl; exact Hx).
  destruct Hl as [->|Hl].
  - assert (In o s1).
    { apply add_new_spec. right. apply in_flat_map. exists (g, v). split; [apply lookupS_In; exact Hv|].
      cbn [fst snd]. replace (memg g s) with true by (symmetry; apply memg_In; exact Hg). exact Ho. }
    apply (round_incl r s1 o H).
  - apply (IH s1 l g v o Hl (Inc g Hg) Hv Ho).
Qed.

(* THE COMPUTED CLOSURE IS CLOSED under every lookup, and contains the requested glyphs *)
Theorem closure_closed fuel ls : forall s0 s, closure fuel ls s0 = Some s ->
  closed ls s /\ (forall x, In x s0 -> In x s).
Proof.
  induction fuel as [|f IH]; intros s0 s H; cbn [closure] in H; [discriminate|].
  destruct (Nat.eqb (length (closure_round ls s0)) (length s0)) eqn:E.
  - apply Some_inj in H. subst s. split; [|auto].
    apply Nat.eqb_eq in E. destruct (round_prefix ls s0) as [ext P]. rewrite P in E. rewrite app_length in E.
    assert (ext = []) by (destruct ext; [reflexivity|cbn in E; lia]). subst ext. rewrite app_nil_r in P.
    intros l g v Hl Hg Hv o Ho. rewrite <- P. eapply round_adds; eauto.
  - destruct (IH _ _ H) as [C I]. split; [exact C|]. intros x Hx. apply I.
    destruct (round_prefix ls s0) as [ext P]. rewrite P. apply in_or_app. left. exact Hx.
Qed.

(* ---------- ClassDef.subset with remapping keeps the class partition of retained glyphs ---------- *)
From Coq Require Import Sorted.

Lemma insert_uniq_In x l y : In y (insert_uniq x l) <-> y = x \/ In y l.
Proof.
  induction l as [|a r IH]; cbn [insert_uniq In]; [intuition|].
  destruct (x <? a) eqn:E1; [cbn [In]; intuition|].
  destruct (x =? a) eqn:E2; [apply Z.eqb_eq in E2; subst; cbn [In]; intuition|].
  cbn [In]. rewrite IH. intuition.
Qed.
Lemma insert_uniq_sorted x l : StronglySorted Z.lt l -> StronglySorted Z.lt (insert_uniq x l).
Proof.
  induction 1 as [|a r Hs IH Ha]; cbn [insert_uniq]; [constructor; constructor|].
  destruct (x <? a) eqn:E1.
  - apply Z.ltb_lt in E1. constructor; [constructor; assumption|].
    constructor; [exact E1|]. eapply Forall_impl; [|exact Ha]. intros; lia.
  - destruct (x =? a) eqn:E2; [constructor; assumption|].
    apply Z.ltb_ge in E1. apply Z.eqb_neq in E2. constructor; [exact IH|].
    apply Forall_forall. intros y Hy. apply insert_uniq_In in Hy. destruct Hy as [->|Hy]; [lia|].
    rewrite Forall_forall in Ha. apply Ha. exact Hy.
Qed.
Lemma uniq_sort_In l y : In y (uniq_sort l) <-> In y l.
Proof. induction l as [|a r IH]; cbn [uniq_sort fold_right In]; [tauto|]. rewrite insert_uniq_In. fold (uniq_sort r). rewrite IH. intuition. Qed.
Lemma uniq_sort_sorted l : StronglySorted Z.lt (uniq_sort l).
Proof. induction l as [|a r IH]; cbn [uniq_sort fold_right]; [constructor|]. apply insert_uniq_sorted. exact IH. Qed.

Lemma index_of_range l : forall i y, index_of y l i = -1 \/ i <= index_of y l i.
Proof.
  induction l as [|a r IH]; intros i y; cbn [index_of]; [left; reflexivity|].
  destruct (y =? a); [right; lia|]. destruct (IH (i + 1) y); [left; assumption|right; lia].
Qed.
Lemma index_of_found l : forall i x, In x l -> i <= index_of x l i.
Proof.
  induction l as [|a r IH]; intros i x Hx; [contradiction|]. cbn [index_of].
  destruct (x =? a) eqn:E; [lia|]. destruct Hx as [Hx|Hx]; [apply Z.eqb_neq in E; congruence|].
  specialize (IH (i + 1) x Hx). lia.
Qed.
Lemma index_of_inj l : forall i x y, 0 <= i -> In x l -> index_of x l i = index_of y l i -> x = y.
Proof.
  induction l as [|a r IH]; intros i x y Hi Hx H; [contradiction|].
  cbn [index_of] in H. destruct (x =? a) eqn:E1; destruct (y =? a) eqn:E2.
  - apply Z.eqb_eq in E1, E2. congruence.
  - destruct (index_of_range r (i + 1) y); lia.
  - destruct Hx as [Hx|Hx]; [apply Z.eqb_neq in E1; congruence|].
    pose proof (index_of_found r (i + 1) x Hx). lia.
  - destruct Hx as [Hx|Hx]; [apply Z.eqb_neq in E1; congruence|]. apply (IH (i + 1)); [lia|assumption|assumption].
Qed.

Lemma classOf_filter (p : glyph -> bool) c g : p g = true ->
  classOf (filter (fun kv : glyph * Z => p (fst kv)) c) g = classOf c g.
Proof.
  intros Hp. induction c as [|[k v] r IH]; cbn [filter classOf fst]; [reflexivity|].
  destruct (k =? g) eqn:E.
  - apply Z.eqb_eq in E. subst k. rewrite Hp. cbn [classOf]. rewrite Z.eqb_refl. reflexivity.
  - destruct (p k); cbn [classOf]; [rewrite E|]; exact IH.
Qed.
Lemma classOf_nokey c g : hasKey c g = false -> classOf c g = 0.
Proof.
  induction c as [|[k v] r IH]; cbn [hasKey existsb classOf fst]; [reflexivity|].
  destruct (k =? g); cbn [orb]; [discriminate|exact IH].
Qed.
Lemma classOf_key_In c g : hasKey c g = true -> In (classOf c g) (map snd c).
Proof.
  induction c as [|[k v] r IH]; cbn [hasKey existsb classOf fst map snd In]; [discriminate|].
  destruct (k =? g); cbn [orb]; [left; reflexivity|right; apply IH; assumption].
Qed.
Lemma classOf_map (f : Z -> Z) c g :
  classOf (map (fun kv : glyph * Z => (fst kv, f (snd kv))) c) g = if hasKey c g then f (classOf c g) else 0.
Proof.
  induction c as [|[k v] r IH]; cbn [map classOf hasKey existsb fst snd]; [reflexivity|].
  destruct (k =? g); cbn [orb]; [reflexivity|exact IH].
Qed.

Definition classes_nonneg (c : classdef) : Prop := Forall (fun kv : glyph * Z => 0 <= snd kv) c.

Lemma sorted_head_zero l : StronglySorted Z.lt l -> Forall (fun y => 0 <= y) l -> In 0 l -> index_of 0 l 0 = 0.
Proof.
  intros S F I. destruct l as [|m r]; [contradiction|]. cbn [index_of].
  destruct (0 =? m) eqn:E; [reflexivity|]. exfalso. apply Z.eqb_neq in E.
  inversion S as [|? ? _ Hm]; subst. inversion F as [|? ? Hm0 _]; subst.
  destruct I as [I|I]; [congruence|]. rewrite Forall_forall in Hm. specialize (Hm 0 I). lia.
Qed.

(* every retained glyph's new class is the rank of its old class among the classes in use *)
Lemma subset_class_is_rank c glyphs u g : classes_nonneg c -> In g glyphs ->
  let r := classdef_subset c glyphs u in
  classOf (fst r) g = index_of (classOf c g) (snd r) 0 /\ In (classOf c g) (snd r).
Proof.
  intros NN Hg. unfold classdef_subset. cbn [fst snd].
  set (c1 := filter (fun kv : glyph * Z => memg (fst kv) glyphs) c).
  set (zero := negb u || existsb (fun g0 => negb (hasKey c1 g0)) glyphs).
  set (indices := uniq_sort ((if zero then [0] else []) ++ map snd c1)).
  assert (E1: classOf c1 g = classOf c g) by (apply (classOf_filter (fun k => memg k glyphs)); apply memg_In; exact Hg).
  rewrite (classOf_map (fun v => index_of v indices 0) c1 g). destruct (hasKey c1 g) eqn:K.
  - rewrite E1. split; [reflexivity|]. apply uniq_sort_In. apply in_or_app. right. rewrite <- E1. apply classOf_key_In. exact K.
  - assert (Z0: zero = true).
    { unfold zero. apply orb_true_iff. right. apply existsb_exists. exists g. split; [exact Hg|]. rewrite K. reflexivity. }
    assert (C0: classOf c g = 0) by (rewrite <- E1; apply classOf_nokey; exact K).
    assert (I0: In 0 indices) by (apply uniq_sort_In; rewrite Z0; left; reflexivity).
    rewrite C0. split; [|exact I0]. symmetry. apply sorted_head_zero; [apply uniq_sort_sorted| |exact I0].
    apply Forall_forall. intros y Hy. unfold indices in Hy. apply (proj1 (uniq_sort_In _ _)) in Hy. apply in_app_or in Hy. destruct Hy as [Hy|Hy].
    + destruct zero; [destruct Hy as [<-|[]]; lia|contradiction].
    + apply in_map_iff in Hy. destruct Hy as [[k v] [<- Hkv]]. apply filter_In in Hkv. destruct Hkv as [Hkv _].
      unfold classes_nonneg in NN. rewrite Forall_forall in NN. apply (NN _ Hkv).
Qed.

Theorem classdef_subset_preserves_partition c glyphs u g h : classes_nonneg c -> In g glyphs -> In h glyphs ->
  let c' := fst (classdef_subset c glyphs u) in
  classOf c' g = classOf c' h <-> classOf c g = classOf c h.
Proof.
  intros NN Hg Hh. cbn zeta.
  destruct (subset_class_is_rank c glyphs u g NN Hg) as [Eg Ig].
  destruct (subset_class_is_rank c glyphs u h NN Hh) as [Eh Ih].
  rewrite Eg, Eh. split; [|intros ->; reflexivity].
  intros H. apply (index_of_inj _ 0 _ _ (Z.le_refl 0) Ig H).
Qed.

Ltac Zify.zify_post_hook ::= Z.to_euclidean_division_equations.

(* ---------- VarStore.subset_varidxes: every used index still addresses the same delta row ---------- *)
Lemma zmap_from_nth {A B} (f : Z -> A -> B) : forall (l : list A) i k d d',
  (k < length l)%nat -> nth k (zmap_from f i l) d' = f (i + Z.of_nat k) (nth k l d).
Proof.
  induction l as [|x r IH]; intros i k d d' H; [cbn in H; lia|].
  destruct k as [|k]; cbn [zmap_from nth].
  - f_equal. lia.
  - cbn in H. rewrite (IH (i + 1) k d d') by lia. f_equal. lia.
Qed.
Lemma zmap_from_length {A B} (f : Z -> A -> B) : forall (l : list A) i, length (zmap_from f i l) = length l.
Proof. induction l as [|x r IH]; intros i; cbn; [reflexivity|rewrite IH; reflexivity]. Qed.

(* looking a key up in an index map built over a list of minors: any minor in the list is found, and what it maps to is the
   position of SOME occurrence of a minor with the same key *)
Lemma lookup_zmap_minors major newMajor : forall minors i m,
  In m minors -> (forall a, In a minors -> 0 <= a < 65536) ->
  exists j, (j < length minors)%nat /\ nth j minors 0 = m /\
    lookupZ (zmap_from (fun newMinor minor => (mk_idx major minor, mk_idx newMajor newMinor)) i minors) (mk_idx major m)
    = Some (mk_idx newMajor (i + Z.of_nat j)).
Proof.
  induction minors as [|a r IH]; intros i m Hin Hr; [contradiction|].
  cbn [zmap_from lookupZ].
  destruct (mk_idx major a =? mk_idx major m) eqn:E.
  - apply Z.eqb_eq in E. unfold mk_idx in E. assert (a = m) by lia. subst a.
    exists 0%nat. cbn. split; [lia|split; [reflexivity|f_equal; f_equal; lia]].
  - destruct Hin as [->|Hin]; [rewrite Z.eqb_refl in E; discriminate|].
    destruct (IH (i + 1) m Hin (fun a0 Ha => Hr a0 (or_intror Ha))) as [j [Hj [Hn Hl]]].
    exists (S j). cbn [length nth]. split; [lia|split; [exact Hn|]]. rewrite Hl. f_equal. f_equal. lia.
Qed.

Lemma lookupZ_app_skip m1 m2 k : (forall a b, In (a, b) m1 -> a <> k) -> lookupZ (m1 ++ m2) k = lookupZ m2 k.
Proof.
  induction m1 as [|[a b] r IH]; intros H; [reflexivity|]. cbn [app lookupZ].
  destruct (a =? k) eqn:E; [apply Z.eqb_eq in E; exfalso; apply (H a b (or_introl eq_refl)); exact E|].
  apply IH. intros a0 b0 Hin. apply (H a0 b0). right. exact Hin.
Qed.
Lemma lookupZ_app_found m1 m2 k v : lookupZ m1 k = Some v -> lookupZ (m1 ++ m2) k = Some v.
Proof.
  induction m1 as [|[a b] r IH]; cbn [app lookupZ]; [discriminate|]. destruct (a =? k); [trivial|exact IH].
Qed.

Lemma zmap_from_In {A B} (f : Z -> A -> B) : forall (l : list A) i y, In y (zmap_from f i l) ->
  exists k x, (k < length l)%nat /\ nth_error l k = Some x /\ y = f (i + Z.of_nat k) x.
Proof.
  induction l as [|x r IH]; intros i y H; [contradiction|]. cbn [zmap_from In] in H. destruct H as [<-|H].
  - exists 0%nat, x. cbn. split; [lia|split; [reflexivity|f_equal; lia]].
  - destruct (IH (i + 1) y H) as [k [x0 [Hk [Hn ->]]]]. exists (S k), x0. cbn. split; [lia|split; [exact Hn|f_equal; lia]].
Qed.

Lemma lookup_index_map {A} : forall (l : list A) i k, i <= k < i + Z.of_nat (length l) ->
  lookupZ (zmap_from (fun m (_ : A) => (m, m)) i l) k = Some k.
Proof.
  induction l as [|x r IH]; intros i k H; [cbn in H; lia|]. cbn [zmap_from lookupZ].
  destruct (i =? k) eqn:E; [apply Z.eqb_eq in E; subst; reflexivity|].
  apply Z.eqb_neq in E. apply IH. cbn [length] in H. lia.
Qed.

Lemma used_of_In used m v : In v (used_of used m) <-> In v used /\ v <> NO_VARIATION /\ vmajor v = m.
Proof.
  unfold used_of. rewrite filter_In, andb_true_iff, negb_true_iff, Z.eqb_neq, Z.eqb_eq. tauto.
Qed.
Lemma used_minors_In used m a : In a (used_minors used m) <-> exists v, In v used /\ v <> NO_VARIATION /\ vmajor v = m /\ vminor v = a.
Proof.
  unfold used_minors. rewrite uniq_sort_In, in_map_iff. split.
  - intros [v [<- H]]. apply used_of_In in H. exists v. tauto.
  - intros [v [H1 [H2 [H3 <-]]]]. exists v. split; [reflexivity|apply used_of_In; tauto].
Qed.
Lemma vminor_range v : 0 <= vminor v < 65536.
Proof. unfold vminor. lia. Qed.
Lemma memz_In x l : memz x l = true <-> In x l.
Proof.
  unfold memz. rewrite existsb_exists. split; [intros [y [H E]]; apply Z.eqb_eq in E; subst; exact H|intros H; exists x; split; [exact H|apply Z.eqb_refl]].
Qed.
Lemma mk_idx_split v : 0 <= v -> mk_idx (vmajor v) (vminor v) = v.
Proof. intros H. unfold mk_idx, vmajor, vminor. lia. Qed.

(* one VarData: the used rows survive and the map sends each used index to a position holding the same row *)
Lemma subset_data_sound items major newMajor used retain adv v :
  0 <= major -> (major = 0 -> newMajor = 0) -> Z.of_nat (length items) <= 65536 ->
  (forall a, In a adv -> 0 <= a < 65536) ->
  In v used -> v <> NO_VARIATION -> 0 <= v -> vmajor v = major -> (Z.to_nat (vminor v) < length items)%nat ->
  let '(ni, mp) := subset_data items major newMajor (used_minors used major) retain adv in
  (exists k, lookupZ mp v = Some (mk_idx newMajor k) /\ 0 <= k /\ nth (Z.to_nat k) ni [] = get_row items (vminor v)) /\
  (forall a b, In (a, b) mp -> vmajor a = major).
Proof.
  intros Hmaj Hnew Hlen Hadv Hin Hno Hv Hvm Hrow.
  assert (Hum: In (vminor v) (used_minors used major)) by (apply used_minors_In; exists v; tauto).
  pose proof (vminor_range v) as Hr.
  unfold subset_data. destruct ((major =? 0) && retain) eqn:R.
  - apply andb_true_iff in R. destruct R as [R _]. apply Z.eqb_eq in R. rewrite (Hnew R). rewrite R in *. clear R. lazy beta iota zeta. split.
    + exists (vminor v). split; [|split; [lia|]].
      * assert (v = vminor v) by (rewrite <- (mk_idx_split v Hv) at 1; rewrite Hvm; unfold mk_idx; lia).
        rewrite H at 1. unfold mk_idx. replace (0 * 65536 + vminor v) with (vminor v) by lia.
        apply lookup_index_map. lia.
      * erewrite (zmap_from_nth _ items 0 (Z.to_nat (vminor v)) []) by exact Hrow. unfold get_row.
        replace (0 + Z.of_nat (Z.to_nat (vminor v))) with (vminor v) by lia.
        replace (memz (vminor v) (used_minors used 0)) with true by (symmetry; apply memz_In; exact Hum). reflexivity.
    + intros a b Hab. apply zmap_from_In in Hab. destruct Hab as [k [x [Hk [_ E]]]]. injection E as -> _. unfold vmajor. lia.
  - lazy beta iota zeta. set (minors := if major =? 0 then uniq_sort adv ++ filter (fun m => negb (memz m adv)) (used_minors used major) else used_minors used major).
    assert (Hm: In (vminor v) minors).
    { unfold minors. destruct (major =? 0); [|exact Hum]. apply in_or_app.
      destruct (memz (vminor v) adv) eqn:M; [left; apply uniq_sort_In; apply memz_In; exact M|right; apply filter_In; split; [exact Hum|rewrite M; reflexivity]]. }
    assert (Hrange: forall a, In a minors -> 0 <= a < 65536).
    { unfold minors. intros a Ha. destruct (major =? 0).
      - apply in_app_or in Ha. destruct Ha as [Ha|Ha]; [apply (proj1 (uniq_sort_In _ _)) in Ha; apply Hadv; exact Ha|].
        apply filter_In in Ha. destruct Ha as [Ha _]. apply (proj1 (used_minors_In _ _ _)) in Ha. destruct Ha as [u [_ [_ [_ <-]]]]. apply vminor_range.
      - apply (proj1 (used_minors_In _ _ _)) in Ha. destruct Ha as [u [_ [_ [_ <-]]]]. apply vminor_range. }
    split.
    + destruct (lookup_zmap_minors major newMajor minors 0 (vminor v) Hm Hrange) as [j [Hj [Hn Hl]]].
      exists (Z.of_nat j). split; [|split; [lia|]].
      * rewrite <- (mk_idx_split v Hv) at 1. rewrite Hvm. rewrite Hl. f_equal.
      * rewrite Nat2Z.id. rewrite (nth_indep _ [] (get_row items 0)) by (rewrite map_length; exact Hj).
        rewrite map_nth. rewrite Hn. reflexivity.
    + intros a b Hab. apply zmap_from_In in Hab. destruct Hab as [k [x [Hk [Hx E]]]]. injection E as -> _.
      apply nth_error_In in Hx. specialize (Hrange x Hx). unfold vmajor, mk_idx. lia.
Qed.

Lemma subset_store_sound used retain adv : forall vds major newMajor i items v,
  0 <= major -> (major = 0 -> newMajor = 0) ->
  Forall (fun it : list row => Z.of_nat (length it) <= 65536) vds ->
  (forall a, In a adv -> 0 <= a < 65536) ->
  In v used -> v <> NO_VARIATION -> 0 <= v -> vmajor v = major + Z.of_nat i ->
  nth_error vds i = Some items -> (Z.to_nat (vminor v) < length items)%nat ->
  let '(ns, mp) := subset_store vds major newMajor used retain adv in
  exists j k, lookupZ mp v = Some (mk_idx (newMajor + Z.of_nat j) k) /\ 0 <= k /\
              nth (Z.to_nat k) (nth j ns []) [] = get_row items (vminor v).
Proof.
  induction vds as [|it0 rest IH]; intros major newMajor i items v Hmaj Hnew Hlen Hadv Hin Hno Hv Hvm Hnth Hrow;
    [destruct i; discriminate|].
  cbn [subset_store].
  inversion Hlen as [|? ? Hl0 Hlrest]; subst.
  destruct (used_of used major) as [|u0 us] eqn:U.
  - (* nothing of this VarData is used: it is dropped, numbering of the kept ones does not advance *)
    destruct i as [|i].
    + exfalso. assert (In v (used_of used major)) by (apply used_of_In; split; [exact Hin|split; [exact Hno|lia]]).
      rewrite U in H. exact H.
    + cbn [nth_error] in Hnth.
      apply (IH (major + 1) newMajor i items v); try assumption; try lia.
  - destruct i as [|i].
    + cbn [nth_error] in Hnth. apply Some_inj in Hnth. subst it0.
      pose proof (subset_data_sound items major newMajor used retain adv v Hmaj Hnew Hl0 Hadv Hin Hno Hv ltac:(lia) Hrow) as D.
      destruct (subset_data items major newMajor (used_minors used major) retain adv) as [ni mp].
      destruct (subset_store rest (major + 1) (newMajor + 1) used retain adv) as [r m].
      destruct D as [[k [Hl [Hk Hr]]] _].
      exists 0%nat, k. split; [|split; [exact Hk|exact Hr]].
      rewrite (lookupZ_app_found mp m v _ Hl). f_equal. f_equal. lia.
    + cbn [nth_error] in Hnth.
      assert (U0: In u0 used /\ u0 <> NO_VARIATION /\ vmajor u0 = major) by (apply used_of_In; rewrite U; left; reflexivity).
      pose proof (IH (major + 1) (newMajor + 1) i items v ltac:(lia) ltac:(lia) Hlrest Hadv Hin Hno Hv ltac:(lia) Hnth Hrow) as R.
      (* the keys of this VarData's map all carry its major: the later index is not among them *)
      assert (K: forall ni mp, subset_data it0 major newMajor (used_minors used major) retain adv = (ni, mp) ->
                 forall a b, In (a, b) mp -> vmajor a = major).
      { intros ni mp E a b Hab.
        clear - E Hab Hadv Hl0 Hmaj. unfold subset_data in E.
        destruct ((major =? 0) && retain) eqn:Rt.
        + apply pair_equal_spec in E. destruct E as [_ <-]. apply zmap_from_In in Hab.
          destruct Hab as [k [x [Hk [_ Eq]]]]. injection Eq as -> _.
          apply andb_true_iff in Rt. destruct Rt as [Rt _]. apply Z.eqb_eq in Rt. unfold vmajor. lia.
        + apply pair_equal_spec in E. destruct E as [_ <-]. apply zmap_from_In in Hab.
          destruct Hab as [k [x [Hk [Hx Eq]]]]. injection Eq as -> _. apply nth_error_In in Hx.
          assert (0 <= x < 65536).
          { destruct (major =? 0).
            - apply in_app_or in Hx. destruct Hx as [Hx|Hx]; [apply (proj1 (uniq_sort_In _ _)) in Hx; apply Hadv; exact Hx|].
              apply filter_In in Hx. destruct Hx as [Hx _]. apply (proj1 (used_minors_In _ _ _)) in Hx. destruct Hx as [w [_ [_ [_ <-]]]]. apply vminor_range.
            - apply (proj1 (used_minors_In _ _ _)) in Hx. destruct Hx as [w [_ [_ [_ <-]]]]. apply vminor_range. }
          unfold vmajor, mk_idx. lia. }
      destruct (subset_data it0 major newMajor (used_minors used major) retain adv) as [ni mp] eqn:E.
      destruct (subset_store rest (major + 1) (newMajor + 1) used retain adv) as [r m].
      destruct R as [j [k [Hl [Hk Hr]]]].
      exists (S j), k. split; [|split; [exact Hk|exact Hr]].
      rewrite lookupZ_app_skip; [rewrite Hl; f_equal; f_equal; lia|].
      intros a b Hab Ea. subst a. pose proof (K ni mp eq_refl v b Hab). lia.
Qed.

Theorem varstore_subset_sound store used retain adv v items :
  Forall (fun it : list row => Z.of_nat (length it) <= 65536) store ->
  (forall a, In a adv -> 0 <= a < 65536) ->
  In v used -> v <> NO_VARIATION -> 0 <= v ->
  nth_error store (Z.to_nat (vmajor v)) = Some items -> (Z.to_nat (vminor v) < length items)%nat ->
  let '(ns, mp) := varstore_subset store used retain adv in
  exists j k, lookupZ mp v = Some (mk_idx (Z.of_nat j) k) /\ 0 <= k /\
              nth (Z.to_nat k) (nth j ns []) [] = get_row items (vminor v).
Proof.
  intros Hlen Hadv Hin Hno Hv Hnth Hrow. unfold varstore_subset.
  assert (Hmj: 0 <= vmajor v) by (unfold vmajor; lia).
  pose proof (subset_store_sound used retain adv store 0 0 (Z.to_nat (vmajor v)) items v ltac:(lia) ltac:(tauto) Hlen Hadv Hin Hno Hv ltac:(lia) Hnth Hrow) as S.
  destruct (subset_store store 0 0 used retain adv) as [ns mp]. exact S.
Qed.

(* ---------- the whole closure (ligature and contextual lookups with nested calls) ---------- *)
Definition extends {A} (F : list glyph -> A -> list glyph) : Prop := forall s x, exists e, F s x = s ++ e.

Lemma fold_extends {A} (F : list glyph -> A -> list glyph) : extends F -> forall l s, exists e, fold_left F l s = s ++ e.
Proof.
  intros HF. induction l as [|x r IH]; intros s; cbn [fold_left]; [exists []; rewrite app_nil_r; reflexivity|].
  destruct (HF s x) as [e1 E1]. rewrite E1. destruct (IH (s ++ e1)) as [e2 E2]. rewrite E2.
  exists (e1 ++ e2). rewrite app_assoc. reflexivity.
Qed.

(* if a chain of extending steps ends where it started, every step was the identity *)
Lemma fold_fix_all {A} (F : list glyph -> A -> list glyph) : extends F ->
  forall l s, fold_left F l s = s -> forall x, In x l -> F s x = s.
Proof.
  intros HF. induction l as [|y r IH]; intros s H x Hx; [contradiction|]. cbn [fold_left] in H.
  destruct (HF s y) as [e1 E1]. destruct (fold_extends F HF r (F s y)) as [e2 E2].
  rewrite E2, E1 in H. rewrite <- app_assoc in H.
  assert (e1 ++ e2 = []) by (apply (app_inv_head s); rewrite app_nil_r; exact H).
  apply app_eq_nil in H0. destruct H0 as [-> ->]. rewrite app_nil_r in E1.
  destruct Hx as [<-|Hx]; [exact E1|]. apply IH; [|exact Hx]. rewrite E1 in E2. rewrite app_nil_r in E2. exact E2.
Qed.

Lemma apply_rule_extends rec lks cur0 :
  (forall li pos s, exists e, rec li pos s = s ++ e) -> extends (fun s r => apply_rule rec lks cur0 s r).
Proof.
  intros Hrec s r. unfold apply_rule.
  destruct (is_nil (inter cur0 (cr_first r))); [exists []; rewrite app_nil_r; reflexivity|].
  destruct (negb (forallb _ (cr_need r))); [exists []; rewrite app_nil_r; reflexivity|].
  generalize (@nil nat). induction (cr_recs r) as [|[seqi li] rs IH] in s |- *; intros chaos; cbn [fold_left snd].
  - exists []. rewrite app_nil_r. reflexivity.
  - match goal with |- context[rec li ?p s] => destruct (Hrec li p s) as [e1 E1]; rewrite E1 end.
    match goal with |- context[fold_left _ rs (?c, _)] => destruct (IH (s ++ e1) c) as [e2 E2] end.
    rewrite E2. exists (e1 ++ e2). rewrite app_assoc. reflexivity.
Qed.

Lemma closure_sub_extends rec lks cur0 :
  (forall li pos s, exists e, rec li pos s = s ++ e) -> extends (fun s st => closure_sub rec lks cur0 s st).
Proof.
  intros Hrec s st. destruct st as [b m|l|rules]; cbn [closure_sub].
  - apply add_new_prefix.
  - apply add_new_prefix.
  - apply (fold_extends _ (apply_rule_extends rec lks cur0 Hrec)).
Qed.

Lemma closure_lookup_extends lks : forall depth idx cur s, exists e, closure_lookup depth lks idx cur s = s ++ e.
Proof.
  induction depth as [|f IH]; intros idx cur s; cbn [closure_lookup]; [exists []; rewrite app_nil_r; reflexivity|].
  apply (fold_extends _ (closure_sub_extends (closure_lookup f lks) lks _ (IH))).
Qed.

Definition sub_closed (st : sub) (s : list glyph) : Prop :=
  match st with
  | SMap _ m => forall k v, In (k, v) m -> In k s -> forall o, In o v -> In o s
  | SLig l => forall f r lg, In (f, (r, lg)) l -> In f s -> (forall c, In c r -> In c s) -> In lg s
  | SCtx _ => True
  end.

Lemma add_new_fix s gs : add_new s gs = s -> forall o, In o gs -> In o s.
Proof. intros H o Ho. rewrite <- H. apply add_new_spec. right. exact Ho. Qed.

(* THE COMPUTED CLOSURE IS CLOSED under every substitution and ligature subtable of every lookup applied directly by a feature,
   and contains the request *)
Theorem closure_gsub_closed fuel depth lks order : forall s0 s, closure_gsub fuel (S depth) lks order s0 = Some s ->
  (forall x, In x s0 -> In x s) /\
  (forall i st, In i order -> In st (nth i lks []) -> sub_closed st s).
Proof.
  induction fuel as [|f IH]; intros s0 s H; cbn [closure_gsub] in H; [discriminate|].
  assert (EXT: extends (fun s1 i => closure_lookup (S depth) lks i None s1)) by (intros s1 i; apply closure_lookup_extends).
  destruct (Nat.eqb (length (gsub_round (S depth) lks order s0)) (length s0)) eqn:E.
  - apply Some_inj in H. subst s. split; [auto|].
    apply Nat.eqb_eq in E. unfold gsub_round in E.
    destruct (fold_extends _ EXT order s0) as [e P]. rewrite P, app_length in E.
    assert (e = []) by (destruct e; [reflexivity|cbn in E; lia]). subst e. rewrite app_nil_r in P.
    intros i st Hi Hst.
    pose proof (fold_fix_all _ EXT order s0 P i Hi) as Fi. cbn [closure_lookup] in Fi.
    pose proof (fold_fix_all _ (closure_sub_extends (closure_lookup depth lks) lks s0 (closure_lookup_extends lks depth)) _ _ Fi st Hst) as Fs.
    destruct st as [b m|l|rules]; cbn [closure_sub sub_closed] in *; [| |exact I].
    + intros k v Hkv Hk o Ho. apply (add_new_fix _ _ Fs). apply in_flat_map. exists (k, v). split; [exact Hkv|].
      cbn [fst snd]. replace (memg k s0) with true by (symmetry; apply memg_In; exact Hk). exact Ho.
    + intros f0 r lg Hl Hf Hr. apply (add_new_fix _ _ Fs). apply in_flat_map. exists (f0, (r, lg)). split; [exact Hl|].
      cbn [fst snd]. replace (memg f0 s0) with true by (symmetry; apply memg_In; exact Hf).
      replace (forallb (fun c => memg c s0) r) with true; [left; reflexivity|].
      symmetry. apply forallb_forall. intros c Hc. apply memg_In. apply Hr. exact Hc.
  - destruct (IH _ _ H) as [I1 I2]. split; [|exact I2]. intros x Hx. apply I1.
    unfold gsub_round. destruct (fold_extends _ EXT order s0) as [e P]. rewrite P. apply in_or_app. left. exact Hx.
Qed.
