(* C07/Model.v — subsetting of single/multiple substitutions, glyph closure, and class definitions
   (subset/__init__.py:484-600 Coverage/ClassDef/SingleSubst/MultipleSubst methods, 3537-3700 closure). *)
From Coq Require Import ZArith List Bool.
From FV Require Import Base.Ser Base.Res.
Import ListNotations.
Open Scope Z_scope.

Definition glyph := Z.
Definition memg (g : glyph) (s : list glyph) : bool := existsb (Z.eqb g) s.

(* a substitution lookup maps a glyph to a sequence (SingleSubst: length 1, MultipleSubst: any) *)
Definition subst := list (glyph * list glyph).
Fixpoint lookupS (l : subst) (g : glyph) : option (list glyph) :=
  match l with [] => None | (k, v) :: r => if k =? g then Some v else lookupS r g end.

(* applying a lookup to a glyph sequence: every glyph is replaced by its image (or kept) *)
Definition apply1 (l : subst) (g : glyph) : list glyph := match lookupS l g with Some v => v | None => [g] end.
Definition apply_seq (l : subst) (s : list glyph) : list glyph := flat_map (apply1 l) s.

(* subset_glyphs: keep a rule iff its input and all its outputs are retained *)
Definition subset_subst (l : subst) (keep : list glyph) : subst :=
  filter (fun kv : glyph * list glyph => memg (fst kv) keep && forallb (fun o => memg o keep) (snd kv)) l.

(* closure_glyphs: one round adds the images of the current glyphs; iterate until nothing is added *)
Definition add_new (s : list glyph) (gs : list glyph) : list glyph :=
  fold_left (fun acc g => if memg g acc then acc else acc ++ [g]) gs s.
Definition closure_round (ls : list subst) (s : list glyph) : list glyph :=
  fold_left (fun acc l => add_new acc (flat_map (fun kv : glyph * list glyph => if memg (fst kv) acc then snd kv else []) l)) ls s.
Fixpoint closure (fuel : nat) (ls : list subst) (s : list glyph) : option (list glyph) :=
  match fuel with
  | O => None
  | S f => let s' := closure_round ls s in
           if Nat.eqb (length s') (length s) then Some s else closure f ls s'
  end.

Definition closed (ls : list subst) (s : list glyph) : Prop :=
  forall l g v, In l ls -> In g s -> lookupS l g = Some v -> forall o, In o v -> In o s.

(* ---- ClassDef.subset(glyphs, remap=True, useClass0) *)
Definition classdef := list (glyph * Z).
Fixpoint classOf (c : classdef) (g : glyph) : Z :=
  match c with [] => 0 | (k, v) :: r => if k =? g then v else classOf r g end.
Fixpoint insert_uniq (x : Z) (l : list Z) : list Z :=
  match l with
  | [] => [x]
  | y :: r => if x <? y then x :: l else if x =? y then l else y :: insert_uniq x r
  end.
Definition uniq_sort (l : list Z) : list Z := fold_right insert_uniq [] l.
Fixpoint index_of (x : Z) (l : list Z) (i : Z) : Z :=
  match l with [] => -1 | y :: r => if x =? y then i else index_of x r (i + 1) end.
Definition hasKey (c : classdef) (g : glyph) : bool := existsb (fun kv : glyph * Z => fst kv =? g) c.

Definition classdef_subset (c : classdef) (glyphs : list glyph) (useClass0 : bool) : classdef * list Z :=
  let c1 := filter (fun kv : glyph * Z => memg (fst kv) glyphs) c in
  let zero := negb useClass0 || existsb (fun g => negb (hasKey c1 g)) glyphs in
  let indices := uniq_sort ((if zero then [0] else []) ++ map snd c1) in
  (map (fun kv : glyph * Z => (fst kv, index_of (snd kv) indices 0)) c1, indices).

(* ---- VarStore.subset_varidxes (varLib/varStore.py:270-336): drop unused VarData and rows, return the index map *)
Definition row := list Z.
Definition NO_VARIATION : Z := 4294967295.
Definition vmajor (v : Z) : Z := v / 65536.
Definition vminor (v : Z) : Z := v mod 65536.
Definition mk_idx (major minor : Z) : Z := major * 65536 + minor.
Definition memz (x : Z) (l : list Z) : bool := existsb (Z.eqb x) l.
Definition used_of (used : list Z) (m : Z) : list Z := filter (fun v => negb (v =? NO_VARIATION) && (vmajor v =? m)) used.
Definition used_minors (used : list Z) (m : Z) : list Z := uniq_sort (map vminor (used_of used m)).
Definition get_row (items : list row) (minor : Z) : row := nth (Z.to_nat minor) items [].
Fixpoint zmap_from {A B} (f : Z -> A -> B) (i : Z) (l : list A) : list B :=
  match l with [] => [] | x :: r => f i x :: zmap_from f (i + 1) r end.

Definition subset_data (items : list row) (major newMajor : Z) (um : list Z) (retain : bool) (adv : list Z) : list row * list (Z * Z) :=
  if (major =? 0) && retain then
    (zmap_from (fun minor r => if memz minor um then r else map (fun _ => 0) r) 0 items,
     zmap_from (fun minor (_ : row) => (minor, minor)) 0 items)
  else
    let minors := if major =? 0 then uniq_sort adv ++ filter (fun m => negb (memz m adv)) um else um in
    (map (get_row items) minors,
     zmap_from (fun newMinor minor => (mk_idx major minor, mk_idx newMajor newMinor)) 0 minors).

Fixpoint subset_store (vds : list (list row)) (major newMajor : Z) (used : list Z) (retain : bool) (adv : list Z)
  : list (list row) * list (Z * Z) :=
  match vds with
  | [] => ([], [])
  | items :: rest =>
      match used_of used major with
      | [] => subset_store rest (major + 1) newMajor used retain adv
      | _ :: _ =>
          let '(ni, mp) := subset_data items major newMajor (used_minors used major) retain adv in
          let '(r, m) := subset_store rest (major + 1) (newMajor + 1) used retain adv in
          (ni :: r, mp ++ m)
      end
  end.
Definition varstore_subset (store : list (list row)) (used : list Z) (retain : bool) (adv : list Z) :=
  subset_store store 0 0 used retain adv.

Fixpoint lookupZ (m : list (Z * Z)) (k : Z) : option Z :=
  match m with [] => None | (a, b) :: r => if a =? k then Some b else lookupZ r k end.
Definition get_idx (store : list (list row)) (v : Z) : row := get_row (nth (Z.to_nat (vmajor v)) store []) (vminor v).

(* ---- the whole closure: ligature and (chain) contextual lookups with nested lookup calls (subset/__init__.py:553-605, 1225-1330,
   1548-1567, 1947-1974). The memoisation of Lookup.closure_glyphs is semantically invisible and is not modelled. *)
Record crule := mkCR { cr_first : list glyph;          (* glyphs admitted at input position 0 (coverage glyph / class members / coverage) *)
                       cr_need : list (list glyph);    (* every other backtrack, input and lookahead position: must meet the glyph set *)
                       cr_inputs : list (list glyph);  (* input positions 1.. *)
                       cr_recs : list (nat * nat) }.   (* (SequenceIndex, LookupListIndex) in record order *)
Inductive sub :=
| SMap (non1to1 : bool) (m : subst)                      (* Single/Alternate (false), Multiple (true) *)
| SLig (l : list (glyph * (list glyph * glyph)))         (* first component, other components, ligature *)
| SCtx (rules : list crule).
Definition lookup := list sub.

Definition inter (a b : list glyph) : list glyph := filter (fun g => memg g b) a.
Definition is_nil {A} (l : list A) : bool := match l with [] => true | _ => false end.
Definition non1 (lk : lookup) : bool :=
  existsb (fun st => match st with SMap b _ => b | SLig _ => true | SCtx _ => true end) lk.
Definition mem_nat (x : nat) (l : list nat) : bool := existsb (Nat.eqb x) l.

Definition apply_rule (rec : nat -> option (list glyph) -> list glyph -> list glyph) (lks : list lookup)
                      (cur0 s : list glyph) (r : crule) : list glyph :=
  let c0 := inter cur0 (cr_first r) in
  if is_nil c0 then s
  else if negb (forallb (fun need => negb (is_nil (inter need s))) (cr_need r)) then s
  else
    let n_in := length (cr_inputs r) in
    snd (fold_left (fun (st : list nat * list glyph) (rc : nat * nat) =>
           let '(chaos, s1) := st in let '(seqi, li) := rc in
           let pos := if mem_nat seqi chaos then None
                      else Some (if Nat.eqb seqi 0 then c0 else inter (nth (seqi - 1) (cr_inputs r) []) s1) in
           let chaos' := seqi :: (if non1 (nth li lks []) then seq seqi (n_in + 2 - seqi) ++ chaos else chaos) in
           (chaos', rec li pos s1)) (cr_recs r) ([], s)).

Definition closure_sub (rec : nat -> option (list glyph) -> list glyph -> list glyph) (lks : list lookup)
                       (cur0 : list glyph) (s : list glyph) (st : sub) : list glyph :=
  match st with
  | SMap _ m => add_new s (flat_map (fun kv : glyph * list glyph => if memg (fst kv) cur0 then snd kv else []) m)
  | SLig l => add_new s (flat_map (fun e : glyph * (list glyph * glyph) =>
                 if memg (fst e) cur0 && forallb (fun c => memg c s) (fst (snd e)) then [snd (snd e)] else []) l)
  | SCtx rules =>
      (* the subtable applies only to the part of cur inside its coverage = the union of the rules' first sets; folded into c0 *)
      fold_left (fun s1 r => apply_rule rec lks cur0 s1 r) rules s
  end.

Fixpoint closure_lookup (fuel : nat) (lks : list lookup) (idx : nat) (cur : option (list glyph)) (s : list glyph) : list glyph :=
  match fuel with
  | O => s
  | S f =>
      let cur0 := match cur with Some c => c | None => s end in
      fold_left (fun s1 st => closure_sub (closure_lookup f lks) lks cur0 s1 st) (nth idx lks []) s
  end.

Definition gsub_round (depth : nat) (lks : list lookup) (order : list nat) (s : list glyph) : list glyph :=
  fold_left (fun s1 i => closure_lookup depth lks i None s1) order s.
Fixpoint closure_gsub (fuel depth : nat) (lks : list lookup) (order : list nat) (s : list glyph) : option (list glyph) :=
  match fuel with
  | O => None
  | S f => let s' := gsub_round depth lks order s in
           if Nat.eqb (length s') (length s) then Some s else closure_gsub f depth lks order s'
  end.
