(* C07/ModelLig.v — subset/__init__.py:608-620 LigatureSubst.subset_glyphs, and the reference meaning of a ligature substitution
   subtable (OpenType GSUB lookup type 4 without skipped glyphs): at each position the ligatures of the glyph found there are tried
   in their stored order; the first whose components are the following glyphs replaces them all.
   A subtable is the list of (first glyph, (other components, ligature glyph)) in stored order — the `ligatures` dict flattened;
   entries of different first glyphs never compete, so the flattening loses nothing. *)
From Coq Require Import ZArith List Bool.
From FV Require Import Base.Ser Base.Res C07.Model.
Import ListNotations.
Open Scope Z_scope.

Definition lig := list (glyph * (list glyph * glyph)).

Definition lig_kept (keep : list glyph) (e : glyph * (list glyph * glyph)) : bool :=
  memg (fst e) keep && (memg (snd (snd e)) keep && forallb (fun c => memg c keep) (fst (snd e))).
Definition subset_lig (l : lig) (keep : list glyph) : lig := filter (lig_kept keep) l.

Fixpoint prefix_eqb (p s : list glyph) : bool :=
  match p, s with
  | [], _ => true
  | a :: p', b :: s' => (a =? b) && prefix_eqb p' s'
  | _ :: _, [] => false
  end.
Fixpoint find_lig (l : lig) (g : glyph) (rest : list glyph) : option (glyph * nat) :=
  match l with
  | [] => None
  | (f, (comps, lg)) :: r => if (f =? g) && prefix_eqb comps rest then Some (lg, length comps) else find_lig r g rest
  end.
Fixpoint apply_lig (fuel : nat) (l : lig) (s : list glyph) : list glyph :=
  match fuel with
  | O => s
  | S k =>
    match s with
    | [] => []
    | g :: rest =>
      match find_lig l g rest with
      | Some (lg, n) => lg :: apply_lig k l (skipn n rest)
      | None => g :: apply_lig k l rest
      end
    end
  end.
Definition shape_lig (l : lig) (s : list glyph) : list glyph := apply_lig (length s) l s.
