(* C07/Props.v — property theorems only *)
From Coq Require Import ZArith List Bool.
From FV Require Import Base.Ser Base.Res C07.Model C07.Proofs.
Import ListNotations.
Open Scope Z_scope.

(* what the closure computation returns is closed under every lookup and contains what was asked for *)
Theorem closure_closed : forall fuel ls s0 s, closure fuel ls s0 = Some s ->
  closed ls s /\ (forall x, In x s0 -> In x s).
Proof. exact Proofs.closure_closed. Qed.
Print Assumptions closure_closed.

(* on a closed retained set, the subset lookup rewrites every retained glyph exactly as the original does *)
Theorem subset_preserves_glyph : forall ls l keep g, In l ls -> closed ls keep -> In g keep ->
  apply1 (subset_subst l keep) g = apply1 l g.
Proof. exact Proofs.subset_preserves_glyph. Qed.
Print Assumptions subset_preserves_glyph.

(* ... hence every text over retained glyphs is shaped identically and never leaves the subset *)
Theorem subset_preserves_text : forall ls l keep s, In l ls -> closed ls keep -> Forall (fun g => In g keep) s ->
  apply_seq (subset_subst l keep) s = apply_seq l s /\ Forall (fun g => In g keep) (apply_seq l s).
Proof. exact Proofs.subset_preserves_text. Qed.
Print Assumptions subset_preserves_text.

(* class remapping keeps the class partition of the retained glyphs (contextual rules keep matching the same glyphs) *)
Theorem classdef_subset_preserves_partition : forall c glyphs u g h, classes_nonneg c -> In g glyphs -> In h glyphs ->
  let c' := fst (classdef_subset c glyphs u) in
  classOf c' g = classOf c' h <-> classOf c g = classOf c h.
Proof. exact Proofs.classdef_subset_preserves_partition. Qed.
Print Assumptions classdef_subset_preserves_partition.

(* non-vacuity: a concrete closure that needs two rounds, and a class map that loses class 0 *)
Example closure_example : closure 5 [[(1, [2; 3])]; [(3, [4])]; [(9, [1])]] [9] = Some [9; 1; 2; 3; 4].
Proof. vm_compute. reflexivity. Qed.
Example classdef_example : classdef_subset [(1, 3); (2, 5); (3, 3); (4, 7)] [1; 3; 4] true = ([(1, 0); (3, 0); (4, 1)], [3; 7]).
Proof. vm_compute. reflexivity. Qed.
