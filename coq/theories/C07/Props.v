(* C07/Props.v — property theorems only *)
From Coq Require Import ZArith List Bool.
From FV Require Import Base.Ser Base.Res C07.Model C07.Proofs.
Import ListNotations.
Open Scope Z_scope.

(* what the closure computation returns is closed under every lookup and contains what was asked for *)
Theorem closure_closed : forall fuel ls s0 s, closure fuel ls s0 = Some s ->
  closed ls s /\ (forall x, In x s0 -> In x s).
Proof. exact Proofs.closure_closed. Qed.
Print Assumptions closure_closed.

(* on a closed retained set, the subset lookup rewrites every retained glyph exactly as the original does *)
Theorem subset_preserves_glyph : forall ls l keep g, In l ls -> closed ls keep -> In g keep ->
  apply1 (subset_subst l keep) g = apply1 l g.
Proof. exact Proofs.subset_preserves_glyph. Qed.
Print Assumptions subset_preserves_glyph.

(* ... hence every text over retained glyphs is shaped identically and never leaves the subset *)
Theorem subset_preserves_text : forall ls l keep s, In l ls -> closed ls keep -> Forall (fun g => In g keep) s ->
  apply_seq (subset_subst l keep) s = apply_seq l s /\ Forall (fun g => In g keep) (apply_seq l s).
Proof. exact Proofs.subset_preserves_text. Qed.
Print Assumptions subset_preserves_text.

(* class remapping keeps the class partition of the retained glyphs (contextual rules keep matching the same glyphs) *)
Theorem classdef_subset_preserves_partition : forall c glyphs u g h, classes_nonneg c -> In g glyphs -> In h glyphs ->
  let c' := fst (classdef_subset c glyphs u) in
  classOf c' g = classOf c' h <-> classOf c g = classOf c h.
Proof. exact Proofs.classdef_subset_preserves_partition. Qed.
Print Assumptions classdef_subset_preserves_partition.


(* every used variation index is mapped to a (VarData, row) position of the subset store that holds the same delta row;
   row counts per VarData fit the uint16 ItemCount *)
Theorem varstore_subset_sound : forall store used retain adv v items,
  Forall (fun it : list row => Z.of_nat (length it) <= 65536) store ->
  (forall a, In a adv -> 0 <= a < 65536) ->
  In v used -> v <> NO_VARIATION -> 0 <= v ->
  nth_error store (Z.to_nat (vmajor v)) = Some items -> (Z.to_nat (vminor v) < length items)%nat ->
  let '(ns, mp) := varstore_subset store used retain adv in
  exists j k, lookupZ mp v = Some (mk_idx (Z.of_nat j) k) /\ 0 <= k /\
              nth (Z.to_nat k) (nth j ns []) [] = get_row items (vminor v).
Proof. exact Proofs.varstore_subset_sound. Qed.
Print Assumptions varstore_subset_sound.
Example varstore_example : varstore_subset [[[1]; [2]]; [[3]]; [[4]; [5]]] [131073; 0] false [] = ([[[1]]; [[5]]], [(0, 0); (131073, 65536)]).
Proof. vm_compute. reflexivity. Qed.


(* the whole GSUB closure (single, multiple, alternate, ligature, contextual and chaining lookups with nested calls): what it returns
   contains the request and is closed under every substitution and ligature subtable of every lookup a feature applies directly *)
Theorem closure_gsub_closed : forall fuel depth lks order s0 s, closure_gsub fuel (S depth) lks order s0 = Some s ->
  (forall x, In x s0 -> In x s) /\
  (forall i st, In i order -> In st (nth i lks []) -> sub_closed st s).
Proof. exact Proofs.closure_gsub_closed. Qed.
Print Assumptions closure_gsub_closed.
Example closure_gsub_example :
  closure_gsub 5 3 [[SCtx [mkCR [1] [[2; 3]] [[2; 3]] [(0%nat, 1%nat)]]]; [SLig [(1, ([2], 4)); (1, ([3], 5))]]; [SMap false [(2, [3])]]] [0%nat; 2%nat] [1; 2]
  = Some [1; 2; 4; 3; 5].
Proof. vm_compute. reflexivity. Qed.

(* non-vacuity: a concrete closure that needs two rounds, and a class map that loses class 0 *)
Example closure_example : closure 5 [[(1, [2; 3])]; [(3, [4])]; [(9, [1])]] [9] = Some [9; 1; 2; 3; 4].
Proof. vm_compute. reflexivity. Qed.
Example classdef_example : classdef_subset [(1, 3); (2, 5); (3, 3); (4, 7)] [1; 3; 4] true = ([(1, 0); (3, 0); (4, 1)], [3; 7]).
Proof. vm_compute. reflexivity. Qed.

(* ---- ligature substitution subtables (ModelLig.v: LigatureSubst.subset_glyphs and the reference meaning of the subtable, tied to
   HarfBuzz by correspondence): on a retained set closed under the subtable -- which closure_gsub_closed provides -- every text over
   retained glyphs is shaped by the subset subtable exactly as by the original, earlier ligatures still winning over later ones,
   and the result never leaves the subset *)
From FV Require C07.ModelLig C07.ProofsLig.
Theorem subset_lig_preserves_shaping : forall l keep s,
  ProofsLig.lig_closed l keep -> Forall (fun x => In x keep) s ->
  ModelLig.shape_lig (ModelLig.subset_lig l keep) s = ModelLig.shape_lig l s /\
  Forall (fun x => In x keep) (ModelLig.shape_lig l s).
Proof. exact ProofsLig.subset_lig_preserves_shaping. Qed.
Print Assumptions subset_lig_preserves_shaping.
