"""Corpus of fonts shipped in /repo/Tests."""
import os, glob, io
REPO = os.environ.get("FV_REPO", "/repo")

def binaries(exts=(".ttf", ".otf", ".ttc", ".woff", ".woff2", ".otc")):
    out = []
    for root, _, files in os.walk(os.path.join(REPO, "Tests")):
        for f in files:
            if f.lower().endswith(exts): out.append(os.path.join(root, f))
    return sorted(out)

def ttx_files():
    out = []
    for root, _, files in os.walk(os.path.join(REPO, "Tests")):
        for f in files:
            if f.lower().endswith(".ttx"): out.append(os.path.join(root, f))
    return sorted(out)

def pick(rng, items, k):
    items = list(items)
    if k >= len(items): return items
    return sorted(rng.sample(items, k))

def open_font(path, **kw):
    from fontTools.ttLib import TTFont
    kw.setdefault("lazy", None)
    if path.lower().endswith((".ttc", ".otc")):
        kw.setdefault("fontNumber", 0)
    return TTFont(path, **kw)

def rel(path):
    return os.path.relpath(path, REPO)

_TTX_CACHE = {}
def ttx_bytes(path):
    """compile a corpus .ttx to a binary font (cached per process); None if it does not compile"""
    if path in _TTX_CACHE: return _TTX_CACHE[path]
    from fontTools.ttLib import TTFont
    try:
        f = TTFont(); f.importXML(path)
        b = io.BytesIO(); f.save(b); data = b.getvalue()
    except Exception:
        data = None
    _TTX_CACHE[path] = data
    return data

def find(name):
    for root, _, files in os.walk(os.path.join(REPO, "Tests")):
        if name in files: return os.path.join(root, name)
    return None
