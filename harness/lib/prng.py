"""One deterministic PRNG stream (splitmix64) for every random choice of a check."""
import hashlib

MASK = (1 << 64) - 1

class Rng:
    def __init__(self, seed, *labels):
        h = hashlib.sha256(("%d|" % seed + "|".join(str(l) for l in labels)).encode()).digest()
        self.s = int.from_bytes(h[:8], "big")
    def next64(self):
        self.s = (self.s + 0x9E3779B97F4A7C15) & MASK
        z = self.s
        z = ((z ^ (z >> 30)) * 0xBF58476D1CE4E5B9) & MASK
        z = ((z ^ (z >> 27)) * 0x94D049BB133111EB) & MASK
        return z ^ (z >> 31)
    def below(self, n):
        if n <= 0: raise ValueError
        if n > (1 << 62):
            k = (n.bit_length() + 63) // 64
            while True:
                v = 0
                for _ in range(k): v = (v << 64) | self.next64()
                v &= (1 << n.bit_length()) - 1
                if v < n: return v
        return self.next64() % n
    def randint(self, a, b): return a + self.below(b - a + 1)
    def choice(self, seq): return seq[self.below(len(seq))]
    def chance(self, p_num, p_den=100): return self.below(p_den) < p_num
    def shuffle(self, l):
        for i in range(len(l) - 1, 0, -1):
            j = self.below(i + 1); l[i], l[j] = l[j], l[i]
        return l
    def sample(self, seq, k):
        l = list(seq); self.shuffle(l); return l[:k]
    def bytes(self, n): return bytes(self.below(256) for _ in range(n))
    def near(self, constants, spread=2):
        """a boundary-biased integer: one of the decision constants +- spread"""
        return self.choice(constants) + self.randint(-spread, spread)
    def fork(self, *labels):
        return Rng(self.next64(), *labels)
