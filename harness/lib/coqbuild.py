"""Build and proof-check plumbing: data translator, coq_makefile/make, Print Assumptions
parsing, grep gate, extraction + OCaml driver."""
import os, re, subprocess, fcntl, time, hashlib, glob, shutil

VERIF = os.path.dirname(os.path.dirname(os.path.dirname(os.path.abspath(__file__))))
COQ = os.path.join(VERIF, "coq")
BUILD = os.path.join(VERIF, "build")
GEN = os.path.join(BUILD, "gen")
BIN = os.path.join(BUILD, "bin")
REPO = os.environ.get("FV_REPO", "/repo")
PY = "/venv/bin/python"

FORBIDDEN = re.compile(
    r"\b(Admitted|admit|Axiom|Axioms|Parameter|Parameters|Conjecture|Conjectures|Hypothesis|Hypotheses|Variable|Variables)\b"
    r"|Unset\s+Guard|bypass_check|type-in-type|impredicative-set|Admit\s+Obligations|Unset\s+Positivity|Unset\s+Universe")

# axioms of the standard library a theorem may depend on (each reported in evidence)
ALLOWED_AXIOMS = {
    "functional_extensionality_dep", "FunctionalExtensionality.functional_extensionality_dep",
    "Classical_Prop.classic", "classic",
    "ClassicalDedekindReals.sig_forall_dec", "ClassicalDedekindReals.sig_not_dec",
    "sig_forall_dec", "sig_not_dec",
    "Eqdep.Eq_rect_eq.eq_rect_eq", "eq_rect_eq", "JMeq.JMeq_eq", "JMeq_eq",
    "proof_irrelevance", "ProofIrrelevance.proof_irrelevance",
    "propositional_extensionality", "PropExtensionality.propositional_extensionality",
}

class BuildLock:
    def __enter__(self):
        os.makedirs(BUILD, exist_ok=True)
        self.f = open(os.path.join(BUILD, ".lock"), "w")
        fcntl.flock(self.f, fcntl.LOCK_EX)
        return self
    def __exit__(self, *a):
        fcntl.flock(self.f, fcntl.LOCK_UN); self.f.close()

def sh(cmd, cwd=None, timeout=900, env=None):
    t0 = time.time()
    try:
        p = subprocess.run(cmd, cwd=cwd, shell=isinstance(cmd, str), stdout=subprocess.PIPE,
                           stderr=subprocess.STDOUT, timeout=timeout, env=env)
        return p.returncode, p.stdout.decode("utf-8", "replace"), time.time() - t0
    except subprocess.TimeoutExpired as e:
        return 124, (e.stdout or b"").decode("utf-8", "replace") + "\nTIMEOUT", time.time() - t0

def regen_data():
    """run the fail-closed translator; returns (ok, message, hashes)"""
    env = dict(os.environ); env["FV_REPO"] = REPO
    rc, out, _ = sh([PY, os.path.join(VERIF, "tools", "translate_data.py")], cwd=VERIF, timeout=300, env=env)
    hashes = {}
    for f in sorted(glob.glob(os.path.join(COQ, "theories", "Data", "*.v"))):
        hashes[os.path.basename(f)] = hashlib.sha256(open(f, "rb").read()).hexdigest()[:16]
    return rc == 0, out, hashes

def coq_project():
    files = sorted(os.path.relpath(p, COQ) for p in glob.glob(os.path.join(COQ, "theories", "**", "*.v"), recursive=True))
    text = "-Q theories FV\n" + "\n".join(files) + "\n"
    cp = os.path.join(COQ, "_CoqProject")
    old = open(cp).read() if os.path.exists(cp) else ""
    if old != text or not os.path.exists(os.path.join(COQ, "Makefile")):
        open(cp, "w").write(text)
        rc, out, _ = sh("coq_makefile -f _CoqProject -o Makefile", cwd=COQ)
        if rc != 0: raise RuntimeError("coq_makefile failed: " + out)

def make(targets, timeout=1500, jobs=16):
    return sh(["timeout", str(timeout), "make", "-j%d" % jobs] + list(targets), cwd=COQ, timeout=timeout + 30)

def grep_gate():
    """no Admitted/Axiom/... anywhere in the development (comments excluded)"""
    hits = []
    for p in sorted(glob.glob(os.path.join(COQ, "theories", "**", "*.v"), recursive=True)):
        src = open(p).read()
        src_nc = strip_comments(src)
        for m in FORBIDDEN.finditer(src_nc):
            # allow Variable/Hypothesis inside a Section
            w = m.group(0)
            if re.match(r"Variable|Hypothes", w) and in_section(src_nc, m.start()):
                continue
            hits.append("%s: %s" % (os.path.relpath(p, COQ), w))
    return hits

def strip_comments(s):
    out = []; depth = 0; i = 0
    while i < len(s):
        if s.startswith("(*", i): depth += 1; i += 2; continue
        if s.startswith("*)", i) and depth > 0: depth -= 1; i += 2; continue
        if depth == 0: out.append(s[i])
        elif s[i] == "\n": out.append("\n")
        i += 1
    return "".join(out)

def in_section(src, pos):
    opens = len(re.findall(r"^\s*Section\s+\w+\s*\.", src[:pos], re.M))
    closes = len(re.findall(r"^\s*End\s+\w+\s*\.", src[:pos], re.M))
    # module Ends also count, so be conservative: require strictly more Section opens
    mods = len(re.findall(r"^\s*Module\s+(Type\s+)?\w+", src[:pos], re.M))
    return opens > max(0, closes - mods)

THEOREM_RE = re.compile(r"^\s*Theorem\s+(\w+)\b(.*?)\.\s*$\s*Proof\.", re.S | re.M)

def parse_props(prop):
    p = os.path.join(COQ, "theories", prop, "Props.v")
    src = strip_comments(open(p).read())
    thms = []
    for m in re.finditer(r"Theorem\s+(\w+)\s*(.*?)\.\s*\n\s*Proof\.\s*exact\s+([^.]*?(?:\.[A-Za-z_][\w.]*)*)\s*\.\s*Qed\.", src, re.S):
        thms.append({"name": m.group(1), "statement": " ".join(m.group(2).split()), "by": m.group(3).strip()})
    return thms

def enclosing_item(path, line):
    try:
        lines = open(path).read().split("\n")
    except OSError:
        return None
    for i in range(min(line, len(lines)) - 1, -1, -1):
        m = re.match(r"\s*(Lemma|Theorem|Corollary|Example|Definition|Fixpoint|Fact|Remark|Proposition|Instance|Global Instance)\s+(\w+)", lines[i])
        if m: return m.group(2)
    return None

def run_coqchk(prop, timeout=2400):
    """the independent checker on the property's compiled theorems and everything they depend on: (ok, summary)"""
    rc, out, _ = sh(["timeout", str(timeout), "coqchk", "-o", "-silent", "-Q", "theories", "FV", "FV.%s.Props" % prop], cwd=COQ, timeout=timeout + 30)
    tail = out[-1500:]
    m = re.search(r"\* Axioms:(.*?)\n\s*\n", out + "\n\n", re.S)
    axioms = m.group(1).strip() if m else None
    ok = rc == 0 and axioms == "<none>" and "type-in-type: <none>" in out and "unsafe (co)fixpoints: <none>" in out and "positivity is assumed: <none>" in out
    return ok, {"rc": rc, "axioms": axioms, "tail": tail if not ok else ""}

def check_proofs(prop, timeout=1500, coqchk=False):
    """compile the property's Props.v (and everything it depends on); returns dict"""
    res = {"ok": False, "theorems": [], "failed_at": None, "log_tail": "", "axioms": {}, "wall_s": 0.0}
    t0 = time.time()
    thms = parse_props(prop)
    res["theorems"] = thms
    target = "theories/%s/Props.vo" % prop
    rc, out, _ = make([target], timeout=timeout)
    res["log_tail"] = out[-3000:]
    if rc != 0:
        m = re.search(r'File "\./?([^"]+)", line (\d+)', out)
        if m:
            f = os.path.join(COQ, m.group(1)); ln = int(m.group(2))
            res["failed_at"] = {"file": m.group(1), "line": ln, "item": enclosing_item(f, ln)}
        else:
            res["failed_at"] = {"file": None, "line": None, "item": None, "note": "make rc=%d" % rc}
        res["wall_s"] = time.time() - t0
        return res
    # re-run coqc on Props.v alone to capture Print Assumptions
    rc, out, _ = sh(["timeout", "600", "coqc", "-Q", "theories", "FV", "theories/%s/Props.v" % prop], cwd=COQ, timeout=630)
    if rc != 0:
        res["failed_at"] = {"file": "theories/%s/Props.v" % prop, "line": None, "item": None}
        res["log_tail"] = out[-3000:]
        res["wall_s"] = time.time() - t0
        return res
    blocks = re.split(r"(?=Closed under the global context|Axioms:)", out)
    blocks = [b for b in blocks if b.startswith("Closed under") or b.startswith("Axioms:")]
    bad = []
    if len(blocks) != len(thms):
        bad.append("expected %d Print Assumptions blocks, saw %d" % (len(thms), len(blocks)))
    for t, b in zip(thms, blocks):
        if b.startswith("Closed under"):
            res["axioms"][t["name"]] = []
        else:
            names = re.findall(r"^([A-Za-z_][\w.']*)\s*:", b, re.M)
            res["axioms"][t["name"]] = names
            for n in names:
                if n not in ALLOWED_AXIOMS and n.split(".")[-1] not in ALLOWED_AXIOMS:
                    bad.append("theorem %s depends on disallowed axiom %s" % (t["name"], n))
    hits = grep_gate()
    if hits: bad.append("forbidden tokens: " + "; ".join(hits[:10]))
    if coqchk and not bad:
        okc, summ = run_coqchk(prop)
        res["coqchk"] = summ
        if not okc: bad.append("coqchk does not confirm the compiled theorems: %r" % (summ,))
    if bad:
        res["failed_at"] = {"file": "theories/%s/Props.v" % prop, "line": None, "item": "; ".join(bad)}
    res["ok"] = not bad
    res["wall_s"] = time.time() - t0
    return res

def build_driver(prop):
    """Registry.vo -> extraction -> native driver; returns path or raises"""
    os.makedirs(GEN, exist_ok=True); os.makedirs(BIN, exist_ok=True)
    rc, out, _ = make(["theories/%s/Registry.vo" % prop], timeout=900)
    if rc != 0:
        raise RuntimeError("model of %s does not compile:\n%s" % (prop, out[-3000:]))
    vo = os.path.join(COQ, "theories", prop, "Registry.vo")
    binp = os.path.join(BIN, "fv_" + prop)
    tail = os.path.join(VERIF, "ocaml", "driver_tail.ml")
    if os.path.exists(binp) and os.path.getmtime(binp) > max(os.path.getmtime(vo), os.path.getmtime(tail)):
        return binp
    ev = os.path.join(GEN, "Extract_%s.v" % prop)
    open(ev, "w").write('From Coq Require Import ExtrOcamlBasic.\nFrom FV Require Import %s.Registry.\n'
                        'Extraction Language OCaml.\nExtraction "%s.ml" fv_entry.\n' % (prop, prop))
    rc, out, _ = sh(["coqc", "-Q", os.path.join(COQ, "theories"), "FV", ev], cwd=GEN, timeout=600)
    if rc != 0: raise RuntimeError("extraction failed:\n" + out[-3000:])
    main = os.path.join(GEN, "%s_main.ml" % prop)
    with open(main, "w") as f:
        f.write(open(os.path.join(GEN, prop + ".ml")).read()); f.write("\n"); f.write(open(tail).read())
    rc, out, _ = sh(["ocamlfind", "ocamlopt", "-O3", "-w", "-a", main, "-o", binp + ".tmp"], cwd=GEN, timeout=600)
    if rc != 0: raise RuntimeError("ocamlopt failed:\n" + out[-3000:])
    os.replace(binp + ".tmp", binp)
    return binp

def run_model(binp, cases, chunk=20000):
    """cases: list of (name, [ints]) -> list of [ints]"""
    out = []
    for i in range(0, len(cases), chunk):
        part = cases[i:i + chunk]
        text = "\n".join(n + " " + " ".join(map(str, a)) for n, a in part) + "\n"
        p = subprocess.run(["bash", "-c", "ulimit -s unlimited 2>/dev/null; exec " + binp], input=text.encode(),
                           stdout=subprocess.PIPE, stderr=subprocess.PIPE, timeout=3600)
        if p.returncode != 0:
            raise RuntimeError("model driver failed rc=%d: %s" % (p.returncode, p.stderr.decode()[-2000:]))
        lines = p.stdout.decode().split("\n")
        if lines and lines[-1] == "": lines.pop()
        if len(lines) != len(part):
            raise RuntimeError("model driver returned %d lines for %d cases" % (len(lines), len(part)))
        for l in lines:
            out.append([int(t) for t in l.split()])
    return out
