"""Independent recomputation of the redundant fields of a saved TrueType font, from the raw table
bytes (struct only): loca/glyf consistency, glyph and font bounding boxes, maxp, hhea, hmtx."""
import struct

def parse_simple(g):
    """decode a simple glyph's points from its bytes (OpenType glyf spec); returns (endPts, pts, flags)"""
    nc = struct.unpack(">h", g[:2])[0]
    pos = 10
    ends = list(struct.unpack(">%dH" % nc, g[pos:pos + 2 * nc])); pos += 2 * nc
    ilen = struct.unpack(">H", g[pos:pos + 2])[0]; pos += 2 + ilen
    n = ends[-1] + 1 if ends else 0
    flags = []
    while len(flags) < n:
        f = g[pos]; pos += 1
        flags.append(f)
        if f & 8:
            r = g[pos]; pos += 1
            flags.extend([f] * r)
    flags = flags[:n]
    xs = []; x = 0
    for f in flags:
        if f & 2:
            d = g[pos]; pos += 1
            x += d if f & 16 else -d
        elif not f & 16:
            x += struct.unpack(">h", g[pos:pos + 2])[0]; pos += 2
        xs.append(x)
    ys = []; y = 0
    for f in flags:
        if f & 4:
            d = g[pos]; pos += 1
            y += d if f & 32 else -d
        elif not f & 32:
            y += struct.unpack(">h", g[pos:pos + 2])[0]; pos += 2
        ys.append(y)
    return ends, list(zip(xs, ys)), flags

def parse_components(g):
    """glyph indices of a composite glyph's components (OpenType glyf spec: flags, glyphIndex, arguments, optional transform)"""
    pos = 10; out = []
    while True:
        flags, gi = struct.unpack(">HH", g[pos:pos + 4]); pos += 4; out.append(gi)
        pos += 4 if flags & 0x0001 else 2
        if flags & 0x0008: pos += 2
        elif flags & 0x0040: pos += 4
        elif flags & 0x0080: pos += 8
        if not flags & 0x0020: break
    return out

def check_truetype(tables, composite_bounds=None):
    """tables: {tag(bytes): bytes}. composite_bounds: optional {gid: (xMin,yMin,xMax,yMax)} recomputed by
    the caller for composite glyphs.  Returns list of problems."""
    P = []
    head = tables[b"head"]; maxp = tables[b"maxp"]; loca = tables[b"loca"]; glyf = tables[b"glyf"]
    locfmt = struct.unpack(">h", head[50:52])[0]
    hx0, hy0, hx1, hy1 = struct.unpack(">hhhh", head[36:44])
    n = struct.unpack(">H", maxp[4:6])[0]
    if locfmt == 0:
        if len(loca) != 2 * (n + 1): P.append("loca length %d != 2*(numGlyphs+1)=%d" % (len(loca), 2 * (n + 1)))
        offs = [2 * o for o in struct.unpack(">%dH" % (len(loca) // 2), loca)]
    else:
        if len(loca) != 4 * (n + 1): P.append("loca length %d != 4*(numGlyphs+1)=%d" % (len(loca), 4 * (n + 1)))
        offs = list(struct.unpack(">%dL" % (len(loca) // 4), loca))
    if len(offs) < 1: return P + ["empty loca"]
    if any(a > b for a, b in zip(offs, offs[1:])): P.append("loca offsets not monotone")
    if offs[0] != 0: P.append("loca[0] != 0")
    # the last offset marks the end of glyph data; fontTools emits one NUL for an all-empty glyf table
    if offs[-1] > len(glyf) or len(glyf) - offs[-1] >= 4 or glyf[offs[-1]:].strip(b"\0"):
        P.append("loca[-1]=%d inconsistent with len(glyf)=%d" % (offs[-1], len(glyf)))
    if locfmt == 1 and offs[-1] < 0x20000 and all(o % 2 == 0 for o in offs):
        P.append("long loca chosen although short format fits")
    boxes = {}
    maxPoints = maxContours = 0
    for gid in range(min(n, len(offs) - 1)):
        g = glyf[offs[gid]:offs[gid + 1]]
        if not g: continue
        if len(g) < 10: P.append("glyph %d shorter than its header" % gid); continue
        nc, x0, y0, x1, y1 = struct.unpack(">hhhhh", g[:10])
        if nc > 0:
            try:
                ends, pts, flags = parse_simple(g)
            except Exception as e:
                P.append("glyph %d does not parse: %r" % (gid, e)); continue
            if pts:
                bx = (min(p[0] for p in pts), min(p[1] for p in pts), max(p[0] for p in pts), max(p[1] for p in pts))
                if bx != (x0, y0, x1, y1): P.append("glyph %d bbox %r != recomputed %r" % (gid, (x0, y0, x1, y1), bx))
            maxPoints = max(maxPoints, len(pts)); maxContours = max(maxContours, nc)
            boxes[gid] = (x0, y0, x1, y1)
        elif nc == 0:
            pass
        else:
            boxes[gid] = (x0, y0, x1, y1)
            if composite_bounds is not None and gid in composite_bounds and composite_bounds[gid] is not None:
                if tuple(composite_bounds[gid]) != (x0, y0, x1, y1):
                    P.append("composite glyph %d bbox %r != recomputed %r" % (gid, (x0, y0, x1, y1), tuple(composite_bounds[gid])))
    if boxes:
        fb = (min(b[0] for b in boxes.values()), min(b[1] for b in boxes.values()),
              max(b[2] for b in boxes.values()), max(b[3] for b in boxes.values()))
    else:
        fb = (0, 0, 0, 0)
    if fb != (hx0, hy0, hx1, hy1): P.append("head bbox %r != union of glyph boxes %r" % ((hx0, hy0, hx1, hy1), fb))
    if len(maxp) >= 10:
        mp, mc = struct.unpack(">HH", maxp[6:10])
        if mp != maxPoints: P.append("maxp.maxPoints %d != %d" % (mp, maxPoints))
        if mc != maxContours: P.append("maxp.maxContours %d != %d" % (mc, maxContours))
    if len(maxp) >= 32:
        # composite statistics: flatten every composite glyph (points, contours of its simple leaves), count its components, measure nesting
        memo = {}
        def stats(gid, seen=()):
            if gid in memo: return memo[gid]
            if gid in seen or gid >= len(offs) - 1: return (0, 0, 0)
            g = glyf[offs[gid]:offs[gid + 1]]
            if len(g) < 10: r = (0, 0, 0)
            else:
                nc = struct.unpack(">h", g[:2])[0]
                if nc >= 0:
                    try: ends, pts, _ = parse_simple(g) if nc > 0 else ([], [], [])
                    except Exception: ends, pts = [], []
                    r = (len(pts), nc, 0)
                else:
                    try: comps = parse_components(g)
                    except Exception: comps = []
                    sub = [stats(c, seen + (gid,)) for c in comps]
                    r = (sum(x[0] for x in sub), sum(x[1] for x in sub), 1 + max([x[2] for x in sub] or [0]))
            memo[gid] = r; return r
        cpts = ccont = celem = cdepth = 0
        for gid in range(min(n, len(offs) - 1)):
            g = glyf[offs[gid]:offs[gid + 1]]
            if len(g) >= 10 and struct.unpack(">h", g[:2])[0] < 0:
                st = stats(gid)
                try: ne = len(parse_components(g))
                except Exception: continue
                cpts = max(cpts, st[0]); ccont = max(ccont, st[1]); celem = max(celem, ne); cdepth = max(cdepth, st[2])
        mcp, mcc = struct.unpack(">HH", maxp[10:14]); mce, mcd = struct.unpack(">HH", maxp[28:32])
        if (mcp, mcc) != (cpts, ccont): P.append("maxp composite points/contours %r != recomputed %r" % ((mcp, mcc), (cpts, ccont)))
        if mce != celem: P.append("maxp.maxComponentElements %d != %d" % (mce, celem))
        if mcd != cdepth: P.append("maxp.maxComponentDepth %d != %d" % (mcd, cdepth))
    if b"hhea" in tables and b"hmtx" in tables:
        P += check_hmetrics(tables[b"hhea"], tables[b"hmtx"], n, boxes, "h")
    if b"vhea" in tables and b"vmtx" in tables:
        # same layout: the count of long metrics at offset 34, trailing equal advances trimmed (extents are not recomputed here)
        P += check_hmetrics(tables[b"vhea"], tables[b"vmtx"], n, None, "v")
    return P

def check_hmetrics(hhea, hmtx, n, boxes, which, minimal=True):
    P = []
    awmax, minlsb, minrsb, xext = struct.unpack(">Hhhh", hhea[10:18])
    k = struct.unpack(">H", hhea[34:36])[0]
    if not (1 <= k <= max(n, 1)): P.append("numberOf%sMetrics %d outside 1..%d" % (which.upper(), k, n)); return P
    if len(hmtx) != 4 * k + 2 * (n - k): P.append("%smtx length %d != 4*%d+2*%d" % (which, len(hmtx), k, n - k)); return P
    adv = []; lsb = []
    for i in range(k):
        a, l = struct.unpack(">Hh", hmtx[4 * i:4 * i + 4]); adv.append(a); lsb.append(l)
    for i in range(n - k):
        l = struct.unpack(">h", hmtx[4 * k + 2 * i:4 * k + 2 * i + 2])[0]; adv.append(adv[k - 1]); lsb.append(l)
    if minimal and k >= 2 and adv[k - 2] == adv[k - 1]:
        P.append("numberOf%sMetrics %d is not minimal (advance %d repeats)" % (which.upper(), k, adv[k - 1]))
    if boxes is not None:
        if adv and max(adv) != awmax: P.append("hhea.advanceWidthMax %d != %d" % (awmax, max(adv)))
        if boxes:
            ml = min(lsb[g] for g in boxes)
            mr = min(adv[g] - lsb[g] - (boxes[g][2] - boxes[g][0]) for g in boxes)
            xe = max(lsb[g] + (boxes[g][2] - boxes[g][0]) for g in boxes)
            if (ml, mr, xe) != (minlsb, minrsb, xext):
                P.append("hhea (minLSB,minRSB,xMaxExtent) %r != recomputed %r" % ((minlsb, minrsb, xext), (ml, mr, xe)))
    return P
