"""HarfBuzz (uharfbuzz) as the independent OpenType implementation for sweeps."""
import io
import uharfbuzz as hb

class HBFont:
    def __init__(self, data, glyph_order=None, variations=None):
        self.blob = hb.Blob(data); self.face = hb.Face(self.blob); self.font = hb.Font(self.face)
        if variations: self.font.set_variations(variations)
        self.order = glyph_order
    def name(self, gid):
        if self.order is not None and gid < len(self.order): return self.order[gid]
        return "gid%d" % gid
    def shape(self, text=None, gids=None, features=None, script=None, language=None, direction=None):
        buf = hb.Buffer()
        if text is not None: buf.add_str(text)
        else:
            buf.add_codepoints(list(gids))
        buf.guess_segment_properties()
        if script: buf.script = script
        if language: buf.language = language
        if direction: buf.direction = direction
        if gids is not None:
            buf.content_type = hb.BufferContentType.GLYPHS if hasattr(hb, "BufferContentType") else buf.content_type
        hb.shape(self.font, buf, features or {})
        out = []
        for info, pos in zip(buf.glyph_infos, buf.glyph_positions):
            out.append((self.name(info.codepoint), pos.x_advance, pos.y_advance, pos.x_offset, pos.y_offset))
        return out
    def advance(self, gid): return self.font.get_glyph_h_advance(gid)
    def v_advance(self, gid): return self.font.get_glyph_v_advance(gid)
    def nominal(self, cp): return self.font.get_nominal_glyph(cp)
    def outline(self, gid):
        """list of pen calls"""
        calls = []
        class P:
            def moveTo(s, p): calls.append(("moveTo", (p,)))
            def lineTo(s, p): calls.append(("lineTo", (p,)))
            def qCurveTo(s, *p): calls.append(("qCurveTo", p))
            def curveTo(s, *p): calls.append(("curveTo", p))
            def closePath(s): calls.append(("closePath", ()))
            def endPath(s): calls.append(("endPath", ()))
        self.font.draw_glyph_with_pen(gid, P())
        return calls

def save_bytes(ttfont, **kw):
    b = io.BytesIO(); ttfont.save(b, **kw); return b.getvalue()
