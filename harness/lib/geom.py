"""Canonical geometry of pen-call sequences, written from the pen protocol documentation:
   a list of contours, each a list of Bezier segments with absolute points."""
from fractions import Fraction as F

def mid(a, b): return ((a[0] + b[0]) / 2, (a[1] + b[1]) / 2)

def quad_segments(p0, pts):
    """qCurveTo(*pts) from p0 with implied on-curve points between consecutive off-curves"""
    offs = list(pts[:-1]); end = pts[-1]; out = []
    for i, off in enumerate(offs):
        on = mid(off, offs[i + 1]) if i < len(offs) - 1 else end
        out.append(("Q", p0, off, on)); p0 = on
    if not offs: out.append(("L", p0, end))
    return out

def contours(calls, decompose_super=None):
    """calls: [(op, args)]. Returns list of (closed, [segments]); super-beziers (curveTo with != 3 points) are
    kept as one opaque ('S', p0, *pts) segment unless decompose_super is given."""
    out = []; cur = None; start = None; p = None
    for op, a in calls:
        if op == "moveTo":
            cur = []; start = p = a[0]
        elif op == "lineTo":
            cur.append(("L", p, a[0])); p = a[0]
        elif op == "curveTo":
            if len(a) == 3: cur.append(("C", p, a[0], a[1], a[2]))
            elif len(a) == 2: cur.append(("Q", p, a[0], a[1]))
            elif len(a) == 1: cur.append(("L", p, a[0]))
            else:
                if decompose_super: 
                    for seg in decompose_super(p, a): cur.append(seg)
                else: cur.append(("S", p) + tuple(a))
            p = a[-1]
        elif op == "qCurveTo":
            if a[-1] is None:
                # closed contour without on-curve points: start at the implied point between last and first
                offs = list(a[:-1]); n = len(offs)
                cur = []
                if n == 1:
                    out.append((True, [("Q", offs[0], offs[0], offs[0])])); cur = None; continue
                p0 = mid(offs[-1], offs[0])
                for i in range(n):
                    on = mid(offs[i], offs[(i + 1) % n]); cur.append(("Q", p0, offs[i], on)); p0 = on
                start = p = p0
            else:
                if cur is None: cur = []; 
                for s in quad_segments(p, a): cur.append(s)
                p = a[-1]
        elif op in ("closePath", "endPath"):
            closed = op == "closePath"
            if cur is not None:
                if closed and p != start: cur.append(("L", p, start))
                out.append((closed, cur))
            cur = None
        elif op == "addComponent":
            out.append(("component", a))
    return out

def drop_degenerate(conts):
    """remove zero-length lines; contours with no segment left vanish"""
    out = []
    for c in conts:
        if c[0] == "component": out.append(c); continue
        closed, segs = c
        segs = [s for s in segs if not (len(set(s[1:])) == 1)]
        if segs: out.append((closed, segs))
    return out

def rotate_canonical(conts):
    """closed contours are equal up to the choice of start point: rotate to the lexicographically least segment"""
    out = []
    for c in conts:
        if c[0] == "component": out.append(c); continue
        closed, segs = c
        if closed and segs:
            k = min(range(len(segs)), key=lambda i: segs[i:] + segs[:i])
            segs = segs[k:] + segs[:k]
        out.append((closed, segs))
    return out

def canon(calls, **kw):
    return rotate_canonical(drop_degenerate(contours(calls, **kw)))

def reverse_geom(conts):
    out = []
    for c in conts:
        if c[0] == "component": out.append(c); continue
        closed, segs = c
        out.append((closed, [(s[0],) + tuple(reversed(s[1:])) for s in reversed(segs)]))
    return out

def area(conts):
    tot = 0
    for c in conts:
        if c[0] == "component": continue
        for s in c[1]:
            pts = s[1:]
            if s[0] == "L": pts = (pts[0], pts[0], pts[1], pts[1])
            elif s[0] == "Q":
                p0, p1, p2 = pts
                pts = (p0, (p0[0] + (p1[0] - p0[0]) * F(2, 3), p0[1] + (p1[1] - p0[1]) * F(2, 3)),
                       (p2[0] + (p1[0] - p2[0]) * F(2, 3), p2[1] + (p1[1] - p2[1]) * F(2, 3)), p2)
            (x0, y0), (x1, y1), (x2, y2), (x3, y3) = pts
            # Green: 1/2 * integral (x dy - y dx) of a cubic in Bernstein form
            tot += (x0 * (6 * y1 + 3 * y2 + y3) + 3 * x1 * (-2 * y0 + y2 + y3) - 3 * x2 * (y0 + y1 - 2 * y3) - x3 * (y0 + 3 * y1 + 6 * y2)) / 20
    return tot

def merge_axis_lines(conts):
    """fill-equivalence used by the CFF specialiser: consecutive horizontal (or vertical) lines are merged into
    one (a cancelled spike has no area); zero-length results are dropped"""
    out = []
    for c in conts:
        if c[0] == "component": out.append(c); continue
        closed, segs = c
        segs = list(segs)
        changed = True
        while changed and segs:
            changed = False
            n = len(segs)
            for i in range(n if closed and n > 1 else n - 1):
                a = segs[i]; b = segs[(i + 1) % n]
                if a[0] == "L" and b[0] == "L" and ((a[1][1] == a[2][1] == b[2][1]) or (a[1][0] == a[2][0] == b[2][0])):
                    m = ("L", a[1], b[2])
                    if (i + 1) % n == 0:
                        segs = [m] + segs[1:i]
                    else:
                        segs = segs[:i] + [m] + segs[i + 2:]
                    segs = [s_ for s_ in segs if len(set(s_[1:])) > 1]
                    changed = True; break
        if segs: out.append((closed, segs))
    return rotate_canonical(out)

def fill_canon(calls):
    """canonical form modulo the fill-preserving rewrites of the CFF specialiser: zero-length segments dropped, a cubic
    whose first and last control vectors are zero is the line between its end points, consecutive axis-parallel lines merged"""
    conts = contours(calls)
    out = []
    for c in conts:
        if c[0] == "component": out.append(c); continue
        closed, segs = c
        ns = []
        for s_ in segs:
            if s_[0] == "C" and s_[1] == s_[2] and s_[3] == s_[4]: s_ = ("L", s_[1], s_[4])
            ns.append(s_)
        out.append((closed, ns))
    return merge_axis_lines(drop_degenerate(out))
