"""Small generated fonts (fontBuilder) covering structures the corpus exercises thinly."""
import io

def _square(x0, y0, x1, y1):
    from fontTools.pens.ttGlyphPen import TTGlyphPen
    pen = TTGlyphPen(None); pen.moveTo((x0, y0)); pen.lineTo((x1, y0)); pen.lineTo((x1, y1)); pen.lineTo((x0, y1)); pen.closePath()
    return pen.glyph()

def colrv1_font():
    """glyf font with COLRv1 layers, a ClipList and CPAL"""
    from fontTools.fontBuilder import FontBuilder
    from fontTools.pens.ttGlyphPen import TTGlyphPen
    from fontTools.ttLib.tables.otTables import PaintFormat
    order = [".notdef", "A", "B", "A.l0", "A.l1", "B.l0"]
    fb = FontBuilder(1000, isTTF=True); fb.setupGlyphOrder(order); fb.setupCharacterMap({0x41: "A", 0x42: "B"})
    glyphs = {n: _square(50, 0, 450, 600) for n in order}; glyphs[".notdef"] = TTGlyphPen(None).glyph(); glyphs["A.l1"] = _square(100, 100, 300, 300)
    fb.setupGlyf(glyphs); fb.setupHorizontalMetrics({n: (500, 50) for n in order}); fb.setupHorizontalHeader(ascent=800, descent=-200)
    fb.setupNameTable({"familyName": "GenCOLR", "styleName": "Color"}); fb.setupOS2(); fb.setupPost()
    fb.setupCPAL([[(1, 0, 0, 1), (0, 0, 1, 1)]])
    solid = lambda g, i: {"Format": PaintFormat.PaintGlyph, "Glyph": g, "Paint": {"Format": PaintFormat.PaintSolid, "PaletteIndex": i, "Alpha": 1.0}}
    fb.setupCOLR({"A": (PaintFormat.PaintColrLayers, [solid("A.l0", 0), solid("A.l1", 1)]), "B": solid("B.l0", 1)},
                 clipBoxes={"A": (50, 0, 450, 600), "B": (40, 0, 450, 610)})
    b = io.BytesIO(); fb.save(b); return b.getvalue()

def all_generated():
    out = []
    for name, fn in (("generated-COLRv1", colrv1_font),):
        try: out.append((name, fn()))
        except Exception: pass
    return out
