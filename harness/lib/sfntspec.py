"""An independent reader/validator of sfnt, TTC and WOFF containers written from the OpenType and
WOFF specifications (uses only struct/zlib; nothing from fontTools)."""
import struct, zlib

class Invalid(Exception): pass

def u32sum(data):
    if len(data) % 4: data = data + b"\0" * (4 - len(data) % 4)
    return sum(struct.unpack(">%dL" % (len(data) // 4), data)) & 0xFFFFFFFF

def check_sfnt(data, base=0, whole_file=True, problems=None):
    """validate one sfnt table directory starting at `base`; returns {tag: bytes}"""
    P = problems if problems is not None else []
    if len(data) < base + 12: raise Invalid("short header")
    ver, n, sr, es, rs = struct.unpack(">4sHHHH", data[base:base + 12])
    if ver not in (b"\0\1\0\0", b"OTTO", b"true", b"typ1"): P.append("bad sfntVersion %r" % ver)
    if n == 0: P.append("numTables == 0")
    e = 0
    while (1 << (e + 1)) <= n: e += 1
    if n and (sr != 16 * (1 << e) or es != e or rs != 16 * n - sr):
        P.append("search fields (%d,%d,%d) != spec (%d,%d,%d)" % (sr, es, rs, 16 << e, e, 16 * n - (16 << e)))
    if len(data) < base + 12 + 16 * n: raise Invalid("short directory")
    ents = []
    for i in range(n):
        tag, ck, off, ln = struct.unpack(">4sLLL", data[base + 12 + 16 * i: base + 28 + 16 * i])
        ents.append((tag, ck, off, ln))
    tags = [t for t, _, _, _ in ents]
    if tags != sorted(tags): P.append("directory not sorted by tag")
    if len(set(tags)) != len(tags): P.append("duplicate tags")
    tables = {}
    spans = []
    for tag, ck, off, ln in ents:
        if off % 4: P.append("table %r offset %d not 4-byte aligned" % (tag, off))
        if off + ln > len(data): P.append("table %r extends past end of file" % tag); continue
        body = data[off:off + ln]
        tables[tag] = body
        if tag == b"head":
            if ln >= 12 and u32sum(body[:8] + b"\0\0\0\0" + body[12:]) != ck: P.append("head checksum wrong")
        elif u32sum(body) != ck:
            P.append("table %r checksum wrong" % tag)
        pad = data[off + ln: off + ((ln + 3) & ~3)]
        if pad.strip(b"\0"): P.append("table %r padding not zero" % tag)
        spans.append((off, off + ((ln + 3) & ~3), tag))
    if whole_file:
        spans.sort()
        end = base + 12 + 16 * n
        for a, b, tag in spans:
            if a < end: P.append("table %r overlaps previous data (offset %d < %d)" % (tag, a, end))
            if a > end and data[end:a].strip(b"\0"): P.append("non-zero gap before %r" % tag)
            end = max(end, b)
        if b"head" in tables and base == 0:
            if len(data) % 4: P.append("file length not multiple of 4")
            if u32sum(data) != 0xB1B0AFBA: P.append("whole-file checksum != 0xB1B0AFBA (got %08X)" % u32sum(data))
    return tables

def check_ttc(data, problems):
    tag, ver, n = struct.unpack(">4sLL", data[:12])
    if tag != b"ttcf": raise Invalid("not ttcf")
    if ver not in (0x10000, 0x20000): problems.append("bad TTC version")
    offs = struct.unpack(">%dL" % n, data[12:12 + 4 * n])
    fonts = []
    for o in offs:
        fonts.append(check_sfnt(data, base=o, whole_file=False, problems=problems))
    return fonts

def check_woff(data, problems):
    P = problems
    (sig, flavor, length, n, reserved, total, maj, mino, metaOff, metaLen, metaOrig, privOff, privLen) = \
        struct.unpack(">4s4sLHHLHHLLLLL", data[:44])
    if sig != b"wOFF": raise Invalid("not wOFF")
    if length != len(data): P.append("WOFF length field %d != file size %d" % (length, len(data)))
    if reserved: P.append("WOFF reserved != 0")
    tables = {}; ents = []
    for i in range(n):
        tag, off, comp, orig, ck = struct.unpack(">4sLLLL", data[44 + 20 * i: 64 + 20 * i])
        ents.append((tag, off, comp, orig, ck))
    tags = [e[0] for e in ents]
    if tags != sorted(tags): P.append("WOFF directory not sorted")
    tot = 12 + 16 * n
    end = 44 + 20 * n
    for tag, off, comp, orig, ck in sorted(ents, key=lambda e: e[1]):
        if off % 4: P.append("WOFF table %r not aligned" % tag)
        if off < end: P.append("WOFF table %r overlaps" % tag)
        if off + comp > len(data): P.append("WOFF table %r past EOF" % tag); continue
        raw = data[off:off + comp]
        if comp > orig: P.append("WOFF table %r compLength > origLength" % tag)
        body = raw if comp == orig else zlib.decompress(raw)
        if len(body) != orig: P.append("WOFF table %r origLength wrong" % tag)
        tables[tag] = body
        if tag == b"head":
            if u32sum(body[:8] + b"\0\0\0\0" + body[12:]) != ck: P.append("WOFF head checksum wrong")
        elif u32sum(body) != ck: P.append("WOFF table %r checksum wrong" % tag)
        if data[off + comp:(off + comp + 3) & ~3].strip(b"\0"): P.append("WOFF padding not zero after %r" % tag)
        end = (off + comp + 3) & ~3
        tot += (orig + 3) & ~3
    if tot != total: P.append("totalSfntSize %d != %d" % (total, tot))
    # the checkSumAdjustment must be the one of the equivalent sfnt
    if b"head" in tables:
        sf = rebuild_sfnt(flavor, tables, order=[e[0] for e in sorted(ents, key=lambda e: e[1])])
        if u32sum(sf) != 0xB1B0AFBA: P.append("WOFF head.checkSumAdjustment is not that of the equivalent sfnt")
    return tables

def rebuild_sfnt(version, tables, order=None):
    """the equivalent sfnt: directory sorted by tag, table data in the physical order `order`"""
    n = len(tables); e = 0
    while (1 << (e + 1)) <= n: e += 1
    hdr = struct.pack(">4sHHHH", version, n, 16 << e, e, 16 * n - (16 << e))
    off = 12 + 16 * n; body = b""; offs = {}
    for tag in (order or sorted(tables)):
        d = tables[tag]; offs[tag] = off
        pd = d + b"\0" * ((4 - len(d) % 4) % 4)
        body += pd; off += len(pd)
    dirb = b""
    for tag in sorted(tables):
        d = tables[tag]
        ck = u32sum(d[:8] + b"\0\0\0\0" + d[12:]) if tag == b"head" else u32sum(d)
        dirb += struct.pack(">4sLLL", tag, ck, offs[tag], len(d))
    return hdr + dirb + body

def check_any(data):
    """returns (kind, tables-or-list, problems)"""
    problems = []
    sig = data[:4]
    if sig == b"ttcf": return "ttc", check_ttc(data, problems), problems
    if sig == b"wOFF": return "woff", check_woff(data, problems), problems
    if sig == b"wOF2": return "woff2", None, problems
    return "sfnt", check_sfnt(data, problems=problems), problems
