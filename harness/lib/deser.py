"""Decoder for model outputs (mirror of Ser.v) driven by a small type description:
   'Z' | 'B' | 'Q' | ('list', t) | ('opt', t) | ('tuple', t1, t2, ...) | ('res', t)"""
from fractions import Fraction

def de(ints, ty, pos=0):
    if ty == "Z": return ints[pos], pos + 1
    if ty == "B": return ints[pos] != 0, pos + 1
    if ty == "Q": return Fraction(ints[pos], ints[pos + 1]), pos + 2
    k = ty[0]
    if k == "list":
        n = ints[pos]; pos += 1; out = []
        for _ in range(n):
            v, pos = de(ints, ty[1], pos); out.append(v)
        return out, pos
    if k == "opt":
        if ints[pos] == 0: return None, pos + 1
        return de(ints, ty[1], pos + 1)
    if k == "tuple":
        out = []
        for t in ty[1:]:
            v, pos = de(ints, t, pos); out.append(v)
        return tuple(out), pos
    if k == "res":
        if ints[pos] == 0: return de(ints, ty[1], pos + 1)
        return ("err", ints[pos + 1]), pos + 2
    raise ValueError(ty)

def decode(ints, ty):
    v, pos = de(ints, ty, 0)
    if pos != len(ints): raise ValueError("trailing ints")
    return v
