"""Mirror of coq/theories/Base/Ser.v: flat integer serialisation."""
from fractions import Fraction

class Ok:
    __slots__ = ("v",)
    def __init__(self, v): self.v = v
    def __repr__(self): return "Ok(%r)" % (self.v,)
    def __eq__(self, o): return isinstance(o, Ok) and o.v == self.v

class Err:
    __slots__ = ("code", "what")
    def __init__(self, code, what=""): self.code = code; self.what = what
    def __repr__(self): return "Err(%d,%s)" % (self.code, self.what)
    def __eq__(self, o): return isinstance(o, Err) and o.code == self.code

class Opt:
    """option: Opt(None) = None, Opt(x, some=True) = Some x"""
    __slots__ = ("v", "some")
    def __init__(self, v=None, some=None):
        self.v = v; self.some = (v is not None) if some is None else some
    def __repr__(self): return "Some(%r)" % (self.v,) if self.some else "None_"

class Raw:
    """already-serialised ints"""
    __slots__ = ("ints",)
    def __init__(self, ints): self.ints = list(ints)
    def __repr__(self): return "Raw(%r)" % (self.ints,)

def ser(x):
    out = []
    _ser(x, out)
    return out

def _ser(x, out):
    if isinstance(x, bool):
        out.append(1 if x else 0)
    elif isinstance(x, int):
        out.append(x)
    elif isinstance(x, Fraction):
        out.append(x.numerator); out.append(x.denominator)
    elif isinstance(x, (bytes, bytearray)):
        out.append(len(x)); out.extend(x)
    elif isinstance(x, list):
        out.append(len(x))
        for e in x: _ser(e, out)
    elif isinstance(x, tuple):
        for e in x: _ser(e, out)
    elif isinstance(x, Ok):
        out.append(0); _ser(x.v, out)
    elif isinstance(x, Err):
        out.append(1); out.append(x.code)
    elif isinstance(x, Opt):
        if x.some: out.append(1); _ser(x.v, out)
        else: out.append(0)
    elif isinstance(x, Raw):
        out.extend(x.ints)
    elif x is None:
        pass   # unit
    elif isinstance(x, str):
        out.append(len(x)); out.extend(ord(c) for c in x)
    else:
        raise TypeError("cannot serialise %r" % (type(x),))

# exception classes -> Res.v err codes
LIB, STRUCT, INDEX, KEY, ASSERT, VALUE, OVERFLOW, TYPE = 1, 2, 3, 4, 5, 6, 7, 8
OTHER = 50

def exc_code(e):
    import struct
    from fontTools.ttLib import TTLibError
    if isinstance(e, TTLibError): return LIB
    if isinstance(e, struct.error): return STRUCT
    if isinstance(e, IndexError): return INDEX
    if isinstance(e, KeyError): return KEY
    if isinstance(e, AssertionError): return ASSERT
    if isinstance(e, OverflowError): return OVERFLOW
    if isinstance(e, ValueError): return VALUE
    if isinstance(e, TypeError): return TYPE
    return OTHER

def res(fn, *a, **k):
    """call fn; Ok(value) or Err(class code)"""
    try:
        return Ok(fn(*a, **k))
    except Exception as e:  # noqa
        return Err(exc_code(e), type(e).__name__)
