"""C18 — merging fonts preserves each input's characters."""
import io, os, tempfile, shutil
from types import SimpleNamespace
from lib.ser import Ok, Err, res, Raw, Opt
from lib import corpus
from vcheck import Corr, Sweep

RULE = ("glyph orders of 2-4 inputs over a small name alphabet that forces collisions (shared names, names that already look renamed: "
        "'one.1', 'a.2.1'); character maps with overlaps; sweeps merge generated fonts (shared/disjoint charsets, duplicate glyphs, GSUB "
        "with required features and shared/unshared scripts) and compare every character through HarfBuzz with the first supporting input.")
TRUSTED = ["uharfbuzz as independent reader in the sweeps"]
ASSUMPTIONS = ["cmap subtable selection (format 12 over 4) is done by the harness for the cmap correspondence"]

def N(tier, q, t): return q if tier == "quick" else t
NAMES = [".notdef", "space", "a", "b", "one", "one.1", "one.2", "a.1", "a.1.1", "x", "one.10", "b.1"]

def correspondences(tier, rng):
    from fontTools.merge import cmap as mcmap
    n = N(tier, 800, 12000)
    cases = []
    for _ in range(n):
        k = rng.randint(1, 4)
        orders = []
        for _ in range(k):
            m = rng.randint(0, 7)
            o = rng.sample(NAMES, m) if rng.chance(80) else [rng.choice(NAMES) for _ in range(m)]
            orders.append(o)
        cases.append(orders)
    def impl(orders):
        def go():
            os_ = [list(o) for o in orders]; mg = SimpleNamespace()
            mcmap.computeMegaGlyphOrder(mg, os_)
            return (os_, list(mg.glyphOrder))
        return res(go)
    def oracle(orders):
        r = impl(orders)
        if isinstance(r, Err): return "computeMegaGlyphOrder raised %s" % r.what
        ren, merged = r.v
        if len(set(merged)) != len(merged): return "merged glyph names are not unique: %r" % (merged,)
        flat = [g for o in ren for g in o]
        if all(len(set(o)) == len(o) for o in orders):
            if len(set(flat)) != len(flat): return "two glyphs received the same name: %r -> %r" % (orders, ren)
            if sorted(flat) != sorted(merged): return "merged order %r is not the union of the renamed orders %r" % (merged, ren)
        return None
    out = [Corr("computeMegaGlyphOrder", cases, impl, oracle=oracle)]
    cases = []
    for _ in range(n):
        k = rng.randint(1, 4); tabs = []
        for f in range(k):
            cps = rng.sample(range(0x41, 0x50), rng.randint(0, 6)) + ([0x25CC] if rng.chance(20) else []) + ([0x200D] if rng.chance(20) else [])
            tabs.append([(u, "g%d_%d" % (f, u % 7)) for u in cps])
        cases.append(tabs)
    def impl_cmap(tabs):
        mg = SimpleNamespace(duplicateGlyphsPerFont=[{} for _ in tabs])
        tables = []
        for t in tabs:
            sub = SimpleNamespace(format=4, platformID=3, platEncID=1, cmap=dict(t))
            tables.append(SimpleNamespace(tables=[sub]))
        mcmap.computeMegaCmap(mg, tables)
        return [(u, g) for u, g in mg.cmap.items()]
    out.append(Corr("computeMegaCmap", cases, impl_cmap))
    # layout: mergeScriptRecords over the real otTables objects (scripts -> language systems -> features -> lookups)
    from fontTools.merge import layout as mlayout
    from fontTools.ttLib.tables import otTables as ot
    TAGS = ["DFLT", "latn", "cyrl", "grek", "arab"]; LANGS = ["AZE ", "CRT ", "KAZ ", "TRK ", "ROM ", "NLD "]; FEATS = ["liga", "kern", "locl", "ccmp", "calt"]
    tagz = lambda t: int.from_bytes(t.encode("ascii"), "big")
    def gen_lang(lk):
        feats = []
        for _ in range(rng.randint(0, 4)):
            feats.append((rng.choice(FEATS), [next(lk) for _ in range(rng.randint(0, 3))]))
        return (0xFFFF if rng.chance(92) else rng.randint(0, 3), feats)
    def counter():
        i = 0
        while True:
            i += 1; yield i
    cases = []
    for _ in range(N(tier, 500, 6000)):
        lk = counter(); fonts = []
        for _f in range(rng.randint(1, 4)):
            scripts = []
            for st in rng.sample(TAGS, rng.randint(0, 3)):
                recs = [(lt, gen_lang(lk)) for lt in rng.sample(LANGS, rng.randint(0, 3))]      # any order, as a font may carry them
                scripts.append((st, (gen_lang(lk) if rng.chance(70) else None, recs)))
            fonts.append(scripts)
        cases.append(fonts)
    def enc_scripts(fonts):
        return [[(tagz(st), (Opt(None) if d is None else Opt((d[0], [(tagz(ft), lks) for ft, lks in d[1]]), some=True),
                             [(tagz(lt), (l[0], [(tagz(ft), lks) for ft, lks in l[1]])) for lt, l in recs])) for st, (d, recs) in scripts] for scripts in fonts]
    def mk_lang(l):
        o = ot.LangSys(); o.LookupOrder = None; o.ReqFeatureIndex = l[0]; o.FeatureIndex = []
        for ft, lks in l[1]:
            r = ot.FeatureRecord(); r.FeatureTag = ft; r.Feature = ot.Feature(); r.Feature.FeatureParams = None; r.Feature.LookupListIndex = list(lks); o.FeatureIndex.append(r)
        o.FeatureCount = len(o.FeatureIndex); return o
    def un_lang(o): return (o.ReqFeatureIndex, [(tagz(r.FeatureTag), list(r.Feature.LookupListIndex)) for r in o.FeatureIndex])
    def impl_scripts(fonts):
        def go():
            lst = []
            for scripts in fonts:
                recs_ = []
                for st, (d, recs) in scripts:
                    sr = ot.ScriptRecord(); sr.ScriptTag = st; sr.Script = ot.Script()
                    sr.Script.DefaultLangSys = mk_lang(d) if d is not None else None
                    sr.Script.LangSysRecord = []
                    for lt, l in recs:
                        lr = ot.LangSysRecord(); lr.LangSysTag = lt; lr.LangSys = mk_lang(l); sr.Script.LangSysRecord.append(lr)
                    recs_.append(sr)
                lst.append(recs_)
            merged = mlayout.mergeScriptRecords(lst)
            return [(tagz(sr.ScriptTag), (Opt(un_lang(sr.Script.DefaultLangSys), some=True) if sr.Script.DefaultLangSys is not None else Opt(None),
                                          [(tagz(lr.LangSysTag), un_lang(lr.LangSys)) for lr in sr.Script.LangSysRecord])) for sr in merged]
        return res(go)
    def oracle_scripts(fonts):
        """the PROPERTY on the implementation: whenever a script was merged from several inputs its language systems are in tag order
        (a shaper finds them by binary search), and so are the scripts and each merged language system's features"""
        r = impl_scripts(fonts)
        if isinstance(r, Err): return None
        tags = [t for t, _ in r.v]
        if tags != sorted(set(tags)): return "merged script records are not in strict tag order: %r" % (tags,)
        contributors = {}
        for scripts in fonts:
            for st, _ in scripts: contributors[tagz(st)] = contributors.get(tagz(st), 0) + 1
        for t, (d, recs) in r.v:
            if contributors[t] < 2: continue
            lt = [x for x, _ in recs]
            if lt != sorted(set(lt)): return "language systems of merged script %08x are not in strict tag order: %r" % (t, lt)
            for _, l in recs + ([(0, d.v)] if d.some else []):
                ft = [x for x, _ in l[1]]
                if ft != sorted(set(ft)): return "features of a merged language system are not in strict tag order: %r" % (ft,)
        return None
    out.append(Corr("mergeScriptRecords", cases, impl_scripts, enc=enc_scripts, oracle=oracle_scripts))
    return out

# ------------------------------------------------------------------ sweeps
def _build(names, cmap, fea=None, upem=1000, seedshape=0, req=None):
    from fontTools.fontBuilder import FontBuilder
    from fontTools.pens.ttGlyphPen import TTGlyphPen
    fb = FontBuilder(upem, isTTF=True)
    fb.setupGlyphOrder(names); fb.setupCharacterMap(cmap)
    glyphs = {}; adv = {}
    for i, n in enumerate(names):
        pen = TTGlyphPen(None)
        if n not in ("space",):
            h = 100 + 37 * ((sum(map(ord, n)) + seedshape) % 11); w = 200 + 13 * (i % 5) + seedshape
            pen.moveTo((10, 0)); pen.lineTo((w, 0)); pen.lineTo((w, h)); pen.lineTo((10, h)); pen.closePath()
        glyphs[n] = pen.glyph(); adv[n] = (300 + 10 * (sum(map(ord, n)) % 17) + seedshape, 10)
    fb.setupGlyf(glyphs); fb.setupHorizontalMetrics(adv); fb.setupHorizontalHeader(ascent=800, descent=-200)
    fb.setupNameTable({"familyName": "M", "styleName": "R"}); fb.setupOS2(); fb.setupPost()
    if fea: fb.addOpenTypeFeatures(fea)
    f = fb.font
    if req and "GSUB" in f:
        # make feature `req` the REQUIRED feature of its script's default language system
        t = f["GSUB"].table
        for sr in t.ScriptList.ScriptRecord:
            ls = sr.Script.DefaultLangSys
            if ls is None: continue
            for fi in list(ls.FeatureIndex):
                if t.FeatureList.FeatureRecord[fi].FeatureTag == req:
                    ls.FeatureIndex.remove(fi); ls.ReqFeatureIndex = fi; ls.FeatureCount = len(ls.FeatureIndex)
    return f

_LANGS = {"AZE": "az", "CRT": "crh", "KAZ": "kk", "TRK": "tr", "ROM": "ro", "PLK": "pl", "NLD": "nl", "SRB": "sr"}   # OpenType tag -> BCP 47

def sweeps(tier, rng):
    from fontTools.ttLib import TTFont
    from fontTools.merge import Merger
    from lib.hb import HBFont, save_bytes
    n = 36 if tier == "quick" else 60 if tier == "search" else 300
    def run_merge():
        tmp = tempfile.mkdtemp(prefix="fvC18_")
        try:
            directed = [
                # (fonts: (names, cmap-base, fea, required-feature)) — configurations ordinary merges do not hit
                [(["a", "b", "c", "x"], 0x41, "languagesystem DFLT dflt; languagesystem latn dflt;\nfeature calt { script latn; sub a' c by b; } calt;\nfeature liga { script latn; sub b a by c; } liga;", None),
                 (["acy", "brevecomb", "acy_breve", "y"], 0x430, "languagesystem DFLT dflt; languagesystem cyrl dflt;\nfeature ccmp { script cyrl; sub acy brevecomb by acy_breve; } ccmp;\nfeature liga { script cyrl; sub brevecomb acy by y; } liga;", "ccmp")],
                [(["a", "b", "c"], 0x41, "languagesystem DFLT dflt; languagesystem latn dflt;\nfeature liga { script latn; sub a b by c; } liga;", None),
                 (["d", "e", "f"], 0x61, "languagesystem DFLT dflt; languagesystem latn dflt;\nfeature ccmp { script latn; sub d by e; } ccmp;\nfeature liga { script latn; sub d e by f; } liga;", None)],
                [(["one", "one.1", "two"], 0x31, None, None), (["one", "three"], 0x41, None, None), (["one", "one.1"], 0x51, None, None)],
                # positioning lookups in both inputs; the second input's contextual lookup (and the lookup it calls) are Extension lookups
                [(["a", "b", "c", "x"], 0x41, "languagesystem DFLT dflt; languagesystem latn dflt;\nlookup KA { pos a 40; } KA;\nfeature kern { script latn; pos b c -25; pos a' lookup KA b; } kern;", None),
                 (["alpha", "beta", "gamma"], 0x3B1, "languagesystem DFLT dflt; languagesystem grek dflt;\nlookup KB useExtension { pos beta 30; } KB;\nlookup XB useExtension { pos beta' lookup KB gamma; } XB;\nfeature kern { script grek; pos alpha beta -15; lookup XB; } kern;", None)],
                [(["a", "b"], 0x41, "languagesystem DFLT dflt; languagesystem latn dflt;\nfeature kern { script latn; pos a b -25; } kern;", None),
                 (["d", "e", "f"], 0x61, "languagesystem DFLT dflt; languagesystem latn dflt;\nlookup KD { pos e <10 0 20 0>; } KD;\nlookup XD useExtension { pos d e' lookup KD f; } XD;\nfeature kern { script latn; lookup XD; } kern;", None)],
            ]
            for it in range(n + len(directed)):
                k = rng.randint(2, 3); fonts = []; feas = []; disjoint = rng.chance(50)
                # a third of the merges: every input declares the SAME script with its own language systems, in any order
                langmode = it < n and it % 3 == 1; langs_of = {}
                if langmode: disjoint = True
                if it >= n:
                    disjoint = True
                    for fi, (gn, base, fea, req) in enumerate(directed[it - n]):
                        names = [".notdef"] + gn; cm = {base + j: nm for j, nm in enumerate(gn)}
                        f = _build(names, cm, fea, seedshape=fi * 3, req=req)
                        p = os.path.join(tmp, "d%d_%d.ttf" % (it, fi)); f.save(p); fonts.append((p, names, cm))
                    k = 0
                pool = ["a", "b", "c", "one", "one.1", "two", "fi", "space", "x", "y", "acy", "brevecomb", "acy_breve", "f", "i", "f_i"]
                for fi in range(k):
                    names = [".notdef"] + rng.sample(pool, rng.randint(4, 9))
                    if fi == 0 and rng.chance(50):
                        for nm in ("one", "one.1"):
                            if nm not in names: names.append(nm)
                    base = 0x41 + (fi * 0x100 if disjoint else 0)
                    cm = {base + j: nm for j, nm in enumerate(names[1:]) if rng.chance(80)}
                    # some inputs also map supplementary-plane characters (their character map then needs a format 12 subtable)
                    # (not in the language-system merges: script-neutral characters reach an input's 'latn' rules only through the shaper's
                    # fallback when no DFLT script exists, and the merged font has the DFLT script of the OTHER inputs)
                    if disjoint and not langmode and rng.chance(35):
                        for j, nm in enumerate(names[1:4]): cm[0x1F600 + fi * 0x10 + j] = nm
                    fea = None; req = None
                    gs = [nm for nm in names[1:]]
                    if langmode and len(gs) >= 3:
                        mine = rng.sample(sorted(_LANGS), rng.randint(1, 3)); langs_of[fi] = [_LANGS[t] for t in mine]
                        fea = "languagesystem DFLT dflt; languagesystem latn dflt; " + " ".join("languagesystem latn %s;" % t for t in mine) + "\n"
                        fea += "feature locl { script latn; " + " ".join("language %s; sub %s by %s;" % (t, gs[0], gs[1 + j % (len(gs) - 1)]) for j, t in enumerate(mine)) + " } locl;\n"
                        if rng.chance(50): fea += "feature liga { sub %s %s by %s; } liga;" % (gs[1], gs[0], gs[2])
                    elif len(gs) >= 3 and rng.chance(70):
                        script = ["latn", "cyrl", "grek"][fi] if rng.chance(60) else "latn"
                        a_, b_, c_ = gs[0], gs[1], gs[2]
                        feats = []
                        if rng.chance(60): feats.append("feature ccmp { script %s; sub %s %s by %s; } ccmp;" % (script, a_, b_, c_))
                        if rng.chance(60): feats.append("feature liga { script %s; sub %s %s by %s; } liga;" % (script, b_, a_, c_))
                        if rng.chance(40): feats.append("feature calt { script %s; sub %s' %s by %s; } calt;" % (script, a_, c_, b_))
                        # positioning: pair kerning, and contextual positioning that calls another lookup — some of it stored as Extension lookups
                        if rng.chance(75):
                            ext = " useExtension" if rng.chance(50) else ""
                            feats.append("lookup K%d%s { pos %s %d; } K%d;" % (fi, ext, a_, 30 + 7 * fi, fi))
                            feats.append("lookup X%d%s { pos %s' lookup K%d %s; } X%d;" % (fi, " useExtension" if rng.chance(65) else "", a_, fi, b_, fi))
                            feats.append("feature kern { script %s; pos %s %s %d; lookup X%d; } kern;" % (script, b_, c_, -20 - fi, fi))
                        if feats:
                            fea = "languagesystem DFLT dflt; languagesystem %s dflt;\n" % script + "\n".join(feats)
                            if rng.chance(40) and "ccmp" in fea: req = "ccmp"
                    try:
                        f = _build(names, cm, fea, seedshape=fi * 3, req=req)
                    except Exception:
                        f = _build(names, cm, None, seedshape=fi * 3)
                    p = os.path.join(tmp, "f%d_%d.ttf" % (it, fi)); f.save(p); fonts.append((p, names, cm)); feas.append(fea)
                bad = None
                try:
                    merged = Merger().merge([p for p, _, _ in fonts])
                    mdata = save_bytes(merged)
                    mf = TTFont(io.BytesIO(mdata)); morder = mf.getGlyphOrder()
                    if len(set(morder)) != len(morder): bad = "glyph names in the merged font are not unique: %r" % (morder,)
                    hm = HBFont(mdata, morder)
                    inputs = [(HBFont(open(p, "rb").read(), names), names, cm) for p, names, cm in fonts]
                    allcps = sorted(set(u for _, _, cm in fonts for u in cm))
                    for u in allcps:
                        if bad: break
                        first = next(i for i, (_, _, cm) in enumerate(fonts) if u in cm)
                        h, names, cm = inputs[first]
                        g0 = h.nominal(u); g1 = hm.nominal(u)
                        if g1 is None or g1 == 0 and cm[u] != ".notdef": bad = "U+%04X is not mapped in the merged font" % u; break
                        if h.outline(g0) != hm.outline(g1) or h.advance(g0) != hm.advance(g1):
                            bad = "U+%04X: merged glyph %r differs from input %d's glyph %r (outline/advance)" % (u, hm.name(g1), first, cm[u])
                    if bad is None and disjoint:
                        for i, (h, names, cm) in enumerate(inputs):
                            cps = sorted(cm)
                            if not cps: continue
                            import itertools
                            texts = ["".join(map(chr, t)) for r_ in (2, 3) for t in itertools.product(cps, repeat=r_)] if len(cps) <= 5 else \
                                    ["".join(chr(rng.choice(cps)) for _ in range(rng.randint(2, 5))) for _ in range(12)] + ["".join(map(chr, t)) for t in itertools.product(cps[:7], repeat=2)]
                            for text, lang in [(t_, None) for t_ in texts] + [(t_, l_) for l_ in langs_of.get(i, []) for t_ in texts[:40]]:
                                a = h.shape(text, language=lang); b = hm.shape(text, language=lang)
                                # compare by advances + outlines (names are renamed by the merge)
                                def sig(hf, res_):
                                    return [(hf.outline(hf.order.index(g) if g in hf.order else 0), adv, xo, yo) for g, adv, _, xo, yo in res_]
                                if sig(h, a) != sig(hm, b):
                                    bad = "text %r (language %r) of input %d shapes differently after the merge: %r -> %r; feature files %r; cmaps %r" % (text, lang, i, a, b, feas, [sorted(c_.items()) for _, _, c_ in fonts]); break
                            if bad: break
                except Exception as e:
                    import traceback
                    msg = repr(e); tb = traceback.format_exc()
                    # inputs the merger declares incompatible (required features in a shared script, unequal values) raise: allowed
                    unsupported = any(k_ in msg for k_ in ("Expected all items to be equal", "NotImplemented")) or "mergeLangSyses" in tb
                    bad = None if unsupported else "merge raised %s" % msg[:300]
                yield (("merge", it, [nm for _, nm, _ in fonts]), bad)
        finally:
            shutil.rmtree(tmp, ignore_errors=True)
    return [Sweep("merge-generated", run_merge)]

def witness(fid): return None
