"""C20 — damaged or hostile input fails cleanly and is never executed."""
import io, os, struct, tempfile, shutil
from lib.ser import Ok, Err, res, Raw, exc_code, OTHER
from lib import corpus
from vcheck import Corr, Sweep

RULE = ("mutated container headers: every truncation length of the first 400 bytes, single-byte corruptions of header/directory, "
        "random garbage, synthetic TTC headers; model outcome class (Ok / TTLibError) and directory compared with SFNTReader. "
        "Sweeps: payload corruption with ignoreDecompileErrors, forced compile failure during save, code-execution canaries.")
TRUSTED = ["zlib/brotli decompressors and expat are outside the model"]
ASSUMPTIONS = ["files are byte lists; file.seek/read as list slicing"]

def N(tier, q, t): return q if tier == "quick" else t

def _impl_open(x):
    from fontTools.ttLib import sfnt, TTLibError
    data, fontNumber = x
    data = bytes(data)
    def go():
        r = sfnt.SFNTReader(io.BytesIO(data), fontNumber=fontNumber)
        ents = []
        for tag in sorted(r.tables.keys(), key=lambda t: t.tobytes() if hasattr(t, "tobytes") else str(t).encode("latin-1")):
            e = r.tables[tag]
            try:
                ld = Ok(list(r[tag]))
            except Exception as ex:
                ld = Err(exc_code(ex), type(ex).__name__)
            tagb = tag.tobytes() if hasattr(tag, "tobytes") else str(tag).encode("latin-1")
            ents.append(((list(tagb), (e.checkSum, (e.offset, e.length))), ld))
        v = r.sfntVersion
        vb = v.tobytes() if hasattr(v, "tobytes") else str(v).encode("latin-1")
        return (list(vb), ents)
    return res(go)

def _oracle_open(x):
    r = _impl_open(x)
    if isinstance(r, Err) and r.code != 1:
        return "opening raised %s instead of TTLibError" % r.what
    if isinstance(r, Ok):
        for (ent, ld) in r.v[1]:
            if isinstance(ld, Err) and ld.code != 1:
                return "reader[%r] raised %s instead of TTLibError" % (bytes(ent[0]), ld.what)
            if isinstance(ld, Ok):
                off, ln = ent[1][1]
                if len(ld.v) != ln or bytes(ld.v) != bytes(x[0])[off:off + ln] or off + ln > len(x[0]) and ln > 0:
                    return "reader[%r] returned %d bytes for a table declared as %d bytes at offset %d of a %d-byte file" % (
                        bytes(ent[0]), len(ld.v), ln, off, len(x[0]))
    return None

def correspondences(tier, rng):
    fonts = [p for p in corpus.binaries((".ttf", ".otf", ".ttc"))]
    pick = corpus.pick(rng, fonts, N(tier, 8, 60))
    ttcs = corpus.binaries((".ttc",))
    for t in ttcs[:2]:
        if t not in pick: pick.append(t)
    cases = []
    for path in pick:
        data = open(path, "rb").read()
        if len(data) > 400000: continue
        fn = 0 if path.endswith(".ttc") else -1
        head = data[:1200]
        cuts = sorted(set(list(range(0, min(len(data), 64))) + [rng.below(min(len(data), 600)) for _ in range(N(tier, 25, 200))]))
        for n in cuts: cases.append((list(data[:n]), fn))
        # single-byte corruptions of header/directory, on the whole (small) file or on a prefix that
        # still contains the directory
        body = data if len(data) < 6000 else data[:6000]
        for _ in range(N(tier, 40, 400)):
            pos = rng.below(min(len(body), 300)); d = bytearray(body)
            d[pos] = rng.choice([0, 255, d[pos] ^ 0x80, rng.below(256)])
            cases.append((list(d), rng.choice([fn, fn, 0, 1, -1, 5])))
    # synthetic collections
    for _ in range(N(tier, 150, 2000)):
        nf = rng.choice([0, 1, 2, 3, 2**32 - 1, rng.below(6)])
        ver = rng.choice([0x10000, 0x20000, 0x10000, 0x30000, 0, rng.below(2**32)])
        hdr = b"ttcf" + struct.pack(">LL", ver, nf)
        offs = b"".join(struct.pack(">L", rng.choice([12 + 4 * min(nf, 8), 60, 0, 5000, rng.below(200)])) for _ in range(min(nf, 8)))
        tail = rng.bytes(rng.choice([0, 3, 12, 40, 200]))
        sf = rng.choice([b"\0\1\0\0", b"OTTO", b"true", b"abcd"]) + struct.pack(">HHHH", rng.below(4), 0, 0, 0) + rng.bytes(rng.below(70))
        d = hdr + offs + tail + sf
        d = d[:rng.randint(0, len(d))] if rng.chance(40) else d
        cases.append((list(d), rng.choice([0, 1, 2, -1, 7])))
    for _ in range(N(tier, 100, 1000)):
        cases.append((list(rng.bytes(rng.randint(0, 80))), rng.choice([-1, 0])))
    return [Corr("open_and_load", cases, _impl_open, oracle=_oracle_open)]

# ------------------------------------------------------------------ sweeps
def _try_open_all(data, fontNumber):
    from fontTools.ttLib import TTFont, TTLibError
    try:
        f = TTFont(io.BytesIO(data), fontNumber=fontNumber, lazy=True)
        for t in list(f.reader.keys()):
            f.reader[t]
        return None
    except TTLibError:
        return None
    except Exception as e:
        return "%s: %s" % (type(e).__name__, str(e)[:80])

def sweeps(tier, rng):
    from fontTools.ttLib import TTFont, TTLibError, newTable
    from fontTools.misc.textTools import safeEval
    allb = corpus.binaries()
    def run_containers():
        pick = corpus.pick(rng, allb, 14 if tier == "quick" else 60 if tier == "search" else len(allb))
        for path in pick:
            data = open(path, "rb").read()
            fn = 0 if path.endswith((".ttc", ".otc")) else -1
            ext = os.path.splitext(path)[1]
            cuts = sorted(set(range(0, min(len(data), 120 if tier == "quick" else 400))) | {rng.below(len(data)) for _ in range(10 if tier == "quick" else 40)})
            for n in cuts:
                yield ((corpus.rel(path), "trunc", n), _try_open_all(data[:n], fn))
            for pos in range(0, min(len(data), 60 if tier == "quick" else 120)):
                for v in (0, 255, data[pos] ^ 0x80):
                    d = bytearray(data); d[pos] = v
                    yield ((corpus.rel(path), "flip", pos, v), _try_open_all(bytes(d), fn))
    def run_ignore_errors():
        fonts = corpus.pick(rng, corpus.binaries((".ttf", ".otf")), 6 if tier == "quick" else 40)
        for path in fonts:
            data = open(path, "rb").read()
            if len(data) > 300000: continue
            f0 = TTFont(io.BytesIO(data), lazy=True)
            tags = [t for t in f0.reader.keys() if t not in ("head", "hhea", "maxp", "loca", "hmtx", "post", "name")]
            for tag in rng.sample(tags, min(len(tags), 4 if tier == "quick" else 10)):
                raw = f0.reader[tag]
                if len(raw) < 4: continue
                for mode in ("trunc", "flip"):
                    bad = raw[:rng.randint(1, len(raw) - 1)] if mode == "trunc" else bytes(b ^ (0xFF if rng.chance(20) else 0) for b in raw)
                    f = TTFont(io.BytesIO(data), lazy=True, ignoreDecompileErrors=True)
                    from fontTools.ttLib.tables.DefaultTable import DefaultTable
                    # replace the reader's bytes for this tag
                    orig_getitem = f.reader.__class__.__getitem__
                    class R(f.reader.__class__):
                        def __getitem__(self, t, _tag=tag, _bad=bad):
                            return _bad if t == _tag else orig_getitem(self, t)
                    f.reader.__class__ = R
                    failure = None
                    try:
                        t = f[tag]
                    except Exception as e:
                        failure = "ignoreDecompileErrors=True but f[%r] raised %r" % (tag, e)
                    else:
                        if type(t) is DefaultTable or hasattr(t, "ERROR"):
                            try:
                                out = t.compile(f)
                                if out != bad: failure = "undecodable %r table re-saved as different bytes" % tag
                            except Exception as e:
                                failure = "undecodable %r table cannot be re-saved: %r" % (tag, e)
                    yield ((corpus.rel(path), tag, mode, len(bad)), failure)
        # tables that are structurally well formed but nested deeper than the decoder can follow: the decoder runs out of
        # interpreter stack (RecursionError), which is one more way of being undecodable
        import struct, sys
        from fontTools.fontBuilder import FontBuilder
        from fontTools.pens.ttGlyphPen import TTGlyphPen
        from fontTools.ttLib.tables.DefaultTable import DefaultTable
        def deep_colr(depth):
            head = struct.pack(">HHLLHLLLLL", 1, 0, 0, 0, 0, 34, 0, 0, 0, 0) + struct.pack(">LHL", 1, 1, 10)
            return head + (bytes([14]) + (8).to_bytes(3, "big") + struct.pack(">hh", 1, 1)) * depth + bytes([2]) + struct.pack(">Hh", 0, 0x4000)
        for depth in (3, 40, 1500, 6000) if tier == "quick" else (3, 40, 200, 1500, 3000, 6000, 20000):
            payload = deep_colr(depth)
            fb = FontBuilder(1000, isTTF=True); fb.setupGlyphOrder([".notdef", "A"]); fb.setupCharacterMap({65: "A"})
            fb.setupGlyf({".notdef": TTGlyphPen(None).glyph(), "A": TTGlyphPen(None).glyph()}); fb.setupHorizontalMetrics({".notdef": (500, 0), "A": (500, 0)})
            fb.setupHorizontalHeader(ascent=800, descent=-200); fb.setupNameTable({"familyName": "D", "styleName": "R"}); fb.setupOS2(); fb.setupPost()
            raw = DefaultTable("COLR"); raw.data = payload; fb.font["COLR"] = raw
            b = io.BytesIO(); fb.font.save(b); data = b.getvalue()
            failure = None; limit = sys.getrecursionlimit()
            try:
                sys.setrecursionlimit(1000)          # the interpreter's default
                f = TTFont(io.BytesIO(data), ignoreDecompileErrors=True)
                try:
                    t = f["COLR"]
                except BaseException as e:
                    failure = "ignoreDecompileErrors=True but f['COLR'] raised %s (paint chain %d deep)" % (type(e).__name__, depth)
                else:
                    out = io.BytesIO()
                    try:
                        f.save(out)
                        if type(t) is DefaultTable and TTFont(io.BytesIO(out.getvalue()), lazy=True).reader["COLR"] != payload:
                            failure = "undecodable COLR (paint chain %d deep) re-saved as different bytes" % depth
                    except RecursionError:
                        if type(t) is DefaultTable: failure = "raw COLR could not be re-saved"
                    except Exception as e:
                        failure = "re-saving raised %r" % (e,)
            finally:
                sys.setrecursionlimit(limit)
            yield (("generated", "COLR", "paint-chain", depth), failure)
    def run_damaged_resave():
        """a font with one damaged table, loaded and saved without touching anything: every table -- the damaged one and all the
        others -- comes out as it went in (head: checkSumAdjustment aside)"""
        from fontTools.ttLib.sfnt import SFNTReader, SFNTWriter
        fonts = corpus.pick(rng, [p_ for p_ in corpus.binaries((".ttf", ".otf")) if os.path.getsize(p_) < 200000], 5 if tier == "quick" else 40)
        for path in fonts:
            data = open(path, "rb").read()
            try:
                r = SFNTReader(io.BytesIO(data)); tabs = {t: r[t] for t in r.keys()}
            except Exception:
                continue
            if "head" not in tabs: continue
            plans = [("head", ln) for ln in (0, 3, 6, 8, 11)] + [(rng.choice(sorted(tabs)), None) for _ in range(2)]
            for tag, ln in plans:
                t2 = dict(tabs)
                t2[tag] = tabs[tag][:ln] if ln is not None else tabs[tag][:rng.randint(0, max(0, len(tabs[tag]) - 1))]
                failure = None
                try:
                    b = io.BytesIO(); w = SFNTWriter(b, len(t2), r.sfntVersion)
                    for t in sorted(t2): w[t] = t2[t]
                    w.close(); damaged = b.getvalue()
                    r2 = SFNTReader(io.BytesIO(damaged))
                    for t in sorted(t2):
                        got = r2[t]
                        same = got == t2[t] if not (t == "head" and len(t2[t]) >= 12) else (got[:8] == t2[t][:8] and got[12:] == t2[t][12:])
                        if not same: failure = "writing a font whose %r table is cut to %d bytes changed table %r" % (tag, len(t2[tag]), t); break
                    if failure is None:
                        for lazy in (True, None):
                            f = TTFont(io.BytesIO(damaged), lazy=lazy, recalcTimestamp=False, recalcBBoxes=False)
                            out = io.BytesIO(); f.save(out, reorderTables=rng.choice([None, False]))
                            r3 = SFNTReader(io.BytesIO(out.getvalue()))
                            for t in sorted(t2):
                                got = r3[t]
                                same = got == t2[t] if not (t == "head" and len(t2[t]) >= 12) else (got[:8] == t2[t][:8] and got[12:] == t2[t][12:])
                                if not same: failure = "re-saving (untouched, lazy=%r) a font whose %r table is cut to %d bytes changed table %r" % (lazy, tag, len(t2[tag]), t); break
                            if failure: break
                except Exception as e:
                    if not isinstance(e, TTLibError): failure = "a font whose %r table is cut to %d bytes: %r" % (tag, len(t2[tag]), e)
                yield ((corpus.rel(path), "damaged-resave", tag, len(t2[tag])), failure)
    def run_failed_save():
        tmp = tempfile.mkdtemp(prefix="fvC20_")
        try:
            fonts = corpus.pick(rng, corpus.binaries((".ttf", ".otf")), 3 if tier == "quick" else 20)
            for path in fonts:
                for reorder in (True, False, None):
                    for flavor in (None, "woff"):
                        f = corpus.open_font(path, lazy=True)
                        f.flavor = flavor
                        class Boom(Exception): pass
                        t = newTable("zzzz")
                        def boom(ttFont): raise Boom("compile fails")
                        t.compile = boom
                        f["zzzz"] = t
                        dest = os.path.join(tmp, "dest.bin")
                        before = b"PRECIOUS EXISTING CONTENT" * 7
                        open(dest, "wb").write(before)
                        failure = None
                        try:
                            f.save(dest, reorderTables=reorder)
                            failure = "save succeeded although a table's compile raised"
                        except Boom:
                            pass
                        except Exception as e:
                            failure = "unexpected exception type %r" % (e,)
                        after = open(dest, "rb").read() if os.path.exists(dest) else None
                        if after != before and failure is None:
                            failure = "failed save changed the destination (%s bytes now)" % (None if after is None else len(after))
                        yield ((corpus.rel(path), "reorderTables=%r" % (reorder,), flavor), failure)
        finally:
            shutil.rmtree(tmp, ignore_errors=True)
    def run_canary():
        tmp = tempfile.mkdtemp(prefix="fvC20c_")
        try:
            can = os.path.join(tmp, "canary")
            payloads = ["__import__('os').system('touch %s')" % can, "open('%s','w').write('x')" % can,
                        "[open('%s','w') for _ in (1,)]" % can, "(lambda: open('%s','w'))()" % can,
                        "1 if open('%s','w') else 2" % can, "{}.get(open('%s','w'))" % can, "f'{open(\"%s\",\"w\")}'" % can,
                        "1+1", "abs(-1)", "int('7')", "().__class__", "[].append", "x", "os", "1;2", "print(1)", "None or 1", "not 1"]
            for pl in payloads:
                failure = None
                try:
                    v = safeEval(pl)
                    failure = "safeEval(%r) returned %r instead of rejecting a non-literal" % (pl, v)
                except (ValueError, SyntaxError, TypeError, MemoryError, RecursionError):
                    pass
                except Exception as e:
                    failure = "safeEval(%r) raised %r" % (pl, e)
                if os.path.exists(can): failure = "canary file created by safeEval(%r)" % pl; os.remove(can)
                yield (("safeEval", pl), failure)
            for lit, val in [("1", 1), ("-1", -1), ("0x10", 16), ("1.5", 1.5), ("'a'", "a"), ("(1, 2)", (1, 2)), ("[1]", [1]), ("1e3", 1000.0),
                             ("0b11", 3), ("1_000", 1000), ("-0x7fff", -32767), ("True", True), ("None", None), ("+3", 3), ("1+2j", 1 + 2j)]:
                try:
                    ok = safeEval(lit) == val
                except Exception as e:
                    ok = False
                yield (("safeEval-literal", lit), None if ok else "safeEval(%r) != %r" % (lit, val))
            # canaries through the TTX importer
            import re
            ttx = corpus.pick(rng, [p for p in corpus.ttx_files() if os.path.getsize(p) < 60000], 6 if tier == "quick" else 60)
            for path in ttx:
                src = open(path, encoding="utf-8", errors="replace").read()
                attrs = list(re.finditer(r'(\w+)="([^"]*)"', src))
                if not attrs: continue
                for m in rng.sample(attrs, min(len(attrs), 6 if tier == "quick" else 20)):
                    pl = rng.choice(payloads[:7]).replace('"', "&quot;").replace("<", "&lt;").replace("&", "&amp;") if False else rng.choice(payloads[:6])
                    pl = pl.replace("&", "&amp;").replace('"', "&quot;").replace("<", "&lt;")
                    mutated = src[:m.start(2)] + pl + src[m.end(2):]
                    p2 = os.path.join(tmp, "m.ttx"); open(p2, "w", encoding="utf-8").write(mutated)
                    failure = None
                    try:
                        f = TTFont(); f.importXML(p2)
                        for tag in list(f.keys()):
                            try: f[tag]
                            except Exception: pass
                    except Exception:
                        pass
                    if os.path.exists(can):
                        failure = "canary executed via attribute %s of %s" % (m.group(1), corpus.rel(path)); os.remove(can)
                    yield ((corpus.rel(path), m.group(1)), failure)
            # output naming stays inside the requested directory
            from fontTools.misc.cliTools import makeOutputFileName
            for name in ["a.ttf", "../x.ttf", "/abs/dir/f.otf", "d/../../e.ttf", "..", "a/b/c.ttx"]:
                out = makeOutputFileName(name, outputDir=tmp, extension=".out")
                inside = os.path.commonpath([os.path.abspath(out), os.path.abspath(tmp)]) == os.path.abspath(tmp)
                yield (("makeOutputFileName", name), None if inside else "output %r escapes outputDir" % out)
        finally:
            shutil.rmtree(tmp, ignore_errors=True)
    def run_output_location():
        """a designspace document is data: whatever <variable-font filename=...> says, `fonttools varLib --output-dir OUT` creates
        files inside OUT only (hostile names from a small grammar: parent steps first / in the middle / after './', absolute, nested)"""
        import logging
        from fontTools.designspaceLib import DesignSpaceDocument, RangeAxisSubsetDescriptor, VariableFontDescriptor
        from fontTools.varLib import main as varLib_main
        data_dir = os.path.join(corpus.REPO if hasattr(corpus, "REPO") else "/repo", "Tests", "varLib", "data")
        root = tempfile.mkdtemp(prefix="fvC20o_")
        try:
            work = os.path.join(root, "jail", "deep", "work"); outdir = os.path.join(work, "out"); masters = os.path.join(work, "masters")
            os.makedirs(outdir)
            shutil.copytree(os.path.join(data_dir, "master_ttx_interpolatable_ttf"), masters)
            def snapshot():
                seen = set()
                for dp, dn, fn in os.walk(root):
                    for n in dn + fn: seen.add(os.path.join(dp, n))
                return seen
            comps = ["..", ".", "a", "nested", "..", "b c", "...", "..a"]
            names = ["Plain-VF.ttf", "nested/Sub-VF.ttf", "../../P-VF.ttf", os.path.join(root, "Abs-VF.ttf"), "nested/../../In-VF.ttf",
                     "./../../Dot-VF.ttf", "a/b/../../../../Deep-VF.ttf", "a/./../../X-VF.ttf", "..", "nested/.."]
            for _ in range(N(tier, 4, 40)):
                k = rng.randint(1, 5)
                names.append("/".join(rng.choice(comps) for _ in range(k)) + "/G%d-VF.ttf" % len(names))
            per_doc = 7
            for start in range(0, len(names), per_doc):
                chunk = names[start:start + per_doc]
                failure = None
                try:
                    doc = DesignSpaceDocument.fromfile(os.path.join(data_dir, "Build.designspace"))
                    doc.formatVersion = "5.0"
                    for i, fn in enumerate(chunk):
                        doc.addVariableFont(VariableFontDescriptor(name="vf%d" % (start + i), filename=fn,
                                                                   axisSubsets=[RangeAxisSubsetDescriptor(name=a.name) for a in doc.axes]))
                    ds_path = os.path.join(work, "doc%d.designspace" % start); doc.write(ds_path)
                    before = snapshot()
                    logging.disable(logging.CRITICAL)
                    try:
                        varLib_main([ds_path, "--output-dir", outdir, "--master-finder", os.path.join(masters, "{stem}.ttx"), "-q"])
                    except BaseException as e:          # refusing is fine; writing elsewhere is not
                        pass
                    finally:
                        logging.disable(logging.NOTSET)
                    inside = os.path.join(os.path.realpath(outdir), "")
                    escaped = sorted(os.path.relpath(p_, root) for p_ in snapshot() - before if not (os.path.realpath(p_) + os.sep).startswith(inside))
                    if escaped: failure = "varLib --output-dir %s with variable-font filenames %r created %r outside it" % (os.path.relpath(outdir, root), chunk, escaped)
                except Exception as e:
                    failure = "output-location harness raised %r" % (e,)
                yield (("varLib.main", tuple(chunk)), failure)
        finally:
            shutil.rmtree(root, ignore_errors=True)
    return [Sweep("container-damage", run_containers), Sweep("ignore-decompile-errors", run_ignore_errors),
            Sweep("damaged-resave", run_damaged_resave), Sweep("failed-save", run_failed_save), Sweep("data-only", run_canary), Sweep("output-location", run_output_location)]

def classify(sweep, case, failure):
    if sweep == "container-damage" and isinstance(case, tuple):
        ext = os.path.splitext(case[0])[1].lower()
        if ext in (".woff", ".woff2") and any(k in str(failure) for k in ("brotli", "zlib", "AssertionError", "error:", "struct.error", "Error -")):
            return "F6"
    return None

def witness(fid):
    if fid == "F6":
        from fontTools.ttLib import TTFont, TTLibError
        ws = corpus.binaries((".woff2",))
        if not ws: return None
        data = open(ws[0], "rb").read()
        for n in (60, 100, len(data) // 2):
            r = _try_open_all(data[:n], -1)
            if r: return r
        return None
    return None
