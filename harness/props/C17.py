"""C17 — renumbering glyphs or rescaling the em changes nothing else."""
import io, os, itertools
from fractions import Fraction as F
from lib.ser import Ok, Err, res, Raw, Opt
from lib.deser import decode
from lib import corpus, geom as G
from vcheck import Corr, Sweep

RULE = ("glyph-order cache: random operation sequences (setGlyphOrder with fresh lists AND with the font's own list permuted in place, "
        "getGlyphID incl. duplicates / unknown / glyphNNNNN names, getGlyphName, getReverseGlyphMap(rebuild)); scale: integers x rational "
        "factors incl. exact ties; sweeps: corpus and generated fonts reordered / rescaled and compared by glyph NAME through HarfBuzz.")
TRUSTED = ["uharfbuzz 0.52 as the independent shaper/outline reader in the sweeps"]
ASSUMPTIONS = ["in-place mutation of the glyph order WITHOUT calling setGlyphOrder is outside the API (not modelled)"]

def N(tier, q, t): return q if tier == "quick" else t

def correspondences(tier, rng):
    from fontTools.ttLib import TTFont
    from fontTools.ttLib.scaleUpem import ScalerVisitor
    n = N(tier, 600, 10000)
    NAMES = ["a", "b", "c", ".notdef", "glyph00001", "glyph00002", "glyph3", "glyphX", "glyph", "A", "a", "uni0041"]
    cases = []
    for _ in range(n):
        init = [rng.choice(NAMES) for _ in range(rng.randint(0, 6))]
        ops = []
        for _ in range(rng.randint(1, 10)):
            k = rng.below(10)
            if k < 3: ops.append((0, [rng.choice(NAMES) for _ in range(rng.randint(0, 6))], rng.chance(50)))
            elif k < 7: ops.append((1, rng.choice(NAMES + ["zzz", "glyph99999"])))
            elif k < 9: ops.append((2, rng.randint(0, 8)))
            else: ops.append((3, rng.chance(50)))
        cases.append((init, ops))
    def enc(x):
        init, ops = x
        eo = []
        for o in ops:
            if o[0] == 0: eo.append(Raw([0] + _ser_names(o[1])))
            elif o[0] == 1: eo.append(Raw([1, len(o[1])] + [ord(c) for c in o[1]]))
            elif o[0] == 2: eo.append(Raw([2, o[1]]))
            else: eo.append(Raw([3, 1 if o[1] else 0]))
        return (Raw(_ser_names(init)), eo)
    def _ser_names(l):
        out = [len(l)]
        for s_ in l: out += [len(s_)] + [ord(c) for c in s_]
        return out
    def impl(x):
        init, ops = x
        f = TTFont(); f.setGlyphOrder(list(init))
        outs = []
        for o in ops:
            if o[0] == 0:
                if o[2]:
                    # permute/replace the font's OWN list object in place, then hand it back
                    lst = f.getGlyphOrder(); lst[:] = o[1]; f.setGlyphOrder(lst)
                else:
                    f.setGlyphOrder(list(o[1]))
                outs.append(Raw([0]))
            elif o[0] == 1:
                r = res(lambda: f.getGlyphID(o[1]))
                outs.append(Raw([1] + ([0, r.v] if isinstance(r, Ok) else [1, r.code])))
            elif o[0] == 2:
                nm = f.getGlyphName(o[1]); outs.append(Raw([2, len(nm)] + [ord(c) for c in nm]))
            else:
                outs.append(Raw([3, len(f.getReverseGlyphMap(rebuild=o[1]))]))
        return outs
    def oracle(x):
        init, ops = x
        f = TTFont(); f.setGlyphOrder(list(init)); cur = list(init)
        for o in ops:
            if o[0] == 0:
                if o[2]: lst = f.getGlyphOrder(); lst[:] = o[1]; f.setGlyphOrder(lst)
                else: f.setGlyphOrder(list(o[1]))
                cur = list(o[1])
            elif o[0] == 1:
                try: g = f.getGlyphID(o[1])
                except KeyError: g = None
                if o[1] in cur:
                    want = len(cur) - 1 - cur[::-1].index(o[1])
                    if g != want: return "getGlyphID(%r) = %r but the current glyph order %r puts it at %d" % (o[1], g, cur, want)
            elif o[0] == 3: f.getReverseGlyphMap(rebuild=o[1])
        return None
    out = [Corr("run_ops", cases, impl, enc=enc, oracle=oracle)]
    cases = []
    for _ in range(n):
        v = rng.choice([rng.randint(-3000, 3000), rng.randint(-40000, 40000), 1, -1, 0, 3, -3])
        f = rng.choice([F(2048, 1000), F(1000, 2048), F(1, 2), F(3, 2), F(2), F(1), F(1000, 1024), F(rng.randint(1, 4000), rng.randint(1, 4000))])
        cases.append((v, f))
    def impl_scale(x):
        v, f = x
        return ScalerVisitor(f).scale(v)
    out.append(Corr("scale", cases, impl_scale))
    # reorderGlyphs: ReorderCoverage.apply on one Coverage and the list parallel to it, under a new glyph order
    from fontTools.ttLib.reorderGlyphs import ReorderCoverage
    from fontTools.ttLib.tables import otTables as ot
    cases = []
    for _ in range(n):
        k = rng.randint(0, 8)
        names = list(range(k + rng.randint(0, 3))); rng.shuffle(names)             # the new glyph order (glyph i is called "g<i>")
        glyphs = rng.sample(names, min(k, len(names)))
        if glyphs and rng.chance(8): glyphs.append(rng.choice(glyphs))            # a coverage that lists a glyph twice
        r_ = rng.below(10)
        if r_ < 3: par = None
        else:
            par = [rng.randint(0, 999) for _ in glyphs]
            if r_ == 3 and par: par = par[:-1]                                       # "Nothing makes sense"
        cases.append((names, glyphs, par))
    def impl_reorder(x):
        names, glyphs, par = x
        f = TTFont(); f.setGlyphOrder(["g%d" % i for i in names])
        class V: pass
        v = V(); v.Coverage = ot.Coverage(); v.Coverage.glyphs = ["g%d" % i for i in glyphs]
        if par is not None: v.Par = list(par)
        def go():
            ReorderCoverage(parallel_list_attr="Par" if par is not None else None).apply(f, v)
            return ([int(g[1:]) for g in v.Coverage.glyphs], Opt(list(v.Par), some=True) if par is not None else Opt(None))
        return res(go)
    def oracle_reorder(x):
        """the PROPERTY on the implementation: every glyph keeps its entry, the coverage comes out in glyph-id order"""
        names, glyphs, par = x
        if par is None or len(par) != len(glyphs) or len(set(glyphs)) != len(glyphs): return None
        r = impl_reorder(x)
        if isinstance(r, Err): return "ReorderCoverage.apply raised on a well-formed coverage"
        g2, p2 = r.v
        if dict(zip(g2, p2.v)) != dict(zip(glyphs, par)): return "glyph -> entry association changed: %r -> %r" % (list(zip(glyphs, par)), list(zip(g2, p2.v)))
        if [names.index(g) for g in g2] != sorted(names.index(g) for g in g2): return "coverage is not in glyph-id order"
        return None
    out.append(Corr("reorder_coverage", cases, impl_reorder, enc=lambda x: (x[0], x[1], Opt(x[2], some=x[2] is not None)), oracle=oracle_reorder))
    return out

# ------------------------------------------------------------------ sweeps
def _fonts(rng, k):
    from fontTools.ttLib import TTFont
    cands = [p for p in corpus.binaries((".ttf", ".otf")) if os.path.getsize(p) < 400000]
    return corpus.pick(rng, cands, k)

def _glyph_geoms(data, order):
    from lib.hb import HBFont
    h = HBFont(data, order)
    return {name: (h.outline(gid), h.advance(gid)) for gid, name in enumerate(order)}

def _text_for(font, rng, k=8):
    cmap = font.getBestCmap() or {}
    cps = sorted(cmap)
    if not cps: return []
    return ["".join(chr(rng.choice(cps)) for _ in range(rng.randint(1, 6))) for _ in range(k)]

def variable_test_font(empty_glyph_varies=True):
    """a generated glyf/gvar variable font WITHOUT HVAR whose empty glyph's advance varies"""
    from fontTools.fontBuilder import FontBuilder
    from fontTools.pens.ttGlyphPen import TTGlyphPen
    from fontTools.ttLib.tables.TupleVariation import TupleVariation
    fb = FontBuilder(1000, isTTF=True)
    order = [".notdef", "space", "A", "B"]
    fb.setupGlyphOrder(order); fb.setupCharacterMap({32: "space", 65: "A", 66: "B"})
    glyphs = {}
    for n_, pts in ((".notdef", [(0, 0), (500, 0), (500, 700), (0, 700)]), ("A", [(50, 0), (450, 0), (250, 700)]), ("B", [(60, 10), (400, 10), (400, 650), (60, 650)])):
        pen = TTGlyphPen(None); pen.moveTo(pts[0])
        for p in pts[1:]: pen.lineTo(p)
        pen.closePath(); glyphs[n_] = pen.glyph()
    glyphs["space"] = TTGlyphPen(None).glyph()
    fb.setupGlyf(glyphs)
    fb.setupHorizontalMetrics({".notdef": (500, 0), "space": (250, 0), "A": (500, 50), "B": (460, 60)})
    fb.setupHorizontalHeader(ascent=800, descent=-200); fb.setupNameTable({"familyName": "V", "styleName": "R"}); fb.setupOS2(); fb.setupPost()
    fb.setupFvar([("wght", 400, 400, 900, "Weight")], [])
    var = {
        "space": [TupleVariation({"wght": (0, 1, 1)}, [(0, 0), (100, 0), (0, 0), (0, 0)])],
        "A": [TupleVariation({"wght": (0, 1, 1)}, [(0, 0), (60, 0), (30, 20), (0, 0), (60, 0), (0, 0), (0, 0)])],
        "B": [TupleVariation({"wght": (0, 1, 1)}, [(0, 0), (40, 0), (40, 10), (0, 10), (0, 0), (40, 0), (0, 0), (0, 0)])],
    }
    fb.setupGvar(var)
    return fb.font

def fractional_cff_font():
    """a CFF font whose charstrings carry non-integer operands (fractional coordinates are legal Type 2 numbers)"""
    from fontTools.fontBuilder import FontBuilder
    from fontTools.pens.t2CharStringPen import T2CharStringPen
    fb = FontBuilder(1000, isTTF=False)
    order = [".notdef", "A", "B", "C"]
    fb.setupGlyphOrder(order); fb.setupCharacterMap({65: "A", 66: "B", 67: "C"})
    cs = {}
    shapes = {".notdef": [("m", (50, 0)), ("l", (450, 0)), ("l", (450, 700)), ("l", (50, 700))],
              "A": [("m", (100.5, 20.25)), ("l", (400.5, 20.25)), ("l", (250.75, 650.5))],
              "B": [("m", (60, 10)), ("c", ((120.5, 200.25), (300.25, 400.5), (420, 610.5))), ("l", (60.5, 610.5))],
              "C": [("m", (333.5, 111.5)), ("l", (555.5, 111.5)), ("c", ((600, 300.5), (500.5, 500), (333.5, 600.75)))]}
    for g, segs in shapes.items():
        pen = T2CharStringPen(500, None, roundTolerance=0)
        for k, a in segs:
            if k == "m": pen.moveTo(a)
            elif k == "l": pen.lineTo(a)
            else: pen.curveTo(*a)
        pen.closePath(); cs[g] = pen.getCharString()
    fb.setupCFF("Frac17", {"FullName": "Frac17"}, cs, {})
    fb.setupHorizontalMetrics({g: (500, 50) for g in order})
    fb.setupHorizontalHeader(ascent=800, descent=-200); fb.setupNameTable({"familyName": "Frac17", "styleName": "R"}); fb.setupOS2(); fb.setupPost()
    return fb.font

MARK_TEXTS = ["a\u0301", "a\u0323", "i\u0301", "i\u0323", "o\u0323\u0301", "ai\u0323", "i\u0323a\u0301"]
def mark_font():
    """mark-to-base attachment with two mark classes; some base glyphs have NO anchor for the first class (a None at the head of the row)"""
    from fontTools.fontBuilder import FontBuilder
    from fontTools.feaLib.builder import addOpenTypeFeaturesFromString
    from props.C07 import _box
    order = [".notdef", "a", "i", "o", "acutecomb", "dotbelowcomb"]
    fb = FontBuilder(1000, isTTF=True); fb.setupGlyphOrder(order)
    fb.setupCharacterMap({0x61: "a", 0x69: "i", 0x6F: "o", 0x301: "acutecomb", 0x323: "dotbelowcomb"})
    adv = {"a": 520, "i": 260, "o": 540, "acutecomb": 0, "dotbelowcomb": 0, ".notdef": 500}
    fb.setupGlyf({g: _box(max(adv[g], 100)) for g in order}); fb.setupHorizontalMetrics({g: (adv[g], 20) for g in order})
    fb.setupHorizontalHeader(ascent=800, descent=-200); fb.setupNameTable({"familyName": "Marks17", "styleName": "R"}); fb.setupOS2(); fb.setupPost()
    addOpenTypeFeaturesFromString(fb.font, """
        markClass acutecomb <anchor 101 603> @TOP;
        markClass dotbelowcomb <anchor 93 -21> @BOT;
        feature mark {
            pos base a <anchor 251 507> mark @TOP <anchor 243 -33> mark @BOT;
            pos base i <anchor NULL> mark @TOP <anchor 131 -35> mark @BOT;
            pos base o <anchor 271 513> mark @TOP <anchor NULL> mark @BOT;
        } mark;
        feature kern { pos a i -37; pos i a 23; } kern;
    """)
    return fb.font

def glyph_rule_font(rng):
    """a generated font whose contextual lookups are written with single glyphs only, several rules per lookup, so that the
    builder picks the glyph-based formats (Context/ChainContext Subst/Pos format 1) whose rule sets are parallel to a Coverage"""
    from fontTools.fontBuilder import FontBuilder
    from fontTools.feaLib.builder import addOpenTypeFeaturesFromString
    from props.C07 import _box
    base = list("abcdefghij")
    alts = [g + ".x" for g in base] + [g + ".y" for g in base[:5]]
    order = [".notdef"] + base + alts
    rng.shuffle(order); order.remove(".notdef"); order.insert(0, ".notdef")
    adv = {g: 400 + 17 * i for i, g in enumerate(sorted(order))}
    L = ["lookup SX {%s} SX;" % " ".join("sub %s by %s.x;" % (g, g) for g in base),
         "lookup SY {%s} SY;" % " ".join("sub %s by %s.y;" % (g, g) for g in base[:5]),
         "lookup PA {%s} PA;" % " ".join("pos %s %d;" % (g, 10 + 7 * i) for i, g in enumerate(base)),
         "lookup PB {%s} PB;" % " ".join("pos %s <%d %d 0 0>;" % (g, 5 + i, -3 * i) for i, g in enumerate(base))]
    feats = {"calt": [], "kern": []}
    for li in range(rng.randint(2, 4)):
        pos = rng.chance(40); chain = rng.chance(70)
        firsts = rng.sample(base, rng.randint(2, 6)); rules = []
        for g in firsts:
            for _ in range(rng.randint(1, 3)):
                tgt = rng.choice(["PA", "PB"]) if pos else ("SY" if g in base[:5] and rng.chance(40) else "SX")
                inp = [g] + [rng.choice(base) for _ in range(rng.below(3))]
                marked = " ".join(x + "'" + ((" lookup " + tgt) if k == 0 else "") for k, x in enumerate(inp))
                pre = " ".join(rng.choice(base) for _ in range(rng.below(2))) if chain else ""
                suf = " ".join(rng.choice(base) for _ in range(rng.randint(0 if pre or len(inp) > 1 else 1, 2))) if chain else ""
                if not chain and len(inp) == 1: marked += " " + rng.choice(base) + "'"
                rules.append("%s %s %s %s;" % ("pos" if pos else "sub", pre, marked, suf))
        nm = "C%d" % li
        L.append("lookup %s {\n  %s\n} %s;" % (nm, "\n  ".join(dict.fromkeys(rules)), nm))
        feats["kern" if pos else "calt"].append(nm)
    for t, ls in feats.items():
        if ls: L.append("feature %s {%s} %s;" % (t, " ".join("lookup %s;" % x for x in ls), t))
    fea = "\n".join(L)
    fb = FontBuilder(1000, isTTF=True); fb.setupGlyphOrder(order); fb.setupCharacterMap({ord(c): c for c in base})
    fb.setupGlyf({g: _box(adv[g]) for g in order}); fb.setupHorizontalMetrics({g: (adv[g], 20) for g in order})
    fb.setupHorizontalHeader(ascent=800, descent=-200); fb.setupNameTable({"familyName": "Gen17", "styleName": "R"}); fb.setupOS2(); fb.setupPost()
    addOpenTypeFeaturesFromString(fb.font, fea)
    b = io.BytesIO(); fb.font.save(b)
    return b.getvalue(), order, fea

def sweeps(tier, rng):
    from fontTools.ttLib import TTFont
    from fontTools.ttLib.reorderGlyphs import reorderGlyphs
    from fontTools.ttLib.scaleUpem import scale_upem
    from lib.hb import HBFont, save_bytes
    nf = 5 if tier == "quick" else 20 if tier == "search" else 80
    def run_reorder():
        ngen = 12 if tier == "quick" else 30 if tier == "search" else 300
        def generated():
            for gi in range(ngen):
                data, order, fea = glyph_rule_font(rng)
                letters = "abcdefghij"
                texts = list(letters) + [a + b for a in letters for b in letters] + ["".join(rng.choice(letters) for _ in range(rng.randint(3, 6))) for _ in range(150)]
                yield "generated-glyph-rules-%d" % gi, data, texts
        sources = [(corpus.rel(path), path, None) for path in _fonts(rng, nf)]
        for label, path, texts in itertools.chain(sources, generated()):
            try:
                f = TTFont(path if isinstance(path, str) else io.BytesIO(path)); order = f.getGlyphOrder()
                if len(order) > 3000: continue
                data0 = save_bytes(f)
                before = _glyph_geoms(data0, order)
                if texts is None: texts = _text_for(f, rng)
                h0 = HBFont(data0, order); sh0 = [h0.shape(t) for t in texts]
                cm0 = dict(f.getBestCmap() or {})
            except Exception:
                continue
            has_names = ("CFF " in f) or ("post" in f and f["post"].formatType == 2.0)
            if not has_names: continue        # synthetic glyphNNNNN names are tied to glyph ids
            # duplicate names in 'post' are told apart by POSITION (A, A.1, A.2 in glyph order): "the glyph named A.1" is not
            # a stable notion across a reordering of such an ill-formed font
            if "post" in f and getattr(f["post"], "mapping", None): continue
            # Graphite fonts cannot be saved once loaded (known finding F8 of C01, not specific to reordering)
            if any(t in f for t in ("Silf", "Glat", "Gloc", "Feat", "Sill")): continue
            for mode in (("fresh", "inplace") if "glyf" in f else ("fresh",)):
                try:
                    f2 = TTFont(io.BytesIO(data0))
                    f2.ensureDecompiled() if hasattr(f2, "ensureDecompiled") else None
                    if mode == "inplace":
                        f2.getGlyphID(order[-1])            # the reverse map is cached
                        new = f2.getGlyphOrder(); rest = new[1:]; rng.shuffle(rest); new[1:] = rest
                    else:
                        rest = list(order[1:]); rng.shuffle(rest); new = [order[0]] + rest
                    reorderGlyphs(f2, new)
                    data1 = save_bytes(f2)
                    f3 = TTFont(io.BytesIO(data1)); order1 = f3.getGlyphOrder()
                    bad = None
                    if order1 != list(new) and "post" in f3 and f3["post"].formatType != 3.0: bad = "glyph order after reordering is not the requested one"
                    after = _glyph_geoms(data1, order1)
                    for nme in order:
                        if bad: break
                        if after.get(nme) != before[nme]: bad = "glyph %r changed outline/advance after reordering" % nme
                    if bad is None and dict(f3.getBestCmap() or {}) != cm0: bad = "character map changed after reordering"
                    if bad is None:
                        h1 = HBFont(data1, order1)
                        for t, s0 in zip(texts, sh0):
                            if h1.shape(t) != s0: bad = "text %r shapes differently after reordering: %r -> %r" % (t, s0, h1.shape(t)); break
                except Exception as e:
                    bad = None if "post" in str(e).lower() else "reorderGlyphs raised %r" % (e,)
                yield ((label, "reorder", mode), bad)
    def run_scale():
        fonts = [(corpus.rel(p), None, p) for p in _fonts(rng, nf)] + [("generated-variable-no-HVAR", variable_test_font(), None), ("generated-CFF-fractional-operands", fractional_cff_font(), None), ("generated-marks-without-class0-anchor", mark_font(), None)]
        for label, fobj, path in fonts:
            for new_upem_f in (F(2), F(1, 2), F(2048, 1000)):
                try:
                    f = fobj if fobj is not None else TTFont(path)
                    data0 = save_bytes(f)
                    f0 = TTFont(io.BytesIO(data0)); order = f0.getGlyphOrder()
                    if len(order) > 1500: break
                    upem = f0["head"].unitsPerEm; new_upem = int(upem * new_upem_f)
                    if new_upem < 16 or new_upem > 16384: continue
                    fac = F(new_upem, upem)
                    locs = [None]
                    if "fvar" in f0:
                        ax = f0["fvar"].axes
                        locs += [{a.axisTag: a.maxValue for a in ax}, {a.axisTag: (a.defaultValue + a.maxValue) / 2 for a in ax}]
                    f1 = TTFont(io.BytesIO(data0)); scale_upem(f1, new_upem); data1 = save_bytes(f1)
                    # every tuple's delta is rounded on its own after scaling: away from the default each active tuple may add half a unit
                    # (VARC components instantiate their glyphs away from the default even at the font's default location, two levels deep)
                    maxtup = max([len(v) for v in f0["gvar"].variations.values()] or [0]) if "gvar" in f0 else 0
                    varc = "VARC" in f0
                    bad = None
                    for loc in locs:
                        h0 = HBFont(data0, order, variations=loc); h1 = HBFont(data1, order, variations=loc)
                        for gid, nme in enumerate(order):
                            a0, a1 = h0.advance(gid), h1.advance(gid)
                            if abs(a1 - float(a0 * fac)) > 1.01 + (0.51 * (3 + maxtup) if (loc or varc) else 0):
                                bad = "advance of %r at %r is %r after scaling by %s (was %r)" % (nme, loc, a1, fac, a0); break
                            o0, o1 = h0.outline(gid), h1.outline(gid)
                            if len(o0) != len(o1) or any(x[0] != y[0] or len(x[1]) != len(y[1]) for x, y in zip(o0, o1)):
                                if "glyf" in f0: bad = "outline structure of %r changed" % nme; break
                                # CFF: rounding may collapse segments, which the charstring specialiser then merges; compare extents
                                def ext(o):
                                    pts = [p for _, a in o for p in a]
                                    return (min(p[0] for p in pts), min(p[1] for p in pts), max(p[0] for p in pts), max(p[1] for p in pts)) if pts else None
                                e0, e1 = ext(o0), ext(o1)
                                npts = sum(len(a) for _, a in o0)
                                if (e0 is None) != (e1 is None) or (e0 and any(abs(b - a * float(fac)) > 2.1 + 0.5 * npts for a, b in zip(e0, e1))):
                                    bad = "extent of %r: %r scaled by %s became %r" % (nme, e0, fac, e1); break
                                continue
                            # CFF stores relative coordinates: each rounded delta may add half a unit (scale_sum_budget)
                            tol = 1.01 + (0.51 * (4 + maxtup) if loc else 0) + (0.51 * 2 * (3 + maxtup) if varc else 0) + (0.5 * sum(len(a) for _, a in o0) if "CFF " in f0 or "CFF2" in f0 else 0)
                            for x, y in zip(o0, o1):
                                for p, q in zip(x[1], y[1]):
                                    if abs(q[0] - p[0] * float(fac)) > tol or abs(q[1] - p[1] * float(fac)) > tol:
                                        bad = "point of %r at %r: %r scaled by %s became %r" % (nme, loc, p, fac, q); break
                                if bad: break
                            if bad: break
                        if bad: break
                    if bad is None:
                        # font-wide metrics
                        f2 = TTFont(io.BytesIO(data1))
                        for tag, attrs in (("hhea", ("ascent", "descent", "lineGap")), ("OS/2", ("sTypoAscender", "sTypoDescender", "sxHeight", "sCapHeight")), ("post", ("underlinePosition",))):
                            if tag in f0 and tag in f2:
                                for a in attrs:
                                    if hasattr(f0[tag], a) and abs(getattr(f2[tag], a) - float(getattr(f0[tag], a) * fac)) > 0.51:
                                        bad = "%s.%s: %r -> %r (factor %s)" % (tag, a, getattr(f0[tag], a), getattr(f2[tag], a), fac)
                        if f2["head"].unitsPerEm != new_upem: bad = "unitsPerEm not updated"
                        # unrelated things stay
                        if (f2.getBestCmap() or {}) != (f0.getBestCmap() or {}): bad = "character map changed by scaling"
                    if bad is None and "fvar" not in f0:
                        # positioning: the same glyphs, every advance and offset scaled (an offset is the difference of two rounded anchors)
                        cps = sorted((f0.getBestCmap() or {}).keys())
                        texts = list(MARK_TEXTS) if label == "generated-marks-without-class0-anchor" else []
                        if cps: texts += ["".join(chr(rng.choice(cps)) for _ in range(rng.randint(2, 5))) for _ in range(6)]
                        h0 = HBFont(data0, order); h1 = HBFont(data1, order)
                        for t in texts:
                            s0 = h0.shape(t); s1 = h1.shape(t)
                            if [x[0] for x in s0] != [x[0] for x in s1]: bad = "text %r shapes to other glyphs after scaling: %r -> %r" % (t, s0, s1); break
                            for x, y in zip(s0, s1):
                                if any(abs(q - p * float(fac)) > 2.1 for p, q in zip(x[1:], y[1:])):
                                    bad = "text %r: positions %r scaled by %s became %r" % (t, x, fac, y); break
                            if bad: break
                except NotImplementedError:
                    bad = None
                except Exception as e:
                    bad = None if fobj is None else "scale_upem raised %r" % (e,)
                yield ((label, "scale", str(new_upem_f)), bad)
    return [Sweep("reorder-glyphs", run_reorder), Sweep("scale-upem", run_scale)]

def witness(fid): return None
