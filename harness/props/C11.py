"""C11 — compiled feature files do what their rules say."""
import io, os, re, glob
from lib.ser import Ok, Err, res, Raw, Opt
from lib import corpus
from vcheck import Corr, Sweep

RULE = ("asFea: all 2x3^4 shapes of value records (absent / zero / non-zero fields, horizontal and vertical); compile_format1/2/3: random "
        "chaining rules with 0-3 backtrack, 1-3 input and 0-3 lookahead positions over glyphs / partitioned classes / coverages against the "
        "arrays otlLib's ChainContextualBuilder stores; sweeps: every corpus .fea file and generated feature programs printed with asFea, "
        "re-parsed and re-printed (textual fixed point) and compiled both ways (identical tables); generated GSUB/GPOS programs compiled and "
        "shaped by HarfBuzz on every short glyph sequence against a reference interpreter that reads the rules as written.")
TRUSTED = ["uharfbuzz 0.52 as the shaper driven by the compiled tables", "the reference interpreter in this file (harness/props/C11.py) as the reading of the rule text"]
ASSUMPTIONS = ["the Coq model covers value-record printing/parsing and the compilation of one chaining rule into stored arrays; the rest of "
               "the language is checked by the sweeps", "device tables, variable scalars and lookup flags are outside the model"]

def N(tier, q, t): return q if tier == "quick" else t

GLYPHS = """
    .notdef space slash fraction semicolon period comma ampersand
    quotedblleft quotedblright quoteleft quoteright
    zero one two three four five six seven eight nine
    zero.oldstyle one.oldstyle two.oldstyle three.oldstyle
    four.oldstyle five.oldstyle six.oldstyle seven.oldstyle
    eight.oldstyle nine.oldstyle onequarter onehalf threequarters
    onesuperior twosuperior threesuperior ordfeminine ordmasculine
    A B C D E F G H I J K L M N O P Q R S T U V W X Y Z
    a b c d e f g h i j k l m n o p q r s t u v w x y z
    A.sc B.sc C.sc D.sc E.sc F.sc G.sc H.sc I.sc J.sc K.sc L.sc M.sc
    N.sc O.sc P.sc Q.sc R.sc S.sc T.sc U.sc V.sc W.sc X.sc Y.sc Z.sc
    A.alt1 A.alt2 A.alt3 B.alt1 B.alt2 B.alt3 C.alt1 C.alt2 C.alt3
    a.alt1 a.alt2 a.alt3 a.end b.alt c.mid d.alt d.mid
    e.begin e.mid e.end m.begin n.end s.end z.end
    Eng Eng.alt1 Eng.alt2 Eng.alt3
    A.swash B.swash C.swash D.swash E.swash F.swash G.swash H.swash
    I.swash J.swash K.swash L.swash M.swash N.swash O.swash P.swash
    Q.swash R.swash S.swash T.swash U.swash V.swash W.swash X.swash
    Y.swash Z.swash
    f_l c_h c_k c_s c_t f_f f_f_i f_f_l f_i o_f_f_i s_t f_i.begin
    a_n_d T_h T_h.swash germandbls ydieresis yacute breve
    grave acute dieresis macron circumflex cedilla umlaut ogonek caron
    damma hamza sukun kasratan lam_meem_jeem noon.final noon.initial
    by feature lookup sub table uni0327 uni0328 e.fina
    idotbelow idotless iogonek acutecomb brevecomb ogonekcomb dotbelowcomb
""".split() + ["cid%05d" % c for c in range(800, 1002)]

def bare_font(order=None):
    from fontTools.ttLib import TTFont
    f = TTFont(); f.setGlyphOrder(list(order or GLYPHS)); return f

# ------------------------------------------------------------------ correspondences
def correspondences(tier, rng):
    from fontTools.feaLib import ast
    from fontTools.otlLib import builder as B
    out = []
    # --- value records
    vals = [None, 0, 25, -7]
    cases = []
    for vert in (False, True):
        for a in vals:
            for b in vals:
                for c in vals:
                    for d in vals: cases.append((vert, ((a, b), (c, d))))
    def impl_asfea(x):
        vert, ((a, b), (c, d)) = x
        t = ast.ValueRecord(a, b, c, d, vertical=vert).asFea()
        toks = []
        for w in re.findall(r"<|>|NULL|-?\d+", t):
            if w == "<": toks.append(1)
            elif w == ">": toks.append(2)
            elif w == "NULL": toks.append(3)
            else: toks += [0, int(w)]
        return toks
    enc_v = lambda x: (x[0], tuple(tuple(Opt(v, some=v is not None) for v in pair) for pair in x[1]))
    def oracle_asfea(x):
        """the printed text, parsed back in the same context, means the same adjustments"""
        from fontTools.feaLib.parser import Parser
        vert, ((a, b), (c, d)) = x
        vr = ast.ValueRecord(a, b, c, d, vertical=vert)
        if not vr: return None
        tag = "vkrn" if vert else "kern"
        doc = Parser(io.StringIO("feature %s { pos A %s; } %s;" % (tag, vr.asFea(), tag)), glyphNames=["A"]).parse()
        st = doc.statements[0].statements[0]
        got = st.pos[0][1]
        m = lambda v: (v.xPlacement or 0, v.yPlacement or 0, v.xAdvance or 0, v.yAdvance or 0)
        if m(got) != m(vr): return "printed %r parses back as %r, was %r" % (vr.asFea(), m(got), m(vr))
        return None
    out.append(Corr("asFea", cases, impl_asfea, enc=enc_v, oracle=oracle_asfea))
    # --- chaining rules
    n = N(tier, 300, 5000)
    names = ["g%d" % i for i in range(12)]
    font = bare_font([".notdef"] + names)
    gi = lambda nme: int(nme[1:])
    def mk_builder():
        b = B.ChainContextSubstBuilder(font, None); return b
    # format 1
    c1 = []
    for _ in range(n):
        c1.append(([rng.randint(0, 11) for _ in range(rng.randint(0, 3))], [rng.randint(0, 11) for _ in range(rng.randint(1, 3))],
                   [rng.randint(0, 11) for _ in range(rng.randint(0, 3))]))
    def impl_f1(x):
        p, i, s = x
        b = mk_builder(); b.rules.append(B.ChainContextualRule([[names[g]] for g in p], [[names[g]] for g in i], [[names[g]] for g in s], [None] * len(i)))
        st = b.buildFormat1Subtable(b.rulesets()[0], chaining=True)
        r = st.ChainSubRuleSet[0].ChainSubRule[0]
        return ([gi(g) for g in r.Backtrack], [gi(g) for g in r.Input], [gi(g) for g in r.LookAhead])
    out.append(Corr("compile_format1", c1, impl_f1))
    # format 3
    c3 = []
    sets = lambda: sorted(set(rng.randint(0, 11) for _ in range(rng.randint(1, 3))))
    for _ in range(n):
        c3.append(([sets() for _ in range(rng.randint(0, 3))], [sets() for _ in range(rng.randint(1, 3))], [sets() for _ in range(rng.randint(0, 3))]))
    def impl_f3(x):
        p, i, s = x
        b = mk_builder()
        rule = B.ChainContextualRule([[names[g] for g in e] for e in p], [[names[g] for g in e] for e in i], [[names[g] for g in e] for e in s], [None] * len(i))
        st = b.buildFormat3Subtable(rule, chaining=True)
        cov = lambda cs: [sorted(gi(g) for g in c.glyphs) for c in cs]
        return (cov(st.BacktrackCoverage), cov(st.InputCoverage), cov(st.LookAheadCoverage))
    out.append(Corr("compile_format3", c3, impl_f3))
    # format 2: rulesets over a partition of the glyphs into classes; every rule of the ruleset is one case
    c2 = []
    built = {}
    for k in range(n // 3):
        ncls = rng.randint(2, 5)
        part = [[] for _ in range(ncls)]
        for g in range(12): part[rng.below(ncls)].append(g)
        part = [c for c in part if c]
        rules = []
        for _ in range(rng.randint(1, 6)):
            rules.append(([rng.choice(part) for _ in range(rng.randint(0, 3))], [rng.choice(part) for _ in range(rng.randint(1, 3))],
                          [rng.choice(part) for _ in range(rng.randint(0, 3))]))
        b = mk_builder()
        for p, i, s in rules:
            b.rules.append(B.ChainContextualRule([[names[g] for g in e] for e in p], [[names[g] for g in e] for e in i], [[names[g] for g in e] for e in s], [None] * len(i)))
        rs = b.rulesets()[0]
        cds = rs.format2ClassDefs()
        if not cds: continue
        st = b.buildFormat2Subtable(rs, cds, chaining=True)
        cd = lambda c: sorted((gi(g), v) for g, v in c.classDefs.items())
        bcd, icd, lcd = cd(st.BacktrackClassDef), cd(st.InputClassDef), cd(st.LookAheadClassDef)
        # compiled rules come grouped by the class of the first input glyph, in rule order inside a group
        queues = {ci: list(cs.ChainSubClassRule) if cs else [] for ci, cs in enumerate(st.ChainSubClassSet)}
        for (p, i, s) in rules:
            first_cls = dict(icd).get(i[0][0], 0)
            r = queues[first_cls].pop(0)
            key = len(c2)
            built[key] = (list(r.Backtrack), list(r.Input), list(r.LookAhead))
            c2.append((key, ((bcd, icd), lcd), p, i, s))
    def impl_f2(x): return built[x[0]]
    out.append(Corr("compile_format2", c2, impl_f2, enc=lambda x: x[1:]))
    # --- ligature rules -> LigatureSubst (longest first, file order among equal lengths), through the builder feaLib uses and through
    #     a whole feature file
    GL = lambda i: "g%d" % i
    def gen_rules():
        m = {}
        for _ in range(rng.randint(1, 9)):
            k = rng.choice([2, 2, 3, 3, 4, 1])
            comps = tuple(rng.randint(0, 5) for _ in range(k))
            if rng.chance(40) and m:                          # prefixes / extensions of an earlier rule
                base = rng.choice(list(m)); comps = (base[:rng.randint(1, len(base))] + tuple(rng.randint(0, 5) for _ in range(rng.randint(0, 2))))[:4]
            m[comps] = rng.randint(6, 11)
        return list(m.items())
    c4 = [gen_rules() for _ in range(N(tier, 600, 8000))]
    def groups(st):
        return sorted((int(f[1:]), [([int(c[1:]) for c in L.Component], int(L.LigGlyph[1:])) for L in ligs]) for f, ligs in st.ligatures.items())
    def impl_build_lig(x):
        def go():
            st = B.buildLigatureSubstSubtable({tuple(GL(c) for c in comps): GL(lg) for comps, lg in x})
            return groups(st)
        return res(go)
    def oracle_build_lig(x):
        """the same rules written as a feature file and compiled by feaLib give the same subtable"""
        from fontTools.feaLib.builder import addOpenTypeFeaturesFromString
        from fontTools.ttLib import TTFont
        rules = [(comps, lg) for comps, lg in x if len(comps) >= 2]
        if not rules: return None
        f = TTFont(); f.setGlyphOrder([".notdef"] + [GL(i) for i in range(12)])
        fea = "feature liga {\n" + "".join("  sub %s by %s;\n" % (" ".join(GL(c) for c in comps), GL(lg)) for comps, lg in rules) + "} liga;\n"
        try:
            addOpenTypeFeaturesFromString(f, fea)
            st = f["GSUB"].table.LookupList.Lookup[0].SubTable[0]
        except Exception as e:
            return "feaLib raised %r on %r" % (e, fea)
        want = groups(B.buildLigatureSubstSubtable({tuple(GL(c) for c in comps): GL(lg) for comps, lg in rules}))
        return None if groups(st) == want else "feature file %r compiles to %r, the builder gives %r" % (fea, groups(st), want)
    out.append(Corr("build_lig", c4, impl_build_lig, enc=lambda x: ([(list(c), lg) for c, lg in x],), oracle=oracle_build_lig,
                    compare=lambda x, i_, m_: list(i_[1:]) == list(m_) if i_ and i_[0] == 0 else False))
    return out

# ------------------------------------------------------------------ textual fixed point and identical compilation
TABLES = ("GSUB", "GPOS", "GDEF", "BASE", "head", "hhea", "vhea", "name", "OS/2", "STAT")

def compile_fea(text, path=None, order=None):
    """-> {table tag: XML text} for the layout tables feaLib builds"""
    from fontTools.feaLib.builder import Builder
    from fontTools.feaLib.parser import Parser
    font = bare_font(order)
    if path:
        Builder(font, path).build()
    else:
        Builder(font, io.StringIO(text)).build()
    out = {}
    for t in font.keys():
        if t == "GlyphOrder": continue
        from fontTools.misc.xmlWriter import XMLWriter
        b = io.StringIO(); w = XMLWriter(b); font[t].toXML(w, font); w.close()
        out[t] = b.getvalue()
    return out

def fixed_point(text, path=None, order=None):
    """None or a description of how asFea fails to be a fixed point / to compile identically"""
    from fontTools.feaLib.parser import Parser
    names = list(order or GLYPHS)
    src = path if path else io.StringIO(text)
    doc = Parser(src, glyphNames=names).parse()
    t1 = doc.asFea()
    try:
        doc2 = Parser(io.StringIO(t1), glyphNames=names).parse()
    except Exception as e:
        return "the printed text does not parse: %r\n%s" % (e, t1[:1500])
    t2 = doc2.asFea()
    if t1 != t2:
        import difflib
        return "printing is not a fixed point:\n" + "\n".join(list(difflib.unified_diff(t1.split("\n"), t2.split("\n"), lineterm="", n=1))[:30])
    try:
        a = compile_fea(text, path, order)
    except Exception:
        return None                       # a file feaLib itself rejects (the corpus has such files on purpose) makes no claim
    try:
        b = compile_fea(t1, None, order)
    except Exception as e:
        return "the printed text does not compile although the original does: %r\n%s" % (e, t1[:1500])
    for t in sorted(set(a) | set(b)):
        if a.get(t) != b.get(t):
            import difflib
            d = list(difflib.unified_diff((a.get(t) or "").split("\n"), (b.get(t) or "").split("\n"), lineterm="", n=2))[:40]
            return "table %s compiled from the printed text differs:\n%s\n--- printed text:\n%s" % (t, "\n".join(d), t1[:1200])
    return None

def gen_value_program(rng, expand=False, state=None):
    """positioning programs exercising anonymous and named value records (formats A, B and C with device tables) in horizontal and
    vertical features. Returns (text with named references, the same text with every reference replaced by its definition)."""
    g = ["A", "B", "C", "D", "a", "b", "c"]
    head = ["languagesystem DFLT dflt;"]; defs = {}
    def dev():
        if rng.chance(60): return "<device NULL>"
        return "<device %s>" % ", ".join("%d %d" % (sz, rng.randint(-3, 3)) for sz in sorted(rng.sample(range(8, 20), rng.randint(1, 3))))
    for i in range(rng.randint(0, 3)):
        k = rng.below(4)
        nm = "VR%d" % i
        if k == 0: body = "%d" % rng.randint(-50, 50)
        elif k == 1: body = "<%d %d %d %d>" % (rng.randint(-9, 9), rng.randint(-9, 9), rng.randint(-50, 50), rng.randint(-50, 50))
        elif k == 2: body = "<0 0 %d 0>" % rng.randint(-50, 50)
        else: body = "<%d %d %d %d %s %s %s %s>" % (rng.randint(-9, 9), rng.randint(-9, 9), rng.randint(-50, 50), rng.randint(-50, 50), dev(), dev(), dev(), "<device 11 1>")
        head.append("valueRecordDef %s %s;" % (body, nm)); defs[nm] = body
    named_feats = []; expanded_feats = []
    def vr():
        k = rng.below(5)
        if k == 0 and defs:
            nm = rng.choice(sorted(defs))
            # a format A definition is an advance in the writing direction OF ITS DEFINITION (top level: horizontal)
            d = defs[nm]
            return "<%s>" % nm, (d if d.startswith("<") else "<0 0 %s 0>" % d)
        if k == 1: t = str(rng.randint(-60, 60))
        elif k == 2: t = "<%d %d %d %d>" % (rng.randint(-9, 9), rng.randint(-9, 9), rng.randint(-50, 50), rng.randint(-50, 50))
        elif k == 3: t = "<%d 0 %d 0 %s <device NULL> %s <device NULL>>" % (rng.randint(-9, 9), rng.randint(-50, 50), dev(), "<device 12 -1>")
        else: t = "<0 0 %d 0>" % rng.randint(-50, 50) if rng.chance(50) else "<0 0 0 %d>" % rng.randint(-50, 50)
        return t, t
    for tag in rng.sample(["kern", "vkrn", "vpal", "palt", "dist", "valt", "vhal"], rng.randint(1, 4)):
        singles = []; pairs = []
        seen1 = set(); seen2 = set()
        for _ in range(rng.randint(1, 4)):
            if rng.chance(50):
                a = rng.choice(g)
                if a in seen1: continue
                seen1.add(a); v = vr(); singles.append(("pos %s %s;" % (a, v[0]), "pos %s %s;" % (a, v[1])))
            else:
                a, b = rng.choice(g), rng.choice(g)
                if (a, b) in seen2: continue
                seen2.add((a, b)); v = vr(); w = vr()
                if rng.chance(60): pairs.append(("pos %s %s %s;" % (a, b, v[0]), "pos %s %s %s;" % (a, b, v[1])))
                else: pairs.append(("pos %s %s %s %s;" % (a, v[0], b, w[0]), "pos %s %s %s %s;" % (a, v[1], b, w[1])))
        for which, store in ((0, named_feats), (1, expanded_feats)):
            blk = ""
            if singles: blk += "  lookup %s_s {\n    %s\n  } %s_s;\n" % (tag, "\n    ".join(x[which] for x in singles), tag)
            if pairs: blk += "  lookup %s_p {\n    %s\n  } %s_p;\n" % (tag, "\n    ".join(x[which] for x in pairs), tag)
            store.append("feature %s {\n%s} %s;" % (tag, blk, tag))
    return "\n".join(head + named_feats) + "\n", "\n".join(head + expanded_feats) + "\n"

def gen_class_program(rng):
    """glyph-class syntax: named classes, bracketed classes mixing plain names, ranges and @references in every order (names before a
    reference, after it, between two), nested definitions — used by single substitutions, single and pair positioning"""
    low = list("abcdefgh"); up = list("ABCDEFGH")
    lines = ["languagesystem DFLT dflt;"]
    named = {}                                     # name -> lower-case glyph list
    def expr(pool_names, want=None):
        """a bracketed class over lower-case glyphs: (text, glyph list); items in random order of kinds"""
        items = []; glyphs = []
        for _ in range(rng.randint(1, 4)):
            k = rng.below(4)
            if k == 0 and pool_names:
                nm = rng.choice(pool_names); items.append("@" + nm); glyphs += named[nm]
            elif k == 1:
                i = rng.randint(0, 5); j = rng.randint(i + 1, min(7, i + 3)); items.append("%s-%s" % (low[i], low[j])); glyphs += low[i:j + 1]
            else:
                g = rng.choice(low); items.append(g); glyphs.append(g)
        return "[" + " ".join(items) + "]", glyphs
    for i in range(rng.randint(1, 3)):
        t, gl = expr(sorted(named))
        nm = "K%d" % i; named[nm] = gl; lines.append("@%s = %s;" % (nm, t))
    def upper(t): return "".join(c.upper() if c.isalpha() and c not in "K" else c for c in t)
    for nm in sorted(named): lines.append("@%sU = %s;" % (nm, "[" + " ".join(g.upper() for g in named[nm]) + "]"))
    feats = []
    for tag in rng.sample(["ss01", "ss02", "kern", "dist", "palt"], rng.randint(2, 4)):
        body = []
        if tag.startswith("ss"):
            t, gl = expr(sorted(named))
            if len(set(gl)) == len(gl):
                # the replacement class: the same expression over the upper-case twins
                t2 = t
                for nm in sorted(named, reverse=True): t2 = t2.replace("@" + nm, "@@" + nm)
                t2 = "".join(c.upper() if c in "abcdefgh" else c for c in t2)
                for nm in sorted(named, reverse=True): t2 = t2.replace("@@" + nm.upper(), "@" + nm + "U").replace("@@" + nm, "@" + nm + "U")
                body.append("sub %s by %s;" % (t, t2))
            else:
                body.append("sub %s by %s;" % (gl[0], gl[0].upper()))
        elif tag == "kern":
            for _ in range(rng.randint(1, 3)):
                t1, _g1 = expr(sorted(named)); t2, _g2 = expr(sorted(named))
                body.append("pos %s %s %d;" % (t1, t2, rng.randint(-80, -1)))
        else:
            seen = set()
            for _ in range(rng.randint(1, 2)):
                t, gl = expr(sorted(named))
                if seen & set(gl): continue
                seen |= set(gl); body.append("pos %s %d;" % (t, rng.randint(-40, 40) or 7))
        if body: feats.append("feature %s {\n  %s\n} %s;" % (tag, "\n  ".join(body), tag))
    return "\n".join(lines + feats) + "\n", [".notdef", "space"] + low + up

def named_equals_expanded(named, expanded):
    """a reference <NAME> means what its definition says: both texts compile to the same tables"""
    try: a = compile_fea(named)
    except Exception: return None
    try: b = compile_fea(expanded)
    except Exception as e: return "the expanded text does not compile: %r" % (e,)
    for t in sorted(set(a) | set(b)):
        if a.get(t) != b.get(t):
            import difflib
            d = list(difflib.unified_diff((a.get(t) or "").split("\n"), (b.get(t) or "").split("\n"), lineterm="", n=2))[:30]
            return "table %s: named references (-) and their written-out definitions (+) compile differently:\n%s\n--- named:\n%s" % (t, "\n".join(d), named[:1200])
    return None

def sweeps(tier, rng):
    def run_corpus_fea():
        files = sorted(glob.glob("/repo/Tests/feaLib/data/*.fea")) + sorted(glob.glob("/repo/Tests/**/*.fea", recursive=True))
        files = list(dict.fromkeys(files))
        if tier == "quick": files = corpus.pick(rng, files, 70)
        for p in files:
            try:
                bad = fixed_point(None, path=p)
            except Exception as e:
                bad = None                # the original does not parse (error-case fixtures, missing includes, other glyph sets)
            yield ((corpus.rel(p),), bad)
    def run_generated_fixed_point():
        from props.C07 import gen_feature_program
        n = 240 if tier == "quick" else 500 if tier == "search" else 6000
        for i in range(n):
            if i % 4 == 3:
                text, order = gen_class_program(rng)
            elif i % 3 == 2:
                P2 = gen_program2(rng); text = to_fea2(P2); order = [".notdef"] + P2["base"] + MARKS + P2["extra"]
            elif i % 2:
                text, expanded = gen_value_program(rng); order = None
                bad = named_equals_expanded(text, expanded)
                if bad:
                    yield (("generated-named", i, text), bad); continue
            else:
                base, extra, text, tags = gen_feature_program(rng); order = [".notdef", "space"] + base + extra
            try:
                bad = fixed_point(text, order=order)
            except Exception as e:
                from fontTools.feaLib.error import FeatureLibError
                bad = None if isinstance(e, FeatureLibError) else "harness: %r" % (e,)
            yield (("generated", i, text if bad else ""), bad)
    return [Sweep("corpus-fea-fixed-point", run_corpus_fea), Sweep("generated-fixed-point", run_generated_fixed_point)]

def witness(fid): return None

# ------------------------------------------------------------------ reference interpreter of the rule text
# A program is an ordered list of lookups; a lookup is (name, kind, rules); features list the lookups they apply, in order.
#   single:    [(glyph, glyph)]                     multiple: [(glyph, [glyphs])]         alternate: [(glyph, [alternates])]
#   ligature:  [([components], ligature)]
#   chain:     [(prefix sets, [(input set, lookup name | None)], suffix sets)]            a rule without any lookup is an `ignore`
#   pos1:      [(glyph, (xPla, yPla, xAdv))]
#   pos2:      [((glyph | class list), (glyph | class list), xAdv)]                        class rules after glyph rules
#   chainpos:  like chain, calling pos1 lookups
BASE = list("abcdefg")

class Prog:
    def __init__(self): self.lookups = []; self.features = []; self.extra = []

def gen_program(rng):
    P = Prog()
    base = BASE[:rng.randint(4, 7)]
    P.base = base
    def new(n):
        if n not in P.extra and n not in base: P.extra.append(n)
        return n
    pool = lambda: base + P.extra
    subs = []
    for i in range(rng.randint(2, 5)):
        kind = rng.choice(["single", "single", "multiple", "ligature", "ligature", "alternate"])
        nm = "S%d" % i; rules = []
        if kind == "single":
            suf = rng.choice([".x", ".y"])
            for g in rng.sample(pool(), min(len(pool()), rng.randint(1, 3))):
                if not g.endswith(suf): rules.append((g, new(g + suf)))
        elif kind == "multiple":
            for g in rng.sample(pool(), rng.randint(1, 2)): rules.append((g, [rng.choice(pool()), new(g + ".m")]))
        elif kind == "ligature":
            seen = set()
            for _ in range(rng.randint(1, 4)):
                comps = tuple(rng.choice(pool()) for _ in range(rng.randint(2, 3)))
                if comps in seen: continue
                seen.add(comps); rules.append((list(comps), new("_".join(c.replace(".", "") for c in comps) + ".l")))
        else:
            g = rng.choice(base); rules.append((g, [new(g + ".a1"), new(g + ".a2")]))
        if rules: P.lookups.append((nm, kind, rules)); subs.append((nm, kind, rules))
    sets = lambda: sorted(set(rng.choice(base if rng.chance(65) else pool()) for _ in range(rng.randint(1, 3))))
    nctx = rng.randint(0, 3)
    for i in range(nctx):
        if not subs: break
        rules = []
        for _ in range(rng.randint(1, 4)):
            tgt = rng.choice(subs)
            pre = [sets() for _ in range(rng.randint(0, 2))]; suf = [sets() for _ in range(rng.randint(0, 2))]
            if rng.chance(15):
                rules.append((pre, [(sets(), None)], suf)); continue                     # ignore sub
            if tgt[1] == "ligature":
                comps = rng.choice(tgt[2])[0]
                inp = [([comps[0]], tgt[0])] + [([c], None) for c in comps[1:]]
            else:
                g = rng.choice(tgt[2])[0]
                inp = [([g] if rng.chance(60) else sorted(set([g, rng.choice(pool())])), tgt[0])]
                if rng.chance(30): inp.append((sets(), None))
                if rng.chance(20) and len(subs) > 1:
                    t2 = rng.choice([s for s in subs if s[1] in ("single",)] or [tgt])
                    if t2[1] == "single": inp.append(([rng.choice(t2[2])[0]], t2[0]))
            rules.append((pre, inp, suf))
        P.lookups.append(("C%d" % i, "chain", rules))
    if rng.chance(35) and len(base) >= 5:
        # motif: many rules over ONE partition of the letters into classes, with two-glyph contexts: the shape for which a
        # class-based (format 2) subtable is the smallest encoding
        letters = list(base); rng.shuffle(letters)
        k = rng.randint(2, 3); part = [sorted(letters[j::k]) for j in range(k)]
        tgt_g = part[0][0]
        P.lookups.append(("SM", "single", [(g, new(g + ".k")) for g in part[0]])); subs.append(P.lookups[-1])
        rules = []; seen = set()
        for _ in range(rng.randint(6, 9)):
            pre = [rng.choice(part) for _ in range(rng.randint(1, 3))]; suf = [rng.choice(part) for _ in range(rng.randint(0, 2))]
            key = (tuple(map(tuple, pre)), tuple(map(tuple, suf)))
            if key in seen: continue
            seen.add(key); rules.append((pre, [(part[0], "SM")], suf))
        P.lookups.append(("CM", "chain", rules))
    # which lookups are applied directly
    called = {l for _, k, rs in P.lookups if k == "chain" for (_, inp, _) in rs for (_, l) in inp if l}
    tags = ["ccmp", "liga", "calt", "rlig", "clig"]
    feats = {}
    order = [l for l in P.lookups]
    rng.shuffle(order)                                     # the order in which lookups are WRITTEN decides the order they apply in
    # context lookups must be written after the lookups they call
    names_pos = {l[0]: i for i, l in enumerate(order)}
    order.sort(key=lambda l: (1 if l[1] == "chain" else 0, names_pos[l[0]]))
    if rng.chance(50):
        # interleave: move some contexts earlier if everything they call is already written
        for l in [x for x in order if x[1] == "chain"]:
            calls = {c for (_, inp, _) in l[2] for (_, c) in inp if c}
            idx = max([order.index(next(o for o in order if o[0] == c)) for c in calls] + [-1]) + 1
            order.remove(l); order.insert(min(len(order), idx + rng.randint(0, 2)), l)
    P.lookups = order
    for nm, kind, rules in P.lookups:
        if nm in called and rng.chance(70): continue
        tag = rng.choice(["ss01"]) if kind == "alternate" and rng.chance(50) else rng.choice(tags)
        feats.setdefault(tag, []).append(nm)
    # positioning
    allg = pool()
    npos = rng.randint(0, 3)
    poss = []
    for i in range(npos):
        kind = rng.choice(["pos1", "pos2", "pos2"])
        nm = "P%d" % i; rules = []
        if kind == "pos1":
            for g in rng.sample(allg, min(len(allg), rng.randint(1, 3))):
                rules.append((g, (rng.randint(-30, 30) if rng.chance(50) else 0, rng.randint(-30, 30) if rng.chance(30) else 0, rng.randint(-60, 60))))
        else:
            seen = set()
            for _ in range(rng.randint(1, 4)):
                a, b = rng.choice(allg), rng.choice(allg)
                if (a, b) in seen: continue
                seen.add((a, b)); rules.append((a, b, rng.randint(-90, 90)))
            if rng.chance(50) and len(allg) >= 4:
                L = sorted(set(rng.sample(allg, 2))); R = sorted(set(rng.sample(allg, 2)))
                rules.append((L, R, rng.randint(-60, 60)))
        P.lookups.append((nm, kind, rules)); poss.append((nm, kind, rules))
    p1 = [p for p in poss if p[1] == "pos1"]
    if p1 and rng.chance(50):
        rules = []
        for _ in range(rng.randint(1, 3)):
            tgt = rng.choice(p1); g = rng.choice(tgt[2])[0]
            rules.append(([sets() for _ in range(rng.randint(0, 2))], [([g], tgt[0])], [sets() for _ in range(rng.randint(0, 1))]))
        P.lookups.append(("CP0", "chainpos", rules))
        if rng.chance(70): called = called | {r[1][0][1] for r in rules}
    for nm, kind, rules in P.lookups:
        if kind in ("pos1", "pos2", "chainpos"):
            if nm in called and rng.chance(70): continue
            feats.setdefault(rng.choice(["kern", "dist"]), []).append(nm)
    P.features = list(feats.items())
    return P

def to_fea(P):
    cls = lambda s: s[0] if len(s) == 1 else "[%s]" % " ".join(s)
    out = ["languagesystem DFLT dflt;"]
    for nm, kind, rules in P.lookups:
        ls = []
        for r in rules:
            if kind == "single": ls.append("sub %s by %s;" % r)
            elif kind == "multiple": ls.append("sub %s by %s;" % (r[0], " ".join(r[1])))
            elif kind == "alternate": ls.append("sub %s from [%s];" % (r[0], " ".join(r[1])))
            elif kind == "ligature": ls.append("sub %s by %s;" % (" ".join(r[0]), r[1]))
            elif kind in ("chain", "chainpos"):
                kw = "sub" if kind == "chain" else "pos"
                pre, inp, suf = r
                body = " ".join([cls(s) for s in pre] + [cls(s) + "'" + (" lookup %s" % l if l else "") for s, l in inp] + [cls(s) for s in suf])
                ls.append(("ignore %s %s;" if not any(l for _, l in inp) else "%s %s;") % (kw, body))
            elif kind == "pos1": ls.append("pos %s <%d %d %d 0>;" % (r[0], r[1][0], r[1][1], r[1][2]))
            elif kind == "pos2":
                a = r[0] if isinstance(r[0], str) else "[%s]" % " ".join(r[0]); b = r[1] if isinstance(r[1], str) else "[%s]" % " ".join(r[1])
                ls.append("pos %s %s %d;" % (a, b, r[2]))
        out.append("lookup %s {\n  %s\n} %s;" % (nm, "\n  ".join(ls), nm))
    for tag, ls in P.features:
        out.append("feature %s {\n  %s\n} %s;" % (tag, "\n  ".join("lookup %s;" % l for l in ls), tag))
    return "\n".join(out) + "\n"

def interpret(P, glyphs, adv, features_on):
    """apply the program as written to a glyph-name sequence; returns [(name, x_advance, x_offset, y_offset)]"""
    table = {nm: (kind, rules) for nm, kind, rules in P.lookups}
    index = {nm: i for i, (nm, _, _) in enumerate(P.lookups)}
    buf = [[g, 0, 0, 0] for g in glyphs]           # name, xAdv adjustment, xPla, yPla
    def match_sets(sets, seq):
        return len(seq) >= len(sets) and all(g[0] in s for s, g in zip(sets, seq))
    def apply_at(nm, i):
        """one application attempt at position i; returns the index after what was consumed, or None if nothing matched"""
        kind, rules = table[nm]
        g = buf[i][0]
        if kind == "single":
            for a, b in rules:
                if a == g: buf[i][0] = b; return i + 1
        elif kind == "multiple":
            for a, seq in rules:
                if a == g:
                    buf[i:i + 1] = [[s, 0, 0, 0] for s in seq]; return i + len(seq)
        elif kind == "alternate":
            for a, alts in rules:
                if a == g: buf[i][0] = alts[0]; return i + 1
        elif kind == "ligature":
            for comps, lig in sorted(rules, key=lambda r: -len(r[0])):
                if [x[0] for x in buf[i:i + len(comps)]] == comps:
                    buf[i:i + len(comps)] = [[lig, 0, 0, 0]]; return i + 1
        elif kind in ("chain", "chainpos"):
            for pre, inp, suf in rules:
                n = len(inp)
                if i < len(pre) or not match_sets(pre, buf[i - len(pre):i]): continue
                if not match_sets([s for s, _ in inp], buf[i:i + n]) or len(buf[i:i + n]) < n: continue
                if not match_sets(suf, buf[i + n:i + n + len(suf)]) or len(buf[i + n:]) < len(suf): continue
                # OpenType: a sequence index counts glyphs of the matched sequence AS IT IS when the record is applied, i.e. after
                # the earlier records of the same rule have inserted or merged glyphs
                count = n
                for k, (_, l) in enumerate(inp):
                    if not l or k >= count: continue
                    before = len(buf)
                    apply_at(l, i + k)
                    count = max(k + 1, count + len(buf) - before)
                return max(i + count, i + 1)
        elif kind == "pos1":
            for a, (xp, yp, xa) in rules:
                if a == g:
                    buf[i][1] += xa; buf[i][2] += xp; buf[i][3] += yp; return i + 1
        elif kind == "pos2":
            if i + 1 >= len(buf): return None
            h = buf[i + 1][0]
            for a, b, v in rules:
                if isinstance(a, str) and a == g and b == h:
                    buf[i][1] += v; return i + 1
            for a, b, v in rules:
                if not isinstance(a, str):
                    # one class-based subtable: once the first glyph is in its coverage the pair is decided there
                    if g in a:
                        if h in b: buf[i][1] += v
                        return i + 1
        return None
    active = []
    for tag, ls in P.features:
        if tag in features_on: active += ls
    for stage in ("sub", "pos"):
        for nm in sorted(set(active), key=lambda n: index[n]):
            kind = table[nm][0]
            if (kind in ("pos1", "pos2", "chainpos")) != (stage == "pos"): continue
            i = 0
            while i < len(buf):
                r = apply_at(nm, i)
                i = r if r is not None else i + 1
    return [(g, adv[g] + xa, xp, yp) for g, xa, xp, yp in buf]

def build_program_font(P):
    from fontTools.fontBuilder import FontBuilder
    from fontTools.feaLib.builder import addOpenTypeFeaturesFromString
    from props.C07 import _box
    order = [".notdef"] + P.base + P.extra
    adv = {g: 400 + 17 * i for i, g in enumerate(order)}
    fb = FontBuilder(1000, isTTF=True); fb.setupGlyphOrder(order); fb.setupCharacterMap({ord(c): c for c in P.base})
    fb.setupGlyf({g: _box(adv[g]) for g in order}); fb.setupHorizontalMetrics({g: (adv[g], 20) for g in order})
    fb.setupHorizontalHeader(ascent=800, descent=-200); fb.setupNameTable({"familyName": "Gen11", "styleName": "R"}); fb.setupOS2(); fb.setupPost()
    addOpenTypeFeaturesFromString(fb.font, to_fea(P))
    b = io.BytesIO(); fb.font.save(b)
    return b.getvalue(), order, adv

def _interp_sweep(tier, rng):
    from lib.hb import HBFont
    from fontTools.feaLib.error import FeatureLibError
    n = 250 if tier == "quick" else 500 if tier == "search" else 6000
    for i in range(n):
        P = gen_program(rng)
        fea = to_fea(P)
        try:
            data, order, adv = build_program_font(P)
        except FeatureLibError as e:
            yield (("program", i, "rejected"), None); continue
        except Exception as e:
            yield (("program", i), "generator/compile failed: %r\n%s" % (e, fea)); continue
        h = HBFont(data, order)
        texts = []
        letters = P.base
        for a in letters:
            texts.append(a)
            for b in letters:
                texts.append(a + b)
        for _ in range(120): texts.append("".join(rng.choice(letters) for _ in range(rng.randint(3, 6))))
        on_default = {"ccmp", "liga", "calt", "rlig", "clig", "kern", "dist"}
        bad = None
        for feats, on in (({}, on_default), ({"ss01": True}, on_default | {"ss01"})):
            if feats and not any(t == "ss01" for t, _ in P.features): continue
            for t in dict.fromkeys(texts):
                got = [(g, xa, xo, yo) for g, xa, ya, xo, yo in h.shape(t, features=feats)]
                want = interpret(P, list(t), adv, on)
                if got != want:
                    bad = "text %r features %r: compiled tables give %r, the rules say %r\n%s" % (t, sorted(feats), got, want, fea); break
            if bad: break
        yield (("program", i), bad)

_sweeps_stage1 = sweeps
def sweeps(tier, rng):
    return _sweeps_stage1(tier, rng) + [Sweep("harfbuzz-vs-rule-text", lambda: _interp_sweep(tier, rng))]

# ------------------------------------------------------------------ second program family: marks, lookup flags, inline rules, rsub
MARKS = ["m1", "m2", "m3"]; MARK_CHARS = {"x": "m1", "y": "m2", "z": "m3"}
BASES2 = list("abcde")

def gen_program2(rng):
    """-> dict(base, extra, named=[group], features=[(tag, [item])]) where a group is dict(name, flag, kind, rules) and an item is
    ('ref', name) or ('inline', group). flag: None | 'IgnoreMarks' | ('filter', [marks])"""
    base = BASES2[:rng.randint(3, 5)]; extra = []
    def new(n):
        if n not in extra and n not in base and n not in MARKS: extra.append(n)
        return n
    allg = lambda: base + extra
    def flag():
        k = rng.below(10)
        if k < 4: return None
        if k < 6: return "IgnoreMarks"
        return ("filter", sorted(rng.sample(MARKS, rng.randint(1, 2))))
    def group(name, kinds):
        kind = rng.choice(kinds); rules = []
        if kind == "single":
            suf = rng.choice([".s", ".t"])
            for g in rng.sample(allg() + MARKS[:1], rng.randint(1, 3)):
                if not g.endswith(suf) and g not in MARKS: rules.append((g, new(g + suf)))
        elif kind == "ligature":
            seen = set()
            for _ in range(rng.randint(1, 3)):
                comps = tuple(rng.choice(allg()) for _ in range(rng.randint(2, 3)))
                if comps in seen: continue
                seen.add(comps); rules.append((list(comps), new("lig%d" % len(extra))))
        elif kind == "pair":
            seen = set()
            for _ in range(rng.randint(1, 4)):
                a, b = rng.choice(allg()), rng.choice(allg() + MARKS)
                if (a, b) in seen: continue
                seen.add((a, b)); rules.append((a, b, rng.randint(-80, 80)))
        elif kind == "rsub":
            tg = rng.sample(base, rng.randint(1, min(3, len(base))))          # written in ANY order, not glyph order
            rules.append(([sorted(set(rng.sample(allg() + MARKS, rng.randint(1, 2)))) for _ in range(rng.randint(0, 1))], tg,
                          [new(g + ".r") for g in tg], [sorted(set(rng.sample(allg(), rng.randint(1, 2)))) for _ in range(rng.randint(0, 1))]))
        return {"name": name, "flag": flag(), "kind": kind, "rules": rules} if rules else None
    named = []
    for i in range(rng.randint(1, 3)):
        g = group("N%d" % i, ["single", "single", "ligature", "rsub"])
        if g: named.append(g)
    singles = [g for g in named if g["kind"] == "single"]
    ctx = []
    if singles and rng.chance(60):
        rules = []
        sets = lambda: sorted(set(rng.choice(allg() + MARKS) for _ in range(rng.randint(1, 2))))
        for _ in range(rng.randint(1, 3)):
            tgt = rng.choice(singles); g0 = rng.choice(tgt["rules"])[0]
            inp = [([g0], tgt["name"])] + ([(sets(), None)] if rng.chance(40) else [])
            rules.append(([sets() for _ in range(rng.randint(0, 2))], inp, [sets() for _ in range(rng.randint(0, 1))]))
        ctx.append({"name": "X0", "flag": flag(), "kind": "chain", "rules": rules})
    called = {l for c in ctx for (_, inp, _) in c["rules"] for (_, l) in inp if l}
    feats = []
    sub_tags = ["ccmp", "liga", "calt", "rlig"]; rng.shuffle(sub_tags)
    pool_named = [g for g in named if not (g["name"] in called and rng.chance(60))] + ctx
    for tag in sub_tags[:rng.randint(1, 3)]:
        items = []; last = None
        for _ in range(rng.randint(1, 3)):
            if pool_named and rng.chance(40):
                g = pool_named.pop(rng.below(len(pool_named))); items.append(("ref", g["name"])); last = None
            else:
                g = group(None, ["single", "ligature", "ligature"])
                if g is None: continue
                if last and last["flag"] == g["flag"]:
                    # written back to back with the same flag, substitutions of compatible types are ONE lookup (single rules are
                    # promoted into a ligature lookup): give the second group its own flag so that it is a lookup of its own
                    g["flag"] = "IgnoreMarks" if g["flag"] != "IgnoreMarks" else ("filter", [MARKS[0]])
                items.append(("inline", g)); last = g
        if items: feats.append((tag, items))
    if rng.chance(60):
        items = []; last = None
        for _ in range(rng.randint(1, 2)):
            g = group(None, ["pair"])
            if g is None: continue
            if last and last["flag"] == g["flag"]: g["flag"] = "IgnoreMarks" if g["flag"] != "IgnoreMarks" else None
            items.append(("inline", g)); last = g
        if items: feats.append((rng.choice(["kern", "dist"]), items))
    markpos = None
    if rng.chance(50):
        # mark-to-base attachment: one or two mark classes with their own anchors, base anchors for some glyphs
        classes = {}
        for m in MARKS:
            if rng.chance(80): classes.setdefault(rng.choice(["TOP", "BOT"]), []).append((m, (rng.randint(-40, 40), rng.randint(-60, 600))))
        bases_ = {}
        for g in rng.sample(allg(), rng.randint(1, min(4, len(allg())))):
            bases_[g] = {c: (rng.randint(50, 400), rng.randint(-100, 700)) for c in classes if rng.chance(80)}
            if not bases_[g]: del bases_[g]
        if classes and bases_: markpos = {"classes": classes, "bases": bases_, "flag": None}
    return {"base": base, "extra": extra, "named": named + ctx, "features": feats, "markpos": markpos}

def to_fea2(P):
    cls = lambda s: s[0] if len(s) == 1 else "[%s]" % " ".join(s)
    def flag_stmt(f):
        if f is None: return "lookupflag 0;"
        if f == "IgnoreMarks": return "lookupflag IgnoreMarks;"
        return "lookupflag UseMarkFilteringSet [%s];" % " ".join(f[1])
    def rules_text(g):
        out = []
        for r in g["rules"]:
            k = g["kind"]
            if k == "single": out.append("sub %s by %s;" % r)
            elif k == "ligature": out.append("sub %s by %s;" % (" ".join(r[0]), r[1]))
            elif k == "pair": out.append("pos %s %s %d;" % r)
            elif k == "rsub":
                pre, tg, by, suf = r
                out.append("rsub %s %s' %s by %s;" % (" ".join(cls(s) for s in pre), cls(tg), " ".join(cls(s) for s in suf), cls(by)))
            elif k == "chain":
                pre, inp, suf = r
                out.append("sub %s;" % " ".join([cls(s) for s in pre] + [cls(s) + "'" + (" lookup %s" % l if l else "") for s, l in inp] + [cls(s) for s in suf]))
        return out
    allg = P["base"] + P["extra"]
    fea = ["languagesystem DFLT dflt;", "table GDEF {\n  GlyphClassDef [%s], , [%s], ;\n} GDEF;" % (" ".join(allg), " ".join(MARKS))]
    for g in P["named"]:
        fea.append("lookup %s {\n  %s\n  %s\n} %s;" % (g["name"], flag_stmt(g["flag"]), "\n  ".join(rules_text(g)), g["name"]))
    mp = P.get("markpos")
    if mp:
        for c, members in mp["classes"].items():
            for m, (ax, ay) in members: fea.insert(2, "markClass %s <anchor %d %d> @%s;" % (m, ax, ay, c))
    for tag, items in P["features"]:
        body = []
        for kind, x in items:
            if kind == "ref": body.append("lookup %s;" % x)
            else: body += [flag_stmt(x["flag"])] + rules_text(x)
        fea.append("feature %s {\n  %s\n} %s;" % (tag, "\n  ".join(body), tag))
    if mp:
        lines = []
        for g, anchors in mp["bases"].items():
            lines.append("pos base %s %s;" % (g, " ".join("<anchor %d %d> mark @%s" % (ax, ay, c) for c, (ax, ay) in anchors.items())))
        fea.append("feature mark {\n  %s\n} mark;" % "\n  ".join(lines))
    return "\n".join(fea) + "\n"

def interpret2(P, glyphs, adv):
    """the program as written, with lookup flags: returns [(name, x_advance)]"""
    named = {g["name"]: g for g in P["named"]}
    # lookups in the order they are written: named blocks first, then the inline groups feature by feature
    order = list(P["named"])
    active = []
    for tag, items in P["features"]:
        for kind, x in items:
            if kind == "ref": active.append(named[x])
            else: order.append(x); active.append(x)
    idx = {id(g): i for i, g in enumerate(order)}
    buf = [[g, 0] for g in glyphs]
    def skipped(glyph, flag):
        if glyph not in MARKS or flag is None: return False
        return True if flag == "IgnoreMarks" else glyph not in flag[1]
    def fwd(i, flag):
        j = i + 1
        while j < len(buf) and skipped(buf[j][0], flag): j += 1
        return j if j < len(buf) else None
    def back(i, flag):
        j = i - 1
        while j >= 0 and skipped(buf[j][0], flag): j -= 1
        return j if j >= 0 else None
    def match_fwd(sets, start, flag):
        """positions of consecutive unskipped glyphs after `start` matching the sets"""
        pos = []; j = start
        for s in sets:
            j = fwd(j, flag)
            if j is None or buf[j][0] not in s: return None
            pos.append(j)
        return pos
    def match_back(sets, start, flag):
        j = start
        for s in reversed(sets):
            j = back(j, flag)
            if j is None or buf[j][0] not in s: return False
        return True
    def apply_single_at(g, i):
        if skipped(buf[i][0], g["flag"]): return
        for a, b in g["rules"]:
            if a == buf[i][0]: buf[i][0] = b; return
    def run(g):
        flag = g["flag"]; kind = g["kind"]
        if kind == "rsub":
            for i in range(len(buf) - 1, -1, -1):
                if skipped(buf[i][0], flag): continue
                for pre, tg, by, suf in g["rules"]:
                    if buf[i][0] in tg and match_back(pre, i, flag) and match_fwd(suf, i, flag) is not None:
                        buf[i][0] = by[tg.index(buf[i][0])]; break
            return
        i = 0
        while i < len(buf):
            if skipped(buf[i][0], flag): i += 1; continue
            nxt = i + 1
            if kind == "single":
                for a, b in g["rules"]:
                    if a == buf[i][0]: buf[i][0] = b; break
            elif kind == "ligature":
                for comps, lig in sorted(g["rules"], key=lambda r: -len(r[0])):
                    if buf[i][0] != comps[0]: continue
                    pos = match_fwd([[c] for c in comps[1:]], i, flag)
                    if pos is None: continue
                    buf[i][0] = lig
                    last = pos[-1]
                    for j in reversed(pos): del buf[j]
                    nxt = last - len(pos) + 1
                    break
            elif kind == "pair":
                j = fwd(i, flag)
                if j is not None:
                    for a, b, v in g["rules"]:
                        if a == buf[i][0] and b == buf[j][0]: buf[i][1] += v; break
            elif kind == "chain":
                for pre, inp, suf in g["rules"]:
                    if buf[i][0] not in inp[0][0]: continue
                    pos = match_fwd([s for s, _ in inp[1:]], i, flag)
                    if pos is None: continue
                    pos = [i] + pos
                    if not match_back(pre, i, flag) or match_fwd(suf, pos[-1], flag) is None: continue
                    for (s_, l), p_ in zip(inp, pos):
                        if l: apply_single_at(named[l], p_)
                    nxt = pos[-1] + 1
                    break
            i = nxt
    for stage in ("sub", "pos"):
        for g in sorted({id(g): g for g in active}.values(), key=lambda g: idx[id(g)]):
            if (g["kind"] == "pair") != (stage == "pos"): continue
            run(g)
    out = [[g, adv[g] + a, 0, 0] for g, a in buf]
    mp = P.get("markpos")
    if mp:
        cls_of = {m: (c, anc) for c, members in mp["classes"].items() for m, anc in members}
        for i, (g, _a, _x, _y) in enumerate(out):
            if g not in cls_of: continue
            c, (mx, my) = cls_of[g]
            j = i - 1
            while j >= 0 and out[j][0] in MARKS: j -= 1            # the nearest preceding glyph that is not a mark
            if j < 0: continue
            banc = mp["bases"].get(out[j][0], {}).get(c)
            if banc is None: continue
            # the mark is drawn relative to its own origin, which lies after the advances of everything since the base
            out[i][2] = banc[0] - mx - sum(out[k][1] for k in range(j, i)); out[i][3] = banc[1] - my
    return [tuple(x) for x in out]

def build_program_font2(P):
    from fontTools.fontBuilder import FontBuilder
    from fontTools.feaLib.builder import addOpenTypeFeaturesFromString
    from props.C07 import _box
    order = [".notdef"] + P["base"] + MARKS + P["extra"]
    adv = {g: (0 if g in MARKS else 400 + 17 * i) for i, g in enumerate(order)}
    fb = FontBuilder(1000, isTTF=True); fb.setupGlyphOrder(order)
    cm = {ord(c): c for c in P["base"]}; cm.update({ord(c): g for c, g in MARK_CHARS.items()})
    fb.setupCharacterMap(cm)
    fb.setupGlyf({g: _box(max(adv[g], 100)) for g in order}); fb.setupHorizontalMetrics({g: (adv[g], 20) for g in order})
    fb.setupHorizontalHeader(ascent=800, descent=-200); fb.setupNameTable({"familyName": "Gen11b", "styleName": "R"}); fb.setupOS2(); fb.setupPost()
    addOpenTypeFeaturesFromString(fb.font, to_fea2(P))
    b = io.BytesIO(); fb.font.save(b)
    return b.getvalue(), order, adv

def _interp_sweep2(tier, rng):
    from lib.hb import HBFont
    from fontTools.feaLib.error import FeatureLibError
    n = 200 if tier == "quick" else 400 if tier == "search" else 5000
    inv = {g: c for c, g in MARK_CHARS.items()}
    for i in range(n):
        P = gen_program2(rng); fea = to_fea2(P)
        try:
            data, order, adv = build_program_font2(P)
        except FeatureLibError:
            yield (("program2", i, "rejected"), None); continue
        except Exception as e:
            yield (("program2", i), "generator/compile failed: %r\n%s" % (e, fea)); continue
        h = HBFont(data, order)
        alphabet = P["base"] + MARKS
        texts = [[a] for a in alphabet] + [[a, b] for a in alphabet for b in alphabet]
        for _ in range(150): texts.append([rng.choice(alphabet if rng.chance(70) else P["base"]) for _ in range(rng.randint(3, 6))])
        bad = None
        for t in texts:
            s = "".join(inv.get(g, g) for g in t)
            got = [(g, xa, xo, yo) for g, xa, ya, xo, yo in h.shape(s)]
            want = interpret2(P, list(t), adv)
            if got != want:
                bad = "glyphs %r: compiled tables give %r, the rules say %r\n%s" % (t, got, want, fea); break
        yield (("program2", i), bad)

_sweeps_stage2 = sweeps
def sweeps(tier, rng):
    return _sweeps_stage2(tier, rng) + [Sweep("harfbuzz-vs-rule-text-flags", lambda: _interp_sweep2(tier, rng))]

# ------------------------------------------------------------------ third family: rules of different kinds written INLINE in one feature
def _interp_sweep3(tier, rng):
    """one feature block holding single, multiple, deleting (`by NULL`), ligature and alternate rules in random order, with no named
    lookups. Every rule has input glyphs of its own and produces glyphs no rule reads, so however the compiler groups the rules
    into lookups the meaning is the same: every rule applies to its own input. HarfBuzz shapes the compiled font."""
    from lib.hb import HBFont
    from fontTools.fontBuilder import FontBuilder
    from fontTools.feaLib.builder import addOpenTypeFeaturesFromString
    from fontTools.feaLib.error import FeatureLibError
    from props.C07 import _box
    n = 120 if tier == "quick" else 250 if tier == "search" else 3000
    for i in range(n):
        k = rng.randint(2, 7)
        ins = ["i%02d" % j for j in range(3 * k)]; outs = ["o%02d" % j for j in range(3 * k)]
        order = [".notdef", "sep"] + ins + outs
        rules = []; lines = []; ip = 0; op = 0
        for r in range(k):
            kind = rng.choice(["single", "multiple", "delete", "delete", "ligature", "ligature", "alternate"])
            if kind == "single": a = [ins[ip]]; b = [outs[op]]; ip += 1; op += 1; lines.append("sub %s by %s;" % (a[0], b[0]))
            elif kind == "multiple":
                m = rng.randint(2, 3); a = [ins[ip]]; b = outs[op:op + m]; ip += 1; op += m; lines.append("sub %s by %s;" % (a[0], " ".join(b)))
            elif kind == "delete": a = [ins[ip]]; b = []; ip += 1; lines.append("sub %s by NULL;" % a[0])
            elif kind == "ligature":
                m = rng.randint(2, 3); a = ins[ip:ip + m]; b = [outs[op]]; ip += m; op += 1; lines.append("sub %s by %s;" % (" ".join(a), b[0]))
            else:
                a = [ins[ip]]; b = [outs[op]]; ip += 1; lines.append("sub %s from [%s %s];" % (a[0], outs[op], outs[op + 1])); op += 2
            rules.append((a, b))
        fea = "languagesystem DFLT dflt;\nfeature test {\n  %s\n} test;\n" % "\n  ".join(lines)
        bad = None
        try:
            adv = {g: 400 + 3 * j for j, g in enumerate(order)}
            fb = FontBuilder(1000, isTTF=True); fb.setupGlyphOrder(order); fb.setupCharacterMap({0xE000 + j: g for j, g in enumerate(order[1:])})
            fb.setupGlyf({g: _box(adv[g]) for g in order}); fb.setupHorizontalMetrics({g: (adv[g], 20) for g in order})
            fb.setupHorizontalHeader(ascent=800, descent=-200); fb.setupNameTable({"familyName": "Gen11c", "styleName": "R"}); fb.setupOS2(); fb.setupPost()
            addOpenTypeFeaturesFromString(fb.font, fea)
            b_ = io.BytesIO(); fb.font.save(b_)
            h = HBFont(b_.getvalue(), order)
            gid = {g: j for j, g in enumerate(order)}
            seq = []; want = []
            for a, b in rules:
                seq += a + ["sep"]; want += b + ["sep"]
            got = [g[0] for g in h.shape("".join(chr(0xE000 + gid[g] - 1) for g in seq), features={"test": True})]
            if got != want: bad = "glyphs %r: the compiled font gives %r, the rules say %r\n%s" % (seq, got, want, fea)
        except FeatureLibError as e:
            bad = "feaLib rejects rules it accepts one by one: %r\n%s" % (e, fea)
        except Exception as e:
            bad = "generator/compile failed: %r\n%s" % (e, fea)
        yield (("inline", i), bad)

_sweeps_stage3 = sweeps
def sweeps(tier, rng):
    return _sweeps_stage3(tier, rng) + [Sweep("harfbuzz-vs-inline-rules", lambda: _interp_sweep3(tier, rng))]
