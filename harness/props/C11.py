"""C11 — compiled feature files do what their rules say."""
import io, os, re, glob
from lib.ser import Ok, Err, res, Raw, Opt
from lib import corpus
from vcheck import Corr, Sweep

RULE = ("asFea: all 2x3^4 shapes of value records (absent / zero / non-zero fields, horizontal and vertical); compile_format1/2/3: random "
        "chaining rules with 0-3 backtrack, 1-3 input and 0-3 lookahead positions over glyphs / partitioned classes / coverages against the "
        "arrays otlLib's ChainContextualBuilder stores; sweeps: every corpus .fea file and generated feature programs printed with asFea, "
        "re-parsed and re-printed (textual fixed point) and compiled both ways (identical tables); generated GSUB/GPOS programs compiled and "
        "shaped by HarfBuzz on every short glyph sequence against a reference interpreter that reads the rules as written.")
TRUSTED = ["uharfbuzz 0.52 as the shaper driven by the compiled tables", "the reference interpreter in this file (harness/props/C11.py) as the reading of the rule text"]
ASSUMPTIONS = ["the Coq model covers value-record printing/parsing and the compilation of one chaining rule into stored arrays; the rest of "
               "the language is checked by the sweeps", "device tables, variable scalars and lookup flags are outside the model"]

def N(tier, q, t): return q if tier == "quick" else t

GLYPHS = """
    .notdef space slash fraction semicolon period comma ampersand
    quotedblleft quotedblright quoteleft quoteright
    zero one two three four five six seven eight nine
    zero.oldstyle one.oldstyle two.oldstyle three.oldstyle
    four.oldstyle five.oldstyle six.oldstyle seven.oldstyle
    eight.oldstyle nine.oldstyle onequarter onehalf threequarters
    onesuperior twosuperior threesuperior ordfeminine ordmasculine
    A B C D E F G H I J K L M N O P Q R S T U V W X Y Z
    a b c d e f g h i j k l m n o p q r s t u v w x y z
    A.sc B.sc C.sc D.sc E.sc F.sc G.sc H.sc I.sc J.sc K.sc L.sc M.sc
    N.sc O.sc P.sc Q.sc R.sc S.sc T.sc U.sc V.sc W.sc X.sc Y.sc Z.sc
    A.alt1 A.alt2 A.alt3 B.alt1 B.alt2 B.alt3 C.alt1 C.alt2 C.alt3
    a.alt1 a.alt2 a.alt3 a.end b.alt c.mid d.alt d.mid
    e.begin e.mid e.end m.begin n.end s.end z.end
    Eng Eng.alt1 Eng.alt2 Eng.alt3
    A.swash B.swash C.swash D.swash E.swash F.swash G.swash H.swash
    I.swash J.swash K.swash L.swash M.swash N.swash O.swash P.swash
    Q.swash R.swash S.swash T.swash U.swash V.swash W.swash X.swash
    Y.swash Z.swash
    f_l c_h c_k c_s c_t f_f f_f_i f_f_l f_i o_f_f_i s_t f_i.begin
    a_n_d T_h T_h.swash germandbls ydieresis yacute breve
    grave acute dieresis macron circumflex cedilla umlaut ogonek caron
    damma hamza sukun kasratan lam_meem_jeem noon.final noon.initial
    by feature lookup sub table uni0327 uni0328 e.fina
    idotbelow idotless iogonek acutecomb brevecomb ogonekcomb dotbelowcomb
""".split() + ["cid%05d" % c for c in range(800, 1002)]

def bare_font(order=None):
    from fontTools.ttLib import TTFont
    f = TTFont(); f.setGlyphOrder(list(order or GLYPHS)); return f

# ------------------------------------------------------------------ correspondences
def correspondences(tier, rng):
    from fontTools.feaLib import ast
    from fontTools.otlLib import builder as B
    out = []
    # --- value records
    vals = [None, 0, 25, -7]
    cases = []
    for vert in (False, True):
        for a in vals:
            for b in vals:
                for c in vals:
                    for d in vals: cases.append((vert, ((a, b), (c, d))))
    def impl_asfea(x):
        vert, ((a, b), (c, d)) = x
        t = ast.ValueRecord(a, b, c, d, vertical=vert).asFea()
        toks = []
        for w in re.findall(r"<|>|NULL|-?\d+", t):
            if w == "<": toks.append(1)
            elif w == ">": toks.append(2)
            elif w == "NULL": toks.append(3)
            else: toks += [0, int(w)]
        return toks
    enc_v = lambda x: (x[0], tuple(tuple(Opt(v, some=v is not None) for v in pair) for pair in x[1]))
    def oracle_asfea(x):
        """the printed text, parsed back in the same context, means the same adjustments"""
        from fontTools.feaLib.parser import Parser
        vert, ((a, b), (c, d)) = x
        vr = ast.ValueRecord(a, b, c, d, vertical=vert)
        if not vr: return None
        tag = "vkrn" if vert else "kern"
        doc = Parser(io.StringIO("feature %s { pos A %s; } %s;" % (tag, vr.asFea(), tag)), glyphNames=["A"]).parse()
        st = doc.statements[0].statements[0]
        got = st.pos[0][1]
        m = lambda v: (v.xPlacement or 0, v.yPlacement or 0, v.xAdvance or 0, v.yAdvance or 0)
        if m(got) != m(vr): return "printed %r parses back as %r, was %r" % (vr.asFea(), m(got), m(vr))
        return None
    out.append(Corr("asFea", cases, impl_asfea, enc=enc_v, oracle=oracle_asfea))
    # --- chaining rules
    n = N(tier, 300, 5000)
    names = ["g%d" % i for i in range(12)]
    font = bare_font([".notdef"] + names)
    gi = lambda nme: int(nme[1:])
    def mk_builder():
        b = B.ChainContextSubstBuilder(font, None); return b
    # format 1
    c1 = []
    for _ in range(n):
        c1.append(([rng.randint(0, 11) for _ in range(rng.randint(0, 3))], [rng.randint(0, 11) for _ in range(rng.randint(1, 3))],
                   [rng.randint(0, 11) for _ in range(rng.randint(0, 3))]))
    def impl_f1(x):
        p, i, s = x
        b = mk_builder(); b.rules.append(B.ChainContextualRule([[names[g]] for g in p], [[names[g]] for g in i], [[names[g]] for g in s], [None] * len(i)))
        st = b.buildFormat1Subtable(b.rulesets()[0], chaining=True)
        r = st.ChainSubRuleSet[0].ChainSubRule[0]
        return ([gi(g) for g in r.Backtrack], [gi(g) for g in r.Input], [gi(g) for g in r.LookAhead])
    out.append(Corr("compile_format1", c1, impl_f1))
    # format 3
    c3 = []
    sets = lambda: sorted(set(rng.randint(0, 11) for _ in range(rng.randint(1, 3))))
    for _ in range(n):
        c3.append(([sets() for _ in range(rng.randint(0, 3))], [sets() for _ in range(rng.randint(1, 3))], [sets() for _ in range(rng.randint(0, 3))]))
    def impl_f3(x):
        p, i, s = x
        b = mk_builder()
        rule = B.ChainContextualRule([[names[g] for g in e] for e in p], [[names[g] for g in e] for e in i], [[names[g] for g in e] for e in s], [None] * len(i))
        st = b.buildFormat3Subtable(rule, chaining=True)
        cov = lambda cs: [sorted(gi(g) for g in c.glyphs) for c in cs]
        return (cov(st.BacktrackCoverage), cov(st.InputCoverage), cov(st.LookAheadCoverage))
    out.append(Corr("compile_format3", c3, impl_f3))
    # format 2: rulesets over a partition of the glyphs into classes; every rule of the ruleset is one case
    c2 = []
    built = {}
    for k in range(n // 3):
        ncls = rng.randint(2, 5)
        part = [[] for _ in range(ncls)]
        for g in range(12): part[rng.below(ncls)].append(g)
        part = [c for c in part if c]
        rules = []
        for _ in range(rng.randint(1, 6)):
            rules.append(([rng.choice(part) for _ in range(rng.randint(0, 3))], [rng.choice(part) for _ in range(rng.randint(1, 3))],
                          [rng.choice(part) for _ in range(rng.randint(0, 3))]))
        b = mk_builder()
        for p, i, s in rules:
            b.rules.append(B.ChainContextualRule([[names[g] for g in e] for e in p], [[names[g] for g in e] for e in i], [[names[g] for g in e] for e in s], [None] * len(i)))
        rs = b.rulesets()[0]
        cds = rs.format2ClassDefs()
        if not cds: continue
        st = b.buildFormat2Subtable(rs, cds, chaining=True)
        cd = lambda c: sorted((gi(g), v) for g, v in c.classDefs.items())
        bcd, icd, lcd = cd(st.BacktrackClassDef), cd(st.InputClassDef), cd(st.LookAheadClassDef)
        # compiled rules come grouped by the class of the first input glyph, in rule order inside a group
        queues = {ci: list(cs.ChainSubClassRule) if cs else [] for ci, cs in enumerate(st.ChainSubClassSet)}
        for (p, i, s) in rules:
            first_cls = dict(icd).get(i[0][0], 0)
            r = queues[first_cls].pop(0)
            key = len(c2)
            built[key] = (list(r.Backtrack), list(r.Input), list(r.LookAhead))
            c2.append((key, ((bcd, icd), lcd), p, i, s))
    def impl_f2(x): return built[x[0]]
    out.append(Corr("compile_format2", c2, impl_f2, enc=lambda x: x[1:]))
    return out

# ------------------------------------------------------------------ textual fixed point and identical compilation
TABLES = ("GSUB", "GPOS", "GDEF", "BASE", "head", "hhea", "vhea", "name", "OS/2", "STAT")

def compile_fea(text, path=None, order=None):
    """-> {table tag: XML text} for the layout tables feaLib builds"""
    from fontTools.feaLib.builder import Builder
    from fontTools.feaLib.parser import Parser
    font = bare_font(order)
    if path:
        Builder(font, path).build()
    else:
        Builder(font, io.StringIO(text)).build()
    out = {}
    for t in font.keys():
        if t == "GlyphOrder": continue
        from fontTools.misc.xmlWriter import XMLWriter
        b = io.StringIO(); w = XMLWriter(b); font[t].toXML(w, font); w.close()
        out[t] = b.getvalue()
    return out

def fixed_point(text, path=None, order=None):
    """None or a description of how asFea fails to be a fixed point / to compile identically"""
    from fontTools.feaLib.parser import Parser
    names = list(order or GLYPHS)
    src = path if path else io.StringIO(text)
    doc = Parser(src, glyphNames=names).parse()
    t1 = doc.asFea()
    try:
        doc2 = Parser(io.StringIO(t1), glyphNames=names).parse()
    except Exception as e:
        return "the printed text does not parse: %r\n%s" % (e, t1[:1500])
    t2 = doc2.asFea()
    if t1 != t2:
        import difflib
        return "printing is not a fixed point:\n" + "\n".join(list(difflib.unified_diff(t1.split("\n"), t2.split("\n"), lineterm="", n=1))[:30])
    try:
        a = compile_fea(text, path, order)
    except Exception:
        return None                       # a file feaLib itself rejects (the corpus has such files on purpose) makes no claim
    try:
        b = compile_fea(t1, None, order)
    except Exception as e:
        return "the printed text does not compile although the original does: %r\n%s" % (e, t1[:1500])
    for t in sorted(set(a) | set(b)):
        if a.get(t) != b.get(t):
            import difflib
            d = list(difflib.unified_diff((a.get(t) or "").split("\n"), (b.get(t) or "").split("\n"), lineterm="", n=2))[:40]
            return "table %s compiled from the printed text differs:\n%s\n--- printed text:\n%s" % (t, "\n".join(d), t1[:1200])
    return None

def gen_value_program(rng):
    """positioning programs exercising anonymous and named value records in horizontal and vertical features"""
    g = ["A", "B", "C", "D", "a", "b", "c"]
    lines = ["languagesystem DFLT dflt;"]
    named = []
    for i in range(rng.randint(0, 3)):
        k = rng.below(3)
        nm = "VR%d" % i
        if k == 0: lines.append("valueRecordDef %d %s;" % (rng.randint(-50, 50), nm))
        elif k == 1: lines.append("valueRecordDef <%d %d %d %d> %s;" % (rng.randint(-9, 9), rng.randint(-9, 9), rng.randint(-50, 50), rng.randint(-50, 50), nm))
        else: lines.append("valueRecordDef <0 0 %d 0> %s;" % (rng.randint(-50, 50), nm))
        named.append(nm)
    def vr():
        k = rng.below(4)
        if k == 0 and named: return "<%s>" % rng.choice(named)
        if k == 1: return str(rng.randint(-60, 60))
        if k == 2: return "<%d %d %d %d>" % (rng.randint(-9, 9), rng.randint(-9, 9), rng.randint(-50, 50), rng.randint(-50, 50))
        return "<0 0 %d 0>" % rng.randint(-50, 50) if rng.chance(50) else "<0 0 0 %d>" % rng.randint(-50, 50)
    for tag in rng.sample(["kern", "vkrn", "vpal", "palt", "dist", "valt", "vhal"], rng.randint(1, 4)):
        body = []
        seen1 = set(); seen2 = set()
        for _ in range(rng.randint(1, 4)):
            if rng.chance(50):
                a = rng.choice(g)
                if a in seen1: continue
                seen1.add(a); body.append("pos %s %s;" % (a, vr()))
            else:
                a, b = rng.choice(g), rng.choice(g)
                if (a, b) in seen2: continue
                seen2.add((a, b))
                body.append("pos %s %s %s;" % (a, b, vr()) if rng.chance(60) else "pos %s %s %s %s;" % (a, vr(), b, vr()))
        # single and pair adjustments live in different lookups
        singles = [l for l in body if len(l.split()) == 3 or (l.split()[2].startswith("<") or l.split()[2].lstrip("-").isdigit())]
        pairs = [l for l in body if l not in singles]
        blk = ""
        if singles: blk += "  lookup %s_s {\n    %s\n  } %s_s;\n" % (tag, "\n    ".join(singles), tag)
        if pairs: blk += "  lookup %s_p {\n    %s\n  } %s_p;\n" % (tag, "\n    ".join(pairs), tag)
        lines.append("feature %s {\n%s} %s;" % (tag, blk, tag))
    return "\n".join(lines) + "\n"

def sweeps(tier, rng):
    def run_corpus_fea():
        files = sorted(glob.glob("/repo/Tests/feaLib/data/*.fea")) + sorted(glob.glob("/repo/Tests/**/*.fea", recursive=True))
        files = list(dict.fromkeys(files))
        if tier == "quick": files = corpus.pick(rng, files, 70)
        for p in files:
            try:
                bad = fixed_point(None, path=p)
            except Exception as e:
                bad = None                # the original does not parse (error-case fixtures, missing includes, other glyph sets)
            yield ((corpus.rel(p),), bad)
    def run_generated_fixed_point():
        from props.C07 import gen_feature_program
        n = 60 if tier == "quick" else 150 if tier == "search" else 3000
        for i in range(n):
            if i % 2:
                text = gen_value_program(rng); order = None
            else:
                base, extra, text, tags = gen_feature_program(rng); order = [".notdef", "space"] + base + extra
            try:
                bad = fixed_point(text, order=order)
            except Exception as e:
                from fontTools.feaLib.error import FeatureLibError
                bad = None if isinstance(e, FeatureLibError) else "harness: %r" % (e,)
            yield (("generated", i, text if bad else ""), bad)
    return [Sweep("corpus-fea-fixed-point", run_corpus_fea), Sweep("generated-fixed-point", run_generated_fixed_point)]

def witness(fid): return None
