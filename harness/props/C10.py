"""C10 — a built variable font reproduces each of its masters."""
import io, os
from fractions import Fraction as F
from lib.ser import Ok, Err, res, Raw, Opt
from lib.deser import decode
from lib import corpus
from vcheck import Corr, Sweep

RULE = ("rounded_at: random master location sets (1-3 axes, corners, intermediates, one-sided) with rational master values; the model's "
        "rounded deltas and its value at every master against VariationModel.getDeltas(round=otRound)/interpolateFromDeltas; sweeps: "
        "generated designspaces (1-2 axes, axis maps, intermediate/corner/sparse masters, sources listed in random order, TrueType and CFF "
        "masters, glyph+class kerning with per-master exceptions, mark anchors, OS/2 and hhea metrics) built with varLib.build and compared "
        "through HarfBuzz at every master's USER-space location against the static master; corpus designspaces with binary masters.")
TRUSTED = ["uharfbuzz 0.52 as the independent variation engine"]
ASSUMPTIONS = ["the Coq model covers the rounded delta computation and evaluation at a master given the weight rows; master sorting, support "
               "computation and the table mergers are checked by correspondence of the evaluated values and by the HarfBuzz sweeps",
               "budget at a master: 0.5 (delta rounding) + 0.5 (IUP optimisation tolerance) + 0.1 (F2Dot14 quantisation of the location) for outlines, +1 for integer advances"]

def N(tier, q, t): return q if tier == "quick" else t

# ------------------------------------------------------------------ correspondence
def gen_locations(rng):
    k = rng.randint(1, 3)
    axes = ["a", "b", "c"][:k]
    vals = [F(-1), F(-1, 2), F(0), F(1, 4), F(1, 2), F(3, 4), F(1)]
    locs = [{}]
    n = rng.randint(1, 6)
    tries = 0
    while len(locs) < n + 1 and tries < 50:
        tries += 1
        loc = {}
        for a in axes:
            if rng.chance(60):
                v = rng.choice(vals)
                if v != 0: loc[a] = v
        if loc and loc not in locs: locs.append(loc)
    rng.shuffle(locs)
    return axes, locs

def correspondences(tier, rng):
    from fontTools.varLib.models import VariationModel
    from fontTools.misc.roundTools import otRound
    n = N(tier, 500, 8000)
    cases = []
    for _ in range(n):
        axes, locs = gen_locations(rng)
        vals = [F(rng.randint(-400, 400), rng.choice([1, 1, 2, 4, 3])) for _ in locs]
        cases.append((axes, locs, vals))
    def model_of(x):
        axes, locs, vals = x
        return VariationModel([dict(l) for l in locs], axisOrder=axes)
    def enc(x):
        m = model_of(x)
        sorted_vals = [x[2][m.reverseMapping[i]] for i in range(len(x[2]))]
        rows = [[F(w.get(j, 0)) for j in range(i)] for i, w in enumerate(m.deltaWeights)]
        return (sorted_vals, rows)
    def impl(x):
        m = model_of(x)
        rnd = lambda v: F(otRound(v))
        deltas = m.getDeltas(list(x[2]), round=rnd)
        at = []
        for loc in m.locations:
            v = m.interpolateFromDeltas(loc, deltas)
            at.append(F(v) if v is not None else F(0))
        return ([F(d) for d in deltas], at)
    def oracle(x):
        m = model_of(x)
        _, at = impl(x)
        for i, v in enumerate(at):
            want = x[2][m.reverseMapping[i]]
            if abs(v - want) > F(1, 2) + F(1, 10**9): return "master %d at %r: built value %s, master value %s" % (i, m.locations[i], v, want)
        return None
    def compare(x, impl_ser, model_ser):
        # the implementation computes scalars in floats (supportScalar starts from 1.0): compare numerically; a delta that differs by
        # exactly one unit while the values agree is a rounding tie decided by float noise
        ty = ("tuple", ("list", "Q"), ("list", "Q"))
        di, ai = decode(impl_ser, ty); dm, am = decode(model_ser, ty)
        if len(di) != len(dm) or len(ai) != len(am): return False
        tie = False
        for p, q in zip(di, dm):
            if p != q:
                if abs(p - q) == 1: tie = True
                else: return False
        if tie: return None
        return all(abs(float(p) - float(q)) <= 1e-6 for p, q in zip(ai, am))
    out = [Corr("rounded_at", cases, impl, enc=enc, oracle=oracle, compare=compare)]
    # ---- _locationsToRegions / _computeMasterSupports / _computeDeltaWeights on exact rationals
    from fontTools.varLib.models import supportScalar
    def gen_locs2():
        k = rng.randint(1, 4)
        axes = ["a", "b", "c", "d"][:k]
        pool = rng.choice([[F(-1), F(-1, 2), F(1, 4), F(1, 2), F(3, 4), F(1)], [F(-1), F(1, 3), F(2, 3), F(1)], [F(1, 2), F(1)],
                           [F(-1), F(-3, 4), F(-1, 3), F(-1, 8), F(1, 8), F(1, 5), F(2, 5), F(1, 2), F(7, 10), F(1)]])
        locs = [{}]; tries = 0; n = rng.randint(1, 11)
        while len(locs) < n + 1 and tries < 80:
            tries += 1
            items = [(a, rng.choice(pool)) for a in axes if rng.chance(65)]
            rng.shuffle(items)                                  # dict key order differs from master to master
            loc = dict(items)
            if loc and loc not in locs: locs.append(loc)
        rng.shuffle(locs)
        ex = rng.chance(40)
        if ex and rng.chance(50):                               # extrapolating models need not be normalised
            sc = rng.choice([F(2), F(3, 2), F(100)])
            locs = [{a: v * sc for a, v in l.items()} for l in locs]
        return axes, locs, ex
    scases = [gen_locs2() for _ in range(N(tier, 600, 8000))]
    def vm(x): return VariationModel([dict(l) for l in x[1]], axisOrder=x[0], extrapolate=x[2])
    def enc_s(x):
        m = vm(x)
        return (x[2], [[F(l.get(a, 0)) for a in x[0]] for l in m.locations])
    def impl_sup(x):
        m = vm(x)
        return [[Opt(tuple(F(v) for v in s_[a]), some=True) if a in s_ else Opt(None, some=False) for a in x[0]] for s_ in m.supports]
    def oracle_sup(x):
        """the PROPERTY on the implementation: at master k's location the support of master k is 1 and every later support is 0
        (together with the delta computation this is what makes the built font reproduce master k)"""
        m = vm(x)
        for k_, loc in enumerate(m.locations):
            for j, sup in enumerate(m.supports):
                if j < k_: continue
                sc = supportScalar(loc, sup)
                if j == k_ and sc != 1: return "support %d %r is %r at its own master %r" % (j, sup, sc, loc)
                if j > k_ and sc != 0: return "support %d %r is %r at the earlier master %d %r" % (j, sup, sc, k_, loc)
            # the hypotheses of model_reproduces_masters_sorted, checked on what VariationModel hands the computation: fewer axes
            # first, distinct locations, every value inside the axis range
            for j in range(k_ + 1, len(m.locations)):
                if len(m.locations[j]) < len(loc): return "master order: %r before %r" % (loc, m.locations[j])
                if m.locations[j] == loc: return "duplicate location %r" % (loc,)
            for a, v in loc.items():
                lo, hi = m.axisRanges[a]
                if not (lo <= v <= hi and lo <= 0 <= hi): return "location %r outside the axis range %r of %s" % (loc, (lo, hi), a)
        return None
    out.append(Corr("supports", scases, impl_sup, enc=enc_s, oracle=oracle_sup))
    # ---- the master order itself: getMasterLocationsSortKeyFunc + sorted(), axisOrder listing every axis in any order
    def sort_case(x):
        axes, locs, ex = x
        order = list(axes); rng.shuffle(order)
        return (order, [dict(l) for l in locs])
    sortcases = [sort_case(x) for x in scases[:N(tier, 400, 6000)]]
    def impl_sort(x):
        order, locs = x
        m = VariationModel([dict(l) for l in locs], axisOrder=list(order))
        return [[F(l.get(a, 0)) for a in order] for l in m.locations]
    def oracle_sort(x):
        """what the support computation needs from the order: masters with fewer axes come first, and nothing is lost"""
        order, locs = x
        m = VariationModel([dict(l) for l in locs], axisOrder=list(order))
        if sorted(map(lambda l: sorted(l.items()), m.locations)) != sorted(map(lambda l: sorted((k, v) for k, v in l.items() if v != 0), locs)):
            return "sorting changed the set of locations"
        ranks = [len(l) for l in m.locations]
        return None if ranks == sorted(ranks) else "a master with more axes comes before one with fewer: %r" % (m.locations,)
    out.append(Corr("sort_locations", sortcases, impl_sort, enc=lambda x: [[F(l.get(a, 0)) for a in x[0]] for l in x[1]], oracle=oracle_sort))
    def impl_w(x):
        m = vm(x)
        return [[F(w.get(j, 0)).limit_denominator(10**9) for j in range(i)] for i, w in enumerate(m.deltaWeights)]
    def cmp_w(x, impl_ser, model_ser):
        ty = ("list", ("list", "Q"))
        a = decode(impl_ser, ty); b = decode(model_ser, ty)
        return len(a) == len(b) and all(len(p) == len(q) and all(abs(float(u) - float(v)) <= 1e-9 for u, v in zip(p, q)) for p, q in zip(a, b))
    out.append(Corr("deltaWeights", scases, impl_w, enc=enc_s, compare=cmp_w))
    return out

# ------------------------------------------------------------------ generated designspaces
LETTERS = ["a", "b", "c", "d", "e"]
MARK = "acutecomb"

def _ttglyph(pts):
    from fontTools.pens.ttGlyphPen import TTGlyphPen
    pen = TTGlyphPen(None); pen.moveTo(pts[0])
    for p in pts[1:]: pen.lineTo(p)
    pen.closePath(); return pen.glyph()

def _t2(pts, width):
    from fontTools.pens.t2CharStringPen import T2CharStringPen
    pen = T2CharStringPen(width, None); pen.moveTo(pts[0])
    for p in pts[1:]: pen.lineTo(p)
    pen.closePath(); return pen.getCharString()

def build_master(spec, cff):
    """spec: {'glyphs': [names], 'shape': {g: [pts]}, 'adv': {g: w}, 'fea': str or None, 'metrics': {...}}"""
    from fontTools.fontBuilder import FontBuilder
    from fontTools.feaLib.builder import addOpenTypeFeaturesFromString
    from fontTools.pens.ttGlyphPen import TTGlyphPen
    order = spec["glyphs"]
    fb = FontBuilder(1000, isTTF=not cff); fb.setupGlyphOrder(order)
    cm = {32: "space", 0x301: MARK}; cm.update({ord(c): c for c in LETTERS})
    fb.setupCharacterMap({k: v for k, v in cm.items() if v in order})
    if cff:
        from fontTools.misc.psCharStrings import T2CharString
        chars = {}
        for g in order:
            pts = spec["shape"].get(g)
            chars[g] = _t2(pts, spec["adv"][g]) if pts else T2CharString(program=[spec["adv"][g], "endchar"])
        fb.setupCFF("Gen10-" + spec["name"], {"FullName": "Gen10 " + spec["name"]}, chars, {"defaultWidthX": 0, "nominalWidthX": 0})
    else:
        fb.setupGlyf({g: (_ttglyph(spec["shape"][g]) if spec["shape"].get(g) else TTGlyphPen(None).glyph()) for g in order})
    fb.setupHorizontalMetrics({g: (spec["adv"][g], min(p[0] for p in spec["shape"][g]) if spec["shape"].get(g) else 0) for g in order})
    m = spec["metrics"]
    fb.setupHorizontalHeader(ascent=m["ascent"], descent=-200)
    fb.setupNameTable({"familyName": "Gen10", "styleName": spec["name"]})
    fb.setupOS2(sxHeight=m["xheight"], sCapHeight=m["capheight"], sTypoAscender=m["ascent"], sTypoDescender=-200, yStrikeoutPosition=m["strike"], version=4)
    fb.setupPost(underlinePosition=m["underline"])
    if spec.get("fea"): addOpenTypeFeaturesFromString(fb.font, spec["fea"])
    b = io.BytesIO(); fb.font.save(b)
    from fontTools.ttLib import TTFont
    return b.getvalue()

def gen_designspace(rng, cff=False):
    """returns (DesignSpaceDocument with .font set on every source, [(source name, user location, master bytes)], description)"""
    from fontTools.designspaceLib import DesignSpaceDocument, AxisDescriptor, SourceDescriptor
    from fontTools.ttLib import TTFont
    two = rng.chance(45)
    use_map = rng.chance(50)
    # design coordinates: wght 20..80..200 (default 80, asymmetric), wdth 60..100..120
    ax = [("Weight", "wght", 20, 80, 200)] + ([("Width", "wdth", 60, 100, 120)] if two else [])
    maps = {}
    if use_map:
        maps["wght"] = [(100, 20), (400, 80), (rng.choice([500, 600, 700]), rng.choice([110, 130, 150])), (900, 200)]
        if two and rng.chance(50): maps["wdth"] = [(50, 60), (100, 100), (150, 120)]
    doc = DesignSpaceDocument()
    for name, tag, lo, d, hi in ax:
        a = AxisDescriptor(); a.name = name; a.tag = tag
        if tag in maps:
            a.map = list(maps[tag]); a.minimum, a.default, a.maximum = maps[tag][0][0], [u for u, dv in maps[tag] if dv == d][0], maps[tag][-1][0]
        else:
            a.minimum, a.default, a.maximum = lo, d, hi
        doc.addAxis(a)
    # master locations (design coordinates)
    default = {name: d for name, tag, lo, d, hi in ax}
    locs = [dict(default)]
    cand = []
    w_vals = [20, 200] + ([rng.choice([50, 110, 140])] if rng.chance(60) else [])
    for w in w_vals: cand.append({"Weight": w})
    if two:
        for dv in [60, 120]: cand.append({"Width": dv})
        if rng.chance(60): cand.append({"Weight": 200, "Width": 120})
        if rng.chance(30): cand.append({"Weight": 20, "Width": 60})
        if rng.chance(30): cand.append({"Weight": rng.choice([50, 140]), "Width": rng.choice([60, 120])})
    keep = [c for c in cand if rng.chance(80)] or [cand[0]]
    for c in keep:
        l = dict(default); l.update(c)
        if l not in locs: locs.append(l)
    glyphs = [".notdef", "space"] + LETTERS + [MARK]
    # per-master data: linear-ish in the location plus a master-specific wobble so that every master matters
    def at(loc, base, kw, kd, wob):
        return int(round(base + kw * (loc["Weight"] - 80) / 10 + (kd * (loc.get("Width", 100) - 100) / 10 if two else 0) + wob))
    sparse_glyph = rng.choice(LETTERS[1:]) if rng.chance(70) and len(locs) > 2 else None
    sparse_master = rng.randint(1, len(locs) - 1) if len(locs) > 1 else -1
    kern_pairs = []
    for _ in range(rng.randint(2, 5)):
        p = (rng.choice(LETTERS), rng.choice(LETTERS))
        if p not in kern_pairs: kern_pairs.append(p)
    class_left = sorted(set(rng.sample(LETTERS, 2))); class_right = sorted(set(rng.sample(LETTERS, 2)))
    for _ in range(rng.randint(0, 2)):                       # exceptions to the class kerning itself
        p = (rng.choice(class_left), rng.choice(class_right))
        if p not in kern_pairs: kern_pairs.append(p)
    with_marks = rng.chance(60)
    specs = []
    for mi, loc in enumerate(locs):
        name = "M%d" % mi
        is_default = mi == 0
        sparse = (not is_default) and sparse_glyph is not None and mi == sparse_master
        gl = [g for g in glyphs if not (sparse and g == sparse_glyph)]
        shape = {}; adv = {}
        for gi, g in enumerate(glyphs):
            wob = rng.randint(-6, 6)
            w = at(loc, 400 + 30 * gi, 25, 18, wob)
            adv[g] = w if g != MARK else 0
            if g == "space": continue
            x0 = at(loc, 30 + 2 * gi, 1, 0, rng.randint(-3, 3)); x1 = x0 + at(loc, 250 + 10 * gi, 20, 15, rng.randint(-5, 5))
            y1 = at(loc, 500 + 20 * gi, 3, -2, rng.randint(-4, 4)); xm = (x0 + x1) // 2 + rng.randint(-5, 5)
            if g == MARK: shape[g] = [(-60 + wob, 600), (-20 + wob, 600), (-20 + wob, 650 + wob), (-60 + wob, 650 + wob)]
            else: shape[g] = [(x0, 0), (x1, 0), (x1, y1), (xm, y1 + at(loc, 60, 4, 0, 0)), (x0, y1)]
        # kerning: glyph pairs (exceptions, each present in SOME masters only) before class pairs; a sparse master never mentions
        # the glyph it lacks
        has = lambda g: not (sparse and g == sparse_glyph)
        lines = []
        for (l, r) in kern_pairs:
            if has(l) and has(r) and (is_default or rng.chance(65)): lines.append("pos %s %s %d;" % (l, r, at(loc, -40, -6, 3, rng.randint(-8, 8))))
        cl = [g for g in class_left if has(g)]; cr = [g for g in class_right if has(g)]
        fea = "languagesystem DFLT dflt;\n"
        body = list(lines)
        if cl and cr:
            fea += "@L = [%s];\n@R = [%s];\n" % (" ".join(cl), " ".join(cr))
            body.append("pos @L @R %d;" % at(loc, -25, -4, 2, rng.randint(-5, 5)))
        fea += "feature kern {\n  %s\n} kern;\n" % "\n  ".join(body)
        if with_marks:
            fea += "markClass %s <anchor %d %d> @TOP;\nfeature mark {\n" % (MARK, -40, 600)
            for g in LETTERS:
                if not has(g): continue
                fea += "  pos base %s <anchor %d %d> mark @TOP;\n" % (g, at(loc, 150, 10, 8, rng.randint(-5, 5)), at(loc, 520, 3, -2, rng.randint(-5, 5)))
            fea += "} mark;\n"
            fea = "table GDEF {\n  GlyphClassDef [%s], , [%s], ;\n} GDEF;\n" % (" ".join(g for g in LETTERS if has(g)), MARK) + fea
        metrics = {"ascent": at(loc, 800, 5, 0, 0), "xheight": at(loc, 480, 4, -3, rng.randint(-3, 3)), "capheight": at(loc, 690, 2, 0, rng.randint(-3, 3)),
                   "strike": at(loc, 250, 3, 0, 0), "underline": at(loc, -80, -3, 0, 0)}
        specs.append({"name": name, "glyphs": gl, "shape": shape, "adv": adv, "fea": fea, "metrics": metrics, "loc": loc, "sparse": sparse})
    order = list(range(len(specs))); rng.shuffle(order)         # sources in ANY order, the default need not come first
    omit_defaults = rng.chance(50)
    masters = []
    for i in order:
        sp = specs[i]
        data = build_master(sp, cff)
        s = SourceDescriptor(); s.name = sp["name"]; s.location = dict(sp["loc"]); s.font = TTFont(io.BytesIO(data))
        if omit_defaults:
            # a source may leave out the axes on which it sits at the default (designspace format 5): the reader fills them in
            s.location = {k: v for k, v in sp["loc"].items() if v != default[k]}
        s.familyName = "Gen10"; s.styleName = sp["name"]
        doc.addSource(s)
        user = {}
        for name, tag, lo, d, hi in ax:
            user[tag] = doc.getAxis(name).map_backward(sp["loc"][name])
        masters.append((sp["name"], user, data, sp))
    desc = {"axes": [(t, doc.getAxis(n).minimum, doc.getAxis(n).default, doc.getAxis(n).maximum) for n, t, *_ in ax], "maps": maps,
            "texts": ["".join(p) for p in kern_pairs] + [l + r for l in class_left for r in class_right],
            "order": [specs[i]["name"] for i in order], "locations": [specs[i]["loc"] for i in order], "sparse": sparse_glyph, "cff": cff, "marks": with_marks, "omit_defaults": omit_defaults}
    return doc, masters, desc

def _pts(calls):
    out = []
    for op, a in calls:
        out.append(op)
        for p in a: out.append(p)
    return out

def compare_at_masters(vf_bytes, masters, optimize, stats, cff, extra_texts=()):
    from lib.hb import HBFont
    from fontTools.ttLib import TTFont
    vf = TTFont(io.BytesIO(vf_bytes)); order = vf.getGlyphOrder()
    texts = ["ab", "ba", "abcde", "edcba", "aa", "cd", "ec", "á", "éb́"]
    for name, user, data, sp in masters:
        mf = TTFont(io.BytesIO(data)); morder = mf.getGlyphOrder()
        hv = HBFont(vf_bytes, order, variations=dict(user)); hm = HBFont(data, morder)
        # 0.5 delta rounding (+0.5 IUP tolerance) + 0.1: the master's normalised coordinate is reached through F2Dot14-quantised fvar/avar values
        from props.C08 import _active_tuples, _norm_loc
        nl_ = _norm_loc(vf, dict(user))
        for g in morder:
            if g not in order: return "glyph %r of master %s is not in the built font" % (g, name)
            # built_value_within_half bounds the rounding at a master by 1/2 WITHOUT IUP optimisation; with it every tuple's deltas are
            # each approximated within its own tolerance of 1/2, so the budget grows with the tuples active at the location
            # (thorough tier, generated designspace #1280: 1.11 units at an off-axis master with four active tuples)
            n_act_ = max(1, _active_tuples(vf, g, nl_)) if optimize else 0
            tol = 0.5 + 0.5 * n_act_ + 0.1
            a = _pts(hv.outline(order.index(g))); b = _pts(hm.outline(morder.index(g)))
            if cff:
                # CFF2 blends are exact at masters up to the rounding of each relative operand's delta
                pass
            if len(a) != len(b) or any(isinstance(x, str) != isinstance(y, str) or (isinstance(x, str) and x != y) for x, y in zip(a, b)):
                return "outline structure of %r at master %s %r differs: built %r, master %r" % (g, name, user, a[:8], b[:8])
            devs = [max(abs(x[0] - y[0]), abs(x[1] - y[1])) for x, y in zip(a, b) if not isinstance(x, str)]
            if cff: over = [d for i, d in enumerate(devs) if d > 0.5 * (i + 1) + 0.01]
            else: over = [d for d in devs if d > tol]
            stats["max_outline_dev"] = max([stats.get("max_outline_dev", 0)] + devs)
            if over: return "outline of %r at master %s %r deviates by %.2f: built %r, master %r" % (g, name, user, max(over), a[:8], b[:8])
            wa = hv.advance(order.index(g)); wb = hm.advance(morder.index(g))
            stats["max_advance_dev"] = max(stats.get("max_advance_dev", 0), abs(wa - wb))
            if abs(wa - wb) > 1.01: return "advance of %r at master %s %r: built %r, master %r" % (g, name, user, wa, wb)
        present = set(morder)
        for t in texts:
            cm = mf.getBestCmap()
            if any(ord(c) not in cm for c in t): continue
            sa = hv.shape(t); sb = hm.shape(t)
            if [x[0] for x in sa] != [x[0] for x in sb]: return "text %r at master %s: built glyphs %r, master %r" % (t, name, sa, sb)
            for x, y in zip(sa, sb):
                d = max(abs(p - q) for p, q in zip(x[1:], y[1:]))
                stats["max_shape_dev"] = max(stats.get("max_shape_dev", 0), d)
                if d > 2.01: return "text %r at master %s %r: built %r, master %r" % (t, name, user, sa, sb)
        # font-wide metrics through MVAR
        from fontTools.varLib.mvar import MVAR_ENTRIES
        if "MVAR" in vf or True:
            from fontTools.varLib.models import normalizeLocation, piecewiseLinearMap
            from fontTools.varLib.varStore import VarStoreInstancer
            axes = {a.axisTag: (a.minValue, a.defaultValue, a.maxValue) for a in vf["fvar"].axes}
            nl = normalizeLocation(user, axes)
            if "avar" in vf:
                for k, m in vf["avar"].segments.items():
                    if k in nl and m: nl[k] = piecewiseLinearMap(nl[k], m)
            deltas = {}
            if "MVAR" in vf:
                inst = VarStoreInstancer(vf["MVAR"].table.VarStore, vf["fvar"].axes, nl)
                for rec in vf["MVAR"].table.ValueRecord: deltas[rec.ValueTag] = inst[rec.VarIdx]
            if not sp["sparse"]:
                for tag, (table, attr) in MVAR_ENTRIES.items():
                    if table not in vf or table not in mf or not hasattr(mf[table], attr): continue
                    got = getattr(vf[table], attr) + deltas.get(tag, 0); want = getattr(mf[table], attr)
                    if abs(got - want) > 0.51: return "metric %s (%s.%s) at master %s %r: built %.2f, master %r" % (tag, table, attr, name, user, got, want)
    return None

def check_axis_maps(vf_bytes, doc):
    """user-space coordinates reach the normalised coordinates the designspace's axis maps specify: at every map node and at the axis
    minimum / default / maximum, normalise through fvar and avar of the BUILT font and compare with the design-space normalisation"""
    from fontTools.ttLib import TTFont
    from fontTools.varLib.models import normalizeValue, piecewiseLinearMap
    vf = TTFont(io.BytesIO(vf_bytes))
    fv = {a.axisTag: (a.minValue, a.defaultValue, a.maxValue) for a in vf["fvar"].axes}
    for a in doc.axes:
        if not getattr(a, "map", None) or a.tag not in fv: continue
        dtrip = (a.map_forward(a.minimum), a.map_forward(a.default), a.map_forward(a.maximum))
        if not (dtrip[0] <= dtrip[1] <= dtrip[2]): continue
        for u in sorted(set([a.minimum, a.default, a.maximum] + [u_ for u_, _ in a.map if a.minimum <= u_ <= a.maximum])):
            n_ = normalizeValue(u, fv[a.tag])
            seg = vf["avar"].segments.get(a.tag) if "avar" in vf else None
            if seg: n_ = piecewiseLinearMap(n_, seg)
            want = normalizeValue(a.map_forward(u), dtrip)
            if abs(n_ - want) > 3.0 / 16384:
                return "axis %s: user value %r normalises to %.5f through the built fvar/avar, the axis map says %.5f (map %r)" % (a.tag, u, n_, want, a.map)
    return None

def sweeps(tier, rng):
    from fontTools import varLib
    from fontTools.ttLib import TTFont
    from lib.hb import save_bytes
    nf = 120 if tier == "quick" else 200 if tier == "search" else 3000
    stats = {}
    def run_generated():
        for i in range(nf):
            cff = i % 2 == 1
            try:
                doc, masters, desc = gen_designspace(rng, cff)
            except Exception as e:
                yield (("generated", i), "designspace generator failed: %r" % (e,)); continue
            optimize = rng.chance(50)
            try:
                vf, model, _ = varLib.build(doc, optimize=optimize)
                vb = save_bytes(vf)
            except Exception as e:
                import traceback
                yield (("generated", i, str(desc)), "varLib.build raised %r\n%s" % (e, traceback.format_exc()[-800:])); continue
            try: bad = compare_at_masters(vb, masters, optimize, stats, cff, desc["texts"]) or check_axis_maps(vb, doc)
            except Exception as e:
                import traceback
                bad = "comparison raised %r %s" % (e, traceback.format_exc()[-600:])
            yield (("generated", i, str(desc), optimize), bad)
    def run_corpus():
        # stored designspaces whose masters exist as TTX next to them (varLib test data)
        import glob
        from fontTools.designspaceLib import DesignSpaceDocument
        base = "/repo/Tests/varLib/data"
        names = ["Build.designspace", "BuildMain.designspace", "SparseMasters.designspace", "TestBASE.designspace", "InterpolateLayout.designspace",
                 "BuildAvarSingleAxis.designspace", "IncompatibleLookupTypes.designspace"]
        done = 0
        for dsn in sorted(glob.glob(os.path.join(base, "*.designspace"))):
            if done >= (4 if tier == "quick" else 12 if tier == "search" else 100): break
            try:
                doc = DesignSpaceDocument.fromfile(dsn)
                masters = []
                ok = True
                for s in doc.sources:
                    stem = os.path.splitext(os.path.basename(s.filename))[0]
                    cands = sorted(glob.glob(os.path.join(base, "master_ttx_*", stem + ".ttx")))
                    if not cands: ok = False; break
                    f = TTFont(); f.importXML(cands[0]); s.font = TTFont(io.BytesIO(save_bytes(f)))
                if not ok or any(getattr(s, "layerName", None) for s in doc.sources): continue
                if any(getattr(a, "values", None) is not None for a in doc.axes) or getattr(doc, "axisMappings", None): continue      # discrete axes / avar2 cross-axis maps: the user location of a master is not map_backward of its design location
                vf, _, _ = varLib.build(doc)
                vb = save_bytes(vf)
            except Exception:
                continue
            done += 1
            ms = []
            for s in doc.sources:
                if any(t not in s.font for t in ("head", "hhea", "hmtx", "maxp", "cmap")): continue     # a sparse layer, not a readable font
                user = {}
                for a in doc.axes: user[a.tag] = a.map_backward(s.location.get(a.name, a.map_forward(a.default)))
                ms.append((s.name or s.filename, user, save_bytes(s.font), {"sparse": "OS/2" not in s.font}))
            try: bad = compare_at_masters(vb, ms, True, stats, "CFF2" in vf)
            except Exception as e: bad = "comparison raised %r" % (e,)
            yield ((os.path.basename(dsn),), bad)
    def report():
        yield (("statistics", str(sorted(stats.items()))), None)
    return [Sweep("generated-designspaces", run_generated), Sweep("corpus-designspaces", run_corpus), Sweep("deviation-statistics", report)]

def witness(fid): return None
