"""C06 — serialising layout tables never changes how text is shaped."""
import io, os
from lib.ser import Ok, Err, res, Raw, Opt
from lib.deser import decode
from lib import corpus
from vcheck import Corr, Sweep

RULE = ("packer: writer graphs captured from compiling every GSUB/GPOS/GDEF/BASE/MATH table of corpus fonts and of generated fonts with "
        "the pure-Python packer (sharing, Extension lookups, sortCoverageLast, DontShare) — the model must reproduce the bytes exactly; "
        "sweeps: feature files whose tables overflow 16-bit offsets at several levels (class-pair tables, many lookups, long ligature sets), "
        "repacker off/auto, GPOS compaction 0..9, checked pair by pair / sequence by sequence against the rule text through HarfBuzz.")
TRUSTED = ["uharfbuzz (shaper, and the HarfBuzz repacker, which is C code)"]
ASSUMPTIONS = ["only the pure-Python packer is modelled in Coq; overflow repair (split/promote) and compaction are covered by the sweeps"]

def N(tier, q, t): return q if tier == "quick" else t

def _capture_graphs(fonts_data, limit_nodes=1500):
    """compile layout tables with the pure-Python packer, capturing each writer graph and the bytes produced"""
    from fontTools.ttLib import TTFont
    from fontTools.ttLib.tables import otBase
    from fontTools.ttLib.tables.otBase import OTTableWriter
    from fontTools.config import Config
    captured = []
    orig = OTTableWriter.getAllData
    def dump(w, ids, nodes):
        if id(w) in ids: return ids[id(w)]
        nid = len(ids); ids[id(w)] = nid; nodes.append(None)
        items = []
        for it in w.items:
            if hasattr(it, "getCountData"): items.append(Raw([0] + _ser_bytes(it.getCountData())))
            elif hasattr(it, "subWriter"): items.append(Raw([1, it.offsetSize, dump(it.subWriter, ids, nodes)]))
            else: items.append(Raw([0] + _ser_bytes(bytes(it))))
        nodes[nid] = (items, hasattr(w, "Extension"), hasattr(w, "DontShare"), hasattr(w, "sortCoverageLast"), getattr(w, "name", None) == "Coverage")
        return nid
    def wrapped(self, remove_duplicate=True):
        ids = {}; nodes = []
        try:
            root = dump(self, ids, nodes)
        except RecursionError:
            return orig(self, remove_duplicate)
        try:
            out = orig(self, remove_duplicate)
            r = Ok(list(out))
        except otBase.OTLOffsetOverflowError:
            captured.append((nodes, root, remove_duplicate, Err(7, "OTLOffsetOverflowError"))); raise
        if len(nodes) <= limit_nodes: captured.append((nodes, root, remove_duplicate, r))
        return out
    OTTableWriter.getAllData = wrapped
    try:
        for label, data in fonts_data:
            try:
                f = TTFont(io.BytesIO(data), lazy=False)
                f.cfg["fontTools.ttLib.tables.otBase:USE_HARFBUZZ_REPACKER"] = False
                for tag in ("GSUB", "GPOS", "GDEF", "BASE", "MATH", "STAT", "JSTF"):
                    if tag in f:
                        try: f[tag].compile(f)
                        except Exception: pass
            except Exception:
                continue
    finally:
        OTTableWriter.getAllData = orig
    return captured

def _ser_bytes(b): return [len(b)] + list(b)

FEA_SMALL = """
languagesystem DFLT dflt; languagesystem latn dflt;
@A = [a b c]; @B = [d e f];
feature liga { sub a b by c; sub a b c by d; sub f i by f_i; } liga;
feature kern { pos a b -10; pos @A @B -20; pos [a b] [a c] 15; pos a <0 0 0 0> d <7 0 7 0>; } kern;
feature ss01 { sub a by b; sub c by d; } ss01;
feature ccmp { sub a by b c; lookup X { sub b from [c d e]; } X; } ccmp;
feature mark { markClass [g] <anchor 0 0> @M; pos base [a b] <anchor 10 20> mark @M; } mark;
"""

def small_font(fea=FEA_SMALL, extra=0):
    from fontTools.fontBuilder import FontBuilder
    from fontTools.pens.ttGlyphPen import TTGlyphPen
    order = [".notdef"] + list("abcdefghi") + ["f_i"] + ["x%d" % i for i in range(extra)]
    fb = FontBuilder(1000, isTTF=True); fb.setupGlyphOrder(order); fb.setupCharacterMap({ord(c): c for c in "abcdefghi"})
    pen = TTGlyphPen(None); pen.moveTo((0, 0)); pen.lineTo((100, 0)); pen.lineTo((50, 100)); pen.closePath(); g = pen.glyph()
    fb.setupGlyf({n: g for n in order}); fb.setupHorizontalMetrics({n: (500, 0) for n in order}); fb.setupHorizontalHeader(ascent=800, descent=-200)
    fb.setupNameTable({"familyName": "L", "styleName": "R"}); fb.setupOS2(); fb.setupPost()
    if fea: fb.addOpenTypeFeatures(fea)
    b = io.BytesIO(); fb.save(b); return b.getvalue()

def correspondences(tier, rng):
    fonts = []
    cands = [p for p in corpus.binaries((".ttf", ".otf")) if os.path.getsize(p) < 200000]
    from fontTools.ttLib import TTFont
    withlayout = [p for p in cands if any(t in TTFont(p, lazy=True).reader.keys() for t in ("GSUB", "GPOS"))]
    for p in corpus.pick(rng, withlayout, N(tier, 25, 400)): fonts.append((corpus.rel(p), open(p, "rb").read()))
    try: fonts.append(("generated-small-layout", small_font()))
    except Exception: pass
    caps = _capture_graphs(fonts)
    cases = caps[: N(tier, 120, 5000)]
    def enc(x):
        nodes, root, rd, out = x
        return ([Raw([len(its)] + [v for it in its for v in it.ints] + [int(e), int(d), int(c), int(v_)]) for its, e, d, c, v_ in nodes], root, rd)
    out = [Corr("getAllData", cases, lambda x: x[3], enc=enc)]
    # the overflow repairs that cut a subtable in two, on the real otTables objects
    from fontTools.ttLib.tables import otTables as ot
    from lib.ser import Opt
    def nm(g): return "g%d" % g
    def un(n_): return int(n_[1:])
    ccases = []
    for _ in range(N(tier, 400, 5000)):
        k = rng.randint(0, 9); cov = rng.sample(range(40), k); recs = [rng.randint(0, 999) for _ in range(k)]
        if k and rng.chance(5): recs = recs[:-1]
        ccases.append((rng.choice(["pair1", "single2"]), cov, recs))
    def impl_split_cov(x):
        kind, cov, recs = x
        def go():
            if kind == "pair1":
                old = ot.PairPos(); old.Format = 1; old.ValueFormat1 = 4; old.ValueFormat2 = 0; old.PairSet = list(recs); new = ot.PairPos()
            else:
                old = ot.SinglePos(); old.Format = 2; old.ValueFormat = 4; old.Value = list(recs); new = ot.SinglePos()
            old.Coverage = ot.Coverage(); old.Coverage.glyphs = [nm(g) for g in cov]
            ok = ot.splitPairPos(old, new, None) if kind == "pair1" else ot.splitSinglePos(old, new, None)
            if not ok: return Opt(None)
            get = (lambda t: t.PairSet) if kind == "pair1" else (lambda t: t.Value)
            return Opt((([un(g) for g in old.Coverage.glyphs], list(get(old))), ([un(g) for g in new.Coverage.glyphs], list(get(new)))), some=True)
        return go()
    def cmp_split_cov(x, io_, mo):
        # SinglePos format 2 decides by the coverage length, PairPos format 1 by the record count: equal in well-formed tables
        if len(x[1]) != len(x[2]): return True
        return io_ == mo
    out.append(Corr("split_cov", ccases, impl_split_cov, enc=lambda x: (x[1], x[2]), compare=cmp_split_cov))
    kcases = []
    for _ in range(N(tier, 400, 5000)):
        ncls = rng.randint(0, 7); cov = rng.sample(range(40), rng.randint(0, 12))
        defs = {g: rng.randint(1, max(1, ncls - 1)) for g in cov if rng.chance(65)} if ncls >= 2 else {}
        kcases.append((cov, list(defs.items()), [rng.randint(0, 999) for _ in range(ncls)]))
    def impl_split_class(x):
        cov, defs, rows = x
        old = ot.PairPos(); old.Format = 2; old.ValueFormat1 = 4; old.ValueFormat2 = 0; old.Class2Count = 1; old.ClassDef2 = ot.ClassDef(); old.ClassDef2.classDefs = {}
        old.Coverage = ot.Coverage(); old.Coverage.glyphs = [nm(g) for g in cov]
        old.ClassDef1 = ot.ClassDef(); old.ClassDef1.classDefs = {nm(g): c for g, c in defs}; old.Class1Record = list(rows)
        new = ot.PairPos()
        if not ot.splitPairPos(old, new, None): return Opt(None)
        pack = lambda t: (([un(g) for g in t.Coverage.glyphs], [(un(g), c) for g, c in t.ClassDef1.classDefs.items()]), list(t.Class1Record))
        return Opt((pack(old), pack(new)), some=True)
    def oracle_split_class(x):
        """the PROPERTY on the implementation: for every glyph, the two halves tried in order give the row the whole subtable gave"""
        cov, defs, rows = x
        r = impl_split_class(x)
        if not r.some: return None
        (a, b) = r.v
        def look(t, g):
            (c_, d_), rw = t
            if g not in c_: return None
            cl = dict(d_).get(g, 0)
            return rw[cl] if cl < len(rw) else "out of range"
        for g in range(40):
            whole = look(((cov, defs), rows), g); halves = look(a, g)
            if halves is None: halves = look(b, g)
            if whole != halves: return "glyph %d: the subtable gives row %r, the two halves give %r" % (g, whole, halves)
        return None
    out.append(Corr("split_class", kcases, impl_split_class, oracle=oracle_split_class))
    return out

# ------------------------------------------------------------------ sweeps
def _kern_font(n1, n2, ngl_per_class=1, fmt2=True, value2=False, seed=0):
    """font with glyphs L000.. and R000.. and class kerning rules; returns (bytes, rules dict (l, r) -> (adv1, adv2))"""
    from fontTools.fontBuilder import FontBuilder
    from fontTools.pens.ttGlyphPen import TTGlyphPen
    L = ["L%03d" % i for i in range(n1)]; R = ["R%03d" % i for i in range(n2)]
    order = [".notdef"] + L + R
    fb = FontBuilder(1000, isTTF=True); fb.setupGlyphOrder(order); fb.setupCharacterMap({0xE000 + i: n for i, n in enumerate(order[1:])})
    pen = TTGlyphPen(None); pen.moveTo((0, 0)); pen.lineTo((100, 0)); pen.lineTo((50, 100)); pen.closePath(); g = pen.glyph()
    fb.setupGlyf({n: g for n in order}); fb.setupHorizontalMetrics({n: (500, 0) for n in order}); fb.setupHorizontalHeader(ascent=800, descent=-200)
    fb.setupNameTable({"familyName": "K", "styleName": "R"}); fb.setupOS2(); fb.setupPost()
    rules = {}; lines = ["languagesystem DFLT dflt;", "feature kern {"]
    for i, l in enumerate(L):
        for j, r in enumerate(R):
            v = -((i * 7 + j * 3 + seed) % 97) - 1
            if value2 and (i + j) % 5 == 0:
                rules[(l, r)] = (0, 7 + (i % 3)); lines.append("  pos [%s] <0 0 0 0> [%s] <%d 0 %d 0>;" % (l, r, 7 + (i % 3), 7 + (i % 3)))
            else:
                rules[(l, r)] = (v, 0); lines.append("  pos [%s] [%s] %d;" % (l, r, v))
    lines.append("} kern;")
    return fb, "\n".join(lines), rules, order

def sweeps(tier, rng):
    from fontTools.ttLib import TTFont
    from lib.hb import HBFont, save_bytes
    OPT_REPACK = "fontTools.ttLib.tables.otBase:USE_HARFBUZZ_REPACKER"
    OPT_COMPACT = "fontTools.otlLib.optimize.gpos:COMPRESSION_LEVEL"
    def check_kern(data, order, rules, sample):
        h = HBFont(data, order)
        gid = {n: i for i, n in enumerate(order)}
        for (l, r) in sample:
            res_ = h.shape(gids=None, text=chr(0xE000 + gid[l] - 1) + chr(0xE000 + gid[r] - 1), features={"kern": True})
            a1 = res_[0][1] - 500; a2 = res_[1][1] - 500; x2 = res_[1][3]
            want = rules[(l, r)]
            if (a1, a2) != want: return "pair %s %s: rules say advances %r, the compiled font gives %r" % (l, r, want, (a1, a2))
        return None
    def run_overflow():
        # class-pair tables of growing size: beyond 64k the subtable must be split / lookups promoted to Extension
        sizes = [(12, 10), (301, 120)] if tier == "quick" else [(12, 10), (150, 100), (301, 120), (400, 200)]
        for (n1, n2) in sizes:
            for repacker in (False, None):
                for value2 in (False, True):
                    bad = None
                    try:
                        fb, fea, rules, order = _kern_font(n1, n2, value2=value2)
                        if repacker is not None: fb.font.cfg[OPT_REPACK] = repacker
                        fb.addOpenTypeFeatures(fea)
                        data = save_bytes(fb.font)
                        L = [n for n in order if n.startswith("L")]; R = [n for n in order if n.startswith("R")]
                        # every first glyph (incl. the classes at split boundaries) x a few second glyphs
                        sample = [(l, R[(i * 5) % len(R)]) for i, l in enumerate(L)] + [(l, R[-1]) for l in L] + [(L[0], r) for r in R]
                        if tier != "quick": sample += [(l, r) for l in L[::7] for r in R[::5]]
                        bad = check_kern(data, order, rules, sample)
                    except Exception as e:
                        bad = "building/compiling the %dx%d class-pair table raised %r" % (n1, n2, e)
                    yield (("class-kerning", n1, n2, "repacker=%r" % (repacker,), "value2=%r" % value2), bad)
    def run_compaction():
        for level in ([0, 1, 5, 9] if tier == "quick" else range(10)):
            for value2 in (False, True):
                bad = None
                try:
                    fb, fea, rules, order = _kern_font(14, 9, value2=value2, seed=level)
                    # make the rules sparse (compaction regroups rows with many zeros)
                    fea = "\n".join(l for i, l in enumerate(fea.split("\n")) if not l.startswith("  pos") or (i * 7 + level) % 3 != 0)
                    rules = {k: v for k, v in rules.items()}
                    fb.font.cfg[OPT_COMPACT] = level
                    fb.addOpenTypeFeatures(fea)
                    kept = set()
                    for l_ in fea.split("\n"):
                        if l_.startswith("  pos"):
                            parts = l_.replace("[", " ").replace("]", " ").split(); kept.add((parts[1], parts[6] if "<" in l_ else parts[2]))
                    data = save_bytes(fb.font)
                    sample = sorted(kept)
                    zero = [k for k in rules if k not in kept]
                    rules2 = dict(rules);
                    for k in zero: rules2[k] = (0, 0)
                    bad = check_kern(data, order, rules2, sample + zero[:40])
                except Exception as e:
                    bad = "compaction level %d raised %r" % (level, e)
                yield (("compaction", level, "value2=%r" % value2), bad)
    def run_repacker_equivalence():
        """pure-Python packer vs HarfBuzz repacker: the compiled tables must shape identically"""
        cands = [p for p in corpus.binaries((".ttf", ".otf")) if os.path.getsize(p) < 200000]
        withlayout = [p for p in cands if any(t in TTFont(p, lazy=True).reader.keys() for t in ("GSUB", "GPOS"))]
        fonts = [(corpus.rel(p), open(p, "rb").read()) for p in corpus.pick(rng, withlayout, 6 if tier == "quick" else 40)]
        try: fonts.append(("generated-small-layout", small_font()))
        except Exception: pass
        for label, data in fonts:
            bad = None
            try:
                outs = []
                for rp in (False, True):
                    f = TTFont(io.BytesIO(data), lazy=False); f.cfg[OPT_REPACK] = rp
                    for tag in ("GSUB", "GPOS", "GDEF"):
                        if tag in f: f[tag].ensureDecompiled() if hasattr(f[tag], "ensureDecompiled") else None
                    outs.append(save_bytes(f))
                order = TTFont(io.BytesIO(data)).getGlyphOrder()
                hs = [HBFont(data, order)] + [HBFont(o, order) for o in outs]
                cm = sorted((TTFont(io.BytesIO(data)).getBestCmap() or {}).keys())
                texts = ["".join(chr(rng.choice(cm)) for _ in range(rng.randint(1, 6))) for _ in range(25)] if cm else []
                for t in texts:
                    r0 = hs[0].shape(t)
                    if hs[1].shape(t) != r0: bad = "text %r shapes differently after recompiling with the pure-Python packer" % t; break
                    if hs[2].shape(t) != r0: bad = "text %r shapes differently after recompiling with the HarfBuzz repacker" % t; break
            except Exception as e:
                bad = None
            yield ((label, "repack"), bad)
    def run_splits():
        """many ligatures / alternates / multiple substitutions in one lookup: overflow forces subtable splitting"""
        from fontTools.fontBuilder import FontBuilder
        from fontTools.pens.ttGlyphPen import TTGlyphPen
        for kind in ("ligature", "multiple", "alternate"):
            for nn in ([400] if tier == "quick" else [400, 1200]):
                bad = None
                try:
                    base = ["b%03d" % i for i in range(nn)]; outg = ["o%03d" % i for i in range(nn)]
                    order = [".notdef"] + base + outg + ["z1", "z2", "z3"]
                    fb = FontBuilder(1000, isTTF=True); fb.setupGlyphOrder(order); fb.setupCharacterMap({0xE000 + i: n for i, n in enumerate(order[1:])})
                    pen = TTGlyphPen(None); pen.moveTo((0, 0)); pen.lineTo((100, 0)); pen.lineTo((50, 100)); pen.closePath(); g = pen.glyph()
                    fb.setupGlyf({n: g for n in order}); fb.setupHorizontalMetrics({n: (500 + (i % 9), 0) for i, n in enumerate(order)}); fb.setupHorizontalHeader(ascent=800, descent=-200)
                    fb.setupNameTable({"familyName": "S", "styleName": "R"}); fb.setupOS2(); fb.setupPost()
                    lines = ["languagesystem DFLT dflt;", "feature ccmp {"]
                    expect = {}
                    long_ = " ".join(["z1 z2 z3"] * 12)
                    for i in range(nn):
                        if kind == "ligature": lines.append("  sub %s %s by %s;" % (base[i], long_, outg[i])); expect[i] = ([base[i]] + ["z1", "z2", "z3"] * 12, [outg[i]])
                        elif kind == "multiple": lines.append("  sub %s by %s %s;" % (base[i], outg[i], long_)); expect[i] = ([base[i]], [outg[i]] + ["z1", "z2", "z3"] * 12)
                        else: lines.append("  sub %s from [%s %s];" % (base[i], outg[i], " ".join(outg[(i + k) % nn] for k in range(1, 40)))); expect[i] = ([base[i]], [outg[i]])     # feature value 1 selects the first alternate
                    lines.append("} ccmp;")
                    fb.font.cfg[OPT_REPACK] = False
                    fb.addOpenTypeFeatures("\n".join(lines))
                    data = save_bytes(fb.font)
                    h = HBFont(data, order); gid = {n: i for i, n in enumerate(order)}
                    for i in list(range(0, nn, max(1, nn // 60))) + [nn - 1]:
                        inp, out = expect[i]
                        got = [g_[0] for g_ in h.shape("".join(chr(0xE000 + gid[n] - 1) for n in inp), features={"ccmp": True})]
                        if got != out: bad = "%s substitution %d: rules say %r -> %r, the compiled font gives %r" % (kind, i, inp[:3], out[:3], got[:5]); break
                except Exception as e:
                    bad = "large %s lookup raised %r" % (kind, e)
                yield (("split", kind, nn), bad)
    def run_pair_glyph_splits():
        """glyph-pair kerning (PairPos format 1) large enough to overflow: odd and even numbers of first glyphs, pure-Python packer"""
        from fontTools.fontBuilder import FontBuilder
        from fontTools.pens.ttGlyphPen import TTGlyphPen
        for nfirst in ([401, 400] if tier == "quick" else [400, 401, 413, 530, 777]):
            for repacker in ((False,) if tier == "quick" else (False, None)):
                bad = None
                try:
                    L = ["L%04d" % i for i in range(nfirst)]; R = ["R%04d" % i for i in range(50)]
                    order = [".notdef"] + L + R
                    fb = FontBuilder(1000, isTTF=True); fb.setupGlyphOrder(order); fb.setupCharacterMap({0xE000 + i: n for i, n in enumerate(order[1:])})
                    pen = TTGlyphPen(None); pen.moveTo((0, 0)); pen.lineTo((100, 0)); pen.lineTo((50, 100)); pen.closePath(); g = pen.glyph()
                    fb.setupGlyf({n: g for n in order}); fb.setupHorizontalMetrics({n: (500, 0) for n in order}); fb.setupHorizontalHeader(ascent=800, descent=-200)
                    fb.setupNameTable({"familyName": "P1", "styleName": "R"}); fb.setupOS2(); fb.setupPost()
                    rules = {}; lines = ["languagesystem DFLT dflt;", "feature kern {"]
                    for i, l in enumerate(L):
                        for j, r in enumerate(R):
                            v = -((i * 53 + j * 7) % 997) - 1          # every row distinct: identical PairSets would be shared by the packer
                            rules[(l, r)] = (v, 0); lines.append("  pos %s %s %d;" % (l, r, v))
                    lines.append("} kern;")
                    if repacker is not None: fb.font.cfg[OPT_REPACK] = repacker
                    if nfirst % 2 or rng.chance(50):
                        # ONE format-1 subtable holding every pair (what a table built through otlLib or read from a file may look
                        # like): the compiler itself must split it when the PairSet offsets overflow
                        from fontTools.otlLib import builder as otl
                        fb.addOpenTypeFeatures("languagesystem DFLT dflt;\nfeature kern {\n  pos %s %s -1;\n} kern;" % (L[0], R[0]))
                        pairs = {k: (otl.buildValue({"XAdvance": v[0]}), None) for k, v in rules.items()}
                        lk = fb.font["GPOS"].table.LookupList.Lookup[0]
                        lk.SubTable = [otl.buildPairPosGlyphsSubtable(pairs, fb.font.getReverseGlyphMap())]; lk.SubTableCount = 1
                    else:
                        fb.addOpenTypeFeatures("\n".join(lines))
                    data = save_bytes(fb.font)
                    sample = [(l, R[(i * 3) % 50]) for i, l in enumerate(L)] + [(L[-1], r) for r in R] + [(L[nfirst // 2 + d], R[0]) for d in (-2, -1, 0, 1, 2)]
                    bad = check_kern(data, order, rules, sample)
                except Exception as e:
                    bad = "building %d x 50 glyph pairs raised %r" % (nfirst, e)
                yield (("glyph-pair-split", nfirst, "repacker=%r" % (repacker,)), bad)
    def run_forced_splits():
        """every (lookup, subtable) of small generated fonts whose type has an entry in otTables.splitTable is split by calling
        fixSubTableOverFlows directly (first call: DontShare; second call: the split and the insertion into the lookup) — no
        64k of data needed, so odd and even class / glyph counts and subtables that are followed by others all occur; the font
        must shape every sample text as before"""
        from fontTools.fontBuilder import FontBuilder
        from fontTools.pens.ttGlyphPen import TTGlyphPen
        from fontTools.ttLib.tables import otTables as ot
        from fontTools.ttLib.tables.otBase import OverflowErrorRecord
        bases = list("abcdefgh"); marks = ["m%d" % i for i in range(8)]; extra = ["f_i", "x1", "x2", "x3"]
        order = [".notdef"] + bases + marks + extra
        gid = {n: i for i, n in enumerate(order)}
        def txt(names): return "".join(chr(0xE000 + gid[n] - 1) for n in names)
        def build(fea):
            fb = FontBuilder(1000, isTTF=True); fb.setupGlyphOrder(order); fb.setupCharacterMap({0xE000 + i: n for i, n in enumerate(order[1:])})
            pen = TTGlyphPen(None); pen.moveTo((0, 0)); pen.lineTo((100, 0)); pen.lineTo((50, 100)); pen.closePath(); g = pen.glyph()
            fb.setupGlyf({n: g for n in order}); fb.setupHorizontalMetrics({n: (500 + 10 * i, 0) for i, n in enumerate(order)}); fb.setupHorizontalHeader(ascent=800, descent=-200)
            fb.setupNameTable({"familyName": "FS", "styleName": "R"}); fb.setupOS2(); fb.setupPost()
            fb.addOpenTypeFeatures(fea)
            fb.font.cfg[OPT_REPACK] = False
            return fb.font
        nfonts = N(tier, 6, 40)
        for k in range(nfonts):
            ncls = 2 + (k % 4)                                   # 2..5 mark classes: odd and even
            nb = rng.randint(2, 8)
            lines = ["languagesystem DFLT dflt;"]
            cls_of = {}
            for i, m in enumerate(marks[:rng.randint(ncls, 8)]):
                c = i % ncls; cls_of[m] = c
                lines.append("markClass %s <anchor %d %d> @MC%d;" % (m, 10 * i + 3, 100 + 7 * i, c))
            lines.append("feature mark {")
            for j, b in enumerate(bases[:nb]):
                lines.append("  pos base %s %s;" % (b, " ".join("<anchor %d %d> mark @MC%d" % (50 + j + 13 * c, 300 + 100 * c + j, c) for c in range(ncls))))
            lines.append("} mark;")
            # kerning: glyph-pair exceptions, then (after a subtable break) class pairs over the same first glyphs, then more glyph pairs
            firsts = bases[:rng.randint(2, 8)]
            lines.append("feature kern {")
            for i, l in enumerate(firsts):
                for r in bases[:3]: lines.append("  pos %s %s %d;" % (l, r, -10 - 7 * i - gid[r]))
            lines.append("  subtable;")
            lines.append("  pos [%s] [%s] -50;" % (" ".join(firsts), " ".join(bases[:5])))
            lines.append("  pos [%s] [%s] -70;" % (" ".join(bases[3:6]), " ".join(bases[5:8])))
            lines.append("} kern;")
            # single positioning with distinct values (format 2), multiple / alternate / ligature substitutions
            lines.append("feature dist {")
            for i, b in enumerate(bases[:rng.randint(2, 8)]): lines.append("  pos %s <%d 0 %d 0>;" % (b, i + 1, 2 * i + 1))
            lines.append("} dist;")
            lines.append("feature ccmp {")
            for i, b in enumerate(bases[:rng.randint(2, 7)]): lines.append("  sub %s by x1 %s x2;" % (b, bases[(i + 1) % 8]))
            lines.append("} ccmp;")
            lines.append("feature salt {")
            for i, b in enumerate(bases[:rng.randint(2, 7)]): lines.append("  sub %s from [%s x3 x1];" % (b, bases[(i + 2) % 8]))
            lines.append("} salt;")
            lines.append("feature liga {")
            for i, b in enumerate(bases[:rng.randint(2, 7)]):
                lines.append("  sub %s %s by %s;" % (b, bases[(i + 1) % 8], extra[i % 4])); lines.append("  sub %s %s %s by x2;" % (b, bases[(i + 1) % 8], bases[(i + 3) % 8]))
            lines.append("} liga;")
            fea = "\n".join(lines)
            texts = [[b, m] for b in bases for m in cls_of] + [[l, r] for l in bases for r in bases] + [[b] for b in bases] \
                    + [[b, bases[(i + 1) % 8], bases[(i + 3) % 8]] for i, b in enumerate(bases)]
            feats = {"mark": True, "kern": True, "dist": True, "ccmp": True, "salt": True, "liga": True}
            featsets = [{"mark": True, "kern": True, "dist": True}, {"ccmp": True, "kern": False}, {"salt": True, "kern": False}, {"liga": True, "kern": False}]
            try:
                font0 = build(fea)
                data0 = save_bytes(font0)
                h0 = HBFont(data0, order)
                want = [[h0.shape(txt(t), features=f) for t in texts] for f in featsets]
                sites = []
                for tag in ("GSUB", "GPOS"):
                    for li, lk in enumerate(font0[tag].table.LookupList.Lookup):
                        for si, st in enumerate(lk.SubTable):
                            real = getattr(st, "ExtSubTable", st)
                            if real.__class__.LookupType in ot.splitTable[tag]: sites.append((tag, li, si, type(real).__name__, len(lk.SubTable)))
            except Exception as e:
                yield (("forced-split", k, "build"), "building the feature file raised %r" % (e,)); continue
            for (tag, li, si, tname, nsub) in sites:
                bad = None
                try:
                    font = TTFont(io.BytesIO(data0)); font.cfg[OPT_REPACK] = False
                    font[tag].table                                        # decompile
                    # the record of a realistic overflow: into the Coverage (the subtable is cut in half), or at the offset of the
                    # i-th Sequence / AlternateSet / LigatureSet (the cut is just before it)
                    real0 = getattr(font[tag].table.LookupList.Lookup[li].SubTable[si], "ExtSubTable", font[tag].table.LookupList.Lookup[li].SubTable[si])
                    item = {"MultipleSubst": "Sequence", "AlternateSubst": "AlternateSet", "LigatureSubst": "LigatureSet"}.get(tname)
                    nitems = len(getattr(real0, {"MultipleSubst": "mapping", "AlternateSubst": "alternates", "LigatureSubst": "ligatures"}.get(tname, "x"), ()) or ())
                    if item and nitems >= 2 and rng.chance(50): rec = OverflowErrorRecord((tag, li, si, item, rng.randint(2, nitems)))
                    else: rec = OverflowErrorRecord((tag, li, si, "Coverage", None))
                    ok1 = ot.fixSubTableOverFlows(font, rec)
                    ok2 = ot.fixSubTableOverFlows(font, rec)
                    data1 = save_bytes(font)
                    h1 = HBFont(data1, order)
                    for f, ws in zip(featsets, want):
                        for t, w in zip(texts, ws):
                            got = h1.shape(txt(t), features=f)
                            if got != w:
                                bad = "%s lookup %d, %s subtable %d of %d split (%r): %r under %r shaped %r before and %r after" % (tag, li, tname, si, nsub, ok2, t, sorted(f), w, got); break
                        if bad: break
                except Exception as e:
                    bad = "%s lookup %d subtable %d (%s): forced split raised %r" % (tag, li, si, tname, e)
                yield (("forced-split", k, tag, li, si, tname, "fea=" + fea if bad else ""), bad)
    def run_compaction_handbuilt():
        """compaction applied to PairPos format 2 subtables that are valid but not what the builder emits: ClassDef1 lists glyphs
        outside the Coverage, classes without covered glyphs are all-zero"""
        from fontTools.fontBuilder import FontBuilder
        from fontTools.pens.ttGlyphPen import TTGlyphPen
        from fontTools.otlLib.optimize import compact
        for it in range(4 if tier == "quick" else 24):
            for level in ([1, 5] if tier == "quick" else [1, 3, 5, 9]):
                bad = None
                try:
                    L = ["L%02d" % i for i in range(14)]; R = ["R%02d" % i for i in range(9)]
                    order = [".notdef"] + L + R
                    fb = FontBuilder(1000, isTTF=True); fb.setupGlyphOrder(order); fb.setupCharacterMap({0xE000 + i: n for i, n in enumerate(order[1:])})
                    pen = TTGlyphPen(None); pen.moveTo((0, 0)); pen.lineTo((100, 0)); pen.lineTo((50, 100)); pen.closePath(); g = pen.glyph()
                    fb.setupGlyf({n: g for n in order}); fb.setupHorizontalMetrics({n: (500, 0) for n in order}); fb.setupHorizontalHeader(ascent=800, descent=-200)
                    fb.setupNameTable({"familyName": "CH", "styleName": "R"}); fb.setupOS2(); fb.setupPost()
                    # classes of first glyphs 1..4 and second glyphs 1..3; sparse values
                    c1 = {l: 1 + (i * 5 + it) % 4 for i, l in enumerate(L)}; c2 = {r: 1 + (i + it) % 3 for i, r in enumerate(R)}
                    vals = {(a, b): (((a * 31 + b * 17 + it) % 7) - 3) * 10 if (a + b + it) % 3 else 0 for a in range(1, 5) for b in range(1, 4)}
                    lines = ["languagesystem DFLT dflt;", "feature kern {"]
                    for a in range(1, 5):
                        for b in range(1, 4):
                            if vals[(a, b)]: lines.append("  pos [%s] [%s] %d;" % (" ".join(l for l in L if c1[l] == a), " ".join(r for r in R if c2[r] == b), vals[(a, b)]))
                    lines.append("} kern;")
                    fb.font.cfg[OPT_COMPACT] = 0
                    fb.addOpenTypeFeatures("\n".join(lines))
                    f = fb.font
                    # make it "hand-built": shrink the Coverage of every class-pair subtable, ClassDef1 keeps the dropped glyphs
                    dropped = set()
                    for lk in f["GPOS"].table.LookupList.Lookup:
                        for st in lk.SubTable:
                            st = getattr(st, "ExtSubTable", st)
                            if getattr(st, "Format", None) == 2 and hasattr(st, "ClassDef1") and len(st.Coverage.glyphs) > 2:
                                drop = st.Coverage.glyphs[(it * 3) % len(st.Coverage.glyphs)]
                                st.Coverage.glyphs = [g_ for g_ in st.Coverage.glyphs if g_ != drop]; dropped.add(drop)
                    before = save_bytes(f)
                    f2 = TTFont(io.BytesIO(before)); compact(f2, level); after = save_bytes(f2)
                    h0 = HBFont(before, order); h1 = HBFont(after, order); gid = {n: i for i, n in enumerate(order)}
                    for l in L:
                        for r in R:
                            t = chr(0xE000 + gid[l] - 1) + chr(0xE000 + gid[r] - 1)
                            a = h0.shape(t, features={"kern": True}); b = h1.shape(t, features={"kern": True})
                            if a != b: bad = "pair %s %s (first glyph %s the coverage): uncompacted %r, compacted at level %d %r" % (l, r, "outside" if l in dropped else "inside", [x[1] for x in a], level, [x[1] for x in b]); break
                        if bad: break
                except Exception as e:
                    bad = "hand-built compaction case raised %r" % (e,)
                yield (("compaction-handbuilt", it, level), bad)
    return [Sweep("overflow-kerning", run_overflow), Sweep("compaction", run_compaction), Sweep("repacker-equivalence", run_repacker_equivalence), Sweep("subtable-splits", run_splits),
            Sweep("glyph-pair-splits", run_pair_glyph_splits), Sweep("forced-splits", run_forced_splits), Sweep("compaction-handbuilt", run_compaction_handbuilt)]

def classify(sweep, case, failure):
    return None
def witness(fid):
    if fid == "F3":
        return _f3_witness()
    return None

def _f3_witness():
    from fontTools.fontBuilder import FontBuilder
    from fontTools.pens.ttGlyphPen import TTGlyphPen
    from lib.hb import HBFont, save_bytes
    fea = "languagesystem DFLT dflt;\nfeature kern {\n pos [A] [B] 0;\n pos [D] [B] -30;\n subtable;\n pos [A C] [B] -50;\n} kern;"
    outs = []
    for level in (0, 5):
        order = [".notdef", "A", "B", "C", "D"]
        fb = FontBuilder(1000, isTTF=True); fb.setupGlyphOrder(order); fb.setupCharacterMap({65: "A", 66: "B", 67: "C", 68: "D"})
        pen = TTGlyphPen(None); pen.moveTo((0, 0)); pen.lineTo((100, 0)); pen.lineTo((50, 100)); pen.closePath(); g = pen.glyph()
        fb.setupGlyf({n: g for n in order}); fb.setupHorizontalMetrics({n: (500, 0) for n in order}); fb.setupHorizontalHeader(ascent=800, descent=-200)
        fb.setupNameTable({"familyName": "F3", "styleName": "R"}); fb.setupOS2(); fb.setupPost()
        fb.font.cfg["fontTools.otlLib.optimize.gpos:COMPRESSION_LEVEL"] = level
        fb.addOpenTypeFeatures(fea)
        outs.append(HBFont(save_bytes(fb.font), order).shape("AB", features={"kern": True}))
    return outs[0] != outs[1]
