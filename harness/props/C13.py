"""C13 — curve conversion stays within tolerance and keeps masters compatible."""
import math
from fractions import Fraction as F
from lib.ser import Ok, Err, res, Raw, Opt
from lib.deser import decode
from vcheck import Corr, Sweep

RULE = ("cubics with integer / dyadic control points from families: generic, nearly straight, cusps, loops, collinear, coincident "
        "control points, zero-length; tolerances 2^-k..2^k; the model is run on the exact rationals of the same floats and asked "
        "again with the tolerance scaled by (1 -/+ 2^-30): cases whose decision changes are near ties and skipped (counted).")
TRUSTED = ["binary64 arithmetic of the implementation vs exact Q in the model (decisions compared away from ties; coordinates to 1e-9)",
           "t ranges over Q in the theorems; the extension to real t is by continuity and not machine-checked"]
ASSUMPTIONS = ["cu2qu is the pure-Python build (COMPILED == False asserted)"]

def N(tier, q, t): return q if tier == "quick" else t

def gen_cubic(rng):
    k = rng.below(9)
    R = lambda a=-400, b=400: rng.randint(a, b)
    if k == 0:   # generic
        return [(R(), R()) for _ in range(4)]
    if k == 1:   # gentle arc
        x0, y0 = R(), R(); dx, dy = R(50, 300), R(-60, 60)
        return [(x0, y0), (x0 + dx, y0 + dy + R(-20, 20)), (x0 + 2 * dx, y0 + 2 * dy + R(-20, 20)), (x0 + 3 * dx, y0 + 3 * dy)]
    if k == 2:   # collinear
        x0, y0 = R(), R(); dx, dy = R(-50, 50), R(-50, 50)
        ts = sorted([R(0, 10) for _ in range(2)])
        return [(x0, y0), (x0 + ts[0] * dx, y0 + ts[0] * dy), (x0 + ts[1] * dx, y0 + ts[1] * dy), (x0 + 10 * dx, y0 + 10 * dy)]
    if k == 3:   # coincident control points
        p = [(R(), R()) for _ in range(4)]
        i, j = rng.sample(range(4), 2); p[i] = p[j]; return p
    if k == 4:   # loop / cusp
        x0, y0 = R(), R()
        return [(x0, y0), (x0 + R(100, 400), y0 + R(100, 400)), (x0 - R(100, 400), y0 + R(100, 400)), (x0 + R(-5, 5), y0 + R(-5, 5))]
    if k == 5:   # zero length
        p = (R(), R()); return [p, p, p, p]
    if k == 6:   # dyadic
        return [(R() + rng.below(8) / 8, R() + rng.below(8) / 8) for _ in range(4)]
    if k == 7:   # the classic quarter circle
        r = R(50, 500); kk = round(r * 0.5522847498 * 8) / 8
        return [(r, 0), (r, kk), (kk, r), (0, r)]
    return [(R(-30, 30), R(-30, 30)) for _ in range(4)]

def gen_tol(rng):
    return rng.choice([0.125, 0.25, 0.5, 1.0, 1.0, 2.0, 4.0, 0.0625, 10.0, 0.001, 64.0])

def cub_at(c, t):
    mt = 1 - t
    return tuple(mt**3 * c[0][i] + 3 * mt * mt * t * c[1][i] + 3 * mt * t * t * c[2][i] + t**3 * c[3][i] for i in (0, 1))
def quad_at(q, t):
    mt = 1 - t
    return tuple(mt * mt * q[0][i] + 2 * mt * t * q[1][i] + t * t * q[2][i] for i in (0, 1))
def spline_segments(spline):
    """TrueType-style quadratic spline -> list of (on, off, on) segments"""
    offs = spline[1:-1]; segs = []; p0 = spline[0]
    for i, off in enumerate(offs):
        on = ((off[0] + offs[i + 1][0]) / 2, (off[1] + offs[i + 1][1]) / 2) if i < len(offs) - 1 else spline[-1]
        segs.append((p0, off, on)); p0 = on
    return segs

def spline_error(cubic, spline, steps=24):
    """max distance between the cubic and the quadratic spline at matching parameters (piece i of n)"""
    if len(spline) == 4 and len(cubic) == 4 and False: return 0.0
    segs = spline_segments(spline); n = len(segs); worst = 0.0
    for i, s in enumerate(segs):
        for k in range(steps + 1):
            t = k / steps
            a = quad_at(s, t); b = cub_at(cubic, (i + t) / n)
            worst = max(worst, math.hypot(a[0] - b[0], a[1] - b[1]))
    return worst

PT = ("tuple", "Q", "Q")
def correspondences(tier, rng):
    from fontTools.cu2qu import cu2qu
    assert not cu2qu.COMPILED
    from fontTools.cu2qu.errors import ApproxNotFoundError
    n = N(tier, 700, 12000)
    out = []
    Fp = lambda p: (F(p[0]), F(p[1]))
    # fit_inside
    cases = []
    for _ in range(n):
        c = gen_cubic(rng); tol = gen_tol(rng) * rng.choice([1, 1, 8, 64])
        # make it an error curve: end points near the origin
        s = rng.choice([1, 2, 8, 32])
        e = [(0.0, 0.0) if rng.chance(60) else (c[0][0] / 64, c[0][1] / 64), (c[1][0] / s, c[1][1] / s), (c[2][0] / s, c[2][1] / s),
             (0.0, 0.0) if rng.chance(60) else (c[3][0] / 64, c[3][1] / 64)]
        cases.append((e, tol))
    def enc_fit(x):
        e, tol = x
        return (Fp(e[0]), Fp(e[1]), Fp(e[2]), Fp(e[3]), F(tol) ** 2)
    def impl_fit(x):
        e, tol = x
        return cu2qu.cubic_farthest_fit_inside(*[complex(*p) for p in e], tol)
    def cmp_fit(x, io, mo):
        r, lo, hi = decode(mo, ("tuple", ("opt", "B"), ("opt", "B"), ("opt", "B")))
        if not (r == lo == hi): return None
        return r is not None and bool(io[0]) == r
    out.append(Corr("fit_inside", cases, impl_fit, enc=enc_fit, compare=cmp_fit))
    # curve_to_quadratic
    cases = [(gen_cubic(rng), gen_tol(rng), rng.chance(75)) for _ in range(n)]
    def enc_c2q(x):
        c, tol, aq = x
        return ((Fp(c[0]), Fp(c[1]), Fp(c[2]), Fp(c[3])), F(tol) ** 2, aq)
    def impl_c2q(x):
        c, tol, aq = x
        try:
            return cu2qu.curve_to_quadratic(c, tol, aq)
        except ApproxNotFoundError:
            return None
    TY = ("tuple", ("opt", ("tuple", "Z", ("list", PT))), ("opt", "Z"), ("opt", "Z"))
    def cmp_c2q(x, io_unused, mo):
        c, tol, aq = x
        r, lo, hi = decode(mo, TY)
        nn = None if r is None else r[0]
        if not (nn == lo == hi): return None
        got = impl_c2q(x)
        if r is None or got is None: return (r is None) == (got is None)
        pts = r[1]
        if len(pts) != len(got): return False
        scale = max(1.0, max(abs(v) for p in c for v in p))
        return all(abs(float(a[0]) - b[0]) <= 1e-8 * scale and abs(float(a[1]) - b[1]) <= 1e-8 * scale for a, b in zip(pts, got))
    def oracle_c2q(x):
        c, tol, aq = x
        got = impl_c2q(x)
        if got is None: return None     # an error is allowed; a worse curve is not
        if tuple(got[0]) != tuple(map(float, c[0])) or tuple(got[-1]) != tuple(map(float, c[3])):
            return "spline does not start/end on the cubic's end points: %r" % (got,)
        if len(got) == 4 and not aq: return None
        err = spline_error([tuple(map(float, p)) for p in c], got)
        if err > tol * (1 + 1e-6) + 1e-9: return "spline strays %.6g from the cubic (tolerance %g): %r" % (err, tol, got)
        return None
    out.append(Corr("curve_to_quadratic", cases, lambda x: 0, enc=enc_c2q, compare=cmp_c2q, oracle=oracle_c2q))
    # split_n
    cases = [(gen_cubic(rng), rng.choice([2, 3, 4, 5, 6, 7, 8, 9, 12])) for _ in range(n // 4)]
    def cmp_split(x, io, mo):
        c, k = x
        pieces = decode(mo, ("list", ("tuple", PT, PT, PT, PT)))
        got = list(cu2qu.split_cubic_into_n_iter(*[complex(*p) for p in c], k))
        if len(got) != len(pieces): return False
        scale = max(1.0, max(abs(v) for p in c for v in p))
        return all(abs(float(a[0]) - b.real) <= 1e-9 * scale and abs(float(a[1]) - b.imag) <= 1e-9 * scale
                   for pa, pb in zip(pieces, got) for a, b in zip(pa, pb))
    out.append(Corr("split_n", cases, lambda x: 0, enc=lambda x: ((Fp(x[0][0]), Fp(x[0][1]), Fp(x[0][2]), Fp(x[0][3])), x[1]), compare=cmp_split))
    # calc_intersect on integer points (exact in both worlds)
    cases = []
    for _ in range(n // 2):
        c = gen_cubic(rng)
        cases.append([tuple(int(v) for v in p) for p in c])
    def cmp_isect(x, io, mo):
        r = decode(mo, ("opt", PT))
        got = cu2qu.calc_intersect(*[complex(*p) for p in x])
        if r is None: return math.isnan(got.imag)
        if math.isnan(got.imag): return False
        scale = max(1.0, abs(float(r[0])), abs(float(r[1])))
        return abs(float(r[0]) - got.real) <= 1e-9 * scale and abs(float(r[1]) - got.imag) <= 1e-9 * scale
    out.append(Corr("calc_intersect", cases, lambda x: 0, enc=lambda x: tuple(Fp(p) for p in x), compare=cmp_isect))
    return out

# ------------------------------------------------------------------ sweeps
class _Glyph:
    """minimal glyph object implementing the protocol cu2qu.ufo uses"""
    def __init__(self, name):
        from fontTools.pens.recordingPen import RecordingPointPen
        self.name = name; self._rec = RecordingPointPen()
    def __len__(self): return sum(1 for op, _, _ in self._rec.value if op == "beginPath")
    def drawPoints(self, pen): self._rec.replay(pen)
    def draw(self, pen):
        from fontTools.pens.pointPen import PointToSegmentPen
        self.drawPoints(PointToSegmentPen(pen))
    def clearContours(self):
        from fontTools.pens.recordingPen import RecordingPointPen
        self._rec = RecordingPointPen()
    def getPen(self):
        from fontTools.pens.pointPen import SegmentToPointPen
        return SegmentToPointPen(self._rec)
    def getPointPen(self): return self._rec

def _polyline(segs, steps=40):
    pts = []
    for s in segs:
        for k in range(steps + 1):
            t = k / steps
            pts.append(quad_at(s, t) if len(s) == 3 else cub_at(s, t) if len(s) == 4 else (s[0][0] + (s[1][0] - s[0][0]) * t, s[0][1] + (s[1][1] - s[0][1]) * t))
    return pts

def _dist_to_polyline(p, poly):
    best = 1e300
    for a, b in zip(poly, poly[1:]):
        dx, dy = b[0] - a[0], b[1] - a[1]; L = dx * dx + dy * dy
        t = 0 if L == 0 else max(0, min(1, ((p[0] - a[0]) * dx + (p[1] - a[1]) * dy) / L))
        best = min(best, math.hypot(p[0] - a[0] - t * dx, p[1] - a[1] - t * dy))
    return best

def sweeps(tier, rng):
    from fontTools.cu2qu import cu2qu
    from fontTools.cu2qu.errors import ApproxNotFoundError
    from fontTools.qu2cu import qu2cu
    n = N(tier, 250, 2500) if tier != "search" else 1500          # thorough: ~15 min (5000 took over 25 min on a busy machine)
    def run_curves():
        for i in range(n):
            k = rng.randint(1, 4); fam = rng.below(4)
            base = gen_cubic(rng)
            curves = []
            for j in range(k):
                if fam == 0: curves.append(gen_cubic(rng))
                elif fam == 3: curves.append(list(base))                      # the same cubic in several masters ...
                else: curves.append([(p[0] + rng.randint(-15, 15) + j * 7, p[1] + rng.randint(-15, 15)) for p in base])
            tols = [gen_tol(rng) for _ in range(k)]
            if fam == 3:                                                      # ... each with a tolerance of its own, coarse ones first
                k = max(k, 2); curves = [list(base) for _ in range(k)]
                t0 = gen_tol(rng); tols = sorted([t0 * rng.choice([1, 4, 16, 40]) for _ in range(k - 1)] + [t0], reverse=rng.chance(80))
            aq = rng.chance(70)
            try:
                res_ = cu2qu.curves_to_quadratic(curves, tols, aq)
            except ApproxNotFoundError:
                yield (("curves_to_quadratic", curves, tols, aq), None); continue
            bad = None
            if len(set(len(s) for s in res_)) != 1: bad = "results have different numbers of segments: %r" % ([len(s) for s in res_],)
            for c, s, tol in zip(curves, res_, tols):
                if bad: break
                if len(s) == 4 and not aq: continue
                if tuple(s[0]) != tuple(map(float, c[0])) or tuple(s[-1]) != tuple(map(float, c[3])): bad = "end points moved"
                e = spline_error([tuple(map(float, p)) for p in c], s)
                if e > tol * (1 + 1e-6) + 1e-9: bad = "spline strays %.6g > tolerance %g" % (e, tol)
            yield (("curves_to_quadratic", curves, tols, aq), bad)
    def run_qu2cu():
        for i in range(n):
            nseg = rng.randint(1, 5)
            fam = rng.below(3)
            if fam == 0:
                # explicit on-curve joins, smooth with unequal handles
                p = (float(rng.randint(-200, 200)), float(rng.randint(-200, 200))); ang = rng.randint(0, 628) / 100
                quads = []
                for j in range(nseg):
                    l1 = rng.choice([10, 40, 120, 300]); l2 = rng.choice([10, 40, 120, 300])
                    off = (p[0] + l1 * math.cos(ang), p[1] + l1 * math.sin(ang))
                    ang += rng.randint(-120, 120) / 100
                    on = (off[0] + l2 * math.cos(ang), off[1] + l2 * math.sin(ang))
                    off = (round(off[0]), round(off[1])); on = (round(on[0]), round(on[1]))
                    quads.append([p, off, on]); p = on
            else:
                c = gen_cubic(rng)
                try:
                    sp = cu2qu.curve_to_quadratic(c, rng.choice([0.5, 1, 2, 5]))
                except ApproxNotFoundError:
                    continue
                quads = [sp] if fam == 1 else [[s[0], s[1], s[2]] for s in spline_segments(sp)]
            tol = rng.choice([0.5, 1.0, 2.0, 5.0]); allc = rng.chance(50)
            try:
                curves = qu2cu.quadratic_to_curves(quads, tol, all_cubic=allc)
            except Exception as e:
                yield (("qu2cu", quads, tol, allc), "quadratic_to_curves raised %r" % (e,)); continue
            src = []
            for q in quads: src += spline_segments(q) if len(q) > 3 else [tuple(q)]
            dst = []
            for c in curves: dst += [tuple(c)] if len(c) == 4 else spline_segments(list(c))
            ps = _polyline(src, 24); pd = _polyline(dst, 600)
            bad = None
            if tuple(curves[0][0]) != tuple(quads[0][0]) or tuple(curves[-1][-1]) != tuple(quads[-1][-1]): bad = "end points moved"
            else:
                worst = max(_dist_to_polyline(p, pd) for p in ps[::2])
                if worst > tol * 1.01 + 0.01: bad = "cubic result strays %.4g from the quadratic source (tolerance %g)" % (worst, tol)
            yield (("qu2cu", quads, tol, allc), bad)
    def run_glyphs():
        from fontTools.cu2qu.ufo import glyphs_to_quadratic
        from fontTools.pens.recordingPen import RecordingPen
        for i in range(max(20, n // 4)):
            k = rng.randint(2, 4); nseg = rng.randint(1, 3)
            base = [gen_cubic(rng) for _ in range(nseg)]
            empties = [rng.chance(25) for _ in range(k)]
            if all(empties): empties[0] = False
            tols = [rng.choice([0.25, 1.0, 8.0, 40.0]) for _ in range(k)]
            glyphs = []; srcs = []
            for j in range(k):
                g = _Glyph("g%d" % j); cs = []
                if not empties[j]:
                    pen = g.getPen()
                    pt = (float(rng.randint(-50, 50)), float(rng.randint(-50, 50)))
                    pen.moveTo(pt)
                    for b in base:
                        d = [(p[0] - b[0][0] + rng.randint(-10, 10) * (j > 0), p[1] - b[0][1] + rng.randint(-10, 10) * (j > 0)) for p in b]
                        c = [pt, (pt[0] + d[1][0], pt[1] + d[1][1]), (pt[0] + d[2][0], pt[1] + d[2][1]), (pt[0] + d[3][0], pt[1] + d[3][1])]
                        pen.curveTo(*c[1:]); cs.append(c); pt = c[3]
                    pen.endPath()
                glyphs.append(g); srcs.append(cs)
            try:
                glyphs_to_quadratic(glyphs, max_err=tols)
            except Exception as e:
                yield (("glyphs_to_quadratic", i), None if "ApproxNotFound" in type(e).__name__ or "Incompatible" in type(e).__name__ else "raised %r" % (e,)); continue
            bad = None; counts = set()
            for g, cs, tol, emp in zip(glyphs, srcs, tols, empties):
                if emp: continue
                rp = RecordingPen(); g.draw(rp)
                segs = [(op, a) for op, a in rp.value if op in ("qCurveTo", "curveTo")]
                if len(segs) != len(cs): bad = "segment structure changed"; break
                counts.add(tuple(len(a) for _, a in segs))
                cur = cs[0][0]
                for (op, a), c in zip(segs, cs):
                    if op == "qCurveTo":
                        e = spline_error(c, [cur] + list(a))
                        if e > tol * (1 + 1e-6) + 1e-9: bad = "master with tolerance %g strays %.4g" % (tol, e)
                    cur = a[-1]
            if bad is None and len(counts) > 1: bad = "masters got different point structures: %r" % (counts,)
            yield (("glyphs_to_quadratic", i, tols, empties), bad)
    def run_pens():
        """the pens that apply the conversion while a contour is drawn: every cubic segment of the input is answered by
        either the same cubic (only when quadratics are not forced) or a quadratic spline within max_err of THAT cubic"""
        from fontTools.pens.cu2quPen import Cu2QuPen, Cu2QuPointPen
        from fontTools.pens.recordingPen import RecordingPen, RecordingPointPen
        from fontTools.pens.pointPen import SegmentToPointPen, PointToSegmentPen
        for i in range(n):
            tol = rng.choice([0.5, 1.0, 2.0, 5.0, 20.0, 50.0]); aq = rng.chance(40); which = rng.below(2)
            calls = []; segs = []          # segs: (kind, start point, args)
            directed = i % 8 == 0
            if directed:
                # a cubic that has to stay cubic (S-shaped), IMMEDIATELY followed by a gentle one: a pen that loses track of the current
                # point would fit the second one from the start of the first
                aq = False; tol = rng.choice([1.0, 2.0])
                ox, oy = float(rng.randint(-200, 200)), float(rng.randint(-200, 200)); sx = rng.choice([1.0, -1.0, 0.5, 2.0]); sy = rng.choice([1.0, -1.0, 0.5])
                T_ = lambda x_, y_: (ox + sx * x_, oy + sy * y_)
                h = rng.choice([200, 300, 400])
                cur = T_(0, 0); calls.append(("moveTo", (cur,)))
                for a in ((T_(100, h), T_(200, -h), T_(300, 0)), (T_(300, 200), T_(500, 200), T_(600, 0))):
                    calls.append(("curveTo", a)); segs.append(("curveTo", cur, a)); cur = a[-1]
                calls.append(("closePath", ()) if rng.chance(60) else ("endPath", ()))
            for _c in range(0 if directed else rng.randint(1, 3)):
                cur = (float(rng.randint(-300, 300)), float(rng.randint(-300, 300))); calls.append(("moveTo", (cur,)))
                for _s in range(rng.randint(1, 6)):
                    k = rng.below(10)
                    if k < 6:
                        fam = rng.below(10)
                        if fam < 3: c = gen_cubic(rng)
                        elif fam < 6:
                            # a quadratic written as a cubic (what a TrueType-sourced outline looks like), slightly perturbed
                            q0, q1, q2 = [(rng.randint(-200, 200), rng.randint(-200, 200)) for _ in range(3)]; e_ = rng.choice([0, 0, 1, 3])
                            c = [q0, (q0[0] + 2 * (q1[0] - q0[0]) / 3 + rng.randint(-e_, e_), q0[1] + 2 * (q1[1] - q0[1]) / 3 + rng.randint(-e_, e_)),
                                 (q2[0] + 2 * (q1[0] - q2[0]) / 3 + rng.randint(-e_, e_), q2[1] + 2 * (q1[1] - q2[1]) / 3), q2]
                        elif fam < 8:
                            # a loop that comes back (almost) to where it started
                            x0, y0 = rng.randint(-200, 200), rng.randint(-200, 200)
                            c = [(x0, y0), (x0 + rng.randint(100, 400), y0 + rng.randint(100, 400)), (x0 - rng.randint(100, 400), y0 + rng.randint(100, 400)), (x0 + rng.randint(-5, 5), y0 + rng.randint(-5, 5))]
                        else: c = [(rng.randint(-30, 30), rng.randint(-30, 30)) for _ in range(4)]
                        d = (cur[0] - c[0][0], cur[1] - c[0][1])
                        a = tuple((float(p[0] + d[0]), float(p[1] + d[1])) for p in c[1:])
                        calls.append(("curveTo", a)); segs.append(("curveTo", cur, a)); cur = a[-1]
                    elif k < 8:
                        a = ((float(rng.randint(-300, 300)), float(rng.randint(-300, 300))),); calls.append(("lineTo", a)); segs.append(("lineTo", cur, a)); cur = a[-1]
                    else:
                        a = tuple((float(rng.randint(-300, 300)), float(rng.randint(-300, 300))) for _ in range(rng.randint(2, 3)))
                        calls.append(("qCurveTo", a)); segs.append(("qCurveTo", cur, a)); cur = a[-1]
                calls.append(("closePath", ()) if rng.chance(60) else ("endPath", ()))
            bad = None
            try:
                rec = RecordingPen()
                if which == 0:
                    pen = Cu2QuPen(rec, tol, all_quadratic=aq)
                    for op, a in calls: getattr(pen, op)(*a)
                else:
                    pen = Cu2QuPointPen(PointToSegmentPen(rec, outputImpliedClosingLine=True), tol, all_quadratic=aq)
                    sp = SegmentToPointPen(pen)
                    for op, a in calls: getattr(sp, op)(*a)
            except ApproxNotFoundError:
                yield (("pen", which, tol, aq, calls), None); continue
            except Exception as e:
                yield (("pen", which, tol, aq, calls), "pen raised %r" % (e,)); continue
            out = [(op, a) for op, a in rec.value if op in ("curveTo", "lineTo", "qCurveTo")]
            if which == 1:
                # the point pen may rotate a closed contour / add or drop the closing line: compare curve segments as a multiset keyed by end point
                outc = [(op, a) for op, a in out if op != "lineTo"]; inc = [sg for sg in segs if sg[0] != "lineTo"]
                starts = {}
                cur = None
                for op, a in rec.value:
                    if op in ("curveTo", "qCurveTo"): starts.setdefault((op, tuple(a)), cur)
                    if op in ("moveTo", "lineTo", "curveTo", "qCurveTo") and a and a[-1] is not None: cur = a[-1]
                if len(outc) != len(inc): bad = "the number of curve segments changed: %d -> %d" % (len(inc), len(outc))
                else:
                    pool = list(outc)
                    for kind, st, a in inc:
                        m = [o for o in pool if tuple(o[1][-1]) == tuple(a[-1]) and (o[0] == kind and tuple(o[1]) == tuple(a) or kind == "curveTo" and o[0] == "qCurveTo" and spline_error([st] + list(a), [st] + list(o[1])) <= tol * (1 + 1e-6) + 1e-9)]
                        if kind == "curveTo" and aq: m = [o for o in m if o[0] == "qCurveTo"]
                        if not m: bad = "no output segment answers input %s from %r: %r (max_err %g, all_quadratic %r); output %r" % (kind, st, a, tol, aq, outc); break
                        pool.remove(m[0])
            else:
                if len(out) != len(segs): bad = "the number of segments changed: %d -> %d" % (len(segs), len(out))
                for (kind, st, a), (op, b) in zip(segs, out):
                    if bad: break
                    if kind != "curveTo":
                        if (op, tuple(b)) != (kind, tuple(a)): bad = "%s %r became %s %r" % (kind, a, op, b)
                    elif op == "curveTo":
                        if aq: bad = "a cubic was kept although all_quadratic=True"
                        elif tuple(b) != tuple(a): bad = "kept cubic changed: %r -> %r" % (a, b)
                    elif op == "qCurveTo":
                        if tuple(b[-1]) != tuple(a[-1]): bad = "end point moved: %r -> %r" % (a[-1], b[-1])
                        else:
                            e = spline_error([st] + list(a), [st] + list(b))
                            if e > tol * (1 + 1e-6) + 1e-9: bad = "the quadratic for cubic %r (from %r) strays %.4g > max_err %g: %r" % (a, st, e, tol, b)
                    else: bad = "cubic became %s" % op
            yield (("pen", which, tol, aq, calls), bad)
    def run_qu2cu_pen():
        """Qu2CuPen over whole contours (quadratic splines with 1..4 off-curve points mixed with lines and cubics, both modes): the
        drawn outline stays within max_err of the input, in both directions, and all_cubic leaves no quadratic behind"""
        from fontTools.pens.qu2cuPen import Qu2CuPen
        from fontTools.pens.recordingPen import RecordingPen
        from fontTools.pens.basePen import BasePen
        class Flat(BasePen):
            def __init__(s): BasePen.__init__(s, None); s.v = []; s.cur = None
            def _moveTo(s, p): s.cur = p
            def _lineTo(s, p): s.v.append((s.cur, p)); s.cur = p
            def _curveToOne(s, a, b, c): s.v.append((s.cur, a, b, c)); s.cur = c
            def _qCurveToOne(s, a, b): s.v.append((s.cur, a, b)); s.cur = b
            def _closePath(s): s.cur = None
            def _endPath(s): s.cur = None
        R = lambda: (float(rng.randint(-300, 300)), float(rng.randint(-300, 300)))
        for i in range(N(tier, 60, 800) if tier != "search" else 200):
            tol = rng.choice([0.5, 1.0, 2.0, 5.0]); allc = rng.chance(50); calls = []
            for _c in range(rng.randint(1, 2)):
                calls.append(("moveTo", (R(),)))
                if rng.chance(40):
                    # a smooth run written one quadratic at a time: on-curve points exactly midway between neighbouring off-curve
                    # points (what the pen re-merges), with retracted handles (off-curve == on-curve) and equal spacing in between
                    x, y = calls[-1][1][0]; dx, dy = rng.choice([(50.0, 0.0), (0.0, 50.0), (40.0, 30.0), (100.0, 0.0)])
                    offs = []
                    for _s in range(rng.randint(3, 6)):
                        x += dx; y += dy
                        if rng.chance(15): dx, dy = dy, -dx
                        offs.append((x, y))
                    forced = rng.randint(1, len(offs) - 2) if rng.chance(60) else -1     # an interior handle retracted onto its off-curve point
                    if forced >= 0: allc = allc and rng.chance(30)
                    for j_, off in enumerate(offs):
                        if j_ + 1 < len(offs):
                            nxt = offs[j_ + 1]; on = ((off[0] + nxt[0]) / 2, (off[1] + nxt[1]) / 2)
                            if j_ == forced: on = off
                            elif rng.chance(30): on = nxt if rng.chance(50) else off          # retracted handle
                        else:
                            on = (off[0] + dx, off[1] + dy)
                        calls.append(("qCurveTo", (off, on)))
                    calls.append(("closePath", ()) if rng.chance(60) else ("endPath", ()))
                    continue
                for _s in range(rng.randint(1, 5)):
                    k = rng.below(10)
                    if k < 6: calls.append(("qCurveTo", tuple(R() for _ in range(rng.randint(2, 5)))))
                    elif k < 8: calls.append(("lineTo", (R(),)))
                    else: calls.append(("curveTo", (R(), R(), R())))
                calls.append(("closePath", ()) if rng.chance(60) else ("endPath", ()))
            bad = None
            try:
                rec = RecordingPen(); pen = Qu2CuPen(rec, tol, all_cubic=allc)
                for op, a in calls: getattr(pen, op)(*a)
                a_ = Flat(); b_ = Flat()
                for op, a in calls: getattr(a_, op)(*a)
                rec.replay(b_)
                ps = _polyline([tuple(s_) for s_ in a_.v], 24); pd = _polyline([tuple(s_) for s_ in b_.v], 120)
                pd2 = _polyline([tuple(s_) for s_ in b_.v], 24); ps2 = _polyline([tuple(s_) for s_ in a_.v], 120)
                w1 = max(_dist_to_polyline(p_, pd) for p_ in ps) if ps and pd else 0.0
                w2 = max(_dist_to_polyline(p_, ps2) for p_ in pd2) if pd2 and ps2 else 0.0
                if max(w1, w2) > tol * 1.05 + 0.05: bad = "Qu2CuPen(all_cubic=%r) strays %.4g / %.4g from the input (max_err %g): %r -> %r" % (allc, w1, w2, tol, calls, rec.value)
                elif allc and any(op == "qCurveTo" for op, _ in rec.value): bad = "all_cubic=True left a quadratic: %r" % (rec.value,)
                elif [op for op, _ in rec.value if op in ("moveTo", "closePath", "endPath")] != [op for op, _ in calls if op in ("moveTo", "closePath", "endPath")]: bad = "contour structure changed"
            except Exception as e:
                bad = "Qu2CuPen raised %r on %r" % (e, calls)
            yield (("qu2cu-pen", tol, allc, calls), bad)
    return [Sweep("curves_to_quadratic", run_curves), Sweep("qu2cu", run_qu2cu), Sweep("glyphs_to_quadratic", run_glyphs), Sweep("cu2qu-pens", run_pens),
            Sweep("qu2cu-pen", run_qu2cu_pen)]

def witness(fid): return None
