"""C03 — TTX XML is a lossless representation of a font."""
import io, os, tempfile, shutil
from lib.ser import Ok, Err, res, Raw, Opt, exc_code
from lib import corpus, genfonts
from vcheck import Corr, Sweep

RULE = ("text layer: strings over an alphabet biased to & < > quotes CR LF TAB, illegal controls, surrogates, non-BMP; the model's "
        "specification-level un-escaper is cross-checked against expat. Sweeps: corpus fonts covering every table tag + generated fonts "
        "(instructions with every PUSH boundary value, glyph names colliding as file names, bitmap strikes) dumped with every option "
        "combination into paths with upper-case letters and re-imported: every table must compile to the same bytes.")
TRUSTED = ["expat (the XML parser)"]
ASSUMPTIONS = ["only the text layer is modelled in Coq; per-table toXML/fromXML is covered by the implementation sweep"]

def N(tier, q, t): return q if tier == "quick" else t

def correspondences(tier, rng):
    from fontTools.misc import xmlWriter
    from fontTools.misc.textTools import hexStr, deHexStr
    import xml.parsers.expat
    n = N(tier, 1500, 30000)
    AL = list("ab &<>\"'\r\n\t;#13amp") + ["\x00", "\x01", "\x0b", "\x1f", "\x7f", "\x85", "é", " ", "퟿", "", "�", "￾", "￿", "\U0001F600"]
    cases = ["".join(rng.choice(AL) for _ in range(rng.randint(0, 12))) for _ in range(n)]
    enc = lambda s_: [ord(c) for c in s_]
    def parse_text(esc):
        out = []
        p = xml.parsers.expat.ParserCreate(); p.buffer_text = True
        p.CharacterDataHandler = out.append
        p.Parse(("<a>%s</a>" % esc).encode("utf-8"), True)
        return "".join(out)
    def parse_attr(esc):
        out = []
        p = xml.parsers.expat.ParserCreate()
        p.StartElementHandler = lambda name, attrs: out.append(attrs.get("v"))
        p.Parse(('<a v="%s"/>' % esc).encode("utf-8"), True)
        return out[0]
    def legal(s_): return not any(ord(c) in xmlWriter.ILLEGAL_XML_CHARS for c in s_)
    def oracle_escape(s_):
        if not legal(s_): return None
        e = xmlWriter.escape(s_)
        try:
            back = parse_text(e)
        except Exception as ex:
            return "expat rejects escape(%r) = %r: %s" % (s_, e, ex)
        want = s_.replace("\r\n", "\n") if False else s_
        return None if back == want else "escape(%r) parses back as %r" % (s_, back)
    def oracle_attr(s_):
        if not legal(s_): return None
        e = xmlWriter.escapeattr(s_)
        try:
            back = parse_attr(e)
        except Exception as ex:
            return "expat rejects escapeattr(%r): %s" % (s_, ex)
        want = s_.replace("\t", " ").replace("\n", " ")
        return None if back == want else "escapeattr(%r) parses back as %r" % (s_, back)
    out = [Corr("escape", cases, lambda s_: enc(xmlWriter.escape(s_)), enc=enc, oracle=oracle_escape),
           Corr("escapeattr", cases, lambda s_: enc(xmlWriter.escapeattr(s_)), enc=enc, oracle=oracle_attr)]
    # the model's un-escaper against expat on escaped legal strings
    esc_cases = [xmlWriter.escapeattr(s_) for s_ in cases if legal(s_) and "\n" not in s_ and "\t" not in s_]
    out.append(Corr("xml_unescape", esc_cases, lambda e: enc(parse_text(e)), enc=enc))
    cases = [list(rng.bytes(rng.randint(0, 20))) for _ in range(n // 2)]
    out.append(Corr("hexStr", cases, lambda d: enc(hexStr(bytes(d))), oracle=lambda d: None if deHexStr(hexStr(bytes(d))) == bytes(d) else "deHexStr(hexStr(x)) != x"))
    hexs = ["".join(rng.choice("0123456789abcdefABCDEF \n\tgz") for _ in range(rng.randint(0, 14))) for _ in range(n // 2)]
    out.append(Corr("deHexStr", hexs, lambda h: res(lambda: list(deHexStr(h))), enc=enc))
    # bit fields as binary digits
    from fontTools.misc.textTools import num2binary, binary2num
    bcases = []
    for _ in range(N(tier, 800, 10000)):
        bits = rng.choice([0, 1, 7, 8, 9, 12, 15, 16, 17, 24, 31, 32, 33, 40])
        v = rng.choice([0, 1, (1 << bits) - 1 if bits else 0, 1 << max(bits - 1, 0), rng.below(1 << bits) if bits else 0, 1 << bits, -1, -2, rng.below(1 << (bits + 3))])
        bcases.append((v, bits))
    out.append(Corr("num2binary", bcases, lambda x: res(lambda: [ord(c) for c in num2binary(x[0], x[1])]),
                    oracle=lambda x: None if not (0 <= x[0] < (1 << x[1])) or binary2num(num2binary(x[0], x[1])) == x[0] else "binary2num(num2binary(%d, %d)) = %d" % (x[0], x[1], binary2num(num2binary(x[0], x[1])))))
    scases = []
    for v, bits in bcases[:400]:
        try: t_ = num2binary(v, bits)
        except AssertionError: continue
        r_ = rng.below(5)
        if r_ == 0: t_ = t_.replace(" ", rng.choice(["", "  ", "\t", "\n "]))
        elif r_ == 1: t_ = " " + t_ + " "
        elif r_ == 2 and t_: t_ = t_.replace("1", rng.choice(["1", "x", "2"]), 1)       # any character but '0' counts as a one
        scases.append(t_)
    out.append(Corr("binary2num", scases, lambda t_: binary2num(t_), enc=lambda t_: ([ord(c) for c in t_],)))
    out.extend(program_correspondences(tier, rng))
    return out

# ------------------------------------------------------------------ sweeps
def instr_font():
    """glyf font with fpgm/prep/glyph programs pushing every boundary value, glyph names that collide as file names"""
    from fontTools.fontBuilder import FontBuilder
    from fontTools.pens.ttGlyphPen import TTGlyphPen
    from fontTools.ttLib import newTable
    from fontTools.ttLib.tables.ttProgram import Program
    order = [".notdef", "A", "a", "A:alt", "A|alt", "con", "B.x", "b.X", "x" * 250, "x" * 249 + "Y"]
    fb = FontBuilder(1000, isTTF=True); fb.setupGlyphOrder(order); fb.setupCharacterMap({65: "A", 97: "a"})
    glyphs = {}
    for i, n in enumerate(order):
        pen = TTGlyphPen(None); pen.moveTo((0, 0)); pen.lineTo((100 + i, 0)); pen.lineTo((50, 200 + i)); pen.closePath(); glyphs[n] = pen.glyph()
    vals = [0, 1, 255, 256, -1, -32768, 32767, -32767, 128, 127, -128, -129, 300, 255, 255, 255, 255, 255, 255, 255, 255, 255]
    p = Program(); p.fromAssembly(["PUSHW[ ] %s" % " ".join(map(str, vals[:8])), "PUSHB[ ] 1 2 3 255 0", "NPUSHW[ ] -32768 32767 0", "PUSH[ ] " + " ".join(map(str, vals + list(range(250, 270)))), "POP[ ]"] )
    glyphs["A"].program = p
    fb.setupGlyf(glyphs); fb.setupHorizontalMetrics({n: (500, 0) for n in order}); fb.setupHorizontalHeader(ascent=800, descent=-200)
    fb.setupNameTable({"familyName": "I <&> \"q\"", "styleName": "R"}); fb.setupOS2(); fb.setupPost()
    f = fb.font
    for tag in ("fpgm", "prep"):
        t = newTable(tag); t.program = Program(); t.program.fromAssembly(["NPUSHB[ ] 0 255 17", "PUSHW[ ] -32768", "PUSHW[ ] 32767 -1 256", "SVTCA[0]"]); f[tag] = t
    # legal but unusual bytecode: NPUSHB / NPUSHW with a count of zero, in the middle and at the end of a program
    pz = Program(); pz.fromBytecode(b"\x40\x00\xb0\x05\x21\x41\x00\xb8\x01\x00\x21\x40\x00")
    f["fpgm"].program = pz
    pg = Program(); pg.fromBytecode(b"\xb0\x07\x41\x00\x21\x40\x00\x4e")
    f["glyf"]["a"].program = pg
    b = io.BytesIO(); f.save(b); return b.getvalue()

def program_correspondences(tier, rng):
    """TrueType instruction programs: Program._disassemble (preserve=True, what toXML writes) and Program._assemble (what fromXML
    runs) against the token-level model; the instruction tables are the regenerated ones"""
    import re, sys
    from fontTools.ttLib.tables import ttProgram
    from fontTools.ttLib.tables.ttProgram import Program, tt_instructions_error
    tools = os.path.join(os.path.dirname(os.path.dirname(os.path.dirname(os.path.abspath(__file__)))), "tools")
    if tools not in sys.path: sys.path.insert(0, tools)
    import translate_data as T
    ins, stream = T.tt_instruction_tables()
    index = {m: i for i, (_, m, _) in enumerate(ins)}
    streamops = {op + i for op, _, ab in stream for i in range(1 << ab)}
    PUSHK = {"PUSH": 2, "NPUSHB": 3, "NPUSHW": 4, "PUSHB": 5, "PUSHW": 6}; KNAME = {v: k for k, v in PUSHK.items()}
    head = re.compile(r"([A-Z][A-Z0-9]*)\s*\[(.*?)\]")
    def parse(asm):
        toks = []; cur = None
        for line in asm:
            m = head.match(line)
            if m:
                mn, arg = m.group(1), m.group(2).strip()
                if mn.startswith("INSTR"): toks.append((1, [int(mn[5:])])); cur = None
                elif mn in PUSHK: cur = (PUSHK[mn], []); toks.append(cur)
                else: toks.append((0, [index[mn], len(arg), int(arg, 2) if arg else 0])); cur = None
            else:
                cur[1].append(int(line))
        return toks
    def render(toks):
        out = []
        for tag, l in toks:
            if tag == 0:
                mn = ins[l[0]][1] if 0 <= l[0] < len(ins) else "ZZZ"
                out.append("%s[%s]" % (mn, format(l[2], "0%db" % l[1]) if l[1] else " "))
            elif tag == 1: out.append("INSTR%d[ ]" % l[0])
            else: out.append("%s[ ] /* %d values pushed */" % (KNAME[tag], len(l))); out.extend(str(v) for v in l)
        return out
    def impl_dis(bs):
        def go():
            p = Program(); p.fromBytecode(bytes(bs)); return parse(p.getAssembly())
        return res(go)
    def oracle_dis(bs):
        """the property on the implementation: what toXML writes for a program, fromXML turns back into the same bytecode"""
        try:
            p = Program(); p.fromBytecode(bytes(bs)); asm = p.getAssembly()
        except Exception:
            return None                                       # toXML falls back to a hex dump
        q = Program(); q.fromAssembly(asm)
        try: back = bytes(q.getBytecode())
        except Exception as e: return "the disassembly of %s does not assemble: %r" % (bytes(bs).hex(), e)
        return None if back == bytes(bs) else "program %s reads back as %s" % (bytes(bs).hex(), back.hex())
    def impl_asm(toks):
        def go():
            p = Program(); p.fromAssembly(render(toks)); return list(p.getBytecode())
        try: return Ok(go())
        except tt_instructions_error: return Err(6)
        except Exception as e: return Err(exc_code(e))
    def oracle_asm(toks):
        """every value of a push comes back, in order, and plain instructions come back as themselves"""
        # an explicit push instruction written with NO values is not something the disassembler ever writes (a zero count makes it
        # fall back to a hex dump); the assembler turns it into opcode-1 or a zero count — outside the round trip the property is about
        if any(tag >= 3 and not l for tag, l in toks): return None
        # likewise INSTRn is only ever written for opcodes outside both tables; n naming a push instruction is not a round-trip input
        if any(tag == 1 and (l[0] in streamops or not (0 <= l[0] <= 255)) for tag, l in toks): return None
        try:
            p = Program(); p.fromAssembly(render(toks)); bc = bytes(p.getBytecode())
        except Exception: return None
        want = []
        for tag, l in toks:
            if tag >= 2: want += [("v", v) for v in l]
            else: want.append((tag, tuple(l)))
        try:
            q = Program(); q.fromBytecode(bc); back = parse(q.getAssembly())
        except Exception as e:
            return "assembled program %s does not disassemble: %r" % (bc.hex(), e)
        got = []
        for tag, l in back:
            if tag >= 2: got += [("v", v) for v in l]
            else: got.append((tag, tuple(l)))
        # INSTRn of a known opcode reads back under its mnemonic: compare opcodes there
        def norm(x):
            if x[0] == 0: return ("op", ins[x[1][0]][0] + x[1][2])
            if x[0] == 1: return ("op", x[1][0])
            return x
        return None if [norm(x) for x in want] == [norm(x) for x in got] else "assembly %r reads back as %r" % (toks, back)
    n = N(tier, 700, 12000)
    VALS = [0, 1, 255, 256, -1, 127, 128, 32767, -32768, 32768, -32769, 300, 65535]
    def rvals(kind):
        ln = rng.choice([0, 1, 2, 3, 7, 8, 9, 10, 40]) if rng.chance(90) else rng.choice([254, 255, 256, 257])
        if kind == "b": return [rng.randint(0, 255) if rng.chance(95) else rng.choice(VALS) for _ in range(ln)]
        if kind == "w": return [rng.randint(-32768, 32767) if rng.chance(95) else rng.choice(VALS) for _ in range(ln)]
        out_ = []
        while len(out_) < ln:                       # auto PUSH: runs of bytes and words of boundary lengths
            run = rng.choice([1, 1, 2, 3, 8, 9, 30]) if ln < 200 else rng.choice([1, 2, 100, 254, 255, 256])
            byte = rng.chance(50)
            out_ += [(rng.randint(0, 255) if byte else rng.choice([-1, 256, 1000, -300, 32767, -32768])) if rng.chance(97) else rng.choice(VALS) for _ in range(run)]
        return out_[:ln]
    def rtok():
        k = rng.below(10)
        if k < 4:
            i = rng.below(len(ins)); ab = ins[i][2]
            if rng.chance(4): return (0, [i if rng.chance(50) else len(ins) + 3, ab + 1, 0])
            return (0, [i, ab, rng.below(1 << ab)])
        if k == 4: return (1, [rng.choice([0x8F, 0x90, 0xA0, 0xFF, 0x28, 0x7B, 143, 255, 256, 300]) if rng.chance(80) else rng.randint(0, 255)])
        if k == 5: return (2, rvals("a"))
        if k == 6: return (3, rvals("b"))
        if k == 7: return (4, rvals("w"))
        if k == 8: return (5, rvals("b")[:rng.choice([1, 8, 8, 9, 3])])
        return (6, rvals("w")[:rng.choice([1, 8, 8, 9, 3])])
    acases = [[rtok() for _ in range(rng.randint(0, 6))] for _ in range(n)]
    dcases = []
    for toks in acases:
        try:
            p = Program(); p.fromAssembly(render(toks)); bc = list(p.getBytecode())
        except Exception:
            continue
        dcases.append(bc)
        if bc and rng.chance(30): dcases.append(bc[:rng.randint(0, len(bc))])
        if bc and rng.chance(20):
            m_ = list(bc); m_[rng.below(len(m_))] = rng.choice([0x40, 0x41, 0xB0, 0xB7, 0xB8, 0xBF, 0, rng.randint(0, 255)]); dcases.append(m_)
    dcases += [[rng.randint(0, 255) for _ in range(rng.randint(0, 12))] for _ in range(n // 3)]
    dcases += [[0x40, 0], [0x41, 0], [0x40], [0x41, 1, 5], [0xB0], [0xB8, 1], [0x40, 2, 1], [0xBF] + [0] * 15, [0xB7] + [9] * 8]
    # programs of the corpus fonts
    k = 0
    for pth in corpus.binaries((".ttf",)):
        if k >= (4 if tier == "quick" else 60) or os.path.getsize(pth) > 300000: continue
        try:
            from fontTools.ttLib import TTFont
            f = TTFont(pth); progs = []
            for t in ("fpgm", "prep"):
                if t in f: progs.append(list(f[t].program.getBytecode()))
            if "glyf" in f:
                for gn in f.getGlyphOrder()[:60]:
                    g = f["glyf"][gn]
                    if hasattr(g, "program") and g.program: progs.append(list(g.program.getBytecode()))
            progs = [p_ for p_ in progs if 0 < len(p_) < 3000]
            if progs: k += 1; dcases += progs[:40]
        except Exception:
            continue
    return [Corr("tt_disassemble", dcases, impl_dis, oracle=oracle_dis), Corr("tt_assemble", acases, impl_asm, oracle=oracle_asm)]

def ebdt_font(rng):
    """a corpus TrueType font given embedded bitmaps in the bit-aligned and byte-aligned EBDT image formats (2, 7 and 1, 6; small
    and big metrics), glyph sizes 1..17 in both directions (bit counts that are and are not multiples of 8), bit depths 1/2/4. The
    image bytes are packed HERE, so the source does not depend on the library's row packing."""
    from fontTools.ttLib import TTFont
    src = corpus.find("TestTTF.ttf")
    font = TTFont(src); order = font.getGlyphOrder()
    depth = rng.choice([1, 1, 2, 4])
    line = ('<sbitLineMetrics direction="%s"><ascender value="8"/><descender value="-2"/><widthMax value="17"/><caretSlopeNumerator value="0"/>'
            '<caretSlopeDenominator value="0"/><caretOffset value="0"/><minOriginSB value="0"/><minAdvanceSB value="0"/><maxBeforeBL value="0"/>'
            '<minAfterBL value="0"/><pad1 value="0"/><pad2 value="0"/></sbitLineMetrics>')
    fmt = rng.choice([2, 2, 7, 1, 6])
    n = rng.randint(2, 5); ids = list(range(1, 1 + n))
    glyphs = []
    for gid in ids:
        w = rng.choice([1, 2, 3, 4, 5, 7, 8, 9, 11, 12, 13, 16, 17]); h = rng.choice([1, 2, 3, 4, 5, 6, 7, 8, 9])
        rows = [[rng.below(1 << depth) for _ in range(w)] for _ in range(h)]
        for r_ in rows: r_[-1] = (1 << depth) - 1                       # last column set: trailing bits matter
        rows[-1] = [(1 << depth) - 1] * w
        if fmt in (2, 7):
            bits = "".join(format(v, "0%db" % depth) for r_ in rows for v in r_); bits += "0" * (-len(bits) % 8)
        else:
            bits = ""
            for r_ in rows:
                rb = "".join(format(v, "0%db" % depth) for v in r_); bits += rb + "0" * (-len(rb) % 8)
        raw = bytes(int(bits[i:i + 8], 2) for i in range(0, len(bits), 8))
        if fmt in (1, 2):
            met = ('<SmallGlyphMetrics><height value="%d"/><width value="%d"/><BearingX value="0"/><BearingY value="%d"/><Advance value="%d"/></SmallGlyphMetrics>' % (h, w, h, w + 1))
        else:
            met = ('<BigGlyphMetrics><height value="%d"/><width value="%d"/><horiBearingX value="0"/><horiBearingY value="%d"/><horiAdvance value="%d"/>'
                   '<vertBearingX value="0"/><vertBearingY value="0"/><vertAdvance value="%d"/></BigGlyphMetrics>' % (h, w, h, w + 1, h + 1))
        glyphs.append('<ebdt_bitmap_format_%d name="%s">%s<rawimagedata>%s</rawimagedata></ebdt_bitmap_format_%d>' % (fmt, order[gid], met, raw.hex(), fmt))
    locs = "".join('<glyphLoc id="%d" name="%s"/>' % (g, order[g]) for g in ids)
    xml = ('<?xml version="1.0" encoding="UTF-8"?><ttFont><EBLC><header version="2.0"/><strike index="0"><bitmapSizeTable>%s%s<colorRef value="0"/>'
           '<startGlyphIndex value="%d"/><endGlyphIndex value="%d"/><ppemX value="10"/><ppemY value="10"/><bitDepth value="%d"/><flags value="1"/></bitmapSizeTable>'
           '<eblc_index_sub_table_1 imageFormat="%d" firstGlyphIndex="%d" lastGlyphIndex="%d">%s</eblc_index_sub_table_1></strike></EBLC>'
           '<EBDT><header version="2.0"/><strikedata index="0">%s</strikedata></EBDT></ttFont>') % (
               line % "hori", line % "vert", ids[0], ids[-1], depth, fmt, ids[0], ids[-1], locs, "".join(glyphs))
    font.importXML(io.BytesIO(xml.encode("utf-8")))
    b = io.BytesIO(); font.save(b)
    return "generated-ebdt(format %d, depth %d, %d glyphs)" % (fmt, depth, n), b.getvalue()

def sweeps(tier, rng):
    from fontTools.ttLib import TTFont
    bins = [p for p in corpus.binaries((".ttf", ".otf")) if os.path.getsize(p) < 200000]
    def cover(k):
        tagsets = {}
        for p in bins:
            try: tagsets[p] = set(TTFont(p, lazy=True).reader.keys())
            except Exception: pass
        chosen = []; seen = set()
        while len(chosen) < k and tagsets:
            p = max(sorted(tagsets), key=lambda q: len(tagsets[q] - seen))
            if not (tagsets[p] - seen): break
            chosen.append(p); seen |= tagsets.pop(p)
        return chosen
    def inputs():
        k = 8 if tier == "quick" else 30 if tier == "search" else 300
        for p in (cover(k) if tier != "thorough" else bins): yield corpus.rel(p), open(p, "rb").read()
        for name, d in genfonts.all_generated(): yield name, d
        try: yield "generated-instructions-and-colliding-names", instr_font()
        except Exception as e: yield "generated-instructions(build failed %r)" % (e,), None
        for _k in range(3 if tier == "quick" else 40):
            try: yield ebdt_font(rng)
            except Exception as e: yield "generated-ebdt(build failed %r)" % (e,), None
        # edited corpus fonts: point flags that no outline reader shows (OVERLAP_SIMPLE on arbitrary points), CFF dictionary reals of
        # small and large magnitude (printed with an exponent)
        ttfs = [p for p in bins if p.endswith(".ttf")]; otfs = [p for p in bins if p.endswith(".otf")]
        made = 0; cands = ttfs[:]; rng.shuffle(cands)
        first = [p for p in ttfs if p.endswith("ttx/data/TestTTF.ttf")]
        for p in first + cands:
            if made >= (2 if tier == "quick" else 12): break
            try:
                f = TTFont(p, recalcBBoxes=False, recalcTimestamp=False)
                if "glyf" not in f: continue
                n = 0
                for gn in f.getGlyphOrder():
                    g = f["glyf"][gn]
                    if g.numberOfContours <= 0: continue
                    starts = [0] + [e + 1 for e in g.endPtsOfContours[:-1]]
                    for i in range(len(g.flags)):
                        if (i in starts and rng.chance(50)) or rng.chance(10) or i == len(g.flags) - 1:
                            g.flags[i] |= 0x40; n += (i > 0)
                if n < 3: continue
                made += 1
                b = io.BytesIO(); f.save(b); yield "edited-overlap-flags:" + corpus.rel(p), b.getvalue()
            except Exception:
                continue
        for p in corpus.pick(rng, otfs, 2 if tier == "quick" else 12):
            try:
                f = TTFont(p, recalcBBoxes=False, recalcTimestamp=False)
                if "CFF " not in f: continue
                td = f["CFF "].cff.topDictIndex[0]
                privs = [td.Private] if hasattr(td, "Private") else [fd.Private for fd in td.FDArray]
                small = [5e-05, 1e-05, 2.5e-06, 1e-07, 0.039625, 0.00001234, 123456.5, 3e-05]
                for pr in privs:
                    pr.BlueScale = rng.choice(small)
                    if rng.chance(50): pr.ExpansionFactor = rng.choice(small)
                    if rng.chance(50): pr.BlueShift = rng.choice([7, 0.5, 1e-05])
                if not hasattr(td, "ROS"): td.FontMatrix = [rng.choice([0.001, 0.00001, 5e-05, 0.0004882813]), 0, 0, rng.choice([0.001, 0.00001, 5e-05]), 0, 0]
                b = io.BytesIO(); f.save(b); yield "edited-cff-reals:" + corpus.rel(p), b.getvalue()
            except Exception:
                continue
    def _tables_of(font):
        b = io.BytesIO(); font.save(b); r = TTFont(io.BytesIO(b.getvalue()), lazy=True)
        out = {}
        for t in r.reader.keys():
            d = r.reader[t]
            out[t] = d[:8] + b"\0\0\0\0" + d[12:] if t == "head" else d      # checkSumAdjustment depends on every other byte
        return out
    def _dump_import(font_or_bytes, path, **o):
        f1 = TTFont(io.BytesIO(font_or_bytes), lazy=False, recalcTimestamp=False, recalcBBoxes=False) if isinstance(font_or_bytes, bytes) else font_or_bytes
        f1.saveXML(path, **o)
        f2 = TTFont(recalcTimestamp=False, recalcBBoxes=False); f2.importXML(path)
        return f2
    def _model(font):
        """what the tables hold, read from the object model without going through XML: point flags, coordinates, contour ends and
        instructions of simple glyphs; the numbers of the CFF top and private dictionaries"""
        out = {}
        if "glyf" in font:
            for gn in font.getGlyphOrder():
                g = font["glyf"][gn]
                if g.numberOfContours > 0:
                    out[("glyf", gn)] = (bytes(g.flags), [tuple(c) for c in g.coordinates], list(g.endPtsOfContours),
                                         bytes(g.program.getBytecode()) if hasattr(g, "program") else b"")
        if "CFF " in font:
            td = font["CFF "].cff.topDictIndex[0]
            TOP = ["FontMatrix", "FontBBox", "UnderlinePosition", "UnderlineThickness", "ItalicAngle", "StrokeWidth", "PaintType", "isFixedPitch", "CharstringType"]
            PRIV = ["BlueValues", "OtherBlues", "FamilyBlues", "FamilyOtherBlues", "BlueScale", "BlueShift", "BlueFuzz", "StdHW", "StdVW", "StemSnapH",
                    "StemSnapV", "ForceBold", "LanguageGroup", "ExpansionFactor", "initialRandomSeed", "defaultWidthX", "nominalWidthX"]
            out[("CFF ", "top")] = {k: getattr(td, k, None) for k in TOP}
            privs = [td.Private] if hasattr(td, "Private") else [fd.Private for fd in td.FDArray]
            for i, pr in enumerate(privs): out[("CFF ", "private", i)] = {k: getattr(pr, k, None) for k in PRIV}
        return out
    def _text(font):
        out = {}
        from fontTools.misc.xmlWriter import XMLWriter
        if not hasattr(font, "bitmapGlyphDataFormat"): font.bitmapGlyphDataFormat = "raw"     # what saveXML sets before any toXML runs
        for t in font.keys():
            if t == "GlyphOrder": continue
            b = io.BytesIO(); w = XMLWriter(b); font[t].toXML(w, font); w.close()
            import re
            # count comments (<!-- XCount=n -->) are informational and come and go with compilation
            out[t] = b"\n".join(l_ for l_ in re.sub(rb"<!--.*?-->", b"", b.getvalue(), flags=re.S).split(b"\n") if l_.strip())
        return out
    def run_roundtrip():
        """generation 0 = the font as loaded; generation 1 = import(dump(g0)); generation 2 = import(dump(g1)).
        (a) every option set must give the same generation-1 table bytes as the plain dump,
        (b) generation 1 and 2 compile to the same bytes (fixed point),
        (c) the decoded content does not change: the XML text of g0 and g1 is the same, table by table."""
        tmp = tempfile.mkdtemp(prefix="fvC03_")
        try:
            for label, data in inputs():
                if data is None: yield ((label, "build"), "could not build the generated font"); continue
                try:
                    tags = list(TTFont(io.BytesIO(data), lazy=True).reader.keys())
                    if "Silf" in tags: continue
                except Exception:
                    continue
                opts = [dict(), dict(splitTables=True), dict(disassembleInstructions=False), dict(newlinestr="\r\n")]
                if "glyf" in tags: opts.append(dict(splitGlyphs=True))
                if any(t in tags for t in ("EBDT", "CBDT")): opts += [dict(bitmapGlyphDataFormat="row"), dict(bitmapGlyphDataFormat="bitwise"), dict(bitmapGlyphDataFormat="extfile")]
                if tier == "quick" and not label.startswith("generated"): opts = opts[:1] + rng.sample(opts[1:], min(2, len(opts) - 1))
                ref = None
                for o in opts:
                    d = os.path.join(tmp, "Dump_%d" % rng.below(10**9)); os.makedirs(d)
                    path = os.path.join(d, "Font.ttx")
                    bad = None
                    try:
                        g1 = _dump_import(data, path, **o)
                        t1 = _tables_of(g1)
                        if ref is None:
                            ref = t1
                            # (c) generation 0 vs 1 through an independent reader: glyph names, outlines, advances, cmap, shaping
                            from lib.hb import HBFont
                            b1 = io.BytesIO(); g1.save(b1); d1 = b1.getvalue()
                            o0 = TTFont(io.BytesIO(data)).getGlyphOrder(); o1 = TTFont(io.BytesIO(d1)).getGlyphOrder()
                            if o0 != o1: bad = "glyph names changed after dump+import"
                            else:
                                h0 = HBFont(data, o0); h1 = HBFont(d1, o1)
                                for gid in range(min(len(o0), 400)):
                                    if h0.outline(gid) != h1.outline(gid) or h0.advance(gid) != h1.advance(gid):
                                        bad = "glyph %r differs after dump+import (outline/advance)" % o0[gid]; break
                                cm = TTFont(io.BytesIO(data)).getBestCmap() or {}
                                if bad is None and cm != (TTFont(io.BytesIO(d1)).getBestCmap() or {}): bad = "character map changed after dump+import"
                                cps = sorted(cm)[:40]
                                for i_ in range(0, len(cps) - 1, 2):
                                    t_ = chr(cps[i_]) + chr(cps[i_ + 1])
                                    if bad is None and h0.shape(t_) != h1.shape(t_): bad = "text %r shapes differently after dump+import" % t_
                            if bad is None:
                                m0 = _model(TTFont(io.BytesIO(data), lazy=False, recalcTimestamp=False, recalcBBoxes=False)); m1 = _model(g1)
                                for k_ in m0:
                                    if m0[k_] != m1.get(k_):
                                        what = ""
                                        if k_[0] == "glyf" and m1.get(k_) and m0[k_][0] != m1[k_][0]:
                                            what = ": point flags %s -> %s" % (m0[k_][0].hex(), m1[k_][0].hex())
                                        elif k_[0] == "CFF " and m1.get(k_):
                                            what = ": " + ", ".join("%s %r -> %r" % (n_, v_, m1[k_].get(n_)) for n_, v_ in m0[k_].items() if m1[k_].get(n_) != v_)[:300]
                                        bad = "decoded content of %r changed after dump+import%s" % (k_, what); break
                            raw = TTFont(io.BytesIO(data), lazy=True).reader["head"] if "head" in tags else None
                            if bad is None and raw is not None:
                                import struct
                                c0, m0 = struct.unpack(">qq", raw[20:36]); h1raw = TTFont(io.BytesIO(d1), lazy=True).reader["head"]
                                c1, m1 = struct.unpack(">qq", h1raw[20:36])
                                if (c0, m0) != (c1, m1):
                                    bad = ("F11:" if (c0 < 2082844800 or m0 < 2082844800) else "") + "head timestamps changed through TTX: %r -> %r" % ((c0, m0), (c1, m1))
                            if bad is None:
                                p2 = os.path.join(d, "Gen2.ttx"); g2 = _dump_import(g1, p2)
                                t2 = _tables_of(g2)
                                d2 = [t for t in t1 if t2.get(t) != t1[t]]
                                x1, x2 = _text(g1), _text(g2)
                                dx = [t for t in x1 if x1[t] != x2.get(t)]
                                if d2: bad = "second TTX generation compiles to different bytes in %r" % (d2,)
                                elif dx: bad = "second TTX generation dumps differently in %r" % (dx,)
                        else:
                            diff = [t for t in ref if t1.get(t) != ref[t]]
                            if diff: bad = "dump options %r give different table bytes than the plain dump in %r" % (o, diff)
                    except Exception as e:
                        bad = "TTX round trip (%r) raised %r" % (o, e)
                    shutil.rmtree(d, ignore_errors=True)
                    yield ((label, str(o)), bad)
        finally:
            shutil.rmtree(tmp, ignore_errors=True)
    def run_program_history():
        """one Program object through a history of fromBytecode / fromAssembly / getAssembly / getBytecode calls: after every step
        the bytecode it reports, and the bytecode its assembly (what toXML would write) assembles to, are the program set LAST"""
        from fontTools.ttLib.tables.ttProgram import Program
        def rprog():
            out_ = []
            for _ in range(rng.randint(1, 6)):
                k = rng.below(4)
                if k == 0: n_ = rng.randint(1, 8); out_ += [0xB0 + n_ - 1] + [rng.randint(0, 255) for _ in range(n_)]
                elif k == 1: n_ = rng.randint(1, 3); out_ += [0xB8 + n_ - 1] + [rng.randint(0, 255) for _ in range(2 * n_)]
                elif k == 2: n_ = rng.randint(1, 12); out_ += [0x40, n_] + [rng.randint(0, 255) for _ in range(n_)]
                else: out_ += [rng.choice([0x00, 0x01, 0x20, 0x21, 0x23, 0x2F, 0x60, 0x61, 0x76, 0x8F, 0xA3])]
            return bytes(out_)
        for i in range(N(tier, 150, 3000)):
            p = Program(); expected = None; hist = []; bad = None
            for step in range(rng.randint(2, 7)):
                k = rng.below(4) if expected is not None else rng.below(2)
                try:
                    if k == 0:
                        b = rprog(); p.fromBytecode(b); expected = b; hist.append("fromBytecode(%s)" % b.hex())
                    elif k == 1:
                        b = rprog(); q = Program(); q.fromBytecode(b); p.fromAssembly(q.getAssembly()); expected = b; hist.append("fromAssembly(<%s>)" % b.hex())
                    elif k == 2:
                        asm = p.getAssembly(); hist.append("getAssembly()")
                        q = Program(); q.fromAssembly(asm)
                        if bytes(q.getBytecode()) != expected: bad = "after %s the assembly is that of %s, the program is %s" % (", ".join(hist), bytes(q.getBytecode()).hex(), expected.hex())
                    else:
                        got = bytes(p.getBytecode()); hist.append("getBytecode()")
                        if got != expected: bad = "after %s getBytecode() gives %s, the program is %s" % (", ".join(hist), got.hex(), expected.hex())
                except Exception as e:
                    bad = "after %s: %r" % (", ".join(hist), e)
                if bad: break
            yield (("program-history", i, tuple(hist) if bad else ()), bad)
    return [Sweep("ttx-roundtrip", run_roundtrip), Sweep("program-history", run_program_history)]

def classify(sweep, case, failure):
    if str(failure).startswith("F11:"): return "F11"
    return None

def witness(fid):
    if fid == "F11":
        from fontTools.misc.timeTools import timestampToString, timestampFromString
        return timestampFromString(timestampToString(2082840000)) != 2082840000
    return None
