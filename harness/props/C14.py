"""C14 — pen adapters preserve geometry."""
from fontTools.pens.basePen import BasePen
import math
from fractions import Fraction as F
from lib.ser import Ok, Err, res, Raw, Opt
from lib.deser import decode
from lib import geom as G
from vcheck import Corr, Sweep

RULE = ("contours generated from the pen grammar: open/closed, lines, cubics, quadratic runs with 1-4 off-curve points, all-off-curve "
        "contours, super-beziers with up to 10 off-curves, duplicate/coincident points, closing point equal to the start, single-point "
        "contours; rational coordinates so that every comparison is exact.")
TRUSTED = ["harness/lib/geom.py: canonical geometry of pen calls written from the pen protocol documentation"]
ASSUMPTIONS = []

def N(tier, q, t): return q if tier == "quick" else t

def P(rng, lo=-40, hi=40): return (F(rng.randint(lo, hi)), F(rng.randint(lo, hi)))

def gen_contour(rng, allow_super=True, integer=True):
    """a list of (op, args) for ONE contour"""
    k = rng.below(12)
    if k == 0:   # all off-curve
        n = rng.randint(1, 5)
        return [("qCurveTo", tuple(P(rng) for _ in range(n)) + (None,)), ("closePath", ())]
    closed = rng.chance(70)
    calls = [("moveTo", (P(rng),))]
    nseg = rng.choice([0, 1, 1, 2, 3, 4, 6])
    for _ in range(nseg):
        t = rng.below(10)
        if t < 4: calls.append(("lineTo", (rng.choice([P(rng), calls[-1][1][-1]]) if rng.chance(15) else P(rng),)))
        elif t < 7: calls.append(("curveTo", (P(rng), P(rng), P(rng))))
        elif t < 9: calls.append(("qCurveTo", tuple(P(rng) for _ in range(rng.randint(2, 5)))))
        elif allow_super: calls.append(("curveTo", tuple(P(rng) for _ in range(rng.randint(4, 11)))))
        else: calls.append(("lineTo", (P(rng),)))
    if closed and nseg and rng.chance(30):
        # closing point coincides with the start
        last = calls[-1]; calls[-1] = (last[0], tuple(last[1][:-1]) + (calls[0][1][0],))
    calls.append(("closePath" if closed else "endPath", ()))
    return calls

def enc_calls(calls):
    kinds = {"moveTo": 0, "lineTo": 1, "curveTo": 2, "qCurveTo": 3, "closePath": 4, "endPath": 5}
    return [(kinds[op], [Opt(p, some=p is not None) for p in a]) for op, a in calls]

def dec_calls(ints):
    names = ["moveTo", "lineTo", "curveTo", "qCurveTo", "closePath", "endPath"]
    r = decode(ints, ("res", ("list", ("tuple", "Z", ("list", ("opt", ("tuple", "Q", "Q")))))))
    if isinstance(r, tuple) and r and r[0] == "err": return r
    return [(names[k], tuple(p for p in pts)) for k, pts in r]

def correspondences(tier, rng):
    from fontTools.misc.transform import Transform
    from fontTools.pens.areaPen import AreaPen
    from fontTools.pens.reverseContourPen import reversedContour
    n = N(tier, 800, 15000)
    out = []
    def gen_xf():
        return tuple(F(rng.randint(-6, 6), rng.choice([1, 2, 4])) for _ in range(6))
    cases = [(gen_xf(), P(rng)) for _ in range(n)]
    out.append(Corr("transformPoint", cases, lambda x: tuple(Transform(*x[0]).transformPoint(x[1]))))
    cases = [(gen_xf(), gen_xf()) for _ in range(n)]
    out.append(Corr("xf_transform", cases, lambda x: tuple(F(v) for v in Transform(*x[0]).transform(Transform(*x[1])))))
    cases = [gen_xf() for _ in range(n)]
    def impl_inv(t):
        T = Transform(*t)
        if t[0] * t[3] - t[2] * t[1] == 0: return Opt(None)
        if T == Transform(): return Opt(tuple(F(v) for v in T))
        return Opt(tuple(F(v) for v in T.inverse()))
    def oracle_inv(t):
        T = Transform(*t)
        if t[0] * t[3] - t[2] * t[1] == 0: return None
        p = (F(3), F(-7)); q = T.inverse().transformPoint(T.transformPoint(p))
        return None if tuple(q) == p else "inverse(T)(T(p)) = %r != %r" % (q, p)
    out.append(Corr("xf_inverse", cases, impl_inv, oracle=oracle_inv))
    # AreaPen on closed contours vs the model's area of the canonical geometry
    cases = []
    for _ in range(n):
        c = gen_contour(rng, allow_super=False)
        if c[-1][0] != "closePath" or c[0][0] != "moveTo": continue
        cases.append(c)
    def segs_of(calls):
        conts = G.contours(calls)
        segs = []
        for closed, ss in conts:
            for s in ss:
                segs.append(Raw([{"L": 0, "Q": 1, "C": 2}[s[0]]] + [v for p in s[1:] for c in p for v in (c.numerator, c.denominator)]))
        return segs
    def cmp_area(x, io, mo):
        pen = AreaPen()
        for op, a in x: getattr(pen, op)(*a)
        return abs(float(decode(mo, "Q")) - float(pen.value)) <= 1e-9 * max(1.0, abs(float(pen.value)))
    def oracle_area(x):
        pen = AreaPen()
        for op, a in x: getattr(pen, op)(*a)
        want = G.area(G.contours(x))
        if abs(float(want) - float(pen.value)) > 1e-9 * max(1.0, abs(float(want))): return "AreaPen gives %r, Green's formula %r" % (float(pen.value), float(want))
        # reversing negates
        pen2 = AreaPen()
        for op, a in reversedContour(list(x)): getattr(pen2, op)(*a)
        if abs(float(pen2.value) + float(pen.value)) > 1e-9 * max(1.0, abs(float(want))): return "area of the reversed contour is %r, not -%r" % (float(pen2.value), float(pen.value))
        return None
    out.append(Corr("area", cases, lambda x: 0, enc=segs_of, compare=cmp_area, oracle=oracle_area))
    # reversedContour: exact call-list correspondence + geometry oracle
    cases = []
    for _ in range(n):
        c = gen_contour(rng)
        cases.append((c, rng.chance(40)))
    cases.append(([("moveTo", (P(rng),)), ("closePath", ())], False)); cases.append(([("moveTo", (P(rng),))], False))
    def impl_rev(x):
        c, implied = x
        def go():
            r = list(reversedContour(list(c), implied))
            return enc_calls(r)
        return res(go)
    def oracle_rev(x):
        c, implied = x
        try:
            r = list(reversedContour(list(c), implied))
        except AssertionError:
            return None
        g0 = G.rotate_canonical(G.drop_degenerate(G.reverse_geom(G.contours(c))))
        g1 = G.canon(r)
        if g0 != g1: return "reversed contour has different geometry: %r -> %r" % (c, r)
        rr = list(reversedContour(list(r), implied))
        if G.canon(rr) != G.canon(c): return "reversing twice does not restore the outline: %r -> %r" % (c, rr)
        if c[-1][0] == "closePath" and c[0][0] == "moveTo" and len(c) > 2 and r[0] != c[0]: return "closed contour's first point moved"
        return None
    out.append(Corr("reversedContour", cases, impl_rev, enc=lambda x: (enc_calls(x[0]), x[1]), oracle=oracle_rev))
    # the two protocol adapters: SegmentToPointPen on call sequences (mostly well formed, some not), PointToSegmentPen on point lists
    from fontTools.pens.pointPen import SegmentToPointPen, PointToSegmentPen
    from fontTools.pens.recordingPen import RecordingPen, RecordingPointPen
    from fontTools.pens.basePen import PenError
    from lib import ser as S_
    TYPES = {"move": 0, "line": 1, "curve": 2, "qcurve": 3}
    def pen_res(fn):
        try: return Ok(fn())
        except PenError: return Err(S_.LIB)
        except Exception as e: return Err(S_.exc_code(e))
    def enc_points(pts): return [(Opt(p, some=p is not None), Opt(TYPES[t] if t is not None else None, some=t is not None)) for p, t in pts]
    cases = []
    for _ in range(n):
        calls = []
        for _c in range(rng.randint(1, 3)): calls += gen_contour(rng)
        r_ = rng.below(12)
        if r_ == 0 and len(calls) > 1: del calls[rng.below(len(calls))]                      # a call goes missing (often the moveTo or the closePath)
        elif r_ == 1: calls.insert(rng.below(len(calls) + 1), rng.choice([("curveTo", ()), ("qCurveTo", ()), ("closePath", ()), ("endPath", ()), ("qCurveTo", (None,)), ("lineTo", (P(rng),))]))
        elif r_ == 2: calls.insert(rng.below(len(calls) + 1), ("qCurveTo", (P(rng), P(rng), None)))
        cases.append(calls)
    def impl_s2p(calls):
        def go():
            rec = RecordingPointPen(); pen = SegmentToPointPen(rec, guessSmooth=False)
            for op, a in calls: getattr(pen, op)(*a)
            outc = []; cur = None
            for op, a, kw in rec.value:
                if op == "beginPath": cur = []
                elif op == "addPoint": cur.append((a[0], a[1]))
                elif op == "endPath": outc.append(enc_points(cur)); cur = None
            return outc
        return pen_res(go)
    out.append(Corr("segment_to_point", cases, impl_s2p, enc=enc_calls))
    cases = []
    for _ in range(n):
        k = rng.randint(0, 9); fam = rng.below(6)
        if fam < 3:
            # what SegmentToPointPen produces for a generated contour
            rec = RecordingPointPen(); pen = SegmentToPointPen(rec, guessSmooth=False)
            try:
                for op, a in gen_contour(rng): getattr(pen, op)(*a)
            except Exception: pass
            pts = [(a[0], a[1]) for op, a, kw in rec.value if op == "addPoint"]
            if fam == 1 and pts and pts[0][1] != "move":
                r_ = rng.below(len(pts)); pts = pts[r_:] + pts[:r_]                         # a closed contour may start at any point
        else:
            pts = [(P(rng), rng.choice([None, None, "line", "curve", "qcurve"] + (["move"] if rng.chance(10) else []))) for _ in range(k)]
            if pts and rng.chance(40): pts[0] = (pts[0][0], "move")
        cases.append((pts, rng.chance(30)))
    def impl_p2s(x):
        pts, implied = x
        def go():
            rec = RecordingPen(); pen = PointToSegmentPen(rec, outputImpliedClosingLine=implied)
            pen.beginPath()
            for p_, t_ in pts: pen.addPoint(p_, t_)
            pen.endPath()
            return enc_calls(rec.value)
        return pen_res(go)
    out.append(Corr("point_to_segment", cases, impl_p2s, enc=lambda x: (enc_points(x[0]), x[1])))
    # dropImpliedOnCurvePoints on one simple glyph: quadratic, cubic and mixed contours, midway joins, contours started anywhere
    import array
    from fontTools.ttLib.tables._g_l_y_f import Glyph, GlyphCoordinates, dropImpliedOnCurvePoints
    gcases = []
    for _ in range(n):
        flags = []; coords = []; ends = []
        for _c in range(rng.randint(1, 3)):
            cub = rng.chance(45); pts = []
            for _s in range(rng.randint(1, 4)):
                k = rng.below(10)
                if k < 6:
                    noff = 2 if cub else rng.randint(1, 3)
                    pts += [((2 * rng.randint(-20, 20), 2 * rng.randint(-20, 20)), 128 if cub else 0) for _o in range(noff)]
                    pts.append(((rng.randint(-40, 40), rng.randint(-40, 40)), 1))
                else: pts.append(((rng.randint(-40, 40), rng.randint(-40, 40)), 1))
            m = len(pts)
            for j in range(m):
                # some on-curve points sit exactly midway between their off-curve neighbours
                if pts[j][1] & 1 and not pts[(j - 1) % m][1] & 1 and not pts[(j + 1) % m][1] & 1 and m >= 3 and rng.chance(60):
                    a_, b_ = pts[(j - 1) % m][0], pts[(j + 1) % m][0]
                    pts[j] = (((a_[0] + b_[0]) // 2, (a_[1] + b_[1]) // 2), 1 | (64 if rng.chance(10) else 0))
            r_ = rng.below(m); pts = pts[r_:] + pts[:r_]
            coords += [p for p, _ in pts]; flags += [f for _, f in pts]; ends.append(len(flags) - 1)
        gcases.append((flags, coords, ends))
    def impl_drop(x):
        flags, coords, ends = x
        def go():
            g = Glyph(); g.numberOfContours = len(ends); g.flags = array.array("B", flags); g.coordinates = GlyphCoordinates(coords); g.endPtsOfContours = list(ends)
            d = dropImpliedOnCurvePoints(g)
            return (((sorted(d), list(g.flags)), [tuple(int(v) for v in p) for p in g.coordinates]), list(g.endPtsOfContours))
        return res(go)
    out.append(Corr("dropImplied", gcases, impl_drop))
    return out

class _Priv:
    nominalWidthX = 0; defaultWidthX = 0; Subrs = []
    vstore = None

def _sample_outline(calls, n=96):
    """points on the outline: the end points of every segment and n parameter values inside each curve (cubics, quadratic splines via
    the implied on-curve points, super-beziers are skipped)"""
    pts = []; cur = None
    for op, a in calls:
        if op == "moveTo": cur = a[0]; pts.append(cur)
        elif op == "lineTo": cur = a[0]; pts.append(cur)
        elif op == "curveTo":
            if len(a) != 3: return None
            p0, p1, p2, p3 = cur, a[0], a[1], a[2]
            for i in range(1, n + 1):
                t = i / n; m = 1 - t
                pts.append((m*m*m*p0[0] + 3*m*m*t*p1[0] + 3*m*t*t*p2[0] + t*t*t*p3[0], m*m*m*p0[1] + 3*m*m*t*p1[1] + 3*m*t*t*p2[1] + t*t*t*p3[1]))
            cur = p3
        elif op == "qCurveTo":
            if a[-1] is None or cur is None: return None
            offs = list(a[:-1]); end = a[-1]
            ons = [((offs[i][0] + offs[i+1][0]) / 2, (offs[i][1] + offs[i+1][1]) / 2) for i in range(len(offs) - 1)] + [end]
            p0 = cur
            for c, p2 in zip(offs, ons):
                for i in range(1, n + 1):
                    t = i / n; m = 1 - t
                    pts.append((m*m*p0[0] + 2*m*t*c[0] + t*t*p2[0], m*m*p0[1] + 2*m*t*c[1] + t*t*p2[1]))
                p0 = p2
            cur = end
    return pts

def _record(calls, pen):
    for op, a in calls: getattr(pen, op)(*a)

def sweeps(tier, rng):
    from fontTools.pens.recordingPen import RecordingPen, RecordingPointPen
    from fontTools.pens.pointPen import PointToSegmentPen, SegmentToPointPen, ReverseContourPointPen
    from fontTools.pens.transformPen import TransformPen
    from fontTools.pens.reverseContourPen import ReverseContourPen
    from fontTools.pens.basePen import decomposeSuperBezierSegment, decomposeQuadraticSegment, BasePen
    from fontTools.pens.boundsPen import BoundsPen, ControlBoundsPen
    from fontTools.pens.ttGlyphPen import TTGlyphPen, TTGlyphPointPen
    from fontTools.pens.t2CharStringPen import T2CharStringPen
    from fontTools.pens.roundingPen import RoundingPen
    from fontTools.pens.svgPathPen import SVGPathPen
    from fontTools.svgLib.path import parse_path
    from fontTools.misc.transform import Transform
    n = N(tier, 400, 8000) if tier != "search" else 2000
    def glyph(rng_, k=None, **kw):
        calls = []
        for _ in range(k or rng_.randint(1, 3)): calls += gen_contour(rng_, **kw)
        return calls
    def svg_outline(rng_):
        calls = []
        for _ in range(rng_.randint(1, 2)):
            pts = [(float(rng_.randint(-200, 200)), float(rng_.randint(-200, 200)))]
            calls.append(("moveTo", (pts[0],)))
            for _s in range(rng_.randint(2, 5)):
                prev = pts[-2:] if len(pts) > 1 else pts[-1:]
                x = rng_.choice([q[0] for q in prev] + [float(rng_.randint(-200, 200))])
                y = rng_.choice([q[1] for q in prev] + [float(rng_.randint(-200, 200))])
                end = (x, y)
                offs = lambda k: tuple((float(rng_.randint(-200, 200)), float(rng_.randint(-200, 200))) for _o in range(k))
                kind = rng_.choice(["lineTo", "lineTo", "qCurveTo", "qCurveTo", "curveTo"])
                if kind == "lineTo": calls.append(("lineTo", (end,)))
                elif kind == "qCurveTo": calls.append(("qCurveTo", offs(rng_.randint(1, 3)) + (end,)))
                else: calls.append(("curveTo", offs(2) + (end,)))
                pts.append(end)
            calls.append((rng_.choice(["closePath", "endPath"]), ()))
        return calls
    def run_adapters():
        for i in range(n):
            calls = glyph(rng)
            bad = None
            g0 = G.canon(calls)
            # record / replay
            r1 = RecordingPen(); _record(calls, r1); r2 = RecordingPen(); r1.replay(r2)
            if r2.value != r1.value: bad = "RecordingPen.replay changed the calls"
            # SVG path text and back (path data written by SVGPathPen, read by svgLib's parser)
            if bad is None and all(op != "curveTo" or len(a) == 3 for op, a in calls):
                try:
                    fcalls = [(op, tuple((float(p[0]), float(p[1])) if p is not None else None for p in a)) for op, a in calls]
                    svp = SVGPathPen(None); _record(fcalls, svp); rsv = RecordingPen(); parse_path(svp.getCommands(), rsv)
                    if G.canon(rsv.value) != G.canon(fcalls): bad = "SVG path text %r reads back as %r, drawn %r" % (svp.getCommands(), rsv.value, fcalls)
                except Exception as e:
                    bad = "SVGPathPen / parse_path raised %r on %r" % (e, calls)
            # the same with a directed outline: every segment's end point shares x and/or y with one of the two points before it, which is
            # where SVG's H/V shorthands and duplicate-point suppression (state carried from segment to segment) are decided
            if bad is None:
                dc = svg_outline(rng)
                try:
                    svp = SVGPathPen(None); _record(dc, svp); rsv = RecordingPen(); parse_path(svp.getCommands(), rsv)
                    if G.canon(rsv.value) != G.canon(dc): bad = "SVG path text %r reads back as %r, drawn %r" % (svp.getCommands(), rsv.value, dc)
                except Exception as e:
                    bad = "SVGPathPen / parse_path raised %r on %r" % (e, dc)
            # segment -> point -> segment
            r3 = RecordingPen(); sp = SegmentToPointPen(PointToSegmentPen(r3, outputImpliedClosingLine=rng.chance(50)))
            try:
                _record(calls, sp)
                if bad is None and G.canon(r3.value) != g0: bad = "segment->point->segment changed geometry: %r -> %r" % (calls, r3.value)
            except Exception as e:
                bad = "segment->point->segment raised %r on %r" % (e, calls)
            # transform
            t = Transform(*[F(rng.randint(-3, 3), rng.choice([1, 2])) for _ in range(6)])
            r4 = RecordingPen(); _record(calls, TransformPen(r4, t))
            tp = lambda p: tuple(t.transformPoint(p))
            want = G.canon([(op, tuple(tp(p) if p is not None else None for p in a)) for op, a in calls])
            if bad is None and G.canon(r4.value) != want: bad = "TransformPen geometry differs from transformed control points"
            # reverse twice
            r5 = RecordingPen(); _record(calls, ReverseContourPen(ReverseContourPen(r5)))
            if bad is None and G.canon(r5.value) != g0: bad = "reversing twice changed geometry: %r -> %r" % (calls, r5.value)
            r6 = RecordingPen(); _record(calls, ReverseContourPen(r6))
            if bad is None and G.canon(r6.value) != G.rotate_canonical(G.drop_degenerate(G.reverse_geom(G.contours(calls)))): bad = "ReverseContourPen geometry is not the reversed outline"
            # point-pen reversal agrees with segment reversal
            r7 = RecordingPen(); pp = SegmentToPointPen(ReverseContourPointPen(PointToSegmentPen(r7)))
            try:
                _record(calls, pp)
                if bad is None and G.canon(r7.value) != G.canon(r6.value): bad = "ReverseContourPointPen and ReverseContourPen disagree: %r" % (calls,)
            except Exception as e:
                pass
            # bounds inside control bounds
            try:
                b = BoundsPen(None); _record(calls, b); cb = ControlBoundsPen(None); _record(calls, cb)
                if bad is None and b.bounds is not None and cb.bounds is not None:
                    if not (cb.bounds[0] <= b.bounds[0] + 1e-9 and cb.bounds[1] <= b.bounds[1] + 1e-9 and b.bounds[2] <= cb.bounds[2] + 1e-9 and b.bounds[3] <= cb.bounds[3] + 1e-9):
                        bad = "bounds %r not inside control bounds %r" % (b.bounds, cb.bounds)
                # ... and they are the bounds of the curve itself: every sampled point of the outline lies inside, and each side is touched
                if bad is None and b.bounds is not None:
                    pts = _sample_outline(calls)
                    if pts:
                        xs = [float(q[0]) for q in pts]; ys = [float(q[1]) for q in pts]
                        span = max(1.0, max(xs) - min(xs), max(ys) - min(ys))
                        x0, y0, x1, y1 = [float(v) for v in b.bounds]
                        if min(xs) < x0 - 1e-7 * span or min(ys) < y0 - 1e-7 * span or max(xs) > x1 + 1e-7 * span or max(ys) > y1 + 1e-7 * span:
                            bad = "BoundsPen bounds %r do not contain the outline (sampled extremes %r) of %r" % (b.bounds, (min(xs), min(ys), max(xs), max(ys)), calls)
                        elif min(xs) > x0 + 2e-3 * span or min(ys) > y0 + 2e-3 * span or max(xs) < x1 - 2e-3 * span or max(ys) < y1 - 2e-3 * span:
                            bad = "BoundsPen bounds %r are not tight (sampled extremes %r) for %r" % (b.bounds, (min(xs), min(ys), max(xs), max(ys)), calls)
            except Exception:
                pass
            yield (("adapters", calls), bad)
    def run_superbezier():
        for i in range(n // 2):
            k = rng.randint(2, 11)
            offs = [P(rng) for _ in range(k)]; p0 = P(rng); pend = P(rng)
            fw = decomposeSuperBezierSegment(offs + [pend])
            bw = decomposeSuperBezierSegment(list(reversed(offs)) + [p0])
            bad = None
            if len(fw) != k - 1 or len(bw) != k - 1: bad = "super-bezier with %d off-curve points decomposed into %d segments (expected %d)" % (k, len(fw), k - 1)
            else:
                starts = [p0] + [tuple(s[2]) for s in fw[:-1]]
                F_ = [(st, tuple(s[0]), tuple(s[1]), tuple(s[2])) for st, s in zip(starts, fw)]
                startsb = [pend] + [tuple(s[2]) for s in bw[:-1]]
                B_ = [(st, tuple(s[0]), tuple(s[1]), tuple(s[2])) for st, s in zip(startsb, bw)]
                R_ = [tuple(reversed(s)) for s in reversed(B_)]
                if any(abs(float(a[0]) - float(b[0])) > 1e-9 or abs(float(a[1]) - float(b[1])) > 1e-9 for sa, sb in zip(F_, R_) for a, b in zip(sa, sb)):
                    bad = "super-bezier decomposition depends on the drawing direction: %r vs %r" % (F_[:2], [tuple(reversed(s)) for s in reversed(B_)][:2])
                if tuple(fw[-1][2]) != pend: bad = "decomposition does not end on the end point"
            pts = offs + [pend]
            qs = decomposeQuadraticSegment(pts)
            if bad is None and (len(qs) != k or tuple(qs[-1][1]) != tuple(pend)): bad = "quadratic decomposition wrong"
            if bad is None:
                for j in range(len(qs) - 1):
                    if tuple(qs[j][1]) != G.mid(pts[j], pts[j + 1]): bad = "implied on-curve point is not the midpoint"
            yield (("superbezier", offs), bad)
    def run_glyph_builders():
        for i in range(n):
            ncont = rng.randint(1, 3)
            calls = []
            for _ in range(ncont):
                c = gen_contour(rng, allow_super=False)
                if c[-1][0] == "endPath": c[-1] = ("closePath", ())
                c = [x for x in c if not (x[0] == "curveTo")]      # TrueType: quadratic only
                if len(c) < 2 or c[0][0] not in ("moveTo", "qCurveTo"): continue
                calls += c
            if not calls: continue
            icalls = [(op, tuple((int(p[0]), int(p[1])) if p is not None else None for p in a)) for op, a in calls]
            bad = None
            for drop in (False, True):
                try:
                    pen = TTGlyphPen(None); _record(icalls, pen); g = pen.glyph(dropImpliedOnCurves=drop)
                    rec = RecordingPen(); g.draw(rec, None)
                    want = [c for c in G.canon(icalls) if c[0] == "component" or len(c[1]) > 0]
                    # glyph builders may drop single-point contours; compare contours that enclose something
                    def nontrivial(cs): return [c for c in cs if not all(len(set(s[1:])) == 1 for s in c[1])]
                    got = G.canon(rec.value)
                    if sorted(map(repr, nontrivial(got))) != sorted(map(repr, nontrivial(want))):
                        bad = "TTGlyphPen(dropImpliedOnCurves=%r) changed the outline: %r -> %r" % (drop, icalls, rec.value); break
                except Exception as e:
                    bad = "TTGlyphPen raised %r on %r" % (e, icalls); break
            # the point-pen builder, with contours that may start on an off-curve point
            if bad is None:
                try:
                    rp = RecordingPointPen(); _record(icalls, SegmentToPointPen(rp))
                    # rotate each contour's point list so that it may start anywhere (also on an off-curve)
                    val = []; cur = None
                    for op, a, kw in rp.value:
                        if op == "beginPath": cur = []
                        elif op == "addPoint": cur.append((a, kw))
                        elif op == "endPath":
                            if cur and cur[0][0][1] != "move":
                                k = rng.below(len(cur)); cur = cur[k:] + cur[:k]
                            val.append(cur)
                    for drop in (False, True):
                        pp = TTGlyphPointPen(None)
                        for cont in val:
                            pp.beginPath()
                            for a, kw in cont: pp.addPoint(*a, **kw)
                            pp.endPath()
                        g = pp.glyph(dropImpliedOnCurves=drop)
                        rec = RecordingPen(); g.draw(rec, None)
                        def nontrivial(cs): return [c for c in cs if not all(len(set(s[1:])) == 1 for s in c[1])]
                        # open contours become closed in glyf: compare against the closed version
                        closed_calls = [(("closePath", ()) if op == "endPath" else (op, a)) for op, a in icalls]
                        if sorted(map(repr, nontrivial(G.canon(rec.value)))) != sorted(map(repr, nontrivial(G.canon(closed_calls)))):
                            bad = "TTGlyphPointPen(dropImpliedOnCurves=%r) changed the outline: %r -> %r" % (drop, val, rec.value); break
                except Exception as e:
                    bad = "TTGlyphPointPen raised %r" % (e,)
            yield (("ttglyph", icalls), bad)
        # TrueType contours with EXPLICIT on-curve points that sit exactly midway between off-curves
        # (candidates for dropImpliedOnCurves), starting at a random point (also an off-curve one)
        for i in range(n):
            conts = []
            for _ in range(rng.randint(1, 3)):
                m = rng.randint(2, 6); pts = []
                par = rng.choice([2, 2, 1])                                     # odd coordinate sums too: the "midpoint" then lies between grid points
                offs = [(par * rng.randint(-20, 20), par * rng.randint(-20, 20)) for _ in range(m)]
                for j, o in enumerate(offs):
                    pts.append((o, None))
                    nxt = offs[(j + 1) % m]
                    k = rng.below(4)
                    # explicit implied point; with an odd sum the nearest grid point ABOVE the midpoint — not implied, it must stay
                    if k == 0: pts.append((((o[0] + nxt[0] + 1) // 2, (o[1] + nxt[1] + 1) // 2), "qcurve"))
                    elif k == 1: pts.append(((rng.randint(-40, 40), rng.randint(-40, 40)), "qcurve"))
                    elif k == 2:
                        pts.append(((rng.randint(-40, 40), rng.randint(-40, 40)), "qcurve")); pts.append(((rng.randint(-40, 40), rng.randint(-40, 40)), "line"))
                r_ = rng.below(len(pts)); pts = pts[r_:] + pts[:r_]
                conts.append(pts)
            bad = None
            try:
                ref = RecordingPen(); p2s = PointToSegmentPen(ref)
                for pts in conts:
                    p2s.beginPath()
                    for p_, t_ in pts: p2s.addPoint(p_, t_)
                    p2s.endPath()
                want = G.canon(ref.value)
                for drop in (False, True):
                    pp = TTGlyphPointPen(None)
                    for pts in conts:
                        pp.beginPath()
                        for p_, t_ in pts: pp.addPoint(p_, t_)
                        pp.endPath()
                    g = pp.glyph(dropImpliedOnCurves=drop)
                    rec = RecordingPen(); g.draw(rec, None)
                    fl = lambda cs_: sorted(repr([(c[0], [(s[0],) + tuple((float(p[0]), float(p[1])) for p in s[1:]) for s in c[1]])]) for c in cs_)
                    if fl(G.canon(rec.value)) != fl(want):
                        bad = "TTGlyphPointPen(dropImpliedOnCurves=%r) changed the outline: %r -> %r" % (drop, conts, rec.value); break
            except Exception as e:
                bad = "TTGlyphPointPen raised %r on %r" % (e, conts)
            yield (("ttglyph-implied", conts), bad)
        # cubic curves stored in glyf (glyf format 1): several contours, each starting at ANY of its points — also on a "curve"
        # point whose two off-curve points are then the last points of the contour
        for i in range(n):
            conts = []
            for _ in range(rng.randint(1, 4)):
                pts = []
                for _s in range(rng.randint(2, 5)):
                    if rng.chance(60):
                        pts += [((rng.randint(-400, 400), rng.randint(-400, 400)), None), ((rng.randint(-400, 400), rng.randint(-400, 400)), None)]
                        pts.append(((rng.randint(-400, 400), rng.randint(-400, 400)), "curve"))
                    else:
                        pts.append(((rng.randint(-400, 400), rng.randint(-400, 400)), "line"))
                # some joins between two cubic segments sit exactly midway between their handles (what dropImpliedOnCurves removes)
                n_ = len(pts)
                for j in range(n_):
                    if pts[j][1] == "curve" and pts[(j - 1) % n_][1] is None and pts[(j + 1) % n_][1] is None and rng.chance(40) and n_ >= 6:
                        a_, b_ = pts[(j - 1) % n_][0], pts[(j + 1) % n_][0]
                        a_ = (2 * (a_[0] // 2), 2 * (a_[1] // 2)); b_ = (2 * (b_[0] // 2), 2 * (b_[1] // 2))
                        pts[(j - 1) % n_] = (a_, None); pts[(j + 1) % n_] = (b_, None); pts[j] = (((a_[0] + b_[0]) // 2, (a_[1] + b_[1]) // 2), "curve")
                if rng.chance(35):
                    # a quadratic contour in the same glyph (glyf format 1 allows both kinds side by side), possibly ending on an off-curve point
                    pts = []
                    for _s in range(rng.randint(2, 4)):
                        if rng.chance(70): pts += [((rng.randint(-400, 400), rng.randint(-400, 400)), None)] * 1 + [((rng.randint(-400, 400), rng.randint(-400, 400)), "qcurve")]
                        else: pts.append(((rng.randint(-400, 400), rng.randint(-400, 400)), "line"))
                # start anywhere: on an on-curve point, or on the off-curve points of the segment that closes the contour
                r_ = rng.below(len(pts)); pts = pts[r_:] + pts[:r_]
                conts.append(pts)
            bad = None
            try:
                ref = RecordingPen(); p2s = PointToSegmentPen(ref)
                for pts in conts:
                    p2s.beginPath()
                    for p_, t_ in pts: p2s.addPoint(p_, t_)
                    p2s.endPath()
                want = G.canon(ref.value)
                fl = lambda cs_: sorted(repr([(c[0], [(s[0],) + tuple((float(p[0]), float(p[1])) for p in s[1:]) for s in c[1]])]) for c in cs_)
                for drop in (False, True):
                    pp = TTGlyphPointPen(None)
                    for pts in conts:
                        pp.beginPath()
                        for p_, t_ in pts: pp.addPoint(p_, t_)
                        pp.endPath()
                    g = pp.glyph(dropImpliedOnCurves=drop)
                    rec = RecordingPen(); g.draw(rec, None)
                    if fl(G.canon(rec.value)) != fl(want):
                        bad = "TTGlyphPointPen(dropImpliedOnCurves=%r) changed the cubic outline: %r -> %r" % (drop, conts, rec.value); break
                    sp = TTGlyphPen(None); ref.replay(sp); g2 = sp.glyph(dropImpliedOnCurves=drop)
                    rec = RecordingPen(); g2.draw(rec, None)
                    if fl(G.canon(rec.value)) != fl(want):
                        bad = "TTGlyphPen(dropImpliedOnCurves=%r) changed the cubic outline: %r -> %r" % (drop, ref.value, rec.value); break
                    # the same glyph read through its point protocol and back to segments
                    if bad is None:
                        a_ = _Flat(); g.draw(a_, None); b_ = _Flat(); g.drawPoints(PointToSegmentPen(b_), None)
                        if not _flat_close(sorted(a_.v), sorted(b_.v)):
                            bad = "F19: Glyph.draw and Glyph.drawPoints (through PointToSegmentPen) give different curves (dropImpliedOnCurves=%r): %r vs %r; contours %r" % (drop, a_.v[:6], b_.v[:6], conts); break
            except Exception as e:
                bad = "TTGlyph(Point)Pen raised %r on cubic contours %r" % (e, conts)
            yield (("ttglyph-cubic", conts), bad)
        for i in range(n // 2):
            calls = []
            for _ in range(rng.randint(1, 3)):
                c = gen_contour(rng, allow_super=False)
                c = [x for x in c if x[0] != "qCurveTo"]
                if len(c) < 2 or c[0][0] != "moveTo": continue
                if c[-1][0] == "endPath": c[-1] = ("closePath", ())
                calls += c
            if not calls: continue
            icalls = [(op, tuple((int(p[0]), int(p[1])) for p in a)) for op, a in calls]
            try:
                bad = None
                for optimize in (False, True):
                    pen = T2CharStringPen(500, None); _record(icalls, pen); cs = pen.getCharString(private=_Priv(), optimize=optimize)
                    rec = RecordingPen(); cs.draw(rec)
                    fl = lambda cs_: [(c[0], [(s[0],) + tuple((float(p[0]), float(p[1])) for p in s[1:]) for s in c[1]]) for c in cs_]
                    a_ = G.canon(rec.value); b_ = G.canon(icalls)
                    if optimize: a_ = G.merge_axis_lines(a_); b_ = G.merge_axis_lines(b_)
                    if fl(a_) != fl(b_): bad = "T2CharStringPen(optimize=%r) changed the outline: %r -> %r" % (optimize, icalls, rec.value); break
            except Exception as e:
                bad = "T2CharStringPen raised %r" % (e,)
            yield (("t2pen", icalls), bad)
    def run_components():
        """composite glyphs decomposed through both protocols, with and without reverseFlipped, nested: the result is the base outline
        under the (accumulated) matrix; its signed area is det * area(base), or |det| * area(base) when flipped components are re-reversed"""
        from fontTools.pens.recordingPen import DecomposingRecordingPen, DecomposingRecordingPointPen, RecordingPointPen
        from fontTools.pens.areaPen import AreaPen
        from fontTools.pens.transformPen import TransformPen
        from fontTools.misc.transform import Transform
        import math as _m
        class Simple:
            def __init__(s, calls): s.calls = calls
            def draw(s, pen): _record(s.calls, pen)
            def drawPoints(s, pen): _record(s.calls, SegmentToPointPen(pen, guessSmooth=False))
        class Comp:
            def __init__(s, comps): s.comps = comps
            def draw(s, pen):
                for nm, t in s.comps: pen.addComponent(nm, t)
            def drawPoints(s, pen):
                for nm, t in s.comps: pen.addComponent(nm, t)
        def rand_t():
            k = rng.below(8)
            if k == 0: return (1, 0, 0, 1, rng.randint(-50, 50), rng.randint(-50, 50))
            if k == 1: return (-1, 0, 0, 1, rng.randint(-50, 50), 0)                         # mirror
            if k == 2: return (0, 1, 1, 0, 0, 0)                                              # swap axes (a flip with a*d = 0)
            if k == 3: return (0, -1, 1, 0, 5, 5)                                             # quarter turn (not a flip, a*d = 0)
            if k == 4: return (0, 1, -1, 0, 0, 0)
            if k == 5: return (0.5, 2, 1.5, 0.25, 0, 0)                                       # |b*c| > |a*d|, determinant negative
            if k == 6: return (0.5, -2, 1.5, 0.25, 0, 0)                                      # |b*c| > |a*d|, determinant positive
            return tuple(rng.choice([-2, -1, -0.5, 0.25, 0.5, 1, 2]) for _ in range(4)) + (rng.randint(-20, 20), rng.randint(-20, 20))
        def area_of(calls):
            ap = AreaPen(); _record(calls, ap); return ap.value
        for i in range(n):
            base = []
            for _c in range(rng.randint(1, 2)):
                c = [x for x in gen_contour(rng, allow_super=False)]
                if c[0][0] != "moveTo" or len(c) < 3: continue
                if c[-1][0] == "endPath": c[-1] = ("closePath", ())
                base += [(op, tuple((float(p[0]), float(p[1])) for p in a)) for op, a in c]
            if not base: continue
            t1 = rand_t(); t2 = rand_t(); nested = rng.chance(40)
            gs = {"base": Simple(base), "mid": Comp([("base", t2)]), "top": Comp([("mid", t1)] if nested else [("base", t1)])}
            total = Transform(*t1).transform(Transform(*t2)) if nested else Transform(*t1)
            det = total[0] * total[3] - total[1] * total[2]
            a0 = area_of(base)
            exp = RecordingPen(); _record(base, TransformPen(exp, total))
            bad = None
            for proto in ("segment", "point"):
                for rf in (False, True):
                    try:
                        if proto == "segment":
                            pen = DecomposingRecordingPen(gs, reverseFlipped=rf); gs["top"].draw(pen); got = pen.value
                        else:
                            pp = DecomposingRecordingPointPen(gs, reverseFlipped=rf); gs["top"].drawPoints(pp)
                            r_ = RecordingPen(); pp.replay(PointToSegmentPen(r_)); got = r_.value
                        if any(op == "addComponent" for op, _ in got): bad = "%s decomposition left a component" % proto; break
                        a1 = area_of(got)
                        # nested reverseFlipped: each level re-reverses on its own matrix; the product of the signs is the sign of the total determinant
                        want = (abs(det) if rf else det) * a0
                        if rf and nested:
                            d1 = t1[0] * t1[3] - t1[1] * t1[2]; d2 = t2[0] * t2[3] - t2[1] * t2[2]
                            want = abs(d1) * abs(d2) * a0
                        if abs(a1 - want) > 1e-6 * (1 + abs(want)):
                            bad = "%s decomposition (reverseFlipped=%r, nested=%r) of matrix %r / %r has signed area %.6g, expected %.6g (base %.6g)" % (proto, rf, nested, t1, t2, a1, want, a0); break
                        # same point set as the transformed base, whatever the direction
                        pts_got = sorted((round(p[0], 6), round(p[1], 6)) for op, a in got for p in a if p is not None)
                        pts_exp = sorted((round(p[0], 6), round(p[1], 6)) for op, a in exp.value for p in a if p is not None)
                        if len(set(pts_exp) - set(pts_got)) > 0: bad = "%s decomposition lost points of the transformed base" % proto; break
                    except Exception as e:
                        bad = "%s decomposition raised %r" % (proto, e); break
                if bad: break
            yield (("components", t1, t2, nested), bad)
            # the glyph builders decompose components themselves when the glyph also has contours (or a scale is out of the F2Dot14
            # range): a component that is itself a composite must come out in full, through both builders
            if i % 3 == 0 and all(float(v).is_integer() for op, a in base for p in a for v in p):
                def int_t():
                    k_ = rng.below(5)
                    return [(1, 0, 0, 1, rng.randint(-50, 50), rng.randint(-50, 50)), (-1, 0, 0, 1, rng.randint(-50, 50), 0), (0, 1, 1, 0, 0, 0),
                            (0, -1, 1, 0, 5, 5), (3, 0, 0, 3, 0, 0)][k_]
                u0, u1, u2 = int_t(), int_t(), int_t(); nested2 = rng.chance(70)
                gs2 = {"base": Simple(base), "mid": Comp([("base", u2)]), "top": Comp([("mid", u1)] if nested2 else [("base", u1)])}
                tot = Transform(*u0).transform(Transform(*u1))
                if nested2: tot = tot.transform(Transform(*u2))
                own = [("moveTo", ((0.0, 0.0),)), ("lineTo", ((7.0, 0.0),)), ("lineTo", ((0.0, 9.0),)), ("closePath", ())]
                exp2 = RecordingPen(); _record(own, exp2); _record(base, TransformPen(exp2, tot))
                want_pts = sorted((round(p[0]), round(p[1])) for op, a in exp2.value for p in a if p is not None)
                bad2 = None
                for which in ("TTGlyphPen", "TTGlyphPointPen"):
                    try:
                        if which == "TTGlyphPen":
                            pen2 = TTGlyphPen(gs2); _record(own, pen2); pen2.addComponent("top", u0); g2 = pen2.glyph()
                        else:
                            pen2 = TTGlyphPointPen(gs2); _record(own, SegmentToPointPen(pen2, guessSmooth=False)); pen2.addComponent("top", u0); g2 = pen2.glyph()
                        if g2.isComposite(): bad2 = "%s kept a component although the glyph has contours of its own" % which; break
                        r2 = RecordingPen(); g2.draw(r2, None)
                        got_pts = sorted((round(p[0]), round(p[1])) for op, a in r2.value for p in a if p is not None)
                        if set(want_pts) - set(got_pts):
                            bad2 = "%s: decomposing %s component %r / %r / %r lost points of the outline: expected %r, built %r" % (which, "a nested" if nested2 else "a", u0, u1, u2, want_pts[:12], got_pts[:12]); break
                    except Exception as e:
                        bad2 = "%s with components raised %r" % (which, e); break
                yield (("builder-components", u0, u1, u2, nested2), bad2)
    return [Sweep("pen-adapters", run_adapters), Sweep("superbezier", run_superbezier), Sweep("glyph-builders", run_glyph_builders), Sweep("components", run_components)]

class _Flat(BasePen):
    """every contour as a list of elementary segments (super-beziers and quadratic splines decomposed by BasePen)"""
    def __init__(self): BasePen.__init__(self, None); self.v = []; self.c = None
    def _moveTo(self, p): self.c = [("m", p)]
    def _lineTo(self, p): self.c.append(("l", p))
    def _curveToOne(self, a, b, c): self.c.append(("c", a, b, c))
    def _qCurveToOne(self, a, b): self.c.append(("q", a, b))
    def _closePath(self): self.v.append(self.c); self.c = None
    def _endPath(self): self.v.append(self.c); self.c = None
def _flat_close(a, b):
    if len(a) != len(b): return False
    for x, y in zip(a, b):
        if len(x) != len(y): return False
        for s1, s2 in zip(x, y):
            if s1[0] != s2[0] or len(s1) != len(s2): return False
            if any(abs(p[0] - q[0]) > 1e-6 or abs(p[1] - q[1]) > 1e-6 for p, q in zip(s1[1:], s2[1:])): return False
    return True

def classify(sweep, case, failure):
    # F19: only glyphs whose cubic on-curve points were dropped as implied (four or more cubic off-curve points in a row)
    if sweep == "glyph-builders" and str(failure).startswith("F19:") and "dropImpliedOnCurves=True" in str(failure): return "F19"
    return None

def witness(fid):
    if fid == "F19":
        from fontTools.pens.ttGlyphPen import TTGlyphPen
        from fontTools.pens.pointPen import PointToSegmentPen
        pen = TTGlyphPen(None)
        pen.moveTo((0, 0)); pen.curveTo((0, 100), (50, 150), (100, 150)); pen.curveTo((150, 150), (200, 100), (200, 0)); pen.lineTo((100, -50)); pen.closePath()
        g = pen.glyph(dropImpliedOnCurves=True)
        a = _Flat(); g.draw(a, None); b = _Flat(); g.drawPoints(PointToSegmentPen(b), None)
        return not _flat_close(a.v, b.v)
    return None
