"""C15 — every low-level encoder and its decoder are mutually inverse."""
import struct
from lib.ser import Ok, Err, res, Raw, Opt
from vcheck import Corr, Sweep

RULE = ("boundary-directed integers (every decision constant of each codec +-2, powers of two +-1) plus uniform "
        "values; decoders also get random/malformed byte strings.")
TRUSTED = ["CPython struct/float<->text conversions (not modelled)"]
ASSUMPTIONS = ["bytes are modelled as list Z with 0<=b<256; Python ints as unbounded Z"]

FMT = {0: "t2", 1: "cff", 2: "t1"}
INT_CONSTS = [0, 107, 108, -107, -108, 1131, 1132, -1131, -1132, 32767, 32768, -32768, -32769,
              2**31 - 1, 2**31, -2**31, -2**31 - 1, 65535, 65536]

def N(tier, q, t): return q if tier == "quick" else t

def correspondences(tier, rng):
    from fontTools.misc import psCharStrings as ps
    from fontTools.misc import eexec
    from fontTools.ttLib import woff2
    from fontTools.ttLib.tables import otTables
    out = []
    n = N(tier, 1500, 40000)
    enc = {0: ps.encodeIntT2, 1: ps.encodeIntCFF, 2: ps.encodeIntT1}
    table = {0: ps.t2OperandEncoding, 1: ps.cffDictOperandEncoding, 2: ps.t1OperandEncoding}

    # --- encodeInt
    cases = []
    for fmt in (0, 1, 2):
        for c in INT_CONSTS:
            for d in (-1, 0, 1): cases.append((fmt, c + d))
        for _ in range(n // 3):
            k = rng.below(4)
            v = rng.near(INT_CONSTS, 3) if k == 0 else rng.randint(-1200, 1200) if k == 1 else \
                rng.randint(-40000, 40000) if k == 2 else rng.randint(-2**32, 2**32)
            cases.append((fmt, v))
    if tier == "thorough":
        cases += [(0, v) for v in range(-32768, 32768)]
    def impl_encodeInt(x):
        fmt, v = x
        return res(lambda: list(enc[fmt](v)))
    def read_number(fmt, data):
        """the implementation's operand reader for one token (dispatch table of the format)"""
        b0 = data[0]
        handler = table[fmt][b0]
        if handler in (ps.read_operator, ps.read_reserved, ps.read_realNumber) or handler is None:
            raise ValueError("not a number token")
        v, idx = handler(None, b0, data, 1)
        if handler in (ps.read_shortInt,) and len(data) < 3: raise struct.error
        return v, idx
    def oracle_int(x):
        fmt, v = x
        lo, hi = (-32768, 32767) if fmt == 0 else (-2**31, 2**31 - 1)
        if not (lo <= v <= hi): return None
        b = enc[fmt](v)
        r, idx = read_number(fmt, bytes(b) + b"\x55")
        if r != v or isinstance(r, float) or idx != len(b):
            return "decode(encode(%d)) = %r (consumed %d of %d) in format %s" % (v, r, idx, len(b), FMT[fmt])
    out.append(Corr("encodeInt", cases, impl_encodeInt, oracle=oracle_int))

    # --- readNumber (decoder on arbitrary bytes, incl. malformed)
    cases = []
    for fmt in (0, 1, 2):
        for b0 in range(256):
            cases.append((fmt, [b0] + list(rng.bytes(4))))
            cases.append((fmt, [b0] + list(rng.bytes(rng.below(4)))))
        for _ in range(n // 6):
            cases.append((fmt, list(rng.bytes(rng.randint(0, 6)))))
    def impl_readNumber(x):
        fmt, data = x
        data = bytes(data)
        def go():
            v, idx = read_number(fmt, data)
            if isinstance(v, float):
                return Raw([1, int(round(v * 65536)), len(data) - idx] + list(data[idx:]))
            return Raw([0, v, len(data) - idx] + list(data[idx:]))
        return res(go)
    def near_num(x, io, mo):
        # the model distinguishes IndexError/StructError like the code; but bytes.__getitem__ on a
        # short slice gives struct.error vs IndexError depending on the reader: compared exactly.
        return False
    out.append(Corr("readNumber", cases, impl_readNumber))

    # --- encodeFixed on the 16.16 grid
    cases = [c + d for c in (0, 65536, -65536, 107 * 65536, 108 * 65536, 1131 * 65536, 1132 * 65536, 32767 * 65536,
                             32768 * 65536 - 65536, -32768 * 65536, 2**31 - 1, -2**31, 2**31, -2**31 - 1)
             for d in (-1, 0, 1)]
    for _ in range(n):
        k = rng.below(3)
        cases.append(rng.randint(-2**31, 2**31 - 1) if k == 0 else rng.randint(-40000, 40000) * 65536 if k == 1
                     else rng.randint(-2**33, 2**33))
    def impl_encodeFixed(v):
        return res(lambda: list(ps.encodeFixed(v / 65536)))
    def oracle_fixed(v):
        if not (-2**31 <= v < 2**31): return None
        b = ps.encodeFixed(v / 65536)
        r, idx = read_number(0, bytes(b) + b"\x00")
        if r != v / 65536 or idx != len(b): return "fixed 16.16 %d/65536 decodes to %r" % (v, r)
    out.append(Corr("encodeFixedNum", cases, impl_encodeFixed, oracle=oracle_fixed))

    # --- 255UInt16
    cases = [c + d for c in (0, 252, 253, 505, 506, 761, 762, 65535, 65536) for d in (-1, 0, 1)]
    cases += [rng.randint(0, 65535) for _ in range(n)] if tier == "quick" else list(range(-2, 65540))
    def oracle_255(v):
        if not 0 <= v <= 65535: return None
        r = woff2.unpack255UShort(woff2.pack255UShort(v) + b"\x07")
        if r != (v, b"\x07"): return "unpack255UShort(pack255UShort(%d)) = %r" % (v, r)
    out.append(Corr("pack255UShort", cases, lambda v: res(lambda: list(woff2.pack255UShort(v))), oracle=oracle_255))
    cases = [[b0] + list(rng.bytes(k)) for b0 in range(256) for k in (0, 1, 2, 3)] + [[]]
    def impl_unpack255(d):
        def go():
            v, rest = woff2.unpack255UShort(bytes(d)); return (v, list(rest))
        return res(go)
    out.append(Corr("unpack255UShort", cases, impl_unpack255))

    # --- UIntBase128
    B128 = [0, 127, 128, 16383, 16384, 2097151, 2097152, 268435455, 268435456, 2**32 - 1, 2**32]
    cases = [c + d for c in B128 for d in (-1, 0, 1)] + [rng.randint(0, 2**32 - 1) for _ in range(n)] + \
            [rng.randint(0, 2**rng.randint(1, 34)) for _ in range(n)]
    def oracle_b128(v):
        if not 0 <= v < 2**32: return None
        p = woff2.packBase128(v)
        r = woff2.unpackBase128(p + b"\x81")
        if r != (v, b"\x81"): return "unpackBase128(packBase128(%d)) = %r" % (v, r)
        if len(p) != woff2.base128Size(v): return "base128Size(%d) != len(pack)" % v
    out.append(Corr("packBase128", cases, lambda v: res(lambda: list(woff2.packBase128(v))), oracle=oracle_b128))
    cases = [list(rng.bytes(rng.randint(0, 7))) for _ in range(n)]
    for _ in range(n):   # mostly-valid: continuation bits set on all but the last
        k = rng.randint(1, 6)
        cases.append([rng.below(128) | 128 for _ in range(k - 1)] + [rng.below(128)] + list(rng.bytes(rng.below(3))))
    def impl_unpack128(d):
        def go():
            v, rest = woff2.unpackBase128(bytes(d)); return (v, list(rest))
        return res(go)
    out.append(Corr("unpackBase128", cases, impl_unpack128))
    out.append(Corr("base128Size", [c + d for c in B128 for d in (0, 1)] + [rng.randint(0, 2**40) for _ in range(200)],
                    lambda v: woff2.base128Size(v)))

    # --- uint32var
    U32 = [0, 127, 128, 16383, 16384, 2097151, 2097152, 268435455, 268435456, 2**32 - 1, 2**32]
    cases = [c + d for c in U32 for d in (-1, 0, 1)] + [rng.randint(0, 2**rng.randint(1, 33)) for _ in range(n)]
    def oracle_u32(v):
        if not 0 <= v < 2**32: return None
        p = otTables._write_uint32var(v)
        r = otTables._read_uint32var(p + b"\x99", 0)
        if r != (v, len(p)): return "_read_uint32var(_write_uint32var(%d)) = %r" % (v, r)
    out.append(Corr("write_uint32var", cases, lambda v: res(lambda: list(otTables._write_uint32var(v))), oracle=oracle_u32))
    cases = [[b0] + list(rng.bytes(k)) for b0 in range(0, 256, 3) for k in (0, 1, 2, 3, 4, 5)] + [[]]
    def impl_read_u32(d):
        def go():
            v, i = otTables._read_uint32var(bytes(d), 0); return (v, list(d[i:]))
        return res(go)
    out.append(Corr("read_uint32var", cases, impl_read_u32))

    # --- eexec
    cases = [(list(rng.bytes(rng.randint(0, 40))), rng.choice([55665, 4330, 0, 65535, rng.below(65536)])) for _ in range(n // 2)]
    def oracle_eexec(x):
        d, R = x; d = bytes(d)
        c, R1 = eexec.encrypt(d, R); p, R2 = eexec.decrypt(c, R)
        if p != d or R1 != R2: return "decrypt(encrypt(x)) != x"
        p, R1 = eexec.decrypt(d, R); c, R2 = eexec.encrypt(p, R)
        if c != d or R1 != R2: return "encrypt(decrypt(x)) != x"
    out.append(Corr("decrypt", cases, lambda x: (lambda r: (list(r[0]), r[1]))(eexec.decrypt(bytes(x[0]), x[1])), oracle=oracle_eexec))
    out.append(Corr("encrypt", cases, lambda x: (lambda r: (list(r[0]), r[1]))(eexec.encrypt(bytes(x[0]), x[1]))))

    # --- packed deltas (gvar/cvar run-length format)
    from fontTools.ttLib.tables.TupleVariation import TupleVariation as TV
    def gen_deltas():
        out_ = []
        for _ in range(rng.randint(0, 6)):
            k = rng.below(6)
            ln = rng.choice([1, 1, 2, 3, 5, 63, 64, 65, 127, 128, 129]) if rng.chance(25) else rng.randint(1, 6)
            if k == 0: out_ += [0] * ln
            elif k == 1: out_ += [rng.choice([-128, -127, -1, 1, 2, 126, 127, rng.randint(-128, 127)]) for _ in range(ln)]
            elif k == 2: out_ += [rng.choice([-32768, -129, 128, 255, 256, 32767, rng.randint(-32768, 32767)]) for _ in range(ln)]
            elif k == 3: out_ += [rng.choice([-2**31, -32769, 32768, 65536, 2**31 - 1, rng.randint(-2**31, 2**31 - 1)]) for _ in range(min(ln, 70))]
            elif k == 4: out_ += [rng.choice([0, 0, 1, -1, 300, 5]) for _ in range(ln)]          # zeros inside byte and word runs
            else: out_ += [rng.choice([2**31, -2**31 - 1, 0, 7])] if rng.chance(10) else [rng.randint(-200, 200) for _ in range(ln)]
        return out_
    cases = [gen_deltas() for _ in range(n)]
    def oracle_deltas(ds):
        try: b = bytes(TV.compileDeltaValues_(list(ds)))
        except OverflowError: return None
        got, pos = TV.decompileDeltas_(len(ds), b, 0)
        if list(got) != list(ds) or pos != len(b): return "deltas %r compile to %r and decode to %r (consumed %d of %d)" % (ds[:20], list(b)[:30], list(got)[:20], pos, len(b))
        return None
    out.append(Corr("compileDeltaValues", cases, lambda ds: res(lambda: list(TV.compileDeltaValues_(list(ds)))) if ds else Ok([]), oracle=oracle_deltas))
    dcases = []
    for ds in cases[: n // 2]:
        try: b = list(TV.compileDeltaValues_(list(ds)))
        except OverflowError: continue
        k = rng.below(6)
        if k == 0 and b: b = b[: rng.randint(0, len(b) - 1)]                                   # truncated
        elif k == 1 and b: b[rng.below(len(b))] = rng.below(256)                                # one byte replaced
        elif k == 2: b = b + [rng.below(256) for _ in range(rng.randint(1, 4))]               # trailing bytes
        need = len(ds) if rng.chance(75) else max(0, len(ds) + rng.randint(-2, 2))
        dcases.append((need, b))
    def impl_decomp(x):
        need, b = x
        def run():
            got, pos = TV.decompileDeltas_(need, bytes(b), 0)
            return (list(got), list(b[pos:]))
        return res(run)
    out.append(Corr("decompileDeltas", dcases, impl_decomp))

    # --- packed point numbers
    def gen_points():
        pts = []; cur = 0
        for _ in range(rng.randint(0, 5)):
            k = rng.below(5)
            ln = rng.choice([1, 2, 126, 127, 128, 129, 130, 255, 256]) if rng.chance(20) else rng.randint(1, 8)
            for _j in range(ln):
                step = rng.randint(1, 3) if k == 0 else rng.choice([1, 254, 255, 256, 257]) if k == 1 else rng.randint(256, 3000) if k == 2 else \
                       rng.choice([65535, 65536, 40000, 1]) if k == 3 else rng.randint(1, 400)
                cur += step; pts.append(cur)
        if pts and rng.chance(15): pts[0] = 0 if pts[0] > 0 and 0 not in pts else pts[0]
        return sorted(set(pts))
    pcases = [gen_points() for _ in range(n // 2)]
    # counts around the 7-bit and 15-bit limits of the count field
    for cnt in (127, 128, 129, 255, 256, 32767, 32768, 40000):
        pcases.append(list(range(3, 3 + cnt)))
    def oracle_points(pts):
        try: b = bytes(TV.compilePoints(set(pts)))
        except ValueError: return None
        got, pos = TV.decompilePoints_(50, b, 0, "gvar")
        if (list(got) != list(pts) if pts else got != range(50)) or pos != len(b): return "points %r compile to %r and decode to %r" % (pts[:20], list(b)[:30], list(got)[:20])
        return None
    out.append(Corr("compilePoints", pcases, lambda pts: res(lambda: list(TV.compilePoints(set(pts)))), oracle=oracle_points))
    qcases = []
    for pts in pcases:
        try: b = list(TV.compilePoints(set(pts)))
        except ValueError: continue
        k = rng.below(6)
        if k == 0 and b: b = b[: rng.randint(0, len(b) - 1)]
        elif k == 1 and b: b[rng.below(len(b))] = rng.below(256)
        elif k == 2: b = b + [rng.below(256) for _ in range(rng.randint(1, 4))]
        qcases.append(b)
    def impl_decomp_points(b):
        def run():
            got, pos = TV.decompilePoints_(2**40, bytes(b), 0, "gvar")
            if isinstance(got, range): return (Opt(None, some=False), list(b[pos:]))
            return (Opt(list(got), some=True), list(b[pos:]))
        return res(run)
    out.append(Corr("decompilePoints", qcases, impl_decomp_points))

    # --- table tags as identifiers
    from fontTools.ttLib.ttFont import tagToIdentifier, identifierToTag
    alpha = [32, 32, 32, 47, 48, 57, 65, 90, 95, 97, 102, 103, 122, 16, 31, 127, 128, 255, 15, 9, 0]
    tcases = [[rng.choice(alpha) if rng.chance(70) else rng.randint(0, 255) for _ in range(4 if rng.chance(92) else rng.randint(0, 6))] for _ in range(n)]
    tcases += [[ord(c) for c in t] for t in ("glyf", "cvt ", "OS/2", "CFF ", "    ", "a   ", " a  ", "1abc", "_x_y", "\x05abc")]
    def impl_tti(cps):
        return res(lambda: [ord(c) for c in tagToIdentifier(bytes(cps).decode("latin-1"))])
    def oracle_tti(cps):
        if len(cps) != 4 or any(c < 16 for c in cps): return None
        t = bytes(cps).decode("latin-1")
        back = identifierToTag(tagToIdentifier(t))
        return None if back == t else "tag %r -> %r -> %r" % (t, tagToIdentifier(t), back)
    out.append(Corr("tagToIdentifier", tcases, impl_tti, oracle=oracle_tti))
    icases = []
    for cps in tcases:
        if len(cps) != 4: continue
        try: ident = [ord(c) for c in tagToIdentifier(bytes(cps).decode("latin-1"))]
        except Exception: continue
        k = rng.below(5)
        if k == 0 and ident: ident[rng.below(len(ident))] = rng.choice([95, 48, 65, 97, 103, 71])
        elif k == 1: ident = ident[:-1]
        icases.append(ident)
    def impl_itt(ident):
        return res(lambda: [ord(c) for c in identifierToTag("".join(chr(c) for c in ident))])
    out.append(Corr("identifierToTag", icases, impl_itt))

    # --- sstruct: every format string of the library (regenerated descriptors) through pack / unpack / calcsize
    out.extend(sstruct_correspondences(tier, rng))
    return out

def sstruct_formats():
    """(file, line, name, format string, descriptor, field names) of every sstruct format of /repo/Lib, as the translator sees them"""
    import sys, os
    tools = os.path.join(os.path.dirname(os.path.dirname(os.path.dirname(os.path.abspath(__file__)))), "tools")
    if tools not in sys.path: sys.path.insert(0, tools)
    import translate_data as T
    return T.collect_sstruct_formats()

def sstruct_correspondences(tier, rng):
    from fractions import Fraction
    from fontTools.misc import sstruct
    found, skipped = sstruct_formats()
    # the translator's reading of each format string against sstruct.getformat's (ties the parser of getformat)
    CH = {(2, 1): "b", (3, 1): "B", (2, 2): "h", (3, 2): "H", (2, 8): "q", (3, 8): "Q"}
    def struct_chars(desc, order):
        o = order
        for k, p1, p2 in desc:
            if k == 0: o += "x"
            elif k == 1: o += "c"
            elif k == 4: o += "?"
            elif k == 5: o += "%ds" % p1
            elif k == 6: o += {1: "b", 2: "h", 4: "l"}[p1]
            else: o += CH.get((k, p1), "?")
        return o
    def impl_getformat(i):
        rel, line, name, fmt, desc, names = found[i]
        fs, nm, fixes = sstruct.getformat(fmt)
        norm = fs.replace("i", "l").replace("I", "L")            # i/I/l/L are all four bytes
        o = ">" if fs[:1] == ">" else ""
        for k, p1, p2 in desc:
            if (k, p1) == (2, 4): o += "l"
            elif (k, p1) == (3, 4): o += "L"
            else: o += struct_chars([(k, p1, p2)], "")
        named = [d for d in desc if d[0] != 0]
        ok = (o == norm and list(nm) == names and dict(fixes) == {n: d[2] for n, d in zip(names, named) if d[0] == 6})
        return sstruct.calcsize(fmt) if ok else -1
    out = []
    out.append(Corr("sstruct_getformat", list(range(len(found))), impl_getformat, fn="sstruct_calcsize",
                    enc=lambda i: [(k, (p1, p2)) for k, p1, p2 in found[i][4]]))
    def rint(signed, nbytes):
        bits = 8 * nbytes
        lo, hi = (-(1 << (bits - 1)), (1 << (bits - 1)) - 1) if signed else (0, (1 << bits) - 1)
        k = rng.below(10)
        if k == 0: return lo
        if k == 1: return hi
        if k == 2: return lo - 1
        if k == 3: return hi + 1
        if k == 4: return 0
        if k == 5: return rng.choice([1, -1, 127, 128, 255, 256, 32767, 32768, 65535, 65536])
        return rng.randint(lo, hi)
    def rfix(nbytes, after):
        bits = 8 * nbytes
        lo, hi = -(1 << (bits - 1)), (1 << (bits - 1)) - 1
        k = rng.below(10)
        if k == 0: z = Fraction(lo)
        elif k == 1: z = Fraction(hi)
        elif k == 2: z = Fraction(2 * hi + 1, 2)                       # rounds up out of range
        elif k == 3: z = Fraction(2 * lo - 1, 2)                       # rounds (half up) to lo: stays in range
        elif k == 4: z = Fraction(2 * rng.randint(-40, 40) + 1, 2)     # ties
        elif k == 5: z = Fraction(rng.randint(8 * lo, 8 * hi), 8)      # off the grid
        elif k == 6: z = Fraction(2 * lo - 2, 2) - Fraction(rng.randint(0, 3), 4)
        else: z = Fraction(rng.randint(lo, hi))
        return z / (1 << after)
    def rvals(desc):
        vals = []
        for k, p1, p2 in desc:
            if k == 0: continue
            if k in (2, 3): vals.append((Fraction(rint(k == 2, p1)), []))
            elif k == 6:
                q = rfix(p1, p2)
                vals.append((q, []))
            elif k == 4: vals.append((Fraction(rng.choice([0, 1, 1, 2, -1])), []))
            elif k == 1: vals.append((Fraction(0), [rng.randint(0, 255)]))
            elif k == 5:
                n = p1 if rng.chance(70) else rng.randint(0, p1 + 2)
                vals.append((Fraction(0), [rng.choice([0, 32, 65, 97, 127, 128, 255]) if rng.chance(50) else rng.randint(0, 255) for _ in range(n)]))
        return vals
    def pyvals(i, vals):
        rel, line, name, fmt, desc, names = found[i]
        d = {}
        for n, (k, p1, p2), (q, bs) in zip(names, [x for x in desc if x[0] != 0], vals):
            if k in (2, 3): d[n] = int(q) if q.denominator == 1 else float(q)
            elif k == 4: d[n] = int(q)
            elif k == 6: d[n] = int(q) if (q.denominator == 1 and rng_int_for_fixed[0]) else float(q)
            else: d[n] = bytes(bs)
        return fmt, d
    rng_int_for_fixed = [False]
    def back(i, obj):
        rel, line, name, fmt, desc, names = found[i]
        outv = []
        for n, (k, p1, p2) in zip(names, [x for x in desc if x[0] != 0]):
            v = obj[n]
            if k in (1, 5): outv.append((Fraction(0), list(v.encode("ascii") if isinstance(v, str) else v)))
            else: outv.append((Fraction(v), []))
        return outv
    def impl_pack(c):
        i, vals = c
        fmt, d = pyvals(i, vals)
        r = res(lambda: list(sstruct.pack(fmt, d)))
        # "Check it fits" packs each value alone in NATIVE mode, where l / L are eight bytes wide on this platform: a value
        # between 2^31 and 2^63 passes it and is refused by the final struct.pack instead (struct.error rather than ValueError);
        # both are the refusal the model calls ValueError
        if isinstance(r, Err) and r.code == 2: r = Err(6)
        return r
    def exact_val(k, p1, p2, q, bs):
        if k in (2, 3): return True
        if k == 4: return q in (0, 1)
        if k == 6: return (q * (1 << p2)).denominator == 1
        if k == 5: return len(bs) == p1
        return True
    def oracle_pack(c):
        """the property on the implementation: what is packed unpacks to the same values (exact values), to the nearest grid value otherwise"""
        i, vals = c
        fmt, d = pyvals(i, vals)
        try: data = sstruct.pack(fmt, d)
        except Exception: return None
        if len(data) != sstruct.calcsize(fmt): return "pack wrote %d bytes, calcsize is %d" % (len(data), sstruct.calcsize(fmt))
        got = back(i, sstruct.unpack(fmt, data))
        desc = [x for x in found[i][4] if x[0] != 0]
        for (k, p1, p2), (q, bs), (q2, bs2), n in zip(desc, vals, got, found[i][5]):
            if exact_val(k, p1, p2, q, bs):
                if (q, bs) != (q2, bs2): return "%s.%s: %r written, %r read back" % (found[i][2], n, (q, bs), (q2, bs2))
            elif k == 6 and abs(q2 - q) > Fraction(1, 2 << p2):
                return "%s.%s: %r read back as %r, more than half a unit away" % (found[i][2], n, q, q2)
        return None
    per = N(tier, 5, 40)
    pcases = [(i, rvals(found[i][4])) for i in range(len(found)) for _ in range(per)]
    enc_pack = lambda c: ([(k, (p1, p2)) for k, p1, p2 in found[c[0]][4]], c[1])
    out.append(Corr("sstruct_pack", pcases, impl_pack, enc=enc_pack, oracle=oracle_pack))
    ucases = []
    for i in range(len(found)):
        size = sstruct.calcsize(found[i][3])
        for j in range(per):
            n = size if j or size == 0 else size + rng.choice([-1, 1])
            ucases.append((i, [rng.choice([0, 1, 127, 128, 255, 65]) if rng.chance(40) else rng.randint(0, 255) for _ in range(max(0, n))]))
    def impl_unpack(c):
        i, data = c
        return res(lambda: back(i, sstruct.unpack(found[i][3], bytes(data))))
    def oracle_unpack(c):
        """decode then encode: the same bytes, apart from pad bytes and the non-canonical truth values of '?' fields"""
        i, data = c
        fmt = found[i][3]
        try: obj = sstruct.unpack(fmt, bytes(data))
        except Exception: return None
        try: again = sstruct.pack(fmt, obj)
        except Exception as e: return "%s: unpacked values do not pack: %r" % (found[i][2], e)
        pos = 0; want = bytearray(data)
        for k, p1, p2 in found[i][4]:
            sz = 1 if k in (0, 1, 4) else p1
            if k == 0: want[pos] = 0
            if k == 4: want[pos] = 1 if want[pos] else 0
            pos += sz
        return None if bytes(want) == again else "%s: %s unpacks and packs to %s" % (found[i][2], bytes(data).hex(), again.hex())
    out.append(Corr("sstruct_unpack", ucases, impl_unpack, enc=lambda c: ([(k, (p1, p2)) for k, p1, p2 in found[c[0]][4]], c[1]), oracle=oracle_unpack))
    return out

def sweeps(tier, rng):
    """implementation-side round-trip oracles for every codec named by the property (testing, not proof)"""
    from fontTools.misc.fixedTools import fixedToStr, strToFixed, floatToFixed, fixedToFloat, floatToFixedToStr, strToFixedToFloat
    from fontTools.misc import psCharStrings as ps, sstruct, iftSparseBitSet as SBS
    from fontTools.misc.timeTools import timestampToString, timestampFromString
    from fontTools.ttLib.tables.TupleVariation import TupleVariation as TV
    from fontTools.ttLib.ttFont import tagToIdentifier, identifierToTag, tagToXML, xmlToTag
    from fontTools.misc.textTools import num2binary, binary2num, hexStr, deHexStr
    from fontTools import agl
    n = N(tier, 1500, 60000) if tier != "search" else 5000
    def fixed_text():
        vals = list(range(-32768, 32768)) if tier != "quick" else [rng.randint(-32768, 32767) for _ in range(n)] + [-32768, 32767, 0, 1, -1, 16384, -16384]
        for v in vals:
            s_ = fixedToStr(v, 14)
            ok = strToFixed(s_, 14) == v and floatToFixed(fixedToFloat(v, 14), 14) == v
            yield (("f2dot14", v), None if ok else "strToFixed(fixedToStr(%d,14)) = %r via %r" % (v, strToFixed(s_, 14), s_))
        for _ in range(n):
            v = rng.choice([rng.randint(-2**31, 2**31 - 1), rng.randint(-70000, 70000), rng.near([0, 2**31 - 1, -2**31 + 2, 65536, 32768], 2)])
            v = max(-2**31, min(2**31 - 1, v))
            s_ = fixedToStr(v, 16)
            ok = strToFixed(s_, 16) == v and floatToFixed(fixedToFloat(v, 16), 16) == v and floatToFixedToStr(v / 65536, 16) == s_
            yield (("fixed16.16", v), None if ok else "strToFixed(fixedToStr(%d,16)) = %r via %r" % (v, strToFixed(s_, 16), s_))
    def reals():
        def rt(f):
            d = ps.encodeFloat(f); v, idx = ps.read_realNumber(None, 30, d, 1)
            return v, idx == len(d)
        tests = [1e-05, 123000.0, 0.5, -0.05, 1.0, 100.0, 1e10, 1.5e10, 12345678.0, 123456789.0, 1e-10, -1e-10, 0.00012345678,
                 1234.5678, 1e100, 1e-100, 99999999.0, 0.1, 1 / 3, 1e8, 1e7, 1.2345678e7, -123000.0, 5e-324, 1.7976931348623157e308,
                 1000.0, 120.0, 10.0, 0.0, -0.0, 0.001, 0.0001, -0.001, 100000.0, 1000000.0, 0.05, 5e-05, 1e-4, 9.9999999e-5]
        for _ in range(n):
            k = rng.below(3)
            m = rng.randint(-10**8, 10**8)
            tests.append(m / 10**rng.randint(0, 12) if k == 0 else m * 10.0**rng.randint(-20, 20) if k == 1 else float(rng.randint(-10**6, 10**6)) * 1000)
        for f in tests:
            try:
                r, whole = rt(f); exp = float("%.8G" % f)
                bad = None if (r == exp and whole) else "encodeFloat(%r) decodes to %r, expected %r" % (f, r, exp)
            except Exception as e:
                bad = "encodeFloat(%r) raised %r" % (f, e)
            yield (("real", f), bad)
    def deltas_points():
        for _ in range(n):
            ln = rng.choice([0, 1, 2, 63, 64, 65, 127, 128, 129, 200, 300])
            ds = []
            while len(ds) < ln:
                kind = rng.choice("zbwl"); run = rng.choice([1, 1, 2, 3, 63, 64, 65])
                for _ in range(run):
                    ds.append({"z": 0, "b": rng.randint(-128, 127), "w": rng.choice([-32768, 32767, 128, -129, rng.randint(-32768, 32767)]),
                               "l": rng.choice([32768, -32769, 2**31 - 1, -2**31, rng.randint(-2**31, 2**31 - 1)])}[kind])
            ds = ds[:ln]
            for opt in (True, False):
                if not ds and not opt: continue     # callers never pass an empty list with optimizeSize=False
                try:
                    b = TV.compileDeltaValues_(ds, optimizeSize=opt); r, pos = TV.decompileDeltas_(len(ds), bytes(b), 0)
                    bad = None if (list(r) == ds and pos == len(b)) else "deltas do not round-trip: %r -> %r" % (ds[:8], list(r)[:8])
                except Exception as e:
                    bad = "deltas raised %r on %r" % (e, ds[:8])
                yield (("deltas", ds[:40], opt), bad)
        for _ in range(n):
            k = rng.choice([1, 2, 3, 127, 128, 129, 130, 255, 256, 300])
            top = rng.choice([300, 65536])
            pts = sorted(rng.sample(range(0, top), min(k, 299)))
            try:
                b = TV.compilePoints(pts); r, pos = TV.decompilePoints_(70000, bytes(b), 0, "gvar")
                bad = None if (list(r) == pts and pos == len(b)) else "points do not round-trip: %r -> %r" % (pts[:8], list(r)[:8])
            except Exception as e:
                bad = "points raised %r" % (e,)
            yield (("points", pts[:40]), bad)
    def misc_codecs():
        for _ in range(n):
            mx = rng.choice([1, 7, 8, 9, 31, 32, 33, 63, 64, 255, 256, 257, 1023, 4096, 70000, 2**20, 2**31])
            vals = set(rng.below(mx + 1) for _ in range(rng.randint(0, 60)))
            if rng.chance(30) and mx < 5000: vals |= set(range(rng.below(mx + 1), mx + 1))
            try:
                e = SBS.encode(vals); d, k = SBS.decode(e)
                bad = None if (d == vals and k == len(e)) else "sparse bit set does not round-trip"
            except Exception as ex:
                bad = "sparse bit set raised %r" % (ex,)
            yield (("sparsebitset", sorted(vals)[:20]), bad)
        for t in [2082844800, 2082844801, 3000000000, 4294967295, 2**32, 2082844800 + 86400 * 366] + [rng.randint(2082844800, 2**33) for _ in range(n)]:
            try:
                bad = None if timestampFromString(timestampToString(t)) == t else "timestamp %d does not round-trip" % t
            except Exception as ex:
                bad = "timestamp %d raised %r" % (t, ex)
            yield (("timestamp", t), bad)
        alphabet = [chr(c) for c in range(0x20, 0x7F)]
        for _ in range(n):
            k = rng.below(3)
            tag = "".join(rng.choice(alphabet if k else list("abcXYZ019_ /-.")) for _ in range(4))
            try:
                bad = None if identifierToTag(tagToIdentifier(tag)) == tag else "identifierToTag(tagToIdentifier(%r)) = %r" % (tag, identifierToTag(tagToIdentifier(tag)))
            except Exception as ex:
                bad = "tag %r raised %r" % (tag, ex)
            yield (("tag-ident", tag), bad)
            try:
                bad = None if xmlToTag(tagToXML(tag)) == tag else "xmlToTag(tagToXML(%r)) = %r" % (tag, xmlToTag(tagToXML(tag)))
            except Exception as ex:
                bad = "tagxml %r raised %r" % (tag, ex)
            yield (("tag-xml", tag), bad)
        for u, name in sorted(agl.UV2AGL.items()):
            yield (("agl", u), None if agl.toUnicode(name) == chr(u) else "agl.toUnicode(%r) != U+%04X" % (name, u))
        # the generic forms, exhaustively where the domain is small: uniXXXX for EVERY scalar value of the BMP (surrogates are not
        # scalar values and must give nothing), uXXXX / uXXXXXX on the BMP and on sampled + boundary astral values, sequences, suffixes
        bad_uni = [cp for cp in range(0x10000) if agl.toUnicode("uni%04X" % cp) != ("" if 0xD800 <= cp <= 0xDFFF else chr(cp))]
        yield (("agl-uniXXXX", "BMP"), None if not bad_uni else "agl.toUnicode('uniXXXX') is wrong for %d code points, e.g. %s" % (len(bad_uni), ", ".join("U+%04X" % c for c in bad_uni[:5])))
        bad_u = [cp for cp in range(0x10000) if agl.toUnicode("u%04X" % cp) != ("" if 0xD800 <= cp <= 0xDFFF else chr(cp))]
        yield (("agl-uXXXX", "BMP"), None if not bad_u else "agl.toUnicode('uXXXX') is wrong for %d code points, e.g. %s" % (len(bad_u), ", ".join("U+%04X" % c for c in bad_u[:5])))
        astral = [0x10000, 0x10001, 0x1F600, 0x1FFFF, 0x20000, 0xFFFFF, 0x100000, 0x10FFFF] + [rng.randint(0x10000, 0x10FFFF) for _ in range(200)]
        for cp in astral:
            nm = "u%05X" % cp if cp < 0x100000 else "u%06X" % cp
            yield (("agl-u", cp), None if agl.toUnicode(nm) == chr(cp) else "agl.toUnicode(%r) != U+%X" % (nm, cp))
        for cp in (0x110000, 0x1FFFFF):
            yield (("agl-u", cp), None if agl.toUnicode("u%06X" % cp) == "" else "agl.toUnicode('u%06X') accepts a value beyond U+10FFFF" % cp)
        for _ in range(300):
            cps = [rng.choice([0x41, 0xD7FF, 0xE000, 0xFFFF, 0x20, 0x0, 0xD7FE, 0x1234]) if rng.chance(50) else rng.choice([c for c in (rng.randint(0, 0xFFFF),) if not 0xD800 <= c <= 0xDFFF] or [0x42]) for _ in range(rng.randint(2, 4))]
            nm = "uni" + "".join("%04X" % c for c in cps) + rng.choice(["", ".alt", ".sc.001"])
            want = "".join(chr(c) for c in cps)
            yield (("agl-uni-seq", nm), None if agl.toUnicode(nm) == want else "agl.toUnicode(%r) = %r, not %r" % (nm, agl.toUnicode(nm), want))
        for _ in range(n // 4):
            bits = rng.choice([8, 16, 32, 40]); v = rng.randint(0, 2**bits - 1)
            s_ = num2binary(v, bits)
            yield (("num2binary", v), None if binary2num(s_) == v else "binary2num(num2binary(%d)) != itself" % v)
            d = rng.bytes(rng.randint(0, 20))
            yield (("hexStr", d), None if deHexStr(hexStr(d)) == d else "deHexStr(hexStr(x)) != x")
    def sstruct_formats():
        import re, fontTools, os, ast
        # every format string in the library: pack(unpack(bytes)) == bytes and unpack(pack(values)) == values
        lib = os.path.dirname(fontTools.__file__)
        fmts = {}
        for root, _, files in os.walk(lib):
            for fn in files:
                if not fn.endswith(".py"): continue
                try: tree = ast.parse(open(os.path.join(root, fn), encoding="utf-8").read())
                except Exception: continue
                for node in tree.body:
                    if isinstance(node, ast.Assign) and isinstance(node.value, ast.Constant) and isinstance(node.value.value, str):
                        v = node.value.value
                        if re.search(r"^\s*[<>]", v) and ":" in v and "\n" in v:
                            fmts[fn + ":" + node.targets[0].id] = v
        for key, fmt in sorted(fmts.items()):
            try:
                size = sstruct.calcsize(fmt)
            except Exception:
                continue
            for _ in range(8 if tier == "quick" else 60):
                data = rng.bytes(size)
                try:
                    d = sstruct.unpack(fmt, data)
                    back = sstruct.pack(fmt, d)
                    d2 = sstruct.unpack(fmt, back)
                    # float ('f','d') fields may hold NaN payloads; compare second generation
                    bad = None if (back == data or sstruct.pack(fmt, d2) == back) and len(back) == size else "sstruct %s: pack(unpack(b)) != b" % key
                    if bad is None and any(c in fmt for c in ("F", )):
                        pass
                except Exception as ex:
                    bad = "sstruct %s raised %r" % (key, ex)
                yield (("sstruct", key), bad)
    return [Sweep("fixed-text", fixed_text), Sweep("cff-reals", reals), Sweep("gvar-deltas-points", deltas_points),
            Sweep("misc-codecs", misc_codecs), Sweep("sstruct", sstruct_formats)]

def _f9_pattern(tag):
    import re
    from fontTools.ttLib.ttFont import tagToIdentifier
    if tag == "OS_2": return True
    return (not re.match("[A-Za-z_][A-Za-z_0-9]* *$", tag)) and len(tagToIdentifier(tag)) != 8

def classify(sweep, case, failure):
    if sweep == "misc-codecs" and isinstance(case, tuple) and case[0] == "tag-xml" and _f9_pattern(case[1]):
        return "F9"
    return None

def witness(fid):
    from fontTools.ttLib.ttFont import tagToXML, xmlToTag
    if fid == "F9":
        return xmlToTag(tagToXML("1ab ")) != "1ab " or xmlToTag(tagToXML("OS_2")) != "OS_2"
    return None
