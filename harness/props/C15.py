"""C15 — every low-level encoder and its decoder are mutually inverse."""
import struct
from lib.ser import Ok, Err, res, Raw
from vcheck import Corr, Sweep

RULE = ("boundary-directed integers (every decision constant of each codec +-2, powers of two +-1) plus uniform "
        "values; decoders also get random/malformed byte strings.")
TRUSTED = ["CPython struct/float<->text conversions (not modelled)"]
ASSUMPTIONS = ["bytes are modelled as list Z with 0<=b<256; Python ints as unbounded Z"]

FMT = {0: "t2", 1: "cff", 2: "t1"}
INT_CONSTS = [0, 107, 108, -107, -108, 1131, 1132, -1131, -1132, 32767, 32768, -32768, -32769,
              2**31 - 1, 2**31, -2**31, -2**31 - 1, 65535, 65536]

def N(tier, q, t): return q if tier == "quick" else t

def correspondences(tier, rng):
    from fontTools.misc import psCharStrings as ps
    from fontTools.misc import eexec
    from fontTools.ttLib import woff2
    from fontTools.ttLib.tables import otTables
    out = []
    n = N(tier, 1500, 40000)
    enc = {0: ps.encodeIntT2, 1: ps.encodeIntCFF, 2: ps.encodeIntT1}
    table = {0: ps.t2OperandEncoding, 1: ps.cffDictOperandEncoding, 2: ps.t1OperandEncoding}

    # --- encodeInt
    cases = []
    for fmt in (0, 1, 2):
        for c in INT_CONSTS:
            for d in (-1, 0, 1): cases.append((fmt, c + d))
        for _ in range(n // 3):
            k = rng.below(4)
            v = rng.near(INT_CONSTS, 3) if k == 0 else rng.randint(-1200, 1200) if k == 1 else \
                rng.randint(-40000, 40000) if k == 2 else rng.randint(-2**32, 2**32)
            cases.append((fmt, v))
    if tier == "thorough":
        cases += [(0, v) for v in range(-32768, 32768)]
    def impl_encodeInt(x):
        fmt, v = x
        return res(lambda: list(enc[fmt](v)))
    def read_number(fmt, data):
        """the implementation's operand reader for one token (dispatch table of the format)"""
        b0 = data[0]
        handler = table[fmt][b0]
        if handler in (ps.read_operator, ps.read_reserved, ps.read_realNumber) or handler is None:
            raise ValueError("not a number token")
        v, idx = handler(None, b0, data, 1)
        if handler in (ps.read_shortInt,) and len(data) < 3: raise struct.error
        return v, idx
    def oracle_int(x):
        fmt, v = x
        lo, hi = (-32768, 32767) if fmt == 0 else (-2**31, 2**31 - 1)
        if not (lo <= v <= hi): return None
        b = enc[fmt](v)
        r, idx = read_number(fmt, bytes(b) + b"\x55")
        if r != v or isinstance(r, float) or idx != len(b):
            return "decode(encode(%d)) = %r (consumed %d of %d) in format %s" % (v, r, idx, len(b), FMT[fmt])
    out.append(Corr("encodeInt", cases, impl_encodeInt, oracle=oracle_int))

    # --- readNumber (decoder on arbitrary bytes, incl. malformed)
    cases = []
    for fmt in (0, 1, 2):
        for b0 in range(256):
            cases.append((fmt, [b0] + list(rng.bytes(4))))
            cases.append((fmt, [b0] + list(rng.bytes(rng.below(4)))))
        for _ in range(n // 6):
            cases.append((fmt, list(rng.bytes(rng.randint(0, 6)))))
    def impl_readNumber(x):
        fmt, data = x
        data = bytes(data)
        def go():
            v, idx = read_number(fmt, data)
            if isinstance(v, float):
                return Raw([1, int(round(v * 65536)), len(data) - idx] + list(data[idx:]))
            return Raw([0, v, len(data) - idx] + list(data[idx:]))
        return res(go)
    def near_num(x, io, mo):
        # the model distinguishes IndexError/StructError like the code; but bytes.__getitem__ on a
        # short slice gives struct.error vs IndexError depending on the reader: compared exactly.
        return False
    out.append(Corr("readNumber", cases, impl_readNumber))

    # --- encodeFixed on the 16.16 grid
    cases = [c + d for c in (0, 65536, -65536, 107 * 65536, 108 * 65536, 1131 * 65536, 1132 * 65536, 32767 * 65536,
                             32768 * 65536 - 65536, -32768 * 65536, 2**31 - 1, -2**31, 2**31, -2**31 - 1)
             for d in (-1, 0, 1)]
    for _ in range(n):
        k = rng.below(3)
        cases.append(rng.randint(-2**31, 2**31 - 1) if k == 0 else rng.randint(-40000, 40000) * 65536 if k == 1
                     else rng.randint(-2**33, 2**33))
    def impl_encodeFixed(v):
        return res(lambda: list(ps.encodeFixed(v / 65536)))
    def oracle_fixed(v):
        if not (-2**31 <= v < 2**31): return None
        b = ps.encodeFixed(v / 65536)
        r, idx = read_number(0, bytes(b) + b"\x00")
        if r != v / 65536 or idx != len(b): return "fixed 16.16 %d/65536 decodes to %r" % (v, r)
    out.append(Corr("encodeFixedNum", cases, impl_encodeFixed, oracle=oracle_fixed))

    # --- 255UInt16
    cases = [c + d for c in (0, 252, 253, 505, 506, 761, 762, 65535, 65536) for d in (-1, 0, 1)]
    cases += [rng.randint(0, 65535) for _ in range(n)] if tier == "quick" else list(range(-2, 65540))
    def oracle_255(v):
        if not 0 <= v <= 65535: return None
        r = woff2.unpack255UShort(woff2.pack255UShort(v) + b"\x07")
        if r != (v, b"\x07"): return "unpack255UShort(pack255UShort(%d)) = %r" % (v, r)
    out.append(Corr("pack255UShort", cases, lambda v: res(lambda: list(woff2.pack255UShort(v))), oracle=oracle_255))
    cases = [[b0] + list(rng.bytes(k)) for b0 in range(256) for k in (0, 1, 2, 3)] + [[]]
    def impl_unpack255(d):
        def go():
            v, rest = woff2.unpack255UShort(bytes(d)); return (v, list(rest))
        return res(go)
    out.append(Corr("unpack255UShort", cases, impl_unpack255))

    # --- UIntBase128
    B128 = [0, 127, 128, 16383, 16384, 2097151, 2097152, 268435455, 268435456, 2**32 - 1, 2**32]
    cases = [c + d for c in B128 for d in (-1, 0, 1)] + [rng.randint(0, 2**32 - 1) for _ in range(n)] + \
            [rng.randint(0, 2**rng.randint(1, 34)) for _ in range(n)]
    def oracle_b128(v):
        if not 0 <= v < 2**32: return None
        p = woff2.packBase128(v)
        r = woff2.unpackBase128(p + b"\x81")
        if r != (v, b"\x81"): return "unpackBase128(packBase128(%d)) = %r" % (v, r)
        if len(p) != woff2.base128Size(v): return "base128Size(%d) != len(pack)" % v
    out.append(Corr("packBase128", cases, lambda v: res(lambda: list(woff2.packBase128(v))), oracle=oracle_b128))
    cases = [list(rng.bytes(rng.randint(0, 7))) for _ in range(n)]
    for _ in range(n):   # mostly-valid: continuation bits set on all but the last
        k = rng.randint(1, 6)
        cases.append([rng.below(128) | 128 for _ in range(k - 1)] + [rng.below(128)] + list(rng.bytes(rng.below(3))))
    def impl_unpack128(d):
        def go():
            v, rest = woff2.unpackBase128(bytes(d)); return (v, list(rest))
        return res(go)
    out.append(Corr("unpackBase128", cases, impl_unpack128))
    out.append(Corr("base128Size", [c + d for c in B128 for d in (0, 1)] + [rng.randint(0, 2**40) for _ in range(200)],
                    lambda v: woff2.base128Size(v)))

    # --- uint32var
    U32 = [0, 127, 128, 16383, 16384, 2097151, 2097152, 268435455, 268435456, 2**32 - 1, 2**32]
    cases = [c + d for c in U32 for d in (-1, 0, 1)] + [rng.randint(0, 2**rng.randint(1, 33)) for _ in range(n)]
    def oracle_u32(v):
        if not 0 <= v < 2**32: return None
        p = otTables._write_uint32var(v)
        r = otTables._read_uint32var(p + b"\x99", 0)
        if r != (v, len(p)): return "_read_uint32var(_write_uint32var(%d)) = %r" % (v, r)
    out.append(Corr("write_uint32var", cases, lambda v: res(lambda: list(otTables._write_uint32var(v))), oracle=oracle_u32))
    cases = [[b0] + list(rng.bytes(k)) for b0 in range(0, 256, 3) for k in (0, 1, 2, 3, 4, 5)] + [[]]
    def impl_read_u32(d):
        def go():
            v, i = otTables._read_uint32var(bytes(d), 0); return (v, list(d[i:]))
        return res(go)
    out.append(Corr("read_uint32var", cases, impl_read_u32))

    # --- eexec
    cases = [(list(rng.bytes(rng.randint(0, 40))), rng.choice([55665, 4330, 0, 65535, rng.below(65536)])) for _ in range(n // 2)]
    def oracle_eexec(x):
        d, R = x; d = bytes(d)
        c, R1 = eexec.encrypt(d, R); p, R2 = eexec.decrypt(c, R)
        if p != d or R1 != R2: return "decrypt(encrypt(x)) != x"
        p, R1 = eexec.decrypt(d, R); c, R2 = eexec.encrypt(p, R)
        if c != d or R1 != R2: return "encrypt(decrypt(x)) != x"
    out.append(Corr("decrypt", cases, lambda x: (lambda r: (list(r[0]), r[1]))(eexec.decrypt(bytes(x[0]), x[1])), oracle=oracle_eexec))
    out.append(Corr("encrypt", cases, lambda x: (lambda r: (list(r[0]), r[1]))(eexec.encrypt(bytes(x[0]), x[1]))))
    return out

def sweeps(tier, rng):
    return []

def witness(fid):
    return None
