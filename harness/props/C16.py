"""C16 — output is deterministic and saving does not disturb the font."""
import io, os, sys, subprocess, hashlib, json, tempfile, shutil
from lib.ser import Ok, Err, res, Raw, Opt
from lib.deser import decode
from lib import corpus
from vcheck import Corr, Sweep

RULE = ("uniq_sort: integer lists with duplicates in every order; save machine: real corpus fonts x random touched sets x access orders x lazy "
        "modes — the model is fed the OBSERVED write order, preloaded set, side-effect loads and raw/recompiled bytes and must predict the "
        "bytes of first and second save per table; pipelines are re-run in subprocesses under different PYTHONHASHSEED values.")
TRUSTED = ["instrumentation of TTFont._readTable / getTableData by wrapping (no source hooks)"]
ASSUMPTIONS = ["a table's compiled bytes are taken to depend on its own content only (head/hhea/maxp, which read other tables while compiling, "
               "are excluded from the byte prediction and covered by the idempotence sweep)"]

def N(tier, q, t): return q if tier == "quick" else t
CROSS = {"head", "hhea", "vhea", "maxp", "loca", "glyf", "hmtx", "vmtx", "OS/2"}   # compile reads/writes other tables

def _observe(path, touched, lazy):
    """load `touched` tables in order, save twice with instrumentation; returns observation dict or None"""
    from fontTools.ttLib import TTFont
    from fontTools.ttLib import ttFont as TF
    f = TTFont(path, lazy=lazy, recalcTimestamp=False)
    raw = {t: f.reader[t] for t in f.reader.keys()}
    for t in touched: f[t]
    pre = [t for t in raw if f.isLoaded(t)]
    events = []      # ("write", tag) / ("load", tag)
    orig_read = TF.TTFont._readTable; orig_get = TF.TTFont.getTableData
    def rd(self, tag):
        events.append(("load", str(tag))); return orig_read(self, tag)
    def gt(self, tag):
        events.append(("write", str(tag))); return orig_get(self, tag)
    TF.TTFont._readTable = rd; TF.TTFont.getTableData = gt
    try:
        b1 = io.BytesIO(); f.save(b1, reorderTables=None)
        ev1 = list(events); del events[:]
        b2 = io.BytesIO(); f.save(b2, reorderTables=None)
    finally:
        TF.TTFont._readTable = orig_read; TF.TTFont.getTableData = orig_get
    r1 = TTFont(io.BytesIO(b1.getvalue()), lazy=True); r2 = TTFont(io.BytesIO(b2.getvalue()), lazy=True)
    out1 = {t: r1.reader[t] for t in r1.reader.keys()}; out2 = {t: r2.reader[t] for t in r2.reader.keys()}
    order = [t for k, t in ev1 if k == "write"]
    side = {}; cur = None
    for k, t in ev1:
        if k == "write": cur = t
        elif cur is not None: side.setdefault(cur, []).append(t)
    return dict(raw=raw, pre=pre, order=order, side=side, out1=out1, out2=out2, same=b1.getvalue() == b2.getvalue())

def _recompiled(path, tags):
    """bytes each table recompiles to when decoded alone from the file"""
    from fontTools.ttLib import TTFont
    out = {}
    for t in tags:
        try:
            f = TTFont(path, lazy=False, recalcTimestamp=False)
            out[t] = f.getTableData(t) if f[t] is not None else None
        except Exception:
            out[t] = None
    return out

def correspondences(tier, rng):
    from fontTools.subset import _uniq_sort
    n = N(tier, 1000, 20000)
    cases = []
    for _ in range(n):
        k = rng.randint(0, 12)
        l = [rng.randint(0, 15) if rng.chance(70) else rng.randint(0, 70000) for _ in range(k)]
        cases.append(l)
    def oracle_us(l):
        a = _uniq_sort(list(l)); l2 = list(l); rng2 = None
        b = _uniq_sort(list(reversed(l)) + l[:1])
        return None if a == b == sorted(set(l)) else "_uniq_sort depends on the order/multiplicity of its input: %r vs %r" % (a, b)
    out = [Corr("uniq_sort", cases, lambda l: _uniq_sort(list(l)), oracle=oracle_us)]
    # save state machine: model prediction from observed events vs the real bytes
    fonts = [p for p in corpus.binaries((".ttf", ".otf")) if os.path.getsize(p) < 150000]
    pick = corpus.pick(rng, fonts, N(tier, 10, 80))
    cases = []
    for path in pick:
        try:
            from fontTools.ttLib import TTFont
            tags = [t for t in TTFont(path, lazy=True).reader.keys()]
        except Exception:
            continue
        if "Silf" in tags or "Glat" in tags: continue
        for rep in range(N(tier, 2, 4)):
            touched = rng.sample(tags, rng.randint(0, len(tags)))
            lazy = rng.choice([None, True, False])
            try:
                ob = _observe(path, touched, lazy)
                rec = _recompiled(path, [t for t in tags])
            except Exception:
                continue
            cases.append((corpus.rel(path), touched, lazy, ob, rec))
    def enc_case(x):
        rel, touched, lazy, ob, rec = x
        tags = sorted(ob["raw"]); idx = {t: i + 1 for i, t in enumerate(tags)}
        # bytes are abstracted to small ids: 0 = raw bytes, 1 = recompiled bytes (2 = recompiled == raw is folded to raw)
        def cls(t): return [0] if (rec.get(t) is not None and rec[t] == ob["raw"][t]) else [1]
        raw = [(idx[t], [0]) for t in tags]
        recompiled = [(idx[t], cls(t)) for t in tags]
        side = [(idx[t], [idx[s] for s in ss if s in idx]) for t, ss in ob["side"].items() if t in idx]
        return (raw, recompiled, side, [idx[t] for t in ob["pre"] if t in idx], [idx[t] for t in ob["order"] if t in idx])
    def cmp_case(x, io_, mo):
        rel, touched, lazy, ob, rec = x
        b1, b2 = decode(mo, ("tuple", ("list", ("list", "Z")), ("list", ("list", "Z"))))
        order = [t for t in ob["order"] if t in ob["raw"]]
        if len(b1) != len(order): return False
        for t, p1, p2 in zip(order, b1, b2):
            if t in CROSS or rec.get(t) is None: continue
            for pred, actual in ((p1, ob["out1"].get(t)), (p2, ob["out2"].get(t))):
                want = ob["raw"][t] if pred == [0] else rec[t]
                if actual != want:
                    return "%s touched=%r lazy=%r table %s: model predicts %s bytes, the file has %s (pre=%r side=%r)" % (rel, touched, lazy, t, "raw" if pred == [0] else "recompiled",
                                     "raw" if actual == ob["raw"][t] else "recompiled" if actual == rec[t] else "other", ob["pre"], ob["side"])
        return True
    out.append(Corr("sim_save", cases, lambda x: 0, enc=enc_case, compare=cmp_case))
    # sortedTagList: the order keys()/save()/reorderTables list the tables in; model data regenerated from TTFTableOrder/OTFTableOrder
    from fontTools.ttLib.ttFont import sortedTagList, TTFTableOrder, OTFTableOrder
    def tint(t): return int.from_bytes(t.encode("latin-1"), "big")
    def ttag(i): return i.to_bytes(4, "big").decode("latin-1")
    known = sorted(set(TTFTableOrder + OTFTableOrder + ["DSIG", "GSUB", "GPOS", "GDEF", "BASE", "name", "kern", "fvar", "gvar", "avar", "STAT",
                                                        "HVAR", "MVAR", "COLR", "CPAL", "SVG ", "CFF2", "VORG", "vhea", "vmtx", "meta", "sbix"]))
    cases = []
    for i in range(N(tier, 1500, 20000)):
        k = rng.randint(0, 14)
        tags = set()
        for _ in range(k):
            if rng.chance(80): tags.add(rng.choice(known))
            else: tags.add("".join(rng.choice("ABCZabcz019 /") for _ in range(4)))
        tags = sorted(tags); rng.shuffle(tags)
        order = None
        if rng.chance(30):
            pool = sorted(set(known[:] + tags)); rng.shuffle(pool); order = pool[:rng.randint(0, 12)]
        cases.append((order, tags))
    def enc_stl(x):
        order, tags = x
        return (Opt([tint(t) for t in order], some=True) if order is not None else Opt(None), [tint(t) for t in tags])
    def impl_stl(x):
        order, tags = x
        return [tint(t) for t in sortedTagList(list(tags), None if order is None else list(order))]
    def oracle_stl(x):
        order, tags = x
        got = sortedTagList(list(tags), None if order is None else list(order))
        if sorted(got) != sorted(tags): return "sortedTagList dropped or repeated a table: %r -> %r" % (tags, got)
        other = sortedTagList(list(reversed(tags)), None if order is None else list(order))
        if other != got: return "sortedTagList depends on the order its input is listed in: %r vs %r" % (got, other)
        if order is None and "DSIG" in tags and got[-1] != "DSIG": return "DSIG is not last: %r" % (got,)
        return None
    out.append(Corr("sortedTagList", cases, impl_stl, enc=enc_stl, oracle=oracle_stl))
    return out

# ------------------------------------------------------------------ sweeps
PIPE = r'''
import sys, io, hashlib, os, logging
logging.disable(logging.CRITICAL)
kind, a, b = sys.argv[1], sys.argv[2], sys.argv[3]
from fontTools.ttLib import TTFont
def h(f):
    o = io.BytesIO(); f.save(o); return hashlib.sha256(o.getvalue()).hexdigest()
if kind == "recompile":
    f = TTFont(a, lazy=False, recalcTimestamp=False)
    for t in list(f.keys()): f[t]
    print(h(f))
elif kind == "ttx":
    f = TTFont(recalcTimestamp=False); f.importXML(a); print(h(f))
elif kind == "fea":
    from fontTools.feaLib.builder import addOpenTypeFeatures
    f = TTFont(recalcTimestamp=False); f.importXML(b); addOpenTypeFeatures(f, a); print(h(f))
elif kind == "subset":
    from fontTools import subset
    f = TTFont(a, recalcTimestamp=False)
    opt = subset.Options(); opt.layout_features = ["*"]; opt.notdef_outline = True; opt.name_IDs = ["*"]
    s = subset.Subsetter(opt); cps = sorted((f.getBestCmap() or {}).keys()); s.populate(unicodes=cps[::2] or [0x41]); s.subset(f); print(h(f))
elif kind == "subsetmany":
    from fontTools import subset
    outs = []
    for spec in b.split(";"):
        f = TTFont(a, recalcTimestamp=False)
        opt = subset.Options(); opt.layout_features = ["*"]; opt.notdef_outline = True; opt.name_IDs = ["*"]
        s = subset.Subsetter(opt); s.populate(unicodes=[int(x, 16) for x in spec.split(",") if x]); s.subset(f); outs.append(h(f)[:12])
    print(",".join(outs))
elif kind == "instance":
    from fontTools.varLib import instancer
    f = TTFont(a, recalcTimestamp=False); ax = f["fvar"].axes[0]
    g = instancer.instantiateVariableFont(f, {ax.axisTag: (ax.minValue + ax.defaultValue) / 2 if b == "pin" else (ax.minValue, ax.defaultValue)}); print(h(g))
elif kind == "merge":
    from fontTools.merge import Merger
    g = Merger().merge([a, b]); g["head"].modified = 0; g["head"].created = 0; print(h(g))
elif kind == "varlib":
    from fontTools import varLib
    g, _, _ = varLib.build(a); g["head"].modified = 0; g["head"].created = 0; print(h(g))
'''

def _run_pipe(args, seed):
    env = dict(os.environ); env["PYTHONHASHSEED"] = str(seed); env["SOURCE_DATE_EPOCH"] = "1700000000"
    p = subprocess.run([sys.executable, "-c", PIPE] + args, env=env, stdout=subprocess.PIPE, stderr=subprocess.PIPE, timeout=600)
    if p.returncode != 0: return "ERR:" + p.stderr.decode()[-200:].replace("\n", " ")
    return p.stdout.decode().strip()

def _dump(font, tags):
    """object-model dump (XML text) of the given loaded tables"""
    from fontTools.misc.xmlWriter import XMLWriter
    out = {}
    for t in tags:
        try:
            b = io.BytesIO(); w = XMLWriter(b); font[t].toXML(w, font); w.close(); out[t] = b.getvalue()
        except Exception as e:
            out[t] = b"EXC"
    return out

def sweeps(tier, rng):
    from fontTools.ttLib import TTFont, TTCollection
    bins = [p for p in corpus.binaries((".ttf", ".otf")) if os.path.getsize(p) < 300000]
    def cover(k):
        """fonts chosen greedily to cover as many distinct table tags (and layout structures) as possible"""
        tagsets = {}
        for p in bins:
            try: tagsets[p] = set(TTFont(p, lazy=True).reader.keys())
            except Exception: pass
        chosen = []; seen = set()
        while len(chosen) < k and tagsets:
            p = max(sorted(tagsets), key=lambda q: len(tagsets[q] - seen))
            if not (tagsets[p] - seen) and len(chosen) >= 4: break
            chosen.append(p); seen |= tagsets.pop(p)
        return chosen + corpus.pick(rng, [p for p in bins if p not in chosen], max(0, k - len(chosen)))
    def run_hashseed():
        jobs = []
        k = 2 if tier == "quick" else 8
        for p in corpus.pick(rng, bins, k): jobs.append(("recompile", [p, "-"]))
        ttx = [p for p in corpus.ttx_files() if os.path.getsize(p) < 200000]
        for p in corpus.pick(rng, ttx, k): jobs.append(("ttx", [p, "-"]))
        for p in corpus.pick(rng, [q for q in bins if q.endswith(".ttf")], k): jobs.append(("subset", [p, "-"]))
        bsln = corpus.find("TestBSLN-1.ttx")
        var = [p for p in bins if "fvar" in TTFont(p, lazy=True).reader.keys()][:k]
        for p in var: jobs.append(("instance", [p, "pin"])); jobs.append(("instance", [p, "range"]))
        ds = [p for p in corpus.binaries((".designspace",)) ] if False else []
        fea = corpus.find("spec5f_ii_3.fea"); feattx = corpus.find("font.ttx") if False else None
        pair = [q for q in bins if q.endswith(".ttf")][:2]
        if len(pair) == 2: jobs.append(("merge", pair))
        for kind, args in jobs:
            hs = [_run_pipe([kind] + args, seed) for seed in (0, 1, 12345)]
            errs = [x for x in hs if x.startswith("ERR:")]
            if len(errs) == len(hs): yield ((kind, [corpus.rel(a) if a.startswith("/") else a for a in args]), None); continue
            bad = None if len(set(hs)) == 1 else "output differs across PYTHONHASHSEED 0/1/12345: %r" % (hs,)
            yield ((kind, [corpus.rel(a) if a.startswith("/") else a for a in args]), bad)
        if bsln:
            # known finding F12: the winner of a tie in bsln/prop subsetting depends on the hash seed
            hs = []
            for seed in (0, 1, 2):
                d = corpus.ttx_bytes(bsln)
                tmp = tempfile.mkdtemp(prefix="fvC16_"); pth = os.path.join(tmp, "b.ttf"); open(pth, "wb").write(d)
                hs.append(_run_pipe(["subset", pth, "-"], seed)); shutil.rmtree(tmp, ignore_errors=True)
            yield (("subset-bsln", "TestBSLN-1.ttx"), None if len(set(hs)) == 1 else "F12: output differs across PYTHONHASHSEED: %r" % (hs,))
        # ties in "most common value" decisions (bsln / prop defaults): many small subsets of the AAT test fonts, six hash seeds
        for nm in ("TestBSLN-1.ttx", "TestBSLN-3.ttx", "TestPROP.ttx"):
            src = corpus.find(nm)
            if not src: continue
            tmp = tempfile.mkdtemp(prefix="fvC16_")
            try:
                d = corpus.ttx_bytes(src); pth = os.path.join(tmp, "b.ttf"); open(pth, "wb").write(d)
                cps = sorted((TTFont(pth).getBestCmap() or {}).keys())
                if len(cps) < 2: continue
                specs = [[0x20, 0x30, 0x2EA2]] + [sorted(rng.sample(cps, rng.randint(2, min(5, len(cps))))) for _ in range(7 if tier == "quick" else 40)]
                arg = ";".join(",".join("%X" % c for c in sp) for sp in specs)
                hs = [_run_pipe(["subsetmany", pth, arg], seed) for seed in (0, 1, 2, 3, 5, 11)]
                bad = None
                if len(set(hs)) != 1:
                    rows = [x.split(",") for x in hs if not x.startswith("ERR:")]
                    which = [specs[j] for j in range(len(specs)) if len({r[j] for r in rows if j < len(r)}) > 1]
                    bad = "subsetting %s to %r gives different files under PYTHONHASHSEED 0/1/2/3/5/11: %r" % (nm, [["U+%04X" % c for c in w] for w in which[:3]], hs)
                yield (("subset-ties", nm), bad)
            finally:
                shutil.rmtree(tmp, ignore_errors=True)
    def run_second_save():
        k = 8 if tier == "quick" else 30 if tier == "search" else len(bins)
        for path in cover(k):
            try:
                tags0 = [t for t in TTFont(path, lazy=True).reader.keys()]
            except Exception:
                continue
            if "Silf" in tags0: continue
            for lazy in (None, True, False):
                touched = tags0 if lazy is False or rng.chance(50) else rng.sample(tags0, rng.randint(1, len(tags0)))
                bad = None
                try:
                    f = TTFont(path, lazy=lazy, recalcTimestamp=False)
                    for t in touched: f[t]
                    flags0 = (f.recalcTimestamp, f.recalcBBoxes, f.lazy)
                    loaded0 = [t for t in tags0 if f.isLoaded(t)]
                    d0 = _dump(f, loaded0)
                    b1 = io.BytesIO(); f.save(b1)
                    loaded1 = [t for t in tags0 if f.isLoaded(t)]
                    d1 = _dump(f, loaded0)
                    b2 = io.BytesIO(); f.save(b2)
                    side = [t for t in loaded1 if t not in loaded0]
                    if (f.recalcTimestamp, f.recalcBBoxes, f.lazy) != flags0: bad = "save changed the font's flags %r -> %r" % (flags0, (f.recalcTimestamp, f.recalcBBoxes, f.lazy))
                    # tables whose redundant fields are recomputed by a save (C04) may legitimately change in memory
                    RECALC = {"head", "hhea", "vhea", "maxp", "OS/2", "CFF ", "CFF2", "glyf", "loca", "post", "hmtx", "vmtx"}
                    import re as _re
                    nocom = lambda b_: b"\n".join(l_ for l_ in _re.sub(rb"<!--.*?-->", b"", b_, flags=_re.S).split(b"\n") if l_.strip())
                    changed = [t for t in loaded0 if t not in RECALC and nocom(d0[t]) != nocom(d1[t])]
                    if bad is None and changed:
                        bad = "save changed the in-memory content of %r (XML dump differs)" % (changed,)
                    if bad is None and b1.getvalue() != b2.getvalue():
                        r1 = TTFont(io.BytesIO(b1.getvalue()), lazy=True); r2 = TTFont(io.BytesIO(b2.getvalue()), lazy=True)
                        diff = [t for t in r1.reader.keys() if t not in r2.reader or r1.reader[t] != r2.reader[t]]
                        bad = ("F13:" if side else "") + "second save differs in %r (tables loaded as a side effect of the first save: %r)" % (diff, side)
                except Exception as e:
                    bad = None
                yield ((corpus.rel(path), lazy, len(touched)), bad)
        # variant without any dump before the save (lazily loaded sub-tables stay untouched until the save)
        extra = []
        for nm in ("COLRv1-clip-boxes-glyf.ttx", "TestVariableCOLR-VF.ttx", "TestVGID-Regular.otf"):
            q = corpus.find(nm)
            if q: extra.append(q)
        for q in [x for x in corpus.ttx_files() if os.path.getsize(x) < 120000][:0]: extra.append(q)
        from lib import genfonts
        pool = [(corpus.rel(q), None) for q in cover(k) + extra] + genfonts.all_generated()
        for label, gdata in pool:
            path = label if gdata is not None else os.path.join(corpus.REPO, label)
            data = gdata if gdata is not None else (corpus.ttx_bytes(path) if path.endswith(".ttx") else open(path, "rb").read())
            if data is None: continue
            try: tags0 = [t for t in TTFont(io.BytesIO(data), lazy=True).reader.keys()]
            except Exception: continue
            if "Silf" in tags0: continue
            # every font is saved once with ALL its layout/colour tables touched (sub-tables inside them still unread when lazy) and once
            # with a random selection
            for lazy, allt in ((True, True), (None, True), (True, False), (None, False)):
                touched = [t for t in tags0 if t not in ("glyf", "CFF ", "CFF2")] if allt else rng.sample(tags0, rng.randint(1, len(tags0)))
                bad = None
                try:
                    f = TTFont(io.BytesIO(data), lazy=lazy, recalcTimestamp=False)
                    for t in touched: f[t]
                    b1 = io.BytesIO(); f.save(b1)
                except Exception:
                    yield ((label, "nodump", lazy, allt), None); continue
                try:
                    b2 = io.BytesIO(); f.save(b2)
                    if b1.getvalue() != b2.getvalue():
                        r1 = TTFont(io.BytesIO(b1.getvalue()), lazy=True); r2 = TTFont(io.BytesIO(b2.getvalue()), lazy=True)
                        diff = [t for t in r1.reader.keys() if t not in r2.reader or r1.reader[t] != r2.reader[t]]
                        side = [t for t in tags0 if f.isLoaded(t) and t not in touched]
                        bad = ("F13:" if side else "") + "second save differs in %r (side-effect loads %r)" % (diff, side)
                    else:
                        g = TTFont(io.BytesIO(data), lazy=lazy, recalcTimestamp=False)
                        for t in touched: g[t]
                        RECALC = {"head", "hhea", "vhea", "maxp", "OS/2", "CFF ", "CFF2", "glyf", "loca", "post", "hmtx", "vmtx"}
                        cmp_t = [t for t in touched if t not in RECALC]
                        import re as _re
                        nocom = lambda b_: b"\n".join(l_ for l_ in _re.sub(rb"<!--.*?-->", b"", b_, flags=_re.S).split(b"\n") if l_.strip())
                        da = _dump(f, cmp_t); db = _dump(g, cmp_t)
                        ch = [t for t in cmp_t if nocom(da[t]) != nocom(db[t])]
                        if ch: bad = "after a save the object model of %r dumps differently from a freshly loaded font" % (ch,)
                except Exception as e:
                    bad = "second save (or dump after save) raised %r" % (e,)
                yield ((label, "nodump", lazy, allt), bad)
        # collections: saving must not disturb the member fonts
        for p in corpus.binaries((".ttc",))[:3]:
            try:
                c = TTCollection(p)
                flags0 = [(f.recalcTimestamp, f.recalcBBoxes) for f in c.fonts]
                b = io.BytesIO(); c.save(b)
                flags1 = [(f.recalcTimestamp, f.recalcBBoxes) for f in c.fonts]
                b2 = io.BytesIO(); c.save(b2)
                bad = None
                if flags0 != flags1: bad = "TTCollection.save changed member fonts' flags %r -> %r" % (flags0, flags1)
                elif b.getvalue() != b2.getvalue(): bad = "second save of the collection differs"
            except Exception as e:
                bad = None
            yield ((corpus.rel(p), "ttc"), bad)

    # ---------------------------------------------------------------- edit histories
    def _post3(data):
        """the same font without glyph names (post format 3): names are synthesised from cmap on load"""
        f = TTFont(io.BytesIO(data), recalcTimestamp=False)
        if "glyf" not in f or "post" not in f: return None
        f["post"].formatType = 3.0
        b = io.BytesIO(); f.save(b); return b.getvalue()
    EDITS = ("cmap", "name", "OS/2", "hmtx")
    def _edit(f, what, tbl):
        """a small edit expressed through glyph INDICES, so that it means the same whatever the glyph names are; it is applied to
        the table object `tbl` the caller got from its FIRST f[what] (a user holds on to that object)"""
        if what == "cmap":
            t = tbl; done = False
            for st in t.tables:
                if st.isUnicode() and st.cmap:
                    cp = min(st.cmap); st.cmap[0xE123] = st.cmap[cp]; done = True
            return done
        if what == "name":
            tbl.setName("Edited by history", 5, 3, 1, 0x409); return True
        if what == "OS/2":
            if "OS/2" not in f: return False
            tbl.usWeightClass = 555; return True
        if what == "hmtx":
            g = f.getGlyphName(min(1, len(f.getGlyphOrder()) - 1)); a, l = tbl[g]; tbl[g] = (a + 7, l); return True
    def run_edit_history():
        k = 6 if tier == "quick" else 20 if tier == "search" else 80
        srcs = []
        for p_ in corpus.pick(rng, [q for q in bins if q.endswith(".ttf")], k):
            d = open(p_, "rb").read(); srcs.append((corpus.rel(p_), d))
            try:
                d3 = _post3(d)
                if d3: srcs.append((corpus.rel(p_) + "#post3", d3))
            except Exception: pass
        from lib import genfonts
        for label, gdata in genfonts.all_generated()[:6]:
            try:
                d3 = _post3(gdata)
                if d3: srcs.append((label + "#post3", d3))
            except Exception: pass
        for label, data in srcs:
            try: tags0 = list(TTFont(io.BytesIO(data), lazy=True).reader.keys())
            except Exception: continue
            for what in EDITS:
                outs = {}
                # histories: the edited table is the first thing touched / the glyph order first / some other tables first / a save first
                others = [t for t in rng.sample(tags0, min(3, len(tags0))) if t != what]
                def touch(f, t, objs):
                    o = f[t]; objs.setdefault(t, o)
                    if t == "cmap": [st.cmap for st in o.tables]
                # every history touches the SAME set of tables; only the order (and an intermediate save) differs
                for hist in ("edited-first", "glyphorder-first", "others-first", "save-first"):
                    for lazy in (None, True) if tier == "quick" else (None, True, False):
                        try:
                            f = TTFont(io.BytesIO(data), lazy=lazy, recalcTimestamp=False)
                            if hist == "edited-first": seq = [what] + others
                            elif hist == "glyphorder-first": f.getGlyphOrder(); seq = others + [what]
                            elif hist == "others-first": seq = others[::-1] + [what]
                            else: seq = [what] + others
                            objs = {}
                            for t in seq: touch(f, t, objs)
                            # the glyph order is asked for in EVERY history (first, or after the tables): asking loads 'post' / 'CFF ' as a
                            # side effect, and a history that loads more tables than another is not "the same tables in another order"
                            f.getGlyphOrder()
                            if hist == "save-first": f.save(io.BytesIO())
                            if what not in objs or not _edit(f, what, objs[what]): continue
                            b = io.BytesIO(); f.save(b); outs[(hist, lazy)] = b.getvalue()
                        except Exception as e:
                            outs[(hist, lazy)] = "raised %r" % (e,)
                bad = None
                vals = list(outs.values())
                if vals and any(isinstance(v, str) for v in vals) and not all(isinstance(v, str) for v in vals):
                    bad = "edit %s: some histories raise, others do not: %r" % (what, {k_: (v if isinstance(v, str) else "ok") for k_, v in outs.items()})
                elif vals and not isinstance(vals[0], str) and len(set(vals)) > 1:
                    ref = vals[0]; r1 = TTFont(io.BytesIO(ref), lazy=True)
                    diffs = {}
                    for k_, v in outs.items():
                        if v != ref:
                            r2 = TTFont(io.BytesIO(v), lazy=True)
                            diffs[str(k_)] = [t for t in r1.reader.keys() if t not in r2.reader or r1.reader[t] != r2.reader[t]]
                    bad = "the same edit of %s gives different bytes depending on the history before it (vs %r): %r" % (what, list(outs)[0], diffs)
                elif vals and not isinstance(vals[0], str) and what == "cmap":
                    g = TTFont(io.BytesIO(vals[0]))
                    if 0xE123 not in (g.getBestCmap() or {}) and not any(0xE123 in st.cmap for st in g["cmap"].tables if st.isUnicode()):
                        bad = "the cmap edit is missing from the saved font in every history"
                yield ((label, "edit-history", what), bad)
    # ---------------------------------------------------------------- documented high-level forms of the layout object model
    def run_api_history():
        from fontTools.fontBuilder import FontBuilder
        from fontTools.pens.ttGlyphPen import TTGlyphPen
        from fontTools.ttLib import newTable
        from fontTools.ttLib.tables import otTables as ot
        from fontTools.otlLib.builder import buildLookup
        import copy
        base = ["f", "i", "l", "t", "a", "b"]
        def make(r):
            ligs = {}; comps = {}
            for _ in range(r.randint(2, 6)):
                c = tuple(r.choice(base) for _ in range(r.randint(2, 4)))
                if c not in comps: comps[c] = "_".join(c)
            glyphs = [".notdef"] + base + [g + ".alt" for g in base] + [g + ".alt2" for g in base] + sorted(set(comps.values())) + ["x_y_z"]
            fb = FontBuilder(1000, isTTF=True); fb.setupGlyphOrder(glyphs); fb.setupCharacterMap({ord(c): c for c in base})
            fb.setupGlyf({g: TTGlyphPen(None).glyph() for g in glyphs}); fb.setupHorizontalMetrics({g: (500, 0) for g in glyphs})
            fb.setupHorizontalHeader(ascent=800, descent=-200); fb.setupNameTable({"familyName": "Api16", "styleName": "R"}); fb.setupOS2(); fb.setupPost()
            font = fb.font; font.recalcTimestamp = False
            sts = []
            st = ot.LigatureSubst(); st.ligatures = dict(comps); sts.append(("ligatures", st))
            st = ot.SingleSubst(); st.mapping = {g: g + ".alt" for g in r.sample(base, r.randint(1, 4))}; sts.append(("mapping", st))
            st = ot.MultipleSubst(); st.mapping = {g: [g, g + ".alt2"] for g in r.sample(base, r.randint(1, 3))}; sts.append(("mapping", st))
            st = ot.AlternateSubst(); st.alternates = {g: [g + ".alt", g + ".alt2"] for g in r.sample(base, r.randint(1, 3))}; sts.append(("alternates", st))
            gsub = ot.GSUB(); gsub.Version = 0x00010000
            gsub.LookupList = ot.LookupList(); gsub.LookupList.Lookup = [buildLookup([st_]) for _, st_ in sts]
            frec = ot.FeatureRecord(); frec.FeatureTag = "liga"; frec.Feature = ot.Feature(); frec.Feature.FeatureParams = None
            frec.Feature.LookupListIndex = list(range(len(sts)))
            gsub.FeatureList = ot.FeatureList(); gsub.FeatureList.FeatureRecord = [frec]
            srec = ot.ScriptRecord(); srec.ScriptTag = "DFLT"; srec.Script = ot.Script(); srec.Script.DefaultLangSys = ot.LangSys()
            srec.Script.DefaultLangSys.LookupOrder = None; srec.Script.DefaultLangSys.ReqFeatureIndex = 0xFFFF
            srec.Script.DefaultLangSys.FeatureIndex = [0]; srec.Script.LangSysRecord = []
            gsub.ScriptList = ot.ScriptList(); gsub.ScriptList.ScriptRecord = [srec]
            font["GSUB"] = newTable("GSUB"); font["GSUB"].table = gsub
            return font, sts
        def edit(sts):
            for attr, st in sts:
                d = getattr(st, attr)
                if isinstance(st, ot.LigatureSubst): d[("t", "a", "b", "l", "e")[:3]] = "x_y_z"
                elif isinstance(st, ot.SingleSubst): d["t"] = "a.alt2"
                elif isinstance(st, ot.MultipleSubst): d["t"] = ["t", "b.alt"]
                else: d["t"] = ["t.alt2", "t.alt"]
        m = 12 if tier == "quick" else 40 if tier == "search" else 300
        for i in range(m):
            sub = rng.fork("api", i) if hasattr(rng, "fork") else rng
            seed = rng.below(1 << 30)
            from lib.prng import Rng
            bad = None
            try:
                fa, sa = make(Rng(seed, "api")); before = [copy.deepcopy(getattr(st, attr)) for attr, st in sa]
                b1 = io.BytesIO(); fa.save(b1)
                after = [getattr(st, attr) for attr, st in sa]
                for (attr, st), x, y in zip(sa, before, after):
                    if x != y or list(x) != list(y):
                        bad = "a save changed %s.%s in memory: %r -> %r" % (type(st).__name__, attr, x, {k_: (v if not hasattr(v, "__dict__") else type(v).__name__) for k_, v in list(y.items())[:4]}); break
                if bad is None:
                    b1b = io.BytesIO(); fa.save(b1b)
                    if b1b.getvalue() != b1.getvalue(): bad = "second save differs"
                if bad is None:
                    edit(sa); b2 = io.BytesIO(); fa.save(b2)
                    fb_, sb = make(Rng(seed, "api")); edit(sb); b3 = io.BytesIO(); fb_.save(b3)
                    if b2.getvalue() != b3.getvalue(): bad = "save, edit, save gives different bytes than edit, save"
            except Exception as e:
                bad = "history raised %r" % (e,)
            yield (("api-history", seed), bad)
    def run_source_date_epoch():
        """SOURCE_DATE_EPOCH pins the clock: with it set — to ANY value, 0 included — two saves at different wall-clock times are the same file"""
        import time as _time
        from fontTools.misc import timeTools
        paths = corpus.pick(rng, [p for p in bins if p.endswith(".ttf")], 2 if tier == "quick" else 8)
        real_time = _time.time; saved_env = os.environ.get("SOURCE_DATE_EPOCH")
        try:
            for epoch in ("0", "1", "86400", "1500000000", "2082844800", str(rng.randint(2, 2**31))):
                os.environ["SOURCE_DATE_EPOCH"] = epoch
                for p in paths:
                    outs = []
                    try:
                        for clock in (1.6e9, 1.7e9 + 12345.5):
                            _time.time = lambda c=clock: c
                            f = TTFont(p, recalcTimestamp=True); o = io.BytesIO(); f.save(o); outs.append(o.getvalue())
                        g = TTFont(io.BytesIO(outs[0]))
                        bad = None
                        if outs[0] != outs[1]: bad = "SOURCE_DATE_EPOCH=%s: two saves at different clock times differ (head.modified follows the wall clock)" % epoch
                        elif g["head"].modified != int(epoch) + 2082844800: bad = "SOURCE_DATE_EPOCH=%s: head.modified is %d, not the pinned %d" % (epoch, g["head"].modified, int(epoch) + 2082844800)
                    except Exception as e:
                        bad = "save under SOURCE_DATE_EPOCH=%s raised %r" % (epoch, e)
                    finally:
                        _time.time = real_time
                    yield (("source-date-epoch", epoch, corpus.rel(p)), bad)
        finally:
            _time.time = real_time
            if saved_env is None: os.environ.pop("SOURCE_DATE_EPOCH", None)
            else: os.environ["SOURCE_DATE_EPOCH"] = saved_env
    return [Sweep("hash-seeds", run_hashseed), Sweep("second-save", run_second_save), Sweep("edit-history", run_edit_history), Sweep("api-history", run_api_history), Sweep("source-date-epoch", run_source_date_epoch)]

def classify(sweep, case, failure):
    s = str(failure)
    if sweep == "second-save" and s.startswith("F13:"): return "F13"
    if sweep == "hash-seeds" and s.startswith("F12:"): return "F12"
    return None

def witness(fid):
    from fontTools.ttLib import TTFont
    if fid == "F13":
        p = corpus.find("I.otf")
        for cand in [p] + [q for q in corpus.binaries((".otf",))][:40]:
            if cand is None: continue
            try:
                f = TTFont(cand, recalcTimestamp=False); f["head"]
                b1 = io.BytesIO(); f.save(b1); b2 = io.BytesIO(); f.save(b2)
                if b1.getvalue() != b2.getvalue(): return "second save differs for %s" % corpus.rel(cand)
            except Exception:
                continue
        return None
    if fid == "F12":
        bsln = corpus.find("TestBSLN-1.ttx")
        if not bsln: return None
        d = corpus.ttx_bytes(bsln); tmp = tempfile.mkdtemp(prefix="fvC16_"); pth = os.path.join(tmp, "b.ttf"); open(pth, "wb").write(d)
        hs = [_run_pipe(["subset", pth, "-"], seed) for seed in (0, 1, 2, 3)]
        shutil.rmtree(tmp, ignore_errors=True)
        return len(set(hs)) > 1
    return None
