"""C02 — encoding any valid table content and decoding it returns that content."""
import io, struct
from types import SimpleNamespace
from lib.ser import Ok, Err, res, Raw, Opt
from lib.deser import decode
from lib import corpus
from vcheck import Corr, Sweep

RULE = ("generated table contents aimed at format decisions: loca offsets around 0x20000 / odd / even; metrics with every trailing-run "
        "pattern; cmaps with gaps, runs, >64k entries, supplementary planes, variation selectors; int16 outlines with every flag pattern and "
        "repeat counts; component transforms; name strings per platform/encoding; kerning pairs; tuple variations with 1..300 explicit points "
        "(127/128/129 and 255/256 directed).")
TRUSTED = ["uharfbuzz as independent reader of built fonts"]
ASSUMPTIONS = ["only loca and hmtx/vmtx codecs are modelled in Coq so far; the other codecs are implementation round-trip sweeps"]

def N(tier, q, t): return q if tier == "quick" else t

def _font_stub(order, hhea=True):
    from fontTools.ttLib import TTFont, newTable
    f = TTFont(); f.setGlyphOrder(list(order))
    f["maxp"] = newTable("maxp"); f["maxp"].numGlyphs = len(order)
    f["head"] = newTable("head"); f["head"].indexToLocFormat = 0
    if hhea:
        f["hhea"] = newTable("hhea"); f["hhea"].numberOfHMetrics = 0
    return f

def correspondences(tier, rng):
    from fontTools.ttLib import newTable
    n = N(tier, 1200, 20000)
    out = []
    # loca
    cases = []
    for _ in range(n):
        k = rng.randint(0, 8); fam = rng.below(5); locs = []; cur = 0
        for _ in range(k):
            step = rng.choice([0, 2, 4, 10, 97, 1, 3]) if fam != 3 else rng.choice([0x8000, 0x10000, 0x1fffe, 2])
            if fam == 4: step = rng.choice([2, 4, 0x1000])
            cur += step; locs.append(cur)
        if fam == 2 and locs: locs[-1] = rng.choice([0x1fffe, 0x20000, 0x1ffff, 0x20002, 2**32 - 2, 2**32])
        cases.append(locs)
    def impl_loca(locs):
        def go():
            f = _font_stub(["g%d" % i for i in range(max(len(locs) - 1, 0))])
            t = newTable("loca"); t.set(locs)
            data = t.compile(f)
            return (f["head"].indexToLocFormat, list(data))
        return res(go)
    def oracle_loca(locs):
        r = impl_loca(locs)
        if isinstance(r, Err): return None
        fmt, data = r.v
        f = _font_stub(["g%d" % i for i in range(max(len(locs) - 1, 0))]); f["head"].indexToLocFormat = fmt
        t = newTable("loca"); t.decompile(bytes(data), f)
        if list(t.locations) != list(locs): return "loca offsets %r decode as %r (format %d)" % (locs, list(t.locations), fmt)
        return None
    out.append(Corr("loca_compile", cases, impl_loca, oracle=oracle_loca))
    # hmtx
    cases = []
    for _ in range(n):
        k = rng.randint(1, 9); fam = rng.below(5)
        ms = []
        for i in range(k):
            adv = rng.choice([500, 500, 600, 0, 65535, rng.randint(0, 65535)]) if fam != 0 else 500
            if fam == 1 and i >= k // 2: adv = 777
            if fam == 4: adv = rng.choice([65535, 65536, -1, 32768, 500])
            lsb = rng.choice([0, -1, 10, -32768, 32767, rng.randint(-32768, 32767)]) if fam != 4 else rng.choice([0, 32768, -32769, 5])
            ms.append((adv, lsb))
        cases.append(ms)
    cases.append([])
    def impl_hmtx(ms):
        def go():
            order = ["g%d" % i for i in range(len(ms))]
            f = _font_stub(order); t = newTable("hmtx"); t.metrics = {g: m for g, m in zip(order, ms)}
            data = t.compile(f)
            return (f["hhea"].numberOfHMetrics, list(data))
        return res(go)
    def oracle_hmtx(ms):
        r = impl_hmtx(ms)
        if isinstance(r, Err) or not ms: return None
        k, data = r.v
        order = ["g%d" % i for i in range(len(ms))]
        f = _font_stub(order); f["hhea"].numberOfHMetrics = k
        t = newTable("hmtx"); t.decompile(bytes(data), f)
        got = [tuple(t.metrics[g]) for g in order]
        if got != [tuple(m) for m in ms]: return "metrics %r decode as %r (numberOfHMetrics %d)" % (ms, got, k)
        if k > 1 and ms[k - 2][0] == ms[-1][0]: return "numberOfHMetrics %d is not minimal for %r" % (k, ms)
        if len(data) != 4 * k + 2 * (len(ms) - k): return "hmtx length wrong"
        return None
    out.append(Corr("hmtx_compile", cases, impl_hmtx, oracle=oracle_hmtx))
    # hmtx decoder on arbitrary data
    cases = []
    for _ in range(n // 2):
        ng = rng.randint(0, 6); k = rng.randint(0, 7)
        ln = rng.choice([4 * min(k, ng) + 2 * max(ng - k, 0), rng.randint(0, 30)])
        cases.append((ng, k, list(rng.bytes(ln))))
    def impl_hmtx_dec(x):
        ng, k, data = x
        def go():
            order = ["g%d" % i for i in range(ng)]
            f = _font_stub(order); f["hhea"].numberOfHMetrics = k
            t = newTable("hmtx"); t.decompile(bytes(data), f)
            return [tuple(t.metrics[g]) for g in order]
        return res(go)
    out.append(Corr("hmtx_decompile", [c for c in cases if c[1] >= 1 and c[0] >= 1], impl_hmtx_dec))
    # --- simple-glyph point data (flags with repeats, short/word/zero coordinate forms)
    from fontTools.ttLib.tables._g_l_y_f import Glyph, GlyphCoordinates
    def gen_points():
        pts = []
        for _ in range(rng.randint(1, 5)):
            ln = rng.choice([1, 2, 3, 4, 255, 256, 257, 258, 300]) if rng.chance(15) else rng.randint(1, 5)
            f = rng.choice([0, 1, 1, 64, 65, 128, 129, 193])
            k = rng.below(6)
            def c():
                kk = rng.below(6)
                return 0 if kk == 0 else rng.choice([1, -1, 255, -255, rng.randint(-255, 255)]) if kk <= 2 else \
                       rng.choice([256, -256, 32767, -32768, rng.randint(-32768, 32767)]) if kk <= 4 else rng.choice([32768, -32769, 5])
            if k <= 1:
                x, y = c(), c(); pts += [(f, (x, y))] * ln                       # identical flags: repeat runs
            else:
                pts += [(f if rng.chance(70) else rng.choice([0, 1]), (c(), c())) for _ in range(min(ln, 40))]
        return pts
    gcases = [gen_points() for _ in range(n // 2)]
    def impl_glyf_compile(ps):
        def go():
            g = Glyph()
            a, b, c_ = g.compileDeltasGreedy(bytearray(f for f, _ in ps), GlyphCoordinates([xy for _, xy in ps]))
            return list(a) + list(b) + list(c_)
        return res(go)
    def decode_glyph(nn, data):
        """the real decompileCoordinates on a one-contour glyph record; returns relative points and the flags"""
        g = Glyph(); g.numberOfContours = 1
        g.decompileCoordinates(struct.pack(">Hh", nn - 1, 0) + bytes(data))
        absol = list(g.coordinates); rel = []; px = py = 0
        for (x, y) in absol: rel.append((x - px, y - py)); px, py = x, y
        return [(fl, xy) for fl, xy in zip(list(g.flags), rel)]
    def oracle_glyf(ps):
        r = impl_glyf_compile(ps)
        if isinstance(r, Err):
            if all(-32768 <= v <= 32767 for _, xy in ps for v in xy): return "valid points (int16 deltas) do not compile: %s on %d points starting %r" % (r.name, len(ps), ps[:4])
            return None
        got = decode_glyph(len(ps), r.v)
        if got != [(f, tuple(xy)) for f, xy in ps]: return "points %r compile to %r and read back as %r" % (ps[:12], r.v[:30], got[:12])
        return None
    out.append(Corr("compileDeltasGreedy", gcases, impl_glyf_compile, oracle=oracle_glyf))
    dcases = []
    for ps in gcases[: n // 3]:
        r = impl_glyf_compile(ps)
        if isinstance(r, Err): continue
        b = list(r.v); k = rng.below(5)
        if k == 0 and b: b = b[: rng.randint(0, len(b) - 1)]
        elif k == 1 and b: b[rng.below(min(len(b), 6))] = rng.below(256)
        elif k == 2: b = b + [rng.below(256) for _ in range(rng.randint(1, 3))]
        dcases.append((len(ps) if rng.chance(80) else max(1, len(ps) + rng.randint(-1, 1)), b))
    def impl_glyf_decode(x):
        nn, b = x
        def go():
            g = Glyph(); g.numberOfContours = 1
            flags, xs, ys = g.decompileCoordinatesRaw(nn, bytes(b), 0)
            # the sign/zero reconstruction of decompileCoordinates, relative coordinates, kept flag bits
            got = decode_glyph(nn, b)
            used = 0
            # bytes consumed: flags as written + coordinate bytes
            j = 0; pos = 0
            while j < nn:
                fl = b[pos]; pos += 1; rep = 1
                if fl & 8: rep = b[pos] + 1; pos += 1
                j += rep
            xlen = sum(1 if fl & 2 else 0 if fl & 16 else 2 for fl in flags); ylen = sum(1 if fl & 4 else 0 if fl & 32 else 2 for fl in flags)
            return ([(fl, xy) for fl, xy in got], list(b[pos + xlen + ylen:]))
        return res(go)
    out.append(Corr("decompileCoordinates", dcases, impl_glyf_decode))
    # cmap formats 12 / 13: compile from a character map, decompile of compiled and of damaged / hand-made subtables
    from fontTools.ttLib import TTFont
    from fontTools.ttLib.tables._c_m_a_p import cmap_format_12, cmap_format_13
    import struct as _st
    NG = 300
    cfont = TTFont(); cfont.setGlyphOrder([".notdef"] + ["g%d" % i for i in range(1, NG)])
    def gname(g): return ".notdef" if g == 0 else ("g%d" % g if g < NG else "gid%d" % g)          # "gidNNN": a virtual glyph ID
    def gen_cmap():
        k = rng.randint(0, 12); fam = rng.below(5); m = {}
        base = rng.choice([0x20, 0x41, 0xFFF0, 0x1F600, 0x10FFF0]); g = rng.randint(0, NG - 20)
        for _ in range(k):
            r_ = rng.below(10)
            if r_ < 5: base += 1; g = g + 1 if fam != 1 else g                                    # runs (format 12: stepping, 13: constant)
            elif r_ < 8: base += rng.randint(2, 40); g = rng.randint(0, NG - 1)
            else: base += 1; g = rng.choice([0, g, rng.randint(NG, 70000)])
            m[base] = g
        items = list(m.items()); rng.shuffle(items)
        return items
    ccases = []
    for _ in range(N(tier, 600, 8000)):
        fmt = rng.choice([12, 13]); items = gen_cmap()
        reserved = rng.choice([0, 0, 1, 65535]); language = rng.choice([0, 0, 1, 2**32 - 1])
        r_ = rng.below(40)
        if r_ == 0 and items: items[0] = (rng.choice([-1, 2**32, 2**32 + 5]), items[0][1])                 # does not fit a uint32
        if r_ == 1: language = 2**32
        ccases.append(((fmt, 1 if fmt == 12 else 0, reserved, language), items))
    def mk_sub(fmt): return cmap_format_12(12) if fmt == 12 else cmap_format_13(13)
    def impl_cmap_compile(x):
        (fmt, step, reserved, language), items = x
        def go():
            st = mk_sub(fmt); st.platformID = 3; st.platEncID = 10; st.language = language; st.reserved = reserved
            st.cmap = {c: gname6(g) for c, g in items}
            return list(st.compile(cfont))
        return res(go)
    def oracle_cmap(x):
        """the PROPERTY on the implementation: the compiled subtable decodes to the same character map (glyph 0 = not mapped)"""
        (fmt, step, reserved, language), items = x
        r = impl_cmap_compile(x)
        if isinstance(r, Err): return None
        st = mk_sub(fmt); st.decompile(bytes(r.v), cfont)
        want = {c: gname(g) for c, g in items if g != 0}
        got = {c: (n_ if not n_.startswith("glyph") else "gid%d" % int(n_[5:])) for c, n_ in st.cmap.items()}
        if got != want: return "cmap format %d changed after compile/decompile: %r -> %r" % (fmt, want, got)
        if (st.language, st.reserved) != (language, reserved): return "language/reserved changed"
        return None
    out.append(Corr("cmap12_compile", ccases, impl_cmap_compile, oracle=oracle_cmap))
    dcases = []
    for x in ccases[: len(ccases) // 2]:
        r = impl_cmap_compile(x)
        if isinstance(r, Err): continue
        b = list(r.v); step = x[0][1]; r_ = rng.below(8)
        if r_ == 0 and len(b) > 16: b = b[:rng.randint(0, len(b) - 1)]                                     # truncated
        elif r_ == 1: b[rng.below(len(b))] ^= 1 << rng.below(8)
        elif r_ == 2: b += [0] * rng.choice([1, 12])
        elif r_ == 3:
            # hand-made groups: overlapping, end before start, glyph 0
            gs = [(rng.randint(0, 50), rng.randint(0, 60), rng.randint(0, 20)) for _ in range(rng.randint(1, 4))]
            body = b"".join(_st.pack(">LLL", *g_) for g_ in gs)
            b = list(_st.pack(">HHLLL", 12 if step else 13, 0, 16 + len(body), 0, len(gs)) + body)
        # a damaged group may span billions of codes (the decoder then materialises them all): keep the expansions small
        def span(bb):
            if len(bb) < 16: return 0
            ng = int.from_bytes(bytes(bb[12:16]), "big"); tot = 0
            for gi in range(min(ng, (len(bb) - 16) // 12)):
                s_, e_ = int.from_bytes(bytes(bb[16 + 12 * gi:20 + 12 * gi]), "big"), int.from_bytes(bytes(bb[20 + 12 * gi:24 + 12 * gi]), "big")
                tot += max(0, e_ - s_ + 1)
            return tot
        if span(b) > 5000: continue
        dcases.append((step, b))
    def impl_cmap_decompile(x):
        step, b = x
        def go():
            st = mk_sub(12 if step else 13); st.decompile(bytes(b), cfont)
            return (((st.format, st.reserved), st.language), [(c, cfont.getGlyphID(n_)) for c, n_ in st.cmap.items()])
        return res(go)
    out.append(Corr("cmap12_decompile", dcases, impl_cmap_decompile))
    # cmap format 6 (trimmed table): holes in the code range, spans around the 16-bit length limit, glyph IDs at and beyond 16 bits
    from fontTools.ttLib.tables._c_m_a_p import cmap_format_6
    def gen_cmap6():
        k = rng.randint(0, 10); m = {}
        base = rng.choice([0, 0x20, 0x41, 0xFF00, 0xFFF0, 32000])
        for _ in range(k):
            base += rng.choice([1, 1, 1, 2, 3, 40, rng.randint(1, 400)] + ([32700, 32762, 32763] if rng.chance(6) else []))
            m[base] = rng.choice([1, 2, NG - 1, rng.randint(1, NG - 1)] + ([0] if rng.chance(8) else []) + ([65535, 65536, 70000] if rng.chance(8) else []))
        return (rng.choice([0, 0, 1, 65535] + ([65536] if rng.chance(4) else [])), sorted(m.items()))
    c6 = [gen_cmap6() for _ in range(N(tier, 600, 8000))]
    def gname6(g): return ".notdef" if g == 0 else ("g%d" % g if g < NG else "glyph%05d" % g)   # what TTFont itself calls a glyph beyond the order
    def impl_c6_compile(x):
        language, items = x
        def go():
            st = cmap_format_6(6); st.platformID, st.platEncID, st.language = 1, 0, language
            st.cmap = {c: gname6(g) for c, g in items}
            return list(st.compile(cfont))
        return res(go)
    def oracle_c6(x):
        """the PROPERTY on the implementation: what was compiled decompiles to the same mapping (glyph 0 entries aside) and language"""
        language, items = x
        r = impl_c6_compile(x)
        if isinstance(r, Err): return None
        st = cmap_format_6(6); st.decompile(bytes(r.v), cfont)
        want = {c: gname6(g) for c, g in items if g != 0}
        if st.cmap != want: return "cmap format 6 changed after compile/decompile: %r -> %r" % (want, st.cmap)
        if st.language != language: return "language changed"
        return None
    out.append(Corr("cmap6_compile", c6, impl_c6_compile, oracle=oracle_c6))
    d6 = []
    for x in c6:
        r = impl_c6_compile(x)
        if isinstance(r, Err): continue
        b = list(r.v); r_ = rng.below(8)
        if r_ == 0: b = b[:rng.randint(0, len(b))]                      # truncated (the header's length then disagrees)
        elif r_ == 1 and b: b[rng.below(len(b))] ^= 1 << rng.below(8)
        elif r_ == 2:                                                    # entry count larger / smaller than the data, odd tails; length kept consistent
            cnt = rng.choice([0, 1, 3, 70, 65535]); tail = b[10:] + ([7] if rng.chance(40) else [])
            b = list(_st.pack(">HHHHH", 6, 10 + len(tail), 0, rng.choice([0, 65, 65530]), cnt)) + tail
        d6.append(b)
    def impl_c6_decompile(b):
        def go():
            st = cmap_format_6(6); st.decompile(bytes(b), cfont)
            return (st.language, sorted((c, cfont.getGlyphID(n_)) for c, n_ in st.cmap.items()))
        return res(go)
    out.append(Corr("cmap6_decompile", d6, impl_c6_decompile))
    # ---- cmap format 0: 256 one-byte glyph IDs
    from fontTools.ttLib.tables._c_m_a_p import cmap_format_0
    def gen_cmap0():
        m = {}
        for _ in range(rng.randint(0, 12)):
            c = rng.choice([0, 1, 32, 65, 127, 128, 254, 255]) if rng.chance(40) else rng.randint(0, 255)
            if rng.chance(3): c = rng.choice([256, 300, -1])
            m[c] = rng.choice([1, 2, 254, 255, rng.randint(1, min(NG - 1, 255))] + ([0] if rng.chance(8) else []) + ([256, NG - 1] if rng.chance(6) else []))
        return (rng.choice([0, 0, 1, 65535] + ([65536] if rng.chance(4) else [])), sorted(m.items()))
    c0 = [gen_cmap0() for _ in range(N(tier, 400, 6000))]
    def impl_c0_compile(x):
        language, items = x
        def go():
            st = cmap_format_0(0); st.platformID, st.platEncID, st.language = 1, 0, language
            st.cmap = {c: gname6(g) for c, g in items}
            return list(st.compile(cfont))
        return res(go)
    def oracle_c0(x):
        language, items = x
        r = impl_c0_compile(x)
        if isinstance(r, Err): return None
        st = cmap_format_0(0); st.decompile(bytes(r.v), cfont)
        want = {c: gname6(g) for c, g in items if g != 0}
        if st.cmap != want: return "cmap format 0 changed after compile/decompile: %r -> %r" % (want, st.cmap)
        return None if st.language == language else "language changed"
    out.append(Corr("cmap0_compile", c0, impl_c0_compile, oracle=oracle_c0))
    d0 = []
    for x in c0:
        r = impl_c0_compile(x)
        if isinstance(r, Err): continue
        b = list(r.v); r_ = rng.below(8)
        if r_ == 0: b = b[:rng.randint(0, len(b))]
        elif r_ == 1 and b: b[rng.below(len(b))] ^= 1 << rng.below(8)
        elif r_ == 2: b = b + [rng.randint(0, 255)]
        elif r_ == 3: b = list(_st.pack(">HHH", 0, 6 + 200, 0)) + b[6:206]           # a consistent length that is not 262
        d0.append(b)
    def impl_c0_decompile(b):
        def go():
            st = cmap_format_0(0); st.decompile(bytes(b), cfont)
            return (st.language, sorted((c, cfont.getGlyphID(n_)) for c, n_ in st.cmap.items()))
        return res(go)
    out.append(Corr("cmap0_decompile", d0, impl_c0_decompile))
    # cmap format 4 (segment mapping to delta values): runs of consecutive codes with consecutive / scattered glyph IDs on both sides of
    # splitRange's thresholds (4 / 8), code 0xFFFF, deltas that wrap, glyph index arrays, sizes at the 16-bit limits
    from fontTools.ttLib.tables._c_m_a_p import cmap_format_4, splitRange
    def gen_cmap4():
        m = {}; code = rng.choice([0, 0x20, 0x41, 0xFF00, 0xFFC0, 40000]); k = rng.randint(0, 7)
        for _ in range(k):
            code += rng.choice([1, 1, 2, 3, 50, rng.randint(1, 3000)])
            runlen = rng.choice([1, 2, 3, 4, 5, 6, 8, 9, 10, 13, 30])
            g = rng.randint(1, NG - 1)
            mode = rng.below(4)
            for j in range(runlen):
                if code > 0xFFFF + (1 if rng.chance(2) else 0): break
                if mode == 0: g += 1                                         # consecutive IDs
                elif mode == 1: g = rng.randint(1, NG - 1)                   # scattered
                elif mode == 2: g = g + 1 if (j % rng.choice([3, 5, 6, 9, 10])) else rng.randint(1, NG - 1)   # ordered stretches inside a run
                else: g = rng.choice([g + 1, g + 1, g + 1, g, 0, rng.randint(1, NG - 1)])
                m[code] = rng.choice([g, g, g, g, 65535 if rng.chance(3) else g]) if g < NG else rng.randint(1, NG - 1)
                code += 1
        if rng.chance(3): m[0xFFFF] = rng.randint(1, NG - 1)
        return (rng.choice([0, 0, 1, 65535] + ([65536] if rng.chance(4) else [])), sorted(m.items()))
    c4 = [gen_cmap4() for _ in range(N(tier, 900, 12000))]
    if tier != "quick":
        # a glyph index array that pushes idRangeOffset / the length over 16 bits
        big = sorted({0x100 + 2 * j: 1 + (j * 7) % (NG - 1) for j in range(1)}.items())
        c4.append((0, [(0x1000 + j, 1 + (j * 7) % (NG - 1)) for j in range(33000)]))
        c4.append((0, [(0x1000 + 2 * j, 1 + j % (NG - 1)) for j in range(8200)]))
    def impl_c4_compile(x):
        language, items = x
        def go():
            st = cmap_format_4(4); st.platformID, st.platEncID, st.language = 3, 1, language
            st.cmap = {c: gname6(g) for c, g in items}
            return list(st.compile(cfont))
        return res(go)
    def oracle_c4(x):
        language, items = x
        r = impl_c4_compile(x)
        if isinstance(r, Err): return None
        st = cmap_format_4(4); st.decompile(bytes(r.v), cfont)
        want = {c: gname6(g) for c, g in items if g != 0}
        if st.cmap != want:
            diff = [c for c in set(want) | set(st.cmap) if want.get(c) != st.cmap.get(c)][:4]
            return "cmap format 4 changed after compile/decompile at %r: %r -> %r" % (diff, [want.get(c) for c in diff], [st.cmap.get(c) for c in diff])
        if st.language != language: return "language changed"
        return None
    out.append(Corr("cmap4_compile", c4, impl_c4_compile, oracle=oracle_c4))
    d4 = []
    for x in c4[:600 if tier == "quick" else 6000]:
        r = impl_c4_compile(x)
        if isinstance(r, Err): continue
        b = list(r.v); r_ = rng.below(8)
        if len(b) > 4000: continue
        if r_ == 0: b = b[:rng.randint(0, len(b))]
        elif r_ == 1 and b: b[rng.below(len(b))] ^= 1 << rng.below(8)
        elif r_ == 2 and len(b) > 16:                                    # drop / add words but keep the header's length right
            k_ = rng.choice([-2, 2, 4, -4, 1])
            body = b[6:] + [0] * k_ if k_ > 0 else b[6:len(b) + k_]
            b = list(_st.pack(">HHH", 4, (6 + len(body)) & 0xFFFF, 0)) + body
        elif r_ == 3 and len(b) > 16:                                    # a different segment count over the same words
            b[6:8] = list(_st.pack(">H", rng.choice([0, 2, 4, 6, 200, 65534])))
        # a damaged segment may span tens of thousands of codes; the model's dict is a list (quadratic): keep the expansions small
        def span4(bb):
            if len(bb) < 16: return 0
            sc = int.from_bytes(bytes(bb[6:8]), "big") // 2; w = [int.from_bytes(bytes(bb[14 + 2 * j:16 + 2 * j]), "big") for j in range((len(bb) - 14) // 2)]
            ends = w[:sc]; starts = w[sc + 1:sc + 1 + sc]
            return sum(max(0, e_ - s_ + 1) for s_, e_ in zip(starts[:-1] if len(starts) > 1 else [], ends))
        if span4(b) > 3000: continue
        d4.append(b)
    def impl_c4_decompile(b):
        def go():
            st = cmap_format_4(4); st.decompile(bytes(b), cfont)
            return (st.language, [(c, cfont.getGlyphID(n_)) for c, n_ in st.cmap.items()])
        return res(go)
    out.append(Corr("cmap4_decompile", d4, impl_c4_decompile))
    sr = []
    for language, items in c4[:400 if tier == "quick" else 4000]:
        # every maximal run of consecutive codes of the mapping, as compile hands it to splitRange
        run = []
        for c, g in items + [(None, None)]:
            if run and (c is None or c != run[-1][0] + 1):
                if len(run) <= 400: sr.append((run[0][0], run[-1][0], list(items)))
                run = []
            if c is not None: run.append((c, g))
    def impl_split(x):
        s_, e_, items = x
        def go():
            a, b_ = splitRange(s_, e_, dict(items)); return (list(a), list(b_))
        return res(go)
    out.append(Corr("splitRange", sr[:3000 if tier == "quick" else 40000], impl_split))
    # composite components: GlyphComponent.compile / decompile (argument widths at their boundaries, the three transform forms, kept flags)
    from fontTools.ttLib.tables._g_l_y_f import GlyphComponent
    from lib.ser import Opt
    KEEPF = 0x4 | 0x200 | 0x800 | 0x1000 | 0x10 | 0x400
    class _GT:                                              # what the codec needs of a glyf table: glyph names <-> ids
        def getGlyphName(self, gid): return "g%d" % gid
        def getGlyphID(self, name): return int(name[1:])
    def gen_comp():
        flags = rng.choice([0, 0x4, 0x200, 0x1204, KEEPF, rng.below(1 << 13) & KEEPF, rng.below(1 << 16)])
        gid = rng.choice([0, 1, 255, 256, 65535, rng.below(65536)] + ([65536] if rng.chance(3) else []))
        B = [0, 1, -1, 127, 128, -128, -129, 255, 256, 32767, -32768, rng.randint(-500, 500)] + ([32768, -32769] if rng.chance(5) else [])
        if rng.chance(80): ar = (0, rng.choice(B), rng.choice(B))
        else: ar = (1, rng.choice([0, 1, 255, 256, 65535, rng.below(300)]), rng.choice([0, 255, 256, rng.below(70000)]))
        T = [0, 16384, -16384, 8192, 1, -1, 32767, -32768, 3185, rng.randint(-32768, 32767)] + ([32768] if rng.chance(3) else [])
        k = rng.below(6)
        if k == 0: tr = None
        elif k == 1: v = rng.choice(T); tr = (v, 0, 0, v)
        elif k == 2: tr = (rng.choice(T), 0, 0, rng.choice(T))
        elif k == 3: tr = (rng.choice(T), rng.choice(T), 0, rng.choice(T)) if rng.chance(50) else (rng.choice(T), 0, rng.choice(T), rng.choice(T))
        else: tr = tuple(rng.choice(T) for _ in range(4))
        return (rng.chance(50), rng.chance(30), (((flags, gid), ar), tr))
    ccs = [gen_comp() for _ in range(N(tier, 800, 10000))]
    def enc_comp(x):
        more, instr, (((flags, gid), ar), tr) = x
        return (more, instr, Raw([flags, gid, ar[0], ar[1], ar[2]] + ([1] + list(tr) if tr is not None else [0])))
    def mk_comp(c):
        ((flags, gid), ar), tr = c
        g = GlyphComponent(); g.flags = flags; g.glyphName = "g%d" % gid
        if ar[0] == 0: g.x, g.y = ar[1], ar[2]
        else: g.firstPt, g.secondPt = ar[1], ar[2]
        if tr is not None: g.transform = [[tr[0] / 16384, tr[1] / 16384], [tr[2] / 16384, tr[3] / 16384]]
        return g
    def impl_comp_compile(x):
        more, instr, c = x
        return res(lambda: list(mk_comp(c).compile(more, instr, _GT())))
    out.append(Corr("component_compile", ccs, impl_comp_compile, enc=enc_comp))
    dcs = []
    for x in ccs[: len(ccs) // 2]:
        r = impl_comp_compile(x)
        if isinstance(r, Err): continue
        b = list(r.v); r_ = rng.below(7)
        if r_ == 0: b = b[:rng.randint(0, len(b) - 1)]
        elif r_ == 1: b[rng.below(2)] = rng.below(256)                       # another flag word
        elif r_ == 2: b += [rng.below(256) for _ in range(rng.randint(1, 5))]
        dcs.append(b)
    def impl_comp_decompile(b):
        def go():
            g = GlyphComponent(); more, instr, rest = g.decompile(bytes(b), _GT())
            ar = Raw([0, g.x, g.y]) if hasattr(g, "x") else Raw([1, g.firstPt, g.secondPt])
            tr = Opt(None)
            if hasattr(g, "transform"):
                tr = Opt(Raw([int(round(v * 16384)) for row in g.transform for v in row]), some=True)
            return ((((Raw([g.flags, int(g.glyphName[1:])]), ar), tr), bool(more)), bool(instr)), list(rest)
        r = res(go)
        return r
    out.append(Corr("component_decompile", dcs, impl_comp_decompile))
    # kern format 0: both headers, values at the int16 ends, glyph IDs at the uint16 ends
    from fontTools.ttLib.tables._k_e_r_n import KernTable_format_0
    from lib import ser as S_
    class _KF:                                              # the font as the kern codec sees it
        def __init__(self, n): self.order = ["k%d" % i for i in range(n)]
        def getGlyphOrder(self): return self.order
        def getReverseGlyphMap(self): return {nm: i for i, nm in enumerate(self.order)}
        def getGlyphID(self, name): return int(name[1:])
        def getGlyphName(self, gid): return "k%d" % gid
    kfont = _KF(40)
    kcs = []
    for _ in range(N(tier, 500, 6000)):
        apple = rng.chance(40); cov = rng.choice([0, 1, 255] + ([256] if rng.chance(4) else [])); ti = rng.choice([0, 7, 65535] + ([65536] if rng.chance(4) else []))
        pairs = {}
        for _p in range(rng.randint(0, 12)):
            l_, r_ = rng.choice([0, 1, 39, rng.below(40), 65535, 300] + ([65536] if rng.chance(2) else [])), rng.choice([0, 1, 39, rng.below(40), 65535])
            pairs[(l_, r_)] = rng.choice([0, 1, -1, 32767, -32768, -32767, rng.randint(-32768, 32767)] + ([32768, -32769] if rng.chance(3) else []))
        items = [(l_, r_, v_) for (l_, r_), v_ in pairs.items()]; rng.shuffle(items)
        kcs.append((apple, cov, ti, items))
    def mk_kern(x):
        apple, cov, ti, items = x
        st = KernTable_format_0(apple=apple); st.coverage = cov; st.tupleIndex = ti if apple else None
        st.kernTable = {("k%d" % l_, "k%d" % r_): v_ for l_, r_, v_ in items}
        return st
    def impl_kern_compile(x): return res(lambda: list(mk_kern(x).compile(kfont)))
    out.append(Corr("kern0_compile", kcs, impl_kern_compile, enc=lambda x: (x[0], x[1], x[2], [((l_, r_), v_) for l_, r_, v_ in x[3]])))
    kds = []
    for x in kcs[: len(kcs) // 2]:
        r = impl_kern_compile(x)
        if isinstance(r, Err): continue
        b = list(r.v); r_ = rng.below(7)
        if r_ == 0: b = b[:rng.randint(0, len(b) - 1)]
        elif r_ == 1 and len(b) > 2: b[rng.below(min(len(b), 14))] = rng.below(256)
        elif r_ == 2: b += [rng.below(256) for _ in range(rng.randint(1, 7))]
        kds.append((x[0], b))
    def impl_kern_decompile(x):
        apple, b = x
        def go():
            st = KernTable_format_0(apple=apple); st.decompile(bytes(b), kfont)
            return ((st.coverage, Opt(st.tupleIndex, some=st.tupleIndex is not None)), [((int(l_[1:]), int(r_[1:])), v_) for (l_, r_), v_ in st.kernTable.items()])
        try: return Ok(go())
        except (StopIteration, ValueError): return Err(S_.INDEX)           # the pair data end before the announced number of pairs
        except Exception as e: return Err(S_.exc_code(e))
    out.append(Corr("kern0_decompile", kds, impl_kern_decompile))
    return out

# ------------------------------------------------------------------ sweeps
def sweeps(tier, rng):
    from fontTools.ttLib import TTFont, newTable
    from fontTools.ttLib.tables._c_m_a_p import CmapSubtable
    n = N(tier, 150, 3000) if tier != "search" else 800
    def run_cmap():
        for i in range(n):
            fmt = rng.choice([0, 4, 4, 6, 12, 12, 13, 14, 2])
            order = [".notdef"] + ["g%d" % j for j in range(1, rng.choice([5, 40, 300] if fmt != 0 else [5, 40, 200]))]
            f = _font_stub(order)
            st = CmapSubtable.newSubtable(fmt)
            st.platformID, st.platEncID, st.language = (0, 5, 0) if fmt == 14 else (3, 10 if fmt in (12, 13) else 1, 0)
            cm = {}
            if fmt == 14:
                st.cmap = {}
                st.uvsDict = {0xFE00 + rng.below(3): sorted({(rng.randint(0x20, 0x3000), rng.choice([None, rng.choice(order[1:])])) for _ in range(rng.randint(1, 6))}, key=lambda t: t[0])}
                # one entry per code point
                for k_ in st.uvsDict: st.uvsDict[k_] = list({u: g for u, g in st.uvsDict[k_]}.items())
            else:
                hi = {0: 255, 6: 0xFFFF, 4: 0xFFFF, 2: 0xFFFF, 12: 0x10FFFF, 13: 0x10FFFF}[fmt]
                m = min(rng.choice([0, 1, 5, 60, 400]), (hi + 1) // 2)
                start = rng.choice([0, 0x20, 0x41, 0xFF00, 0xFFFF - 3, 0x10000, 0x1F600]) % (hi + 1)
                cps = set(); tries = 0
                while len(cps) < m and tries < 2000:
                    tries += 1
                    s0 = (rng.randint(0, hi) if rng.chance(50) else start) if fmt != 6 else min(hi, start + rng.randint(0, 300))
                    for j in range(rng.choice([1, 1, 3, 20])):
                        if s0 + j <= hi: cps.add(s0 + j)
                if fmt == 2: cps = {c for c in cps if c < 0x100 or c >= 0x8100}
                seqbase = rng.randint(1, len(order) - 1)
                for c in sorted(cps):
                    cm[c] = rng.choice(order[1:]) if rng.chance(60) else order[1 + (seqbase + c) % (len(order) - 1)]
                if fmt == 13: cm = {c: order[1] for c in cm}
                st.cmap = cm
            bad = None
            try:
                data = st.compile(f)
                st2 = CmapSubtable.newSubtable(fmt); st2.decompile(data, f); st2.ensureDecompiled() if hasattr(st2, "ensureDecompiled") else None
                if fmt == 14:
                    if {k_: sorted(v, key=str) for k_, v in st2.uvsDict.items()} != {k_: sorted(v, key=str) for k_, v in st.uvsDict.items()}: bad = "cmap 14 changed: %r -> %r" % (st.uvsDict, st2.uvsDict)
                elif st2.cmap != cm:
                    diff = [c for c in set(cm) | set(st2.cmap) if cm.get(c) != st2.cmap.get(c)][:3]
                    bad = "cmap format %d changed at %r: %r -> %r" % (fmt, diff, [cm.get(c) for c in diff], [st2.cmap.get(c) for c in diff])
            except Exception as e:
                bad = "cmap format %d raised %r (%d entries)" % (fmt, e, len(cm))     # F7 (empty 12/13 mapping) was fixed in e7ca7cc
                if fmt in (0, 2, 6) and isinstance(e, (struct.error, KeyError, AssertionError, OverflowError, ValueError, IndexError)) and (len(cm) == 0 or fmt == 2): bad = None
            yield (("cmap", fmt, len(cm)), bad)
    def run_glyf():
        from fontTools.ttLib.tables._g_l_y_f import Glyph, GlyphCoordinates, GlyphComponent, flagOnCurve
        from fontTools.ttLib.tables import ttProgram
        for i in range(n):
            npts = rng.choice([1, 2, 3, 5, 20, 260, 300]); ncont = rng.randint(1, min(3, npts))
            pts = []; x = y = 0
            fam = rng.below(4)
            for j in range(npts):
                dx = rng.choice([0, 0, 1, -1, 255, 256, -255, -256, 257, rng.randint(-2000, 2000)]) if fam else 0
                dy = rng.choice([0, 0, 1, -1, 255, 256, -255, -256, rng.randint(-2000, 2000)]) if fam != 1 else 0
                x = max(-32768, min(32767, x + dx)); y = max(-32768, min(32767, y + dy)); pts.append((x, y))
            flags = [rng.choice([0, 1, 1]) for _ in range(npts)] if fam != 2 else [1] * npts
            if fam == 3: flags = [flags[0]] * npts        # long repeat runs (> 255)
            ends = sorted(rng.sample(range(npts - 1), ncont - 1)) + [npts - 1] if npts > 1 else [0]
            g = Glyph(); g.numberOfContours = len(ends); g.coordinates = GlyphCoordinates(pts); g.flags = bytearray(flags)
            g.endPtsOfContours = ends; g.program = ttProgram.Program(); g.program.fromBytecode(b"")
            glyf = SimpleNamespace(glyphOrder=["a"])
            bad = None
            try:
                for speed in (False, True):
                    g.recalcBounds(None)
                    data = g.compile(None, recalcBBoxes=True, optimizeSpeed=speed) if "optimizeSpeed" in Glyph.compile.__code__.co_varnames else g.compile(None)
                    g2 = Glyph(data); g2.expand(None)
                    if list(g2.coordinates) != pts or [f_ & 1 for f_ in g2.flags] != flags or list(g2.endPtsOfContours) != ends:
                        bad = "simple glyph changed after compile/decompile (%d points)" % npts
                    if (g2.xMin, g2.yMin, g2.xMax, g2.yMax) != (min(p[0] for p in pts), min(p[1] for p in pts), max(p[0] for p in pts), max(p[1] for p in pts)):
                        bad = "glyph bounds wrong"
            except Exception as e:
                bad = "glyph compile/decompile raised %r" % (e,)
            yield (("glyf-simple", npts, fam), bad)
        for i in range(n // 2):
            c = GlyphComponent(); c.glyphName = "b"; c.flags = 0
            k = rng.below(5)
            c.x, c.y = rng.choice([(0, 0), (127, -128), (128, 0), (-129, 5), (32767, -32768), (rng.randint(-500, 500), rng.randint(-500, 500))])
            if k == 1: c.transform = [[rng.randint(-32768, 32767) / 16384, 0], [0, 0]]; c.transform[1][1] = c.transform[0][0]
            elif k == 2: c.transform = [[rng.randint(-32768, 32767) / 16384, 0], [0, rng.randint(-32768, 32767) / 16384]]
            elif k == 3: c.transform = [[rng.randint(-32768, 32767) / 16384 for _ in range(2)] for _ in range(2)]
            elif k == 4:
                # a shear: exactly one off-diagonal term (an oblique built from an upright glyph), with or without scaling
                d0, d1 = rng.choice([(1.0, 1.0), (rng.randint(-32768, 32767) / 16384, rng.randint(-32768, 32767) / 16384), (1.0, 0.5)])
                off = rng.choice([3185, 4096, -2000, 1]) / 16384
                c.transform = [[d0, off], [0, d1]] if rng.chance(50) else [[d0, 0], [off, d1]]
            c.flags = rng.choice([0, 0x4, 0x200, 0x800, 0x1000])
            glyfT = SimpleNamespace(getGlyphID=lambda nme: 7, getGlyphName=lambda gid: "b")
            try:
                data = c.compile(more=False, haveInstructions=False, glyfTable=glyfT)
                c2 = GlyphComponent(); more, haveInstr, rest = c2.decompile(data, glyfT)
                same = (c2.x, c2.y, c2.glyphName) == (c.x, c.y, c.glyphName) and getattr(c2, "transform", None) == getattr(c, "transform", None) and len(rest) == 0
                if hasattr(c, "transform") and k == 1 and hasattr(c2, "transform"): same = same or (c2.x, c2.y) == (c.x, c.y) and c2.transform == c.transform
                bad = None if same else "component changed: (%r,%r,%r) -> (%r,%r,%r)" % (c.x, c.y, getattr(c, "transform", None), c2.x, c2.y, getattr(c2, "transform", None))
            except Exception as e:
                bad = "component raised %r" % (e,)
            yield (("glyf-component", k), bad)
    def run_glyf_loca_table():
        from fontTools.fontBuilder import FontBuilder
        from fontTools.pens.ttGlyphPen import TTGlyphPen
        # many odd-length glyphs with a total just below / at the short-loca limit
        for target in ([0x20000 - 14, 0x20000 - 2, 0x20000, 0x20000 + 6] if tier != "quick" else [0x20000 - 14, 0x20000 + 6]) + [3000]:
            for pad in (None, 1, 2, 4):
                bad = None
                try:
                    pen = TTGlyphPen(None); pen.moveTo((0, 0)); pen.lineTo((5, 0)); pen.lineTo((3, 7)); pen.closePath()
                    proto = pen.glyph()
                    f0 = _font_stub(["a"]); ln = len(proto.compile(SimpleNamespace(), recalcBBoxes=True)) if False else None
                    fb = FontBuilder(1000, isTTF=True)
                    # glyph byte length: measure once
                    import copy
                    tmpf = FontBuilder(1000, isTTF=True); tmpf.setupGlyphOrder([".notdef", "a"]); tmpf.setupCharacterMap({}); tmpf.setupGlyf({".notdef": TTGlyphPen(None).glyph(), "a": copy.deepcopy(proto)})
                    tmpf.setupHorizontalMetrics({".notdef": (1, 0), "a": (1, 0)}); tmpf.setupHorizontalHeader(); tmpf.setupNameTable({}); tmpf.setupOS2(); tmpf.setupPost()
                    tmpf.font["glyf"].padding = 1
                    b = io.BytesIO(); tmpf.save(b); t = TTFont(io.BytesIO(b.getvalue())); glen = len(t["glyf"].glyphs["a"].data) if hasattr(t["glyf"].glyphs["a"], "data") else 0
                    t["glyf"]["a"]; raw = TTFont(io.BytesIO(b.getvalue()), lazy=True).reader["glyf"]; glen = len(raw)
                    count = max(1, target // max(glen, 1))
                    order = [".notdef"] + ["g%d" % j for j in range(count)]
                    fb.setupGlyphOrder(order); fb.setupCharacterMap({})
                    glyphs = {".notdef": TTGlyphPen(None).glyph()}
                    for j, nme in enumerate(order[1:]):
                        pen = TTGlyphPen(None); pen.moveTo((0, 0)); pen.lineTo((5 + j % 3, 0)); pen.lineTo((3, 7 + j % 2)); pen.closePath(); glyphs[nme] = pen.glyph()
                    fb.setupGlyf(glyphs); fb.setupHorizontalMetrics({g: (10, 0) for g in order}); fb.setupHorizontalHeader(); fb.setupNameTable({}); fb.setupOS2(); fb.setupPost()
                    if pad is not None: fb.font["glyf"].padding = pad
                    b = io.BytesIO(); fb.save(b)
                    f2 = TTFont(io.BytesIO(b.getvalue()), lazy=False)
                    for j, nme in enumerate(order[1:]):
                        c, _, _ = f2["glyf"][nme].getCoordinates(f2["glyf"])
                        if list(c) != [(0, 0), (5 + j % 3, 0), (3, 7 + j % 2)]: bad = "glyph %s changed after glyf/loca compile (total about %#x, padding %r)" % (nme, count * glen, pad); break
                    from lib import glyfspec, sfntspec
                    kind, tabs, P = sfntspec.check_any(b.getvalue())
                    P2 = [p_ for p_ in glyfspec.check_truetype(tabs) if "loca" in p_ or "parse" in p_]
                    if bad is None and P2: bad = "; ".join(P2[:3])
                except Exception as e:
                    bad = "glyf/loca round trip raised %r" % (e,)
                yield (("glyf-loca", hex(target), pad), bad)
    def run_gvar():
        from fontTools.ttLib.tables.TupleVariation import TupleVariation, compileTupleVariationStore, decompileTupleVariationStore
        counts = [1, 2, 126, 127, 128, 129, 130, 255, 256, 257, 300] + [rng.randint(1, 300) for _ in range(n // 10)]
        for ci, npt in enumerate(counts):
            # the listed boundary counts always come with more points than are named explicitly (otherwise the set is written as "all points")
            total = npt + (rng.choice([1, 5, 50]) if ci < 11 else rng.choice([0, 1, 5, 50]))
            for shared in (False, True):
                idx = sorted(rng.sample(range(total), npt))
                vs = []
                for v in range(1 if not shared else 3):
                    deltas = [None] * total
                    for i_ in idx: deltas[i_] = (rng.randint(-300, 300), rng.choice([0, 0, rng.randint(-40000, 40000)]))
                    if npt == total and rng.chance(50): pass
                    vs.append(TupleVariation({"wght": (0.0, rng.choice([0.5, 1.0]), 1.0)}, deltas))
                bad = None
                try:
                    # use the public gvar path instead: per-glyph compile/decompile
                    from fontTools.ttLib.tables import _g_v_a_r as GV
                    blob = GV.compileGlyph_(2, vs, total, ["wght"], {})
                    back = GV.decompileGlyph_(2, total, [], ["wght"], blob)
                    if [b_.coordinates for b_ in back] != [v_.coordinates for v_ in vs] or [b_.axes for b_ in back] != [v_.axes for v_ in vs]:
                        bad = "gvar tuple variations with %d explicit points of %d changed after compile/decompile" % (npt, total)
                except Exception as e:
                    bad = "gvar with %d explicit points of %d raised %r" % (npt, total, e)
                yield (("gvar", npt, total, shared), bad)
    def run_name_kern():
        for i in range(n // 2):
            t = newTable("name"); t.names = []
            specs = [(3, 1, 0x409, "ŁódźAbc中"), (1, 0, 0, "Mac Roman é"), (3, 10, 0x409, "Astral \U0001F600"), (0, 3, 0, "uni"), (3, 1, 0x411, "")]
            used = []
            for (pid, eid, lid, s_) in rng.sample(specs, rng.randint(1, len(specs))):
                nid = rng.randint(0, 300); t.setName(s_, nid, pid, eid, lid); used.append((nid, pid, eid, lid, s_))
            bad = None
            try:
                f = _font_stub([".notdef"]); data = t.compile(f); t2 = newTable("name"); t2.decompile(data, f)
                for nid, pid, eid, lid, s_ in used:
                    r = t2.getName(nid, pid, eid, lid)
                    if r is None or r.toUnicode() != t.getName(nid, pid, eid, lid).toUnicode(): bad = "name %r changed" % ((nid, pid, eid, lid),); break
            except Exception as e:
                bad = "name raised %r" % (e,)
            yield (("name", len(used)), bad)
            from fontTools.ttLib.tables._k_e_r_n import KernTable_format_0
            order = [".notdef"] + ["g%d" % j for j in range(1, 30)]
            f = _font_stub(order); kt = newTable("kern"); kt.version = 0; st = KernTable_format_0(); st.coverage = 1; st.version = 0; st.apple = False; st.tupleIndex = None
            st.kernTable = {(rng.choice(order), rng.choice(order)): rng.choice([rng.randint(-32768, 32767), -32768, 32767, -32767, -1, 0, 1]) for _ in range(rng.randint(0, 40))}
            if rng.chance(50): st.apple = True; kt.version = 1.0; st.coverage = 0
            kt.kernTables = [st]
            try:
                data = kt.compile(f); k2 = newTable("kern"); k2.decompile(data, f)
                bad = None if k2.kernTables[0].kernTable == st.kernTable else "kern pairs changed"
            except Exception as e:
                bad = "kern raised %r" % (e,)
            yield (("kern", len(st.kernTable)), bad)
    def run_colr():
        """colour glyphs as layer lists that share runs of layers (what the builder's layer reuse is for), plus transforms and
        gradients: buildCOLR -> compile -> decompile -> unbuildColrV1 gives back every glyph's layers in order"""
        from fontTools.colorLib.builder import buildCOLR
        from fontTools.colorLib.unbuilder import unbuildColrV1
        from fontTools.ttLib import TTFont, newTable
        from fontTools.ttLib.tables.otTables import PaintFormat
        names = "ABCDEFGHJKLMNPQRSTUVW"
        def leaf(c):
            i = names.index(c)
            solid = {"Format": PaintFormat.PaintSolid, "PaletteIndex": i % 7, "Alpha": 1.0 if i % 3 else 0.5}
            if i % 5 == 4:
                solid = {"Format": PaintFormat.PaintLinearGradient, "ColorLine": {"Extend": "pad", "ColorStop": [{"StopOffset": 0.0, "PaletteIndex": 1, "Alpha": 1.0}, {"StopOffset": 1.0, "PaletteIndex": 2, "Alpha": 1.0}]},
                         "x0": 0, "y0": 0, "x1": 100 + i, "y1": 0, "x2": 0, "y2": 50}
            p_ = {"Format": PaintFormat.PaintGlyph, "Paint": solid, "Glyph": "shape" + c}
            if i % 4 == 3: p_ = {"Format": PaintFormat.PaintTranslate, "Paint": p_, "dx": 10 * i, "dy": -i}
            return p_
        def flatten(paint):
            f_ = int(paint["Format"])
            if f_ == int(PaintFormat.PaintColrLayers):
                out_ = []
                for sub in paint["Layers"]: out_ += flatten(sub)
                return out_
            return [paint]
        def canon(paint):
            if isinstance(paint, dict): return {k: canon(v) for k, v in sorted(paint.items())}
            if isinstance(paint, (list, tuple)): return [canon(v) for v in paint]
            if isinstance(paint, float) and paint == int(paint): return int(paint)
            try: return int(paint) if hasattr(paint, "name") else paint
            except Exception: return paint
        for it in range(n // 3):
            runs = ["".join(rng.sample(names, rng.randint(2, 5))) for _ in range(rng.randint(1, 4))]
            spec = []
            for gi in range(rng.randint(2, 7)):
                seq = ""
                for _ in range(rng.randint(1, 4)):
                    seq += rng.choice(runs) if rng.chance(65) else "".join(rng.sample(names, rng.randint(1, 3)))
                spec.append(("g%d" % gi, seq))
            paints = {b: ({"Format": PaintFormat.PaintColrLayers, "Layers": [leaf(c) for c in seq]} if len(seq) > 1 else leaf(seq[0])) for b, seq in spec}
            order_ = [".notdef"] + [b for b, _ in spec] + ["shape" + c for c in names]
            bad = None
            try:
                f = TTFont(); f.setGlyphOrder(order_)
                f["COLR"] = buildCOLR(paints, glyphMap={g: i for i, g in enumerate(order_)}, allowLayerReuse=rng.chance(85))
                data = f["COLR"].compile(f)
                f2 = TTFont(); f2.setGlyphOrder(order_); t = newTable("COLR"); t.decompile(data, f2)
                got = unbuildColrV1(t.table.LayerList, t.table.BaseGlyphList)
                for b, seq in spec:
                    want = [canon(leaf(c)) for c in seq]
                    have = [canon(x) for x in flatten(got[b])]
                    if have != want:
                        bad = "colour glyph %s = %s reads back with %d layers instead of %d: %r" % (b, seq, len(have), len(want), [x.get("Glyph") or x.get("Paint", {}).get("Glyph") for x in have]); break
            except Exception as e:
                bad = "COLR round trip raised %r for %r" % (e, spec)
            yield (("colr", tuple(spec)), bad)
    return [Sweep("cmap", run_cmap), Sweep("glyf", run_glyf), Sweep("glyf-loca", run_glyf_loca_table), Sweep("gvar", run_gvar), Sweep("name-kern", run_name_kern), Sweep("colr", run_colr)]

def classify(sweep, case, failure):
    return None

def witness(fid):
    if fid == "F7":
        from fontTools.ttLib.tables._c_m_a_p import CmapSubtable
        st = CmapSubtable.newSubtable(12); st.platformID, st.platEncID, st.language, st.cmap = 3, 10, 0, {}
        try:
            st.compile(_font_stub([".notdef"])); return None
        except IndexError as e:
            return "IndexError"
        except Exception as e:
            return None
    return None
