"""C19 — design sources survive being written and read back; generated file names are legal/unique."""
import os, io, tempfile, shutil
from lib.ser import Ok, Err, res, Raw
from lib import corpus
from vcheck import Corr, Sweep

RULE = ("file names: sequences of glyph/layer names over an alphabet biased to illegal characters, capitals, dots, reserved names, "
        "case variants, very long names, with prefixes/suffixes and pre-existing names; both copies of the algorithm. "
        "Sweeps: designspace / plist / GLIF / UFO write-read equality on generated and corpus data.")
TRUSTED = ["str.lower() is modelled for code points < 256 only", "XML libraries (ElementTree/lxml) and the fs layer are outside the model"]
ASSUMPTIONS = ["handleClash2 (reachable only with >= 10^15 existing names) is not modelled"]

def N(tier, q, t): return q if tier == "quick" else t

ALPHA = list("abcxyzABCXYZ019_.-$ ") + ['"', "*", "+", "/", ":", "<", ">", "?", "[", "\\", "]", "(", ")", "|", "\x00", "\x01", "\t", "\n", "\x1f", "\x7f", "\xc0", "\xe0", "\xd7", "\xf7", "\xde", "\xfe"]
RESERVED = ["con", "CON", "Con", "prn", "aux", "nul", "clock$", "com1", "COM9", "lpt1", "lpt9", "a:-z:", "com5"]

def gen_name(rng):
    k = rng.below(10)
    if k == 0: return rng.choice(RESERVED)
    if k == 1: return rng.choice(RESERVED) + "." + rng.choice(["", "x", "B", rng.choice(RESERVED)])
    if k == 2: return "." + "".join(rng.choice(ALPHA) for _ in range(rng.randint(0, 4)))
    if k == 3:
        base = rng.choice(["a", "A", "con.", "Ab", "x.", "?"]); n = rng.choice([60, 120, 127, 128, 240, 250, 254, 255, 256, 300])
        return (base * n)[:n + rng.below(3)]
    return "".join(rng.choice(ALPHA) for _ in range(rng.randint(1, 8)))

def correspondences(tier, rng):
    from fontTools.ufoLib import filenames as F_ufo
    from fontTools.misc import filenames as F_misc
    mods = {0: F_ufo, 1: F_misc}
    n = N(tier, 1500, 20000)
    cases = []
    for _ in range(n):
        which = rng.below(2)
        u = gen_name(rng)
        p = rng.choice(["", "", "", "glyphs.", "P", "x" * 240, "y" * 250]); s = rng.choice(["", ".glif", ".glif", "", "s" * 10, "z" * 245])
        ex = []
        for _ in range(rng.choice([0, 0, 1, 2, 5])):
            e = gen_name(rng)
            ex.append(e.lower())
        if rng.chance(40):
            # force a clash: pre-insert the name the algorithm would produce (and maybe its first fallbacks)
            try:
                first = mods[which].userNameToFileName(u, [], p, s)
                ex.append(first.lower())
                if rng.chance(50):
                    ex.append(mods[which].userNameToFileName(u, ex, p, s).lower())
            except Exception:
                pass
        cases.append((which, u, ex, p, s))
    cases.append((0, "", [], "", "")); cases.append((0, "", [], "p", "")); cases.append((0, "con." * 70, [], "", ""))
    def impl(x):
        which, u, ex, p, s = x
        return res(lambda: mods[which].userNameToFileName(u, ex, p, s))
    def oracle(x):
        which, u, ex, p, s = x
        try:
            r = mods[which].userNameToFileName(u, ex, p, s)
        except Exception:
            return None
        if r.lower() in ex: return "result %r clashes (case-insensitively) with an existing name" % r
        body = r[len(p):len(r) - len(s)] if s else r[len(p):]
        bad = [c for c in body if c in '"*/:<>?\\|' or ord(c) < 32 or ord(c) == 127]
        if bad: return "result %r contains the illegal character %r" % (r, bad[0])
        if len(r) > 255 and len(p) + len(s) + 15 <= 255: return "LEN: result has %d characters" % len(r)
        return None
    out = [Corr("userNameToFileName", cases, impl, oracle=oracle)]
    # sequences
    cases = []
    for _ in range(N(tier, 400, 5000)):
        which = rng.below(2); k = rng.randint(1, 8)
        base = [gen_name(rng) for _ in range(k)]
        names = []
        for b in base:
            names.append(b)
            if rng.chance(40): names.append(rng.choice([b.upper(), b.lower(), b.swapcase(), b]))
        names = [nm for nm in names if nm]
        cases.append((which, names, rng.choice(["", "g_"]), rng.choice(["", ".glif"])))
    def impl_seq(x):
        which, names, p, s = x
        def go():
            ex = set(); outn = []
            for nm in names:
                f = mods[which].userNameToFileName(nm, ex, p, s); ex.add(f.lower()); outn.append(f)
            return outn
        return res(go)
    def oracle_seq(x):
        r = impl_seq(x)
        if isinstance(r, Err): return None
        low = [f.lower() for f in r.v]
        if len(set(low)) != len(low): return "two names map to the same file ignoring case: %r" % (r.v,)
        return None
    out.append(Corr("name_sequence", cases, impl_seq, oracle=oracle_seq))
    # axis maps: AxisDescriptor.map_forward / map_backward on exact rationals, the map as a user may write it (any entry order,
    # increasing / decreasing / flat / not monotone at all, exact duplicates, one input with two outputs)
    from fontTools.designspaceLib import AxisDescriptor, DesignSpaceDocumentError
    from fractions import Fraction as Fr
    from lib import ser as S_
    def gen_map():
        k = rng.randint(0, 6); fam = rng.below(6)
        xs = sorted(rng.sample(range(-20, 21), k))
        if fam == 0: ys = sorted(rng.sample(range(-60, 61), k))
        elif fam == 1: ys = sorted(rng.sample(range(-60, 61), k), reverse=True)
        elif fam == 2: ys = sorted(rng.choice(range(-6, 7)) for _ in range(k))            # flat segments
        else: ys = [rng.randint(-60, 60) for _ in range(k)]
        m = [(Fr(x, 4), Fr(y, 4)) for x, y in zip(xs, ys)]
        if m and rng.chance(20): m.append(rng.choice(m))                                  # exact duplicate: collapses
        if m and rng.chance(8): m.append((rng.choice(m)[0], Fr(rng.randint(-60, 60), 4) + Fr(1, 8)))   # conflicting outputs: refused
        rng.shuffle(m)
        return m
    def probes(m):
        c = [Fr(rng.randint(-100, 100), 16), Fr(rng.randint(-300, 300), 16)]
        for a, b in m: c += [a, b]
        if len(m) >= 2:
            (a, va), (b, vb) = rng.sample(m, 2); c += [(a + b) / 2, (va + vb) / 2, (2 * a + b) / 3]
        return c
    cases_f = []; cases_b = []
    for _ in range(N(tier, 500, 6000)):
        m = gen_map()
        for v in rng.sample(probes(m), 2): cases_f.append((m, v))
        for v in rng.sample(probes(m), 2): cases_b.append((m, v))
    def axis(m):
        a = AxisDescriptor(); a.name = "T"; a.tag = "TEST"; a.minimum, a.default, a.maximum = 0, 0, 1000; a.map = list(m); return a
    def call(fn):
        try: return Ok(Fr(fn()))
        except DesignSpaceDocumentError: return Err(S_.VALUE, "DesignSpaceDocumentError")
        except Exception as e: return Err(S_.exc_code(e), type(e).__name__)
    def oracle_axis(x):
        """the PROPERTY on the implementation: on a strictly monotone map the two directions undo each other (decreasing: inside the node range)"""
        m, v = x
        ms = sorted(set(m))
        if len(ms) < 2 or len(set(a for a, _ in ms)) != len(ms): return None
        inc = all(ms[i][1] < ms[i + 1][1] for i in range(len(ms) - 1)); dec = all(ms[i][1] > ms[i + 1][1] for i in range(len(ms) - 1))
        if not (inc or dec): return None
        a = axis(m)
        msg = None
        if inc or ms[0][0] <= v <= ms[-1][0]:
            r = a.map_backward(a.map_forward(v))
            if r != v: msg = "map_backward(map_forward(%s)) = %s on %r" % (v, r, m)
        lo, hi = min(b for _, b in ms), max(b for _, b in ms)
        if msg is None and (inc or lo <= v <= hi):
            r = a.map_forward(a.map_backward(v))
            if r != v: msg = "map_forward(map_backward(%s)) = %s on %r" % (v, r, m)
        return msg
    out.append(Corr("axis_map_forward", cases_f, lambda x: call(lambda: axis(x[0]).map_forward(x[1])), oracle=oracle_axis))
    out.append(Corr("axis_map_backward", cases_b, lambda x: call(lambda: axis(x[0]).map_backward(x[1])), oracle=oracle_axis))
    # UFO 1/2 -> 3 conversion of kerning and groups
    from fontTools.ufoLib.converters import convertUFO1OrUFO2KerningToUFO3Kerning
    import copy
    GLY = ["a", "b", "c", "d", "e"]; STEMS = ["A", "B", "x", "A1", "A2", "public.kern1.A", "L_A", "@MMK_L_A", "a"]
    kcases = []
    for _ in range(N(tier, 500, 6000)):
        groups = {}
        for _g in range(rng.randint(0, 6)):
            nm = rng.choice(["@MMK_L_", "@MMK_R_", "", "", "@MMK_L_@MMK_L_", "public.kern1.", "public.kern2."]) + rng.choice(STEMS)
            groups[nm] = rng.sample(GLY, rng.randint(0, 3))
        names = GLY + list(groups) + ["zz"]
        # glyphs whose names look like UFO 3 group names (UFO 1/2 reserve nothing): the names a renamed group would like to take
        names += ["public.kern1.A", "public.kern2.A", "public.kern1.x", "public.kern2.B"] if rng.chance(40) else []
        kerning = {}
        for _k in range(rng.randint(0, 7)):
            kerning.setdefault(rng.choice(names), {})[rng.choice(names)] = rng.randint(-90, 90)
        glyphSet = GLY + (rng.sample(list(groups), 1) if groups and rng.chance(15) else [])       # a glyph may bear a group's name
        kcases.append((list(kerning.items()), list(groups.items()), glyphSet))
    cp = lambda s_: [ord(c) for c in s_]
    def enc_k(x):
        kerning, groups, glyphSet = x
        return ([(cp(a), [(cp(b), v) for b, v in row.items()]) for a, row in kerning], [(cp(g), [cp(m) for m in mem]) for g, mem in groups], [cp(g) for g in glyphSet])
    def impl_k(x):
        kerning, groups, glyphSet = x
        def go():
            k, g, maps = convertUFO1OrUFO2KerningToUFO3Kerning(copy.deepcopy(dict(kerning)), copy.deepcopy(dict(groups)), set(glyphSet))
            return ((([(cp(a), [(cp(b), v) for b, v in row.items()]) for a, row in k.items()], [(cp(n_), [cp(m) for m in mem]) for n_, mem in g.items()]),
                     [(cp(a), cp(b)) for a, b in maps["side1"].items()]), [(cp(a), cp(b)) for a, b in maps["side2"].items()])
        return res(go)
    def oracle_k(x):
        """the PROPERTY on the implementation: every renamed group gets its own new name, not one that exists already"""
        kerning, groups, glyphSet = x
        k, g, maps = convertUFO1OrUFO2KerningToUFO3Kerning(copy.deepcopy(dict(kerning)), copy.deepcopy(dict(groups)), set(glyphSet))
        new = list(maps["side1"].values()) + list(maps["side2"].values())
        if len(set(new)) != len(new): return "two groups were renamed to the same name: %r" % (maps,)
        if any(n_ in dict(groups) for n_ in new): return "a group was renamed to an existing group's name: %r" % (maps,)
        # ... nor the place of an existing kerning entry: every (first, second) value is found under the renamed names
        for a, row in kerning:
            for b, v in row.items():
                na, nb = maps["side1"].get(a, a), maps["side2"].get(b, b)
                if k.get(na, {}).get(nb) != v: return "kerning value (%r, %r) = %r became %r: %r -> %r" % (a, b, v, k.get(na, {}).get(nb), dict(kerning), k)
        return None
    out.append(Corr("convert_kerning", kcases, impl_k, enc=enc_k, oracle=oracle_k))
    return out

def _f1_pattern(u, which):
    """a reserved part name survives clipping to 255 (then '_' prefixes are added after the clip)"""
    from fontTools.ufoLib import filenames as F_ufo
    from fontTools.misc import filenames as F_misc
    m = F_ufo if which == 0 else F_misc
    return any(part.lower() in m.reservedFileNames for part in u.split("."))

def classify(sweep, case, failure):
    if sweep == "userNameToFileName" and str(failure).startswith("LEN:") and _f1_pattern(case[1], case[0]):
        return "F1"
    return None

def witness(fid):
    if fid == "F1":
        from fontTools.ufoLib.filenames import userNameToFileName
        return len(userNameToFileName("con." * 70)) > 255
    return None

def _ds_doc(rng):
    from fontTools.designspaceLib import (DesignSpaceDocument, AxisDescriptor, DiscreteAxisDescriptor, SourceDescriptor,
                                          InstanceDescriptor, RuleDescriptor, AxisLabelDescriptor, LocationLabelDescriptor)
    doc = DesignSpaceDocument()
    if rng.chance(50): doc.formatVersion = rng.choice(["4.0", "4.1", "5.0", "5.1"])
    naxes = rng.randint(1, 3); axes = []
    for i in range(naxes):
        a = AxisDescriptor(); a.name = ["Weight", "Width", "Slant"][i]; a.tag = ["wght", "wdth", "slnt"][i]
        a.minimum, a.default, a.maximum = rng.choice([(100, 400, 900), (50, 100, 200), (-20, 0, 20), (0, 0, 1000)])
        if rng.chance(50):
            pts = sorted(set([a.minimum, a.default, a.maximum] + [rng.randint(int(a.minimum), int(a.maximum)) for _ in range(rng.below(3))]))
            ys = sorted(rng.sample(range(0, 2000), len(pts)))
            a.map = list(zip([float(p_) for p_ in pts], [float(y) for y in ys]))
        if rng.chance(25): a.hidden = True
        if rng.chance(20): a.labelNames = {"en": a.name, "fr": a.name + "-fr"}
        if rng.chance(15):
            l = AxisLabelDescriptor(name="Regular", userValue=a.default, elidable=True); a.axisLabels = [l]
        doc.addAxis(a); axes.append(a)
    if rng.chance(10):
        d = DiscreteAxisDescriptor(); d.name = "Italic"; d.tag = "ital"; d.values = [0, 1]; d.default = 0; doc.addAxis(d); axes.append(d)
    def dloc():
        out = {}
        for a in axes:
            if hasattr(a, "values"): out[a.name] = rng.choice(a.values)
            else: out[a.name] = rng.choice([a.map_forward(a.minimum), a.map_forward(a.default), a.map_forward(a.maximum)] + ([y for _, y in a.map] if a.map else []))
        return out
    for i in range(rng.randint(1, 4)):
        sd = SourceDescriptor(); sd.filename = "master%d.ufo" % i; sd.name = "master.%d" % i; sd.location = dloc()
        if i == 0: sd.location = {a.name: (a.map_forward(a.default) if not hasattr(a, "values") else a.default) for a in axes}
        sd.familyName = "Fam"; sd.styleName = "S%d" % i
        if rng.chance(20): sd.layerName = "layer%d" % i
        doc.addSource(sd)
    for i in range(rng.randint(0, 4)):
        inst = InstanceDescriptor(); inst.filename = "inst%d.ufo" % i; inst.familyName = "Fam"; inst.styleName = "I%d" % i
        k = rng.below(4)
        if k == 0: inst.designLocation = dloc()
        elif k == 1: inst.userLocation = {a.name: float(rng.choice([a.minimum, a.default, a.maximum]) if not hasattr(a, "values") else a.default) for a in axes}
        elif k == 2:
            a0 = axes[0]
            inst.userLocation = {a0.name: float(a0.default)}
            inst.designLocation = {a.name: v for a, v in zip(axes[1:], list(dloc().values())[1:])}
        else: inst.designLocation = dloc()
        if rng.chance(30): inst.postScriptFontName = "Fam-I%d" % i
        if rng.chance(20): inst.lib = {"com.example": {"a": [1, 2.5, "x"], "b": True}}
        doc.addInstance(inst)
    if rng.chance(30):
        r = RuleDescriptor(); r.name = "r1"; r.conditionSets = [[dict(name=axes[0].name, minimum=float(axes[0].minimum), maximum=float(axes[0].default))]]
        r.subs = [("a", "a.alt"), ("dollar", "dollar.alt")]; doc.addRule(r)
    if rng.chance(30): doc.lib = {"org.test": [1, {"k": "v"}, 2.5], "flag": False}
    return doc

def _plist_value(rng, depth=0):
    import datetime
    k = rng.below(9 if depth < 3 else 6)
    if k == 0: return rng.randint(-2**31, 2**31)
    if k == 1: return rng.choice([0.5, -1.25, 1e10, 3.0, 0.1, 1e-7, 123456.789])
    if k == 2: return "".join(rng.choice(list("ab <>&\"'é\u2603 \t")) for _ in range(rng.randint(0, 8))).strip(" \t") if rng.chance(50) else rng.choice(["", "x", "a&b", "<tag>", "]]>"])
    if k == 3: return rng.choice([True, False])
    if k == 4: return rng.bytes(rng.randint(0, 50))
    if k == 5: return datetime.datetime(rng.randint(1970, 2100), rng.randint(1, 12), rng.randint(1, 28), rng.randint(0, 23), rng.randint(0, 59), rng.randint(0, 59))
    if k in (6, 7): return [_plist_value(rng, depth + 1) for _ in range(rng.randint(0, 4))]
    # keys include the empty string (a legal <key/>)
    return {"".join(rng.choice("abcXYZ.&<") for _ in range(rng.randint(0 if rng.chance(15) else 1, 5))): _plist_value(rng, depth + 1) for _ in range(rng.randint(0, 4))}

def sweeps(tier, rng):
    """write -> read equality of design sources on the implementation (testing)"""
    n = N(tier, 150, 2000) if tier != "search" else 600
    def run_designspace():
        from fontTools.designspaceLib import DesignSpaceDocument
        for i in range(n):
            doc = _ds_doc(rng)
            try:
                text = doc.tostring()
                back = DesignSpaceDocument.fromstring(text)
                d1 = doc.asdict(); d2 = back.asdict()
                for d in (d1, d2):
                    d.pop("formatVersion", None); d.pop("formatTuple", None); d.pop("path", None); d.pop("filename", None); d.pop("default", None)
                    for s_ in d.get("sources", []) + d.get("instances", []): s_.pop("path", None)
                bad = None
                if d1 != d2:
                    diff = [k for k in d1 if d1.get(k) != d2.get(k)]
                    detail = ""
                    if "instances" in diff:
                        for a_, b_ in zip(d1["instances"], d2["instances"]):
                            if a_ != b_:
                                detail = "; ".join("%s: %r -> %r" % (k, a_[k], b_.get(k)) for k in a_ if a_[k] != b_.get(k))[:300]; break
                    bad = "designspace changed after write/read in %s %s" % (diff, detail)
                # second generation text is a fixed point
                elif back.tostring() != DesignSpaceDocument.fromstring(back.tostring()).tostring(): bad = "designspace text is not a fixed point"
            except Exception as e:
                bad = "designspace write/read raised %r" % (e,)
            yield (("designspace", i, doc.formatVersion), bad)
        # axis maps: forward/backward are mutually inverse on strictly monotone maps
        from fontTools.designspaceLib import AxisDescriptor
        from fractions import Fraction
        for i in range(n):
            a = AxisDescriptor(); a.minimum, a.default, a.maximum = 0, 400, 1000
            k = rng.randint(2, 6)
            xs = sorted(rng.sample(range(0, 1001), k)); ys = sorted(rng.sample(range(-500, 3000), k))
            # a third of the maps are strictly decreasing (a slant axis: user up, design down); entries in any order
            if i % 3 == 2: ys.reverse()
            pairs = [(Fraction(x), Fraction(y)) for x, y in zip(xs, ys)]
            if rng.chance(30): rng.shuffle(pairs)
            a.map = pairs
            u = Fraction(rng.randint(xs[0] * 8, xs[-1] * 8), 8)
            d = a.map_forward(u); u2 = a.map_backward(d)
            dd = Fraction(rng.randint(min(ys) * 8, max(ys) * 8), 8)
            ok = (u2 == u) and a.map_forward(a.map_backward(dd)) == dd
            yield (("axis-map", xs, ys, str(u)), None if ok else "map_backward(map_forward(%s)) = %s on map %r" % (u, u2, list(zip(xs, ys))))
    def run_plist():
        from fontTools.misc import plistlib
        for i in range(n * 2):
            v = _plist_value(rng)
            if not isinstance(v, (dict, list)): v = {"root": v}
            try:
                for sort_keys in (True, False):
                    data = plistlib.dumps(v, sort_keys=sort_keys)
                    back = plistlib.loads(data)
                    bad = None if back == v else "plist changed after dumps/loads: %r -> %r" % (v, back)
                    if bad: break
            except Exception as e:
                bad = "plist raised %r on %r" % (e, v)
            yield (("plist", i), bad)
    def run_glif():
        from fontTools.ufoLib import glifLib
        from fontTools.pens.recordingPen import RecordingPointPen
        class G: pass
        for i in range(n):
            g = G(); g.width = rng.choice([0, 500, 612.5]); g.height = rng.choice([0, 1000])
            g.unicodes = sorted(set(rng.randint(32, 0x10FFFF) for _ in range(rng.below(3))))
            g.note = rng.choice([None, "a note", "line1\nline2"]) if rng.chance(50) else None
            g.lib = rng.choice([{"k": [1, 2.5, "x", True]}, {"": 1, "k": {"": "e", "z": []}}]) if rng.chance(30) else {}
            g.anchors = [dict(x=rng.randint(-50, 50), y=rng.randint(-50, 50), name="top")] if rng.chance(40) else []
            glif_v = 1 if rng.chance(30) else 2       # GLIF 1 has no guidelines / identifiers; anchors travel as one-point contours and come back
            g.guidelines = [dict(x=10, y=20, angle=45.5, name="g")] if (rng.chance(20) and glif_v == 2) else []
            rec = RecordingPointPen()
            for c in range(rng.below(3)):
                rec.beginPath(identifier=("c%d_%d" % (i, c)) if (rng.chance(30) and glif_v == 2) else None)
                npts = rng.randint(1, 6); closed = rng.chance(70)
                types = []
                for j in range(npts):
                    t = rng.choice(["line", "line", "curve", "qcurve", None])
                    types.append(t)
                if not closed: types[0] = "move"
                # make off-curve runs legal: an off-curve must be followed (cyclically) by curve/qcurve/offcurve
                for j in range(npts):
                    nxt = types[(j + 1) % npts]
                    if types[j] is None and nxt in ("line", "move"): types[j] = "line"
                if types[-1] is None and not closed: types[-1] = "line"
                for j in range(npts):
                    # cubic: at most 2 off-curves before a curve
                    rec.addPoint((rng.randint(-1000, 1000), rng.choice([rng.randint(-1000, 1000), 0.5])), types[j], rng.chance(20) and types[j] is not None, None)
                rec.endPath()
            if rng.chance(30): rec.addComponent("base", (1, 0, 0, rng.choice([1, 0.5]), rng.randint(-10, 10), 0))
            name = "".join(c for c in gen_name(rng) if ord(c) >= 32 and ord(c) != 127) or "a"
            try:
                text = glifLib.writeGlyphToString(name, g, rec.replay, formatVersion=glif_v, validate=False)
                g2 = G(); rec2 = RecordingPointPen()
                glifLib.readGlyphFromString(text, g2, rec2, validate=False)
                bad = None
                for attr in ("width", "height", "unicodes", "note", "lib", "anchors", "guidelines"):
                    v1 = getattr(g, attr); v2 = getattr(g2, attr, None)
                    if (v1 or None) != (v2 or None) and not (attr in ("width", "height") and (v1 or 0) == (v2 or 0)):
                        bad = "GLIF %s changed: %r -> %r" % (attr, v1, v2); break
                if bad is None and rec.value != rec2.value:
                    bad = "GLIF outline changed: %r -> %r" % (rec.value[:4], rec2.value[:4])
            except Exception as e:
                bad = None if "illegal" in str(e).lower() or "GlifLibError" in type(e).__name__ else "GLIF raised %r" % (e,)
            yield (("glif", i, name), bad)
    def run_ufo():
        from fontTools.ufoLib import UFOReader, UFOWriter
        tmp = tempfile.mkdtemp(prefix="fvC19_")
        try:
            class Info: pass
            for i in range(max(12, n // 5)):
                path = os.path.join(tmp, "f%d.ufo" % i)
                w = UFOWriter(path)
                info = Info(); info.familyName = "Fam%d" % i; info.unitsPerEm = rng.choice([1000, 2048]); info.ascender = 800; info.descender = -200
                info.openTypeOS2Panose = [rng.below(10) for _ in range(10)]; info.note = "n"
                w.writeInfo(info)
                kern = {("public.kern1.a", "public.kern2.b"): -10, ("A", "B"): 20.5, ("A", "public.kern2.b"): 7}
                groups = {"public.kern1.a": ["A", "Aacute"], "public.kern2.b": ["B"], "other": ["x", "y"]}
                w.writeGroups(groups); w.writeKerning(kern); w.writeLib({"k": [1, 2], "public.glyphOrder": ["A", "B"]})
                names = [nm for nm in (gen_name(rng) or "x" for _ in range(rng.randint(2, 8))) if all(ord(c) >= 32 and ord(c) != 127 for c in nm)] or ["x"]
                names = list(dict.fromkeys(names))
                # names whose file name exceeds 255 characters are the listed finding F1 (decided in the correspondence part): the OS
                # refuses the file and the half-done writeGlyph leaves its contents entry behind — not a second finding
                from fontTools.ufoLib.filenames import userNameToFileName as _u2f
                names = [nm for nm in names if not (_f1_pattern(nm, 0) and len(_u2f(nm, [], "", ".glif")) > 255)]
                if not names: names = ["x"]
                gs = w.getGlyphSet()
                class G: pass
                for nm in names:
                    g = G(); g.width = len(nm) * 10
                    try: gs.writeGlyph(nm, g)
                    except Exception: names = [x for x in names if x != nm]
                gs.writeContents(); w.writeLayerContents(); w.close()
                # a second session on the same UFO: more glyphs, some named like the lower-cased FILE NAME of a glyph already there
                # (glyph "Ab" lives in "A_b.glif"; a new glyph "a_b" would get "a_b.glif" — the same file ignoring case)
                if rng.chance(60):
                    w2 = UFOWriter(path); gs = w2.getGlyphSet()
                    stems = [fn[:-5].lower() for fn in gs.contents.values() if fn[:-5].lower() != fn[:-5]]
                    more = [st for st in stems if st and st not in names and rng.chance(70)] + [gen_name(rng) or "y" for _ in range(rng.randint(0, 2))]
                    for nm in dict.fromkeys(more):
                        if nm in names or not all(ord(c) >= 32 and ord(c) != 127 for c in nm): continue
                        if _f1_pattern(nm, 0) and len(_u2f(nm, [], "", ".glif")) > 255: continue
                        g = G(); g.width = len(nm) * 10
                        try: gs.writeGlyph(nm, g); names.append(nm)
                        except Exception: pass
                    gs.writeContents(); w2.writeLayerContents(); w2.close()
                r = UFOReader(path)
                info2 = Info(); r.readInfo(info2)
                bad = None
                if (info2.familyName, info2.unitsPerEm, info2.openTypeOS2Panose) != (info.familyName, info.unitsPerEm, info.openTypeOS2Panose): bad = "fontinfo changed"
                elif r.readKerning() != kern: bad = "kerning changed: %r" % (r.readKerning(),)
                elif r.readGroups() != groups: bad = "groups changed"
                elif r.readLib() != {"k": [1, 2], "public.glyphOrder": ["A", "B"]}: bad = "lib changed"
                else:
                    gs2 = r.getGlyphSet()
                    if sorted(gs2.keys()) != sorted(names): bad = "glyph names changed: %r -> %r" % (sorted(names), sorted(gs2.keys()))
                    else:
                        files = list(gs2.contents.values())
                        if len(set(f.lower() for f in files)) != len(files): bad = "two glyph files collide ignoring case: %r" % files
                        if any(len(f) > 255 for f in files): bad = "glyph file name longer than 255"
                        for nm in names:
                            g = G(); gs2.readGlyph(nm, g)
                            if g.width != len(nm) * 10: bad = "glyph %r width changed" % nm
                yield (("ufo", i, names[:4]), bad)
        finally:
            shutil.rmtree(tmp, ignore_errors=True)
    def run_kerning_upconversion():
        """UFO 1/2 -> 3 conversion of kerning and groups (what UFOReader does for old sources): every glyph pair keeps its kerning value"""
        from fontTools.ufoLib.converters import convertUFO1OrUFO2KerningToUFO3Kerning
        import copy
        GLY = ["a", "b", "c", "d", "e", "f", "g", "h"]
        STEMS = ["A", "B", "x", "A1", "public.kern1.A", "L_A"]
        def value(kerning, groups1, groups2, l, r):
            """UFO kerning lookup: glyph pair, then glyph/group and group/glyph, then group/group; groups1/2: glyph -> group of that side"""
            g1 = groups1.get(l); g2 = groups2.get(r)
            for a_, b_ in ((l, r), (l, g2), (g1, r), (g1, g2)):
                if a_ is not None and b_ is not None and a_ in kerning and b_ in kerning[a_]: return kerning[a_][b_]
            return 0
        for i in range(n * 2):
            # side-1 and side-2 groups, each glyph in at most one group per side; names with and without the UFO1 prefixes, some of
            # which collapse to the same stem once the prefix is removed
            groups = {}; side1 = {}; side2 = {}
            gl1 = list(GLY); rng.shuffle(gl1); gl2 = list(GLY); rng.shuffle(gl2)
            for k_ in range(rng.randint(0, 3)):
                nm = rng.choice(["@MMK_L_", "", "", "@MMK_L_@MMK_L_"]) + rng.choice(STEMS)
                if nm in groups or len(gl1) < 2: continue
                mem = [gl1.pop(), gl1.pop()][: rng.randint(1, 2)]; groups[nm] = mem
                for g_ in mem: side1[g_] = nm
            for k_ in range(rng.randint(0, 3)):
                nm = rng.choice(["@MMK_R_", "", "", "@MMK_R_@MMK_R_"]) + rng.choice(STEMS)
                if nm in groups or len(gl2) < 2: continue
                mem = [gl2.pop(), gl2.pop()][: rng.randint(1, 2)]; groups[nm] = mem
                for g_ in mem: side2[g_] = nm
            if rng.chance(30): groups["other"] = ["a", "b"]
            if rng.chance(30):
                # a group that bears the name of a glyph of the font: in a kerning pair that name means the GLYPH
                gn = rng.choice(GLY[:4]); groups[gn] = [gn, rng.choice(GLY)]
            firsts = GLY[:4] + sorted(set(side1.values())); seconds = GLY[:4] + sorted(set(side2.values()))
            # (glyphs named like UFO 3 kerning groups are left to the correspondence: UFO 3 cannot tell such a glyph from a group, so
            # "the pair kerns as before" has no meaning for them; what can be asked -- no value is dropped or moved -- is asked there)
            XG = []
            kerning = {}
            for _k in range(rng.randint(1, 8)):
                kerning.setdefault(rng.choice(firsts), {})[rng.choice(seconds)] = rng.randint(-90, 90) or 5
            bad = None
            try:
                newK, newG, maps = convertUFO1OrUFO2KerningToUFO3Kerning(copy.deepcopy(kerning), copy.deepcopy(groups), set(GLY) | set(XG))
                # the sides after conversion: membership of the renamed groups
                n1 = {}; n2 = {}
                for nm, mem in newG.items():
                    if nm.startswith("public.kern1."):
                        for g_ in mem: n1[g_] = nm
                    if nm.startswith("public.kern2."):
                        for g_ in mem: n2[g_] = nm
                # groups that are used as a kerning side in the old data (the converter decides that from the pairs and the prefixes)
                used1 = {nm for nm in groups if nm.startswith("@MMK_L_") or (nm in kerning and nm not in GLY)}
                used2 = {nm for nm in groups if nm.startswith("@MMK_R_") or (any(nm in v for v in kerning.values()) and nm not in GLY)}
                o1 = {g_: nm for g_, nm in side1.items() if nm in used1}; o2 = {g_: nm for g_, nm in side2.items() if nm in used2}
                for l in GLY + XG:
                    for r in GLY + XG:
                        v0 = value(kerning, o1, o2, l, r); v1 = value(newK, n1, n2, l, r)
                        if v0 != v1:
                            bad = "kerning of (%s, %s) is %r before and %r after the UFO2->3 conversion; groups %r kerning %r -> groups %r kerning %r rename %r" % (l, r, v0, v1, groups, kerning, newG, newK, maps); break
                    if bad: break
                if bad is None:
                    names = list(maps["side1"].values()) + list(maps["side2"].values())
                    if len(set(names)) != len(names) or any(nm in groups for nm in names):
                        bad = "two groups were given the same new name (or an existing one): %r" % (maps,)
            except Exception as e:
                bad = "conversion raised %r on groups %r kerning %r" % (e, groups, kerning)
            yield (("kerning-upconversion", i), bad)
    return [Sweep("designspace", run_designspace), Sweep("plist", run_plist), Sweep("glif", run_glif), Sweep("ufo", run_ufo),
            Sweep("kerning-upconversion", run_kerning_upconversion)]
