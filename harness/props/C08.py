"""C08 — instancing a variable font preserves the design space that remains."""
import io, os
from fractions import Fraction as F
from lib.ser import Ok, Err, res, Raw, Opt
from lib import corpus
from vcheck import Corr, Sweep

RULE = ("renormalizeValue / rebaseTent / normalizeValue / piecewiseLinearMap: C09's generators (all limit shapes incl. pinned, one-sided, "
        "moved defaults, unequal user-space distances); sweeps: generated variable fonts (asymmetric axes, intermediate and two-axis "
        "masters, avar maps, multi-VarData HVAR, variable kerning) and corpus variable fonts (glyf/gvar, CFF2) under random pins, ranges "
        "and moved defaults; every glyph outline and advance and sample kerning compared through HarfBuzz at the SAME user-space locations "
        "inside the new limits (ends, old default, masters, avar knots, random), with the rounding budget of the instance's active tuples.")
TRUSTED = ["uharfbuzz 0.52 as the independent variation engine"]
ASSUMPTIONS = ["the Coq model covers axis renormalisation and tent rebasing (C09's model); table-level instancing (gvar/HVAR/MVAR/GPOS/avar/"
               "fvar/STAT/feature variations) is checked only by the HarfBuzz sweeps",
               "rounding budget: 0.5 for the new default, 1.0 (0.5 without IUP optimisation) per instance tuple active at the location, 0.5 per original tuple of the glyph (dropped all-zero pieces); CFF2: 1.0 + 0.5 per region of the instance's store per preceding relative operand (relative coordinates accumulate the rounding)"]

def N(tier, q, t): return q if tier == "quick" else t

_FONTS = {}          # label -> font bytes of the current run (for classify)

def correspondences(tier, rng):
    from props import C09
    keep = ("renormalizeValue", "rebaseTent", "normalizeValue", "piecewiseLinearMap", "tentval")
    return [c for c in C09.correspondences(tier, rng) if c.name in keep]

# ------------------------------------------------------------------ generated variable fonts
TENTS_1 = [(0, 1, 1), (-1, -1, 0), (0, 0.5, 1), (0.5, 1, 1), (-1, -0.5, 0), (0, 0.25, 0.75), (0.25, 0.75, 1)]

def gen_var_font(rng, avar=None, hvar=None, kern=True):
    from fontTools.fontBuilder import FontBuilder
    from fontTools.feaLib.builder import addOpenTypeFeaturesFromString
    from fontTools.ttLib.tables.TupleVariation import TupleVariation
    from fontTools.ttLib import newTable
    from props.C07 import _box, _add_hvar
    order = [".notdef", "space", "a", "b", "c", "d", "a.alt", "b.alt", "c.alt"]
    # nested composites: "inner" is built from simple glyphs, "ainner" / "zinner" (names sorting before and after it) use it as a
    # component, "aaouter" nests one level deeper; component offsets vary, so the box of an outer composite depends on its
    # inner composites having been instanced first
    comps = {}
    if rng.chance(60):
        comps = {"inner": [("a", (0, 0)), ("b", (rng.randint(-200, 400), rng.randint(-50, 50)))],
                 "ainner": [("inner", (rng.randint(-300, 100), 0)), ("c", (500, 10))],
                 "zinner": [("c", (0, 0)), ("inner", (rng.randint(-100, 300), 20))],
                 "aaouter": [("ainner", (rng.randint(-250, 50), 0)), ("d", (300, 0))]}
    simple = list(order)
    order = order + list(comps)
    adv = {g: 300 + 40 * i for i, g in enumerate(order)}
    fb = FontBuilder(1000, isTTF=True); fb.setupGlyphOrder(order)
    cm_ = {32: "space", 97: "a", 98: "b", 99: "c", 100: "d"}; cm_.update({0xE000 + i: g for i, g in enumerate(comps)})
    fb.setupCharacterMap(cm_)
    glyphs = {g: _box(adv[g], 300 + 50 * i) for i, g in enumerate(simple)}
    if comps:
        from fontTools.ttLib.tables._g_l_y_f import Glyph, GlyphComponent
        for g, parts in comps.items():
            gl = Glyph(); gl.numberOfContours = -1; gl.components = []
            for nm, (x_, y_) in parts:
                c_ = GlyphComponent(); c_.glyphName = nm; c_.x, c_.y = x_, y_; c_.flags = 0x4; gl.components.append(c_)
            glyphs[g] = gl
    fb.setupGlyf(glyphs)
    # left side bearings equal xMin (what every reader that honours hmtx assumes for a font without HVAR lsb mappings)
    fb.font["glyf"].compile(fb.font)
    fb.setupHorizontalMetrics({g: (adv[g], getattr(fb.font["glyf"][g], "xMin", 0) if fb.font["glyf"][g].numberOfContours else 0) for g in order}); fb.setupHorizontalHeader(ascent=800, descent=-200)
    fb.setupNameTable({"familyName": "Gen08", "styleName": "Regular"}); fb.setupOS2(); fb.setupPost()
    two = rng.chance(60)
    axes = [("wght", 100, 400, 900, "Weight")] + ([("wdth", 50, 100, 200, "Width")] if two else [])
    fb.setupFvar(axes, [])
    var = {}; awd = {}
    for i, g in enumerate(order):
        tv = []
        used = set()
        for _ in range(rng.randint(1, 4)):
            t = rng.choice(TENTS_1)
            sup = {"wght": t}
            if two and rng.chance(40): sup = {"wdth": rng.choice(TENTS_1[:5])} if rng.chance(50) else {"wght": t, "wdth": rng.choice(TENTS_1[:5])}
            key = tuple(sorted(sup.items()))
            if key in used: continue
            used.add(key)
            d = [(rng.randint(-60, 60), rng.randint(-40, 40)) for _ in range(4)]
            if g in comps: d = [(rng.randint(-120, 120), rng.randint(-40, 40)) for _ in comps[g]]      # one delta per component offset
            aw = rng.randint(-50, 80)
            tv.append(TupleVariation(sup, d + [(0, 0), (aw, 0), (0, 0), (0, 0)]))
            awd.setdefault(g, {})[key] = aw
        var[g] = tv
    fb.setupGvar(var)
    font = fb.font
    if avar if avar is not None else rng.chance(50):
        a = newTable("avar"); a.majorVersion = 1; a.minorVersion = 0
        segs = {}
        for ax in axes:
            m = {-1.0: -1.0, 0.0: 0.0, 1.0: 1.0}
            if rng.chance(80):
                for k in rng.sample([-0.75, -0.5, -0.25, 0.25, 0.5, 0.75], rng.randint(1, 3)):
                    m[k] = None
                keys = sorted(m)
                # monotone values
                prev = -1.0
                for k in keys:
                    if m[k] is None:
                        lo = prev; hi = 0.0 if k < 0 else 1.0
                        m[k] = round((lo + (hi - lo) * rng.randint(2, 12) / 16) * 16384) / 16384
                    prev = m[k]
            segs[ax[0]] = m
        a.segments = segs; font["avar"] = a
    if kern:
        vk = []
        pairs = set()
        for j in range(rng.randint(1, 3)):
            x, y = rng.choice("abcd"), rng.choice("abcd")
            if (x, y) in pairs: continue
            pairs.add((x, y))
            if two and j % 2: vk.append("pos %s %s (wght=400,wdth=100:%d wght=400,wdth=200:%d wght=900,wdth=100:%d);" % (x, y, rng.randint(-80, 80), rng.randint(-80, 80), rng.randint(-80, 80)))
            else: vk.append("pos %s %s (wght=100:%d wght=400:%d wght=%d:%d wght=900:%d);" % (x, y, rng.randint(-80, 80), rng.randint(-80, 80), rng.choice([250, 650, 700]) , rng.randint(-80, 80), rng.randint(-80, 80)))
        addOpenTypeFeaturesFromString(font, "languagesystem DFLT dflt;\nfeature kern {\n  %s\n} kern;\n" % "\n  ".join(vk))
        if rng.chance(45):
            # the lookup continues in a second glyph-pair subtable that lists the same pairs AGAIN with other values (feaLib would
            # fold them, so the copy is inserted by hand): the first subtable decides those pairs, the second is dormant for them —
            # and must stay so after the instancer has merged the subtables
            import copy
            for lk_ in font["GPOS"].table.LookupList.Lookup:
                st0 = lk_.SubTable[0]
                if lk_.LookupType == 2 and getattr(st0, "Format", 0) == 1 and len(lk_.SubTable) == 1:
                    st1 = copy.deepcopy(st0)
                    for ps_ in st1.PairSet:
                        for pvr_ in ps_.PairValueRecord:
                            if pvr_.Value1 is not None and getattr(pvr_.Value1, "XAdvance", None) is not None: pvr_.Value1.XAdvance += rng.choice([-300, 250, 400])
                    lk_.SubTable.append(st1); lk_.SubTableCount = 2
    if rng.chance(60):
        # conditional substitutions (GSUB FeatureVariations, 'rvrn'): one or more records, each a union of boxes in normalised space
        from fontTools.varLib.featureVars import addFeatureVariations
        tags_ = [a_[0] for a_ in axes]
        def box():
            b_ = {}
            for t_ in rng.sample(tags_, rng.randint(1, len(tags_))):
                lo = rng.choice([-1.0, -0.5, 0.0, 0.25, 0.5]); hi = rng.choice([v for v in (-0.25, 0.0, 0.5, 0.75, 1.0) if v > lo])
                b_[t_] = (lo, hi)
            return b_
        conds = []
        if len(tags_) > 1 and rng.chance(40):
            # the same range on two axes, as separate records (their condition sets differ only by the axis index)
            lo = rng.choice([-0.5, 0.0, 0.25, 0.5]); hi = rng.choice([v for v in (0.0, 0.5, 0.75, 1.0) if v > lo])
            conds += [([{tags_[0]: (lo, hi)}], {"a": "a.alt"}), ([{tags_[1]: (lo, hi)}], {"b": "b.alt"})]
        for g in rng.sample(["a", "b", "c"], rng.randint(1, 3)):
            if any(g in m for _, m in conds): continue
            conds.append(([box() for _ in range(rng.randint(1, 2))], {g: g + ".alt"}))
        addFeatureVariations(font, conds)
    if hvar if hvar is not None else rng.chance(50):
        _add_hvar_2(font, rng, [a_[0] for a_ in axes], awd)
    b = io.BytesIO(); font.save(b)
    return b.getvalue()

def _add_hvar_2(font, rng, axes, awd):
    """HVAR consistent with the gvar phantom-point deltas, rows spread over 1-3 VarData"""
    from fontTools.ttLib import newTable
    from fontTools.ttLib.tables import otTables as ot
    from fontTools.varLib import builder as VB
    order = font.getGlyphOrder()
    keys = sorted({k for g in awd for k in awd[g]})
    regions = [dict(k) for k in keys] or [{"wght": (0, 1, 1)}]
    nvd = rng.randint(1, 3)
    rows = [[] for _ in range(nvd)]; mapping = {}
    for i, g in enumerate(order):
        m = rng.below(nvd)
        rows[m].append([awd.get(g, {}).get(k, 0) for k in keys] or [0]); mapping[g] = (m << 16) + len(rows[m]) - 1
    for m in range(nvd):
        if not rows[m]: rows[m].append([0] * len(regions))
    vs = VB.buildVarStore(VB.buildVarRegionList(regions, axes), [VB.buildVarData(list(range(len(regions))), r, optimize=False) for r in rows])
    h = newTable("HVAR"); h.table = ot.HVAR(); h.table.Version = 0x00010000; h.table.VarStore = vs
    h.table.AdvWidthMap = VB.buildVarIdxMap([mapping[g] for g in order], order); h.table.LsbMap = h.table.RsbMap = None
    font["HVAR"] = h

# ------------------------------------------------------------------ limits, locations, comparison
def gen_limits(rng, axes, interesting):
    """axes: [(tag, min, default, max)]; interesting: {tag: [user values of masters/knots]}; returns {tag: value | (min,max) | (min,def,max)}"""
    lim = {}
    for tag, lo, d, hi in axes:
        pts = sorted(set([lo, d, hi] + [v for v in interesting.get(tag, []) if lo <= v <= hi] + [lo + (hi - lo) * rng.randint(1, 15) / 16 for _ in range(3)]))
        k = rng.below(10)
        if k < 2: continue                                    # axis left alone
        if k < 4: lim[tag] = rng.choice(pts)                 # pin
        elif k < 6:                                           # range keeping the default
            a = rng.choice([p for p in pts if p <= d]); b = rng.choice([p for p in pts if p >= d])
            lim[tag] = (a, b)
        else:                                                 # moved default
            a, m, b = sorted(rng.choice(pts) for _ in range(3))
            lim[tag] = (a, m, b)
    if not lim:
        tag, lo, d, hi = axes[0]; lim[tag] = (lo, (lo + hi) / 2, hi)
    return lim

def new_ranges(axes, lim):
    out = {}
    for tag, lo, d, hi in axes:
        v = lim.get(tag, (lo, d, hi))
        if not isinstance(v, tuple): out[tag] = (v, v, v)
        elif len(v) == 2: out[tag] = (v[0], min(max(d, v[0]), v[1]), v[1])
        else: out[tag] = v
    return out

def gen_locations(rng, axes, ranges, interesting, n):
    locs = []
    per = {}
    for tag, lo, d, hi in axes:
        a, m, b = ranges[tag]
        cand = [a, m, b, (a + m) / 2, (m + b) / 2] + [v for v in interesting.get(tag, []) + [d] if a <= v <= b]
        per[tag] = sorted(set(cand))
    locs.append({t: ranges[t][1] for t in per}); locs.append({t: ranges[t][0] for t in per}); locs.append({t: ranges[t][2] for t in per})
    for _ in range(n):
        locs.append({t: (rng.choice(per[t]) if rng.chance(70) else ranges[t][0] + (ranges[t][2] - ranges[t][0]) * rng.randint(0, 32) / 32) for t in per})
    seen = []; out = []
    for l in locs:
        k = tuple(sorted(l.items()))
        if k not in seen: seen.append(k); out.append(l)
    return out

def _active_tuples(font, glyph, loc_norm):
    """number of gvar tuples of the glyph with a non-zero scalar at the normalised location"""
    from fontTools.varLib.models import supportScalar
    if "gvar" not in font: return 0
    n = 0
    for tv in font["gvar"].variations.get(glyph, []):
        if supportScalar(loc_norm, tv.axes): n += 1
    return n

def _norm_loc(font, loc):
    from fontTools.varLib.models import normalizeLocation, piecewiseLinearMap
    if "fvar" not in font: return {}
    axes = {a.axisTag: (a.minValue, a.defaultValue, a.maxValue) for a in font["fvar"].axes}
    n = normalizeLocation({k: v for k, v in loc.items() if k in axes}, axes)
    if "avar" in font:
        for k, m in font["avar"].segments.items():
            if k in n and m: n[k] = piecewiseLinearMap(n[k], m)
    return n

def _pts(calls, slack=0.0):
    """flat op/point list; explicit or implied closing lines back to the contour start are dropped (with CFF2's relative coordinates
    rounding may leave the last point a unit off the start, and the reader then closes the gap with a line of its own: slack > 0)"""
    out = []; start = None; lines = []; npts = 0
    for op, a in calls:
        if op == "moveTo": start = a[0]; lines = []
        if op == "closePath":
            while lines and lines[-1] == len(out) - 2 and max(abs(out[-1][0] - start[0]), abs(out[-1][1] - start[1])) <= (slack * (0.5 + 0.5 * npts) if slack else 0):
                del out[-2:]; lines.pop()
        out.append(op)
        if op == "lineTo": lines.append(len(out) - 1)
        elif op != "closePath": lines = [] if op != "moveTo" else lines
        for p in a: out.append(p); npts += 1
    return out

def compare_instance(data, inst_bytes, inst_font, axes, ranges, locs, texts, optimize, stats):
    from lib.hb import HBFont
    from fontTools.ttLib import TTFont
    f0 = TTFont(io.BytesIO(data)); order = f0.getGlyphOrder()
    remaining = {a.axisTag for a in inst_font["fvar"].axes} if "fvar" in inst_font else set()
    per_tuple = 1.0 if optimize else 0.5
    cond_edges = []
    for tt_ in ("GSUB", "GPOS"):
        fv_ = getattr(f0[tt_].table, "FeatureVariations", None) if tt_ in f0 else None
        if fv_ is not None:
            for rec_ in fv_.FeatureVariationRecord:
                for c_ in (rec_.ConditionSet.ConditionTable if rec_.ConditionSet else []):
                    tag_ = f0["fvar"].axes[c_.AxisIndex].axisTag
                    cond_edges += [(tag_, c_.FilterRangeMinValue), (tag_, c_.FilterRangeMaxValue)]
    def tree(font, g, seen=None):
        seen = seen if seen is not None else []
        if g in seen: return seen
        seen.append(g)
        if "glyf" in font and font["glyf"][g].isComposite():
            for c_ in font["glyf"][g].components: tree(font, c_.glyphName, seen)
        return seen
    if "glyf" in f0 and "glyf" in inst_font and "hmtx" in inst_font:
        # placement: where the original's left side bearings are the outlines' xMin, the instance's must be too (readers that
        # honour hmtx shift the outline by lsb - xMin)
        g0 = f0["glyf"]; g1 = inst_font["glyf"]
        if all(f0["hmtx"][g][1] == g0[g].xMin for g in order if g0[g].numberOfContours):
            for g in order:
                if g1[g].numberOfContours:
                    g1[g].recalcBounds(g1)
                    # a composite's box is computed from unrounded component outlines and offsets, the stored ones are rounded one
                    # by one: one unit per glyph of its component tree
                    depth_ = len(tree(inst_font, g)) - 1
                    if abs(inst_font["hmtx"][g][1] - g1[g].xMin) > depth_:
                        return "left side bearing of %r is %d in the instance but its outline starts at xMin %d (the original's agree): the glyph is drawn shifted" % (g, inst_font["hmtx"][g][1], g1[g].xMin)
    cff2 = "CFF2" in f0
    nreg = 1
    if cff2 and "CFF2" in inst_font:
        # every relative operand carries one rounded delta per region of the instance's store
        try: nreg = max(1, inst_font["CFF2"].cff.topDictIndex[0].VarStore.otVarStore.VarRegionList.RegionCount)
        except Exception: nreg = 4
    for loc in locs:
        h0 = HBFont(data, order, variations=dict(loc))
        h1 = HBFont(inst_bytes, order, variations={k: v for k, v in loc.items() if k in remaining})
        nl = _norm_loc(inst_font, {k: v for k, v in loc.items() if k in remaining})
        step = max(1, len(order) // 40)
        for gid in range(0, len(order), step):
            g = order[gid]
            # 0.5 for the rounded new default, per_tuple for each rounded tuple active here, and 0.5 for every original tuple: a rebased
            # piece whose deltas all round to zero is dropped from the instance and cannot be counted there; a composite adds the
            # budgets of the glyphs it is built from to that of its own offsets
            members = tree(f0, g) if not cff2 else [g]
            n_act = sum(_active_tuples(inst_font, m_, nl) for m_ in members) if not cff2 else 2
            n_orig = sum(len(f0["gvar"].variations.get(m_, [])) for m_ in members) if "gvar" in f0 else 0
            tol = 0.5 * len(members) + per_tuple * n_act + 0.5 * n_orig + 0.01
            a = _pts(h0.outline(gid), 1.0 if cff2 else 0.0); b = _pts(h1.outline(gid), 1.0 if cff2 else 0.0)
            if len(a) != len(b) or any(isinstance(x, str) != isinstance(y, str) or (isinstance(x, str) and x != y) for x, y in zip(a, b)):
                # an outline that collapses to nothing in both is fine; a different structure is not
                return "outline structure of %r at %r differs: original %r, instance %r" % (g, loc, a[:6], b[:6])
            devs = [max(abs(x[0] - y[0]), abs(x[1] - y[1])) for x, y in zip(a, b) if not isinstance(x, str)]
            if cff2:
                # CFF2 stores RELATIVE coordinates: every rounded operand shifts all later points, the budget grows along the path
                over = [d for i, d in enumerate(devs) if d > 1.0 + 0.5 * nreg * (i + 1) + 0.01]
                stats["max_cff2_dev"] = max([stats.get("max_cff2_dev", 0)] + devs)
                dev = max(over or [0]); tol = 0.0 if over else tol
            else:
                dev = max(devs or [0])
                stats["max_outline_dev"] = max(stats.get("max_outline_dev", 0), dev)
            if dev > tol: return "outline of %r at %r deviates by %.2f (budget %.2f, %d active tuples)" % (g, loc, dev, tol, n_act)
            wa = h0.advance(gid); wb = h1.advance(gid)
            stats["max_advance_dev"] = max(stats.get("max_advance_dev", 0), abs(wa - wb))
            if abs(wa - wb) > 1.0 + tol: return "advance of %r at %r: original %r, instance %r (budget %.2f)" % (g, loc, wa, wb, 1.0 + tol)
        # on (or within quantisation distance of) a FeatureVariations condition boundary the record chosen depends on F2Dot14 rounding
        nl0 = _norm_loc(f0, loc); on_edge = any(abs(nl0.get(tag_, 0) - v_) < 0.004 for tag_, v_ in cond_edges)
        for t in texts:
            sa = h0.shape(t); sb = h1.shape(t)
            if [x[0] for x in sa] != [x[0] for x in sb]:
                if on_edge: stats["skipped_on_condition_edge"] = stats.get("skipped_on_condition_edge", 0) + 1; continue
                return "text %r at %r: original glyphs %r, instance %r" % (t, loc, sa, sb)
            for x, y in zip(sa, sb):
                d = max(abs(p - q) for p, q in zip(x[1:], y[1:]))
                stats["max_shape_dev"] = max(stats.get("max_shape_dev", 0), d)
                if d > 4.0: return "text %r at %r: original positions %r, instance %r" % (t, loc, sa, sb)
    return None

VAR_TABLES = ("fvar", "gvar", "avar", "HVAR", "VVAR", "MVAR", "cvar", "STAT")

def check_static(inst_font):
    left = [t for t in VAR_TABLES[:-1] if t in inst_font]
    if left: return "fully pinned instance still has %r" % (left,)
    if "GDEF" in inst_font and getattr(inst_font["GDEF"].table, "VarStore", None) is not None: return "fully pinned instance still has a GDEF VarStore"
    return None

def check_fvar(inst_font, axes, ranges, lim):
    if "fvar" not in inst_font: return None
    got = {a.axisTag: (a.minValue, a.defaultValue, a.maxValue) for a in inst_font["fvar"].axes}
    for tag, lo, d, hi in axes:
        a, m, b = ranges[tag]
        if a == b:
            if tag in got and tag in lim: return "pinned axis %r is still in fvar" % tag
            continue
        if tag not in got: return "axis %r disappeared" % tag
        if any(abs(x - y) > 1.0 / 65536 for x, y in zip(got[tag], (a, m, b))):      # fvar stores 16.16
            return "axis %r limits are %r, requested %r" % (tag, got[tag], (a, m, b))
    return None

def sweeps(tier, rng):
    from fontTools.ttLib import TTFont
    from fontTools.varLib import instancer
    from lib.hb import save_bytes
    nf = 120 if tier == "quick" else 250 if tier == "search" else 2000
    nc = 6 if tier == "quick" else 15 if tier == "search" else 150
    stats = {}
    def user_of_norm(ax, v):
        tag, lo, d, hi = ax
        return d + v * (hi - d) if v >= 0 else d + v * (d - lo)
    def one(label, data, nlim, nloc, texts):
        _FONTS[label] = data
        f = TTFont(io.BytesIO(data))
        axes = [(a.axisTag, a.minValue, a.defaultValue, a.maxValue) for a in f["fvar"].axes]
        interesting = {}
        for ax in axes:
            vals = set()
            if "gvar" in f:
                for g in list(f["gvar"].variations)[:40]:
                    for tv in f["gvar"].variations[g]:
                        if ax[0] in tv.axes: vals.update(tv.axes[ax[0]])
            for tt in ("GSUB", "GPOS"):
                fv = getattr(f[tt].table, "FeatureVariations", None) if tt in f else None
                if fv is not None:
                    for rec in fv.FeatureVariationRecord:
                        for c_ in (rec.ConditionSet.ConditionTable if rec.ConditionSet else []):
                            if f["fvar"].axes[c_.AxisIndex].axisTag == ax[0]:
                                for v_ in (c_.FilterRangeMinValue, c_.FilterRangeMaxValue): vals.update([v_, v_ - 0.01, v_ + 0.01])
            if "avar" in f and ax[0] in f["avar"].segments:
                # master coordinates are post-avar: map back through the inverse of the segment map
                seg = sorted(f["avar"].segments[ax[0]].items())
                inv = {}
                for v in list(vals):
                    for (k0, t0), (k1, t1) in zip(seg, seg[1:]):
                        if t0 <= v <= t1 and t1 > t0: inv[v] = k0 + (k1 - k0) * (v - t0) / (t1 - t0)
                vals = set(inv.values()) | set(k for k, _ in seg)
            interesting[ax[0]] = [user_of_norm(ax, v) for v in vals if -1 <= v <= 1]
        has_fv = any(getattr(f[tt_].table, "FeatureVariations", None) is not None for tt_ in ("GSUB", "GPOS") if tt_ in f)
        for r in range(nlim + (1 if has_fv and len(axes) > 1 else 0)):
            lim = gen_limits(rng, axes, interesting)
            if r == nlim:
                # directed: pin one axis only, anywhere; the conditional substitutions on the other axes must survive unchanged
                ax_ = rng.choice(axes); lim = {ax_[0]: rng.choice([ax_[1], ax_[2], ax_[3], ax_[1] + (ax_[3] - ax_[1]) * rng.randint(1, 15) / 16])}
            optimize = rng.chance(50)
            try:
                inst = instancer.instantiateVariableFont(TTFont(io.BytesIO(data)), dict(lim), optimize=optimize)
                ib = save_bytes(inst); inst = TTFont(io.BytesIO(ib))
            except NotImplementedError:
                yield ((label, str(lim), "unsupported"), None); continue
            except Exception as e:
                yield ((label, str(lim)), "instancing raised %r" % (e,)); continue
            ranges = new_ranges(axes, lim)
            bad = None
            if all(ranges[a[0]][0] == ranges[a[0]][2] for a in axes): bad = check_static(inst)
            bad = bad or check_fvar(inst, axes, ranges, lim)
            if not bad:
                locs = gen_locations(rng, axes, ranges, interesting, nloc)
                try: bad = compare_instance(data, ib, inst, axes, ranges, locs, texts, optimize, stats)
                except Exception as e: bad = "comparison raised %r" % (e,)
            yield ((label, str(lim), optimize), bad)
    def run_generated():
        for i in range(nf):
            try: data = gen_var_font(rng)
            except Exception as e:
                yield (("generated", i), "font generator failed: %r" % (e,)); continue
            yield from one("generated-%d" % i, data, 3, 8, ["ab", "abcd", "dcba", "aa"])
    def run_corpus():
        cands = []
        for p in corpus.binaries((".ttf", ".otf")):
            try:
                if os.path.getsize(p) > 500000: continue
                f = TTFont(p, lazy=True)
                ok = "fvar" in f and "name" in f and "VARC" not in f and ("glyf" in f or "CFF2" in f)
                if ok and "avar" in f and getattr(f["avar"], "majorVersion", 1) >= 2: ok = False
                if ok: cands.append(p)
            except Exception: pass
        for p in corpus.pick(rng, cands, nc):
            data = open(p, "rb").read()
            try:
                f = TTFont(io.BytesIO(data)); cm = f.getBestCmap() or {}
                chars = [chr(c) for c in sorted(cm) if 0x41 <= c < 0x7b][:8]
                if len(f.getGlyphOrder()) > 3000: continue
            except Exception: continue
            texts = ["".join(chars[:4]), "".join(chars[4:8])] if chars else []
            yield from one(corpus.rel(p), data, 2, 5, [t for t in texts if t])
    def report():
        yield (("statistics", str(sorted(stats.items()))), None)
    return [Sweep("generated-variable-fonts", run_generated), Sweep("corpus-variable-fonts", run_corpus), Sweep("deviation-statistics", report)]

def _f17_pattern(data, lim):
    """F17: some FeatureVariations record holds on the WHOLE remaining design space (all its conditions are satisfied by the pins or
    span the restricted ranges) while another record survives as a conditional one"""
    from fontTools.ttLib import TTFont
    from fontTools.varLib import instancer
    f = TTFont(io.BytesIO(data))
    try:
        nl = instancer.AxisLimits(**lim).limitAxesAndPopulateDefaults(f).normalize(f)
    except Exception:
        return False
    for tt in ("GSUB", "GPOS"):
        fv = getattr(f[tt].table, "FeatureVariations", None) if tt in f else None
        if fv is None: continue
        universal = conditional = 0
        for rec in fv.FeatureVariationRecord:
            whole = True; possible = True
            for c in (rec.ConditionSet.ConditionTable if rec.ConditionSet else []):
                tag = f["fvar"].axes[c.AxisIndex].axisTag
                lo, hi = (nl[tag].minimum, nl[tag].maximum) if tag in nl else (-1.0, 1.0)
                if not (c.FilterRangeMinValue <= lo and hi <= c.FilterRangeMaxValue): whole = False
                if c.FilterRangeMaxValue < lo or hi < c.FilterRangeMinValue: possible = False
            if not possible: continue
            if whole: universal += 1
            else: conditional += 1
        if universal and conditional: return True
    return False

def classify(sweep, case, failure):
    if sweep == "generated-variable-fonts" and "original glyphs" in str(failure) and isinstance(case, tuple) and case[0] in _FONTS:
        try:
            if _f17_pattern(_FONTS[case[0]], eval(case[1], {"__builtins__": {}})): return "F17"
        except Exception:
            return None
    return None

F17_CONDS = [([{"wght": (0.2, 1.0)}], {"a": "a.alt"}), ([{"wdth": (0.5, 1.0)}], {"b": "b.alt"})]
def _f17_font():
    from fontTools.fontBuilder import FontBuilder
    from fontTools.varLib.featureVars import addFeatureVariations
    from props.C07 import _box
    order = [".notdef", "a", "b", "a.alt", "b.alt"]
    fb = FontBuilder(1000, isTTF=True); fb.setupGlyphOrder(order); fb.setupCharacterMap({97: "a", 98: "b"})
    fb.setupGlyf({g: _box(400 + 20 * i) for i, g in enumerate(order)}); fb.setupHorizontalMetrics({g: (500, 20) for g in order})
    fb.setupHorizontalHeader(ascent=800, descent=-200); fb.setupNameTable({"familyName": "F17", "styleName": "R"}); fb.setupOS2(); fb.setupPost()
    fb.setupFvar([("wght", 100, 400, 900, "Weight"), ("wdth", 50, 100, 200, "Width")], [])
    addFeatureVariations(fb.font, F17_CONDS)
    b = io.BytesIO(); fb.font.save(b); return b.getvalue()

def witness(fid):
    if fid == "F17":
        # pin wght where the first record holds everywhere: at wdth below the second record's range 'a' must still become 'a.alt'
        from fontTools.ttLib import TTFont
        from fontTools.varLib import instancer
        from lib.hb import HBFont, save_bytes
        data = _f17_font(); order = TTFont(io.BytesIO(data)).getGlyphOrder()
        inst = save_bytes(instancer.instantiateVariableFont(TTFont(io.BytesIO(data)), {"wght": 900}))
        a = [x[0] for x in HBFont(data, order, variations={"wght": 900, "wdth": 100}).shape("ab")]
        b = [x[0] for x in HBFont(inst, order, variations={"wdth": 100}).shape("ab")]
        return a != b
    return None
