"""C01 — recompiling any readable font is lossless and reaches a fixed point."""
import io, os, zlib, struct
from lib.ser import Ok, Err, res, Raw, Opt
from lib.deser import decode
from lib import corpus, genfonts
from vcheck import Corr, Sweep
import props.C16 as C16

RULE = ("corpus fonts chosen to cover every table tag, generated fonts (COLRv1, boundary glyf font with pinned correct boxes), hand-assembled "
        "WOFF containers with tables at the zlib break-even size, fonts with transplanted / unknown tables; x lazy in {None, True, False}; "
        "random touched subsets for the pass-through statement.")
TRUSTED = ["zlib/brotli"]
ASSUMPTIONS = ["the state-machine theorems are parametric in the per-table codecs; the codecs themselves are exercised by the sweep (and proved, "
               "for the modelled ones, under C02/C15)"]

def N(tier, q, t): return q if tier == "quick" else t

def correspondences(tier, rng):
    # the save state machine is shared with C16: same model, same instrumented observation
    cs = C16.correspondences(tier, rng.fork("c01"))
    return [c for c in cs if c.name == "sim_save"]

# ------------------------------------------------------------------ sweeps
def _tables(data, lazy=True):
    from fontTools.ttLib import TTFont
    f = TTFont(io.BytesIO(data), lazy=True)
    return {t: f.reader[t] for t in f.reader.keys()}

def _recompile(data, lazy, fontNumber=-1):
    from fontTools.ttLib import TTFont
    f = TTFont(io.BytesIO(data), lazy=lazy, recalcTimestamp=False, fontNumber=fontNumber)
    for t in list(f.keys()):
        f[t]
    if "glyf" in f:
        for n in f.getGlyphOrder(): f["glyf"][n].expand(f["glyf"]) if hasattr(f["glyf"][n], "expand") else None
    b = io.BytesIO(); f.save(b); return b.getvalue()

def _dump_tables(data):
    """decoded content of every table as canonical XML text"""
    from fontTools.ttLib import TTFont
    from fontTools.misc.xmlWriter import XMLWriter
    f = TTFont(io.BytesIO(data), lazy=False, recalcTimestamp=False)
    out = {}
    for t in f.keys():
        if t == "GlyphOrder": continue
        try:
            b = io.BytesIO(); w = XMLWriter(b); f[t].toXML(w, f); w.close(); out[t] = b.getvalue()
            if t == "CFF ":
                # FontBBox is recalculated from the charstrings on compile (recalcBBoxes): a derived field like head's box
                out[t] = b"\n".join(l for l in out[t].split(b"\n") if b"<FontBBox " not in l)
        except Exception as e:
            out[t] = ("EXC %r" % (e,)).encode()
    return out

DERIVED = {"head", "hhea", "vhea", "maxp", "OS/2", "loca", "post"}   # post: extraNames is recomputed; glyph names are compared separately       # redundant fields may be normalised by the first save (C04)

def woff_breakeven_font(rng):
    """a hand-assembled WOFF (every table stored raw) with tables whose zlib stream is as long as the table"""
    from fontTools.fontBuilder import FontBuilder
    from fontTools.pens.ttGlyphPen import TTGlyphPen
    from fontTools.ttLib import TTFont, newTable
    fb = FontBuilder(1000, isTTF=True); fb.setupGlyphOrder([".notdef", "A"]); fb.setupCharacterMap({65: "A"})
    pen = TTGlyphPen(None); pen.moveTo((0, 0)); pen.lineTo((500, 0)); pen.lineTo((250, 700)); pen.closePath()
    fb.setupGlyf({".notdef": TTGlyphPen(None).glyph(), "A": pen.glyph()}); fb.setupHorizontalMetrics({".notdef": (500, 0), "A": (500, 0)})
    fb.setupHorizontalHeader(ascent=800, descent=-200); fb.setupNameTable({"familyName": "W", "styleName": "R"}); fb.setupOS2(); fb.setupPost()
    f = fb.font
    # payloads at / around the break-even size
    found = []
    for base in (300, 280, 310, 200, 150):
        rnd = rng.bytes(base)
        for k in range(0, 80):
            p = rnd + b"\0" * k
            c = zlib.compress(p, 6)
            if len(c) == len(p): found.append(p); break
    tags = ["TeSt", "TesU", "TesV"]
    for tag, p in zip(tags, found):
        t = newTable(tag); t.data = p; f[tag] = t
    b = io.BytesIO(); f.save(b); sfnt = b.getvalue()
    tabs = _tables(sfnt)
    # assemble WOFF by hand, all tables raw
    flavor = sfnt[:4]; n = len(tabs)
    off = 44 + 20 * n; dirb = b""; body = b""
    tot = 12 + 16 * n
    from lib.sfntspec import u32sum
    for tag in sorted(tabs):
        d = tabs[tag]
        ck = u32sum(d[:8] + b"\0\0\0\0" + d[12:]) if tag == "head" else u32sum(d)
        dirb += struct.pack(">4sLLLL", tag.encode("latin-1"), off, len(d), len(d), ck)
        pd = d + b"\0" * ((4 - len(d) % 4) % 4); body += pd; off += len(pd); tot += (len(d) + 3) & ~3
    hdr = struct.pack(">4s4sLHHLHHLLLLL", b"wOFF", flavor, 44 + 20 * n + len(body), n, 0, tot, 1, 0, 0, 0, 0, 0, 0)
    return hdr + dirb + body, len(found)

def pinned_bbox_font():
    """glyf font with hairline components; composite boxes pinned to the independently computed values and
    saved WITHOUT recalculation, so a wrong recomputation on recompile shows"""
    import props.C04 as C04
    from fontTools.ttLib import TTFont
    f = C04.boundary_font()
    b = io.BytesIO(); f.save(b)
    g = TTFont(io.BytesIO(b.getvalue()), lazy=False, recalcBBoxes=False)
    glyf = g["glyf"]
    for n in g.getGlyphOrder():
        gl = glyf[n]
        if gl.isComposite():
            coords, _, _ = gl.getCoordinates(glyf)
            xs = [c[0] for c in coords]; ys = [c[1] for c in coords]
            from fontTools.misc.roundTools import otRound
            gl.xMin, gl.yMin, gl.xMax, gl.yMax = otRound(min(xs)), otRound(min(ys)), otRound(max(xs)), otRound(max(ys))
    b2 = io.BytesIO(); g.save(b2); return b2.getvalue()

def cff_index_boundary_fonts(rng, n):
    """small CFF fonts; the Notice string is sized so that the String INDEX holds exactly 253..257 (and 65533..65537) bytes"""
    from fontTools.fontBuilder import FontBuilder
    from fontTools.misc.psCharStrings import T2CharString
    from fontTools.ttLib import TTFont
    def build(notice_len, family="Fam"):
        fb = FontBuilder(1000, isTTF=False); order = [".notdef", "A", "B"]
        fb.setupGlyphOrder(order); fb.setupCharacterMap({65: "A", 66: "B"})
        cs = lambda *p_: T2CharString(program=list(p_))
        chars = {".notdef": cs(500, 0, "hmoveto", "endchar"), "A": cs(0, 0, "rmoveto", 100, 0, 0, 100, -100, 0, "rlineto", "endchar"),
                 "B": cs(10, 10, "rmoveto", 50, 0, 0, 50, -50, 0, "rlineto", "endchar")}
        fb.setupCFF("Idx-" + family, {"FullName": family + " Full", "FamilyName": family, "Notice": "n" * notice_len}, chars, {})
        fb.setupHorizontalMetrics({g: (500, 0) for g in order}); fb.setupHorizontalHeader(ascent=800, descent=-200)
        fb.setupNameTable({"familyName": family, "styleName": "R"}); fb.setupOS2(); fb.setupPost()
        b = io.BytesIO(); fb.save(b); return b.getvalue()
    def string_index_size(data):
        f = TTFont(io.BytesIO(data)); cff = f["CFF "].cff
        return sum(len(s_.encode("latin-1")) for s_ in cff.strings.strings)
    out = []
    base = string_index_size(build(10)) - 10
    targets = [255, 254, 256, 253, 257, 65535, 65536, 65534] + [rng.randint(1, 400) for _ in range(max(0, n - 8))]
    for t in targets[:n]:
        L = t - base
        if L < 0: continue
        try: out.append(("generated-CFF-string-index-%d" % t, build(L)))
        except Exception: pass
    return out

def sweeps(tier, rng):
    from fontTools.ttLib import TTFont, newTable
    bins = [p for p in corpus.binaries((".ttf", ".otf", ".woff", ".woff2", ".ttc")) if os.path.getsize(p) < 300000]
    def cover(k):
        tagsets = {}
        for p in bins:
            try: tagsets[p] = set(TTFont(p, lazy=True, fontNumber=0 if p.endswith(".ttc") else -1).reader.keys()) | {os.path.splitext(p)[1]}
            except Exception: pass
        chosen = []; seen = set()
        while len(chosen) < k and tagsets:
            p = max(sorted(tagsets), key=lambda q: len(tagsets[q] - seen))
            if not (tagsets[p] - seen): break
            chosen.append(p); seen |= tagsets.pop(p)
        # every font carrying a table that at most five corpus fonts have (VARC, COLR variants, AAT tables ...): one font per tag
        # leaves the other encodings of a rare table (conditions, formats) unvisited
        if k >= 10:
            from collections import Counter
            alltags = {}
            for q in bins:
                try: alltags[q] = set(TTFont(q, lazy=True, fontNumber=0 if q.endswith(".ttc") else -1).reader.keys())
                except Exception: pass
            cnt = Counter(t for ts in alltags.values() for t in ts)
            rare = sorted((q for q, ts in alltags.items() if q not in chosen and any(cnt[t] <= 5 for t in ts)), key=lambda q: (os.path.getsize(q), q))
            chosen += rare[:30 if tier == "quick" else 200]
        return chosen
    def inputs():
        k = 10 if tier == "quick" else 40 if tier == "search" else 400
        for p in cover(k) if tier != "thorough" else bins:
            yield corpus.rel(p), open(p, "rb").read(), (0 if p.endswith(".ttc") else -1)
        for name, data in genfonts.all_generated(): yield name, data, -1
        try: yield "generated-pinned-bbox", pinned_bbox_font(), -1
        except Exception: pass
        try:
            w, nfound = woff_breakeven_font(rng); yield "hand-assembled-woff-breakeven(%d)" % nfound, w, -1
        except Exception: pass
        # CFF fonts whose String / Name / CharStrings INDEX data lengths sweep across 255 and 65535 (offset size 1 -> 2 -> 3)
        for name, data in cff_index_boundary_fonts(rng, 12 if tier == "quick" else 60): yield name, data, -1
        # corpus fonts given a hand-packed format 4 cmap (one segment per constant-delta run, written here, not by fontTools) whose
        # single run of codes alternates stretches of consecutive glyph IDs with scattered ones: what the compiler's run
        # splitting (splitRange) has to re-segment when the table is decoded and recompiled
        import struct as _st
        from fontTools.ttLib.tables.DefaultTable import DefaultTable as _DT
        made = 0
        try:
            from fontTools.fontBuilder import FontBuilder
            from fontTools.pens.ttGlyphPen import TTGlyphPen
            gorder = [".notdef"] + ["g%03d" % i for i in range(1, 150)]
            fb = FontBuilder(1000, isTTF=True); fb.setupGlyphOrder(gorder); fb.setupCharacterMap({0x41: "g001"})
            pen = TTGlyphPen(None); pen.moveTo((0, 0)); pen.lineTo((100, 0)); pen.lineTo((50, 100)); pen.closePath(); gl = pen.glyph()
            fb.setupGlyf({n_: gl for n_ in gorder}); fb.setupHorizontalMetrics({n_: (500, 0) for n_ in gorder}); fb.setupHorizontalHeader(ascent=800, descent=-200)
            fb.setupNameTable({"familyName": "C4", "styleName": "R"}); fb.setupOS2(); fb.setupPost()
            bb = io.BytesIO(); fb.save(bb); base_font = bb.getvalue()
        except Exception:
            base_font = None
        for q in range(40 if base_font else 0):
            if made >= (6 if tier == "quick" else 60): break
            try:
                f = TTFont(io.BytesIO(base_font), lazy=True); ng = f["maxp"].numGlyphs
                code = rng.choice([0x21, 0x100, 0x3041, 0xE000]); gid = rng.randint(1, 10); m = {}
                pieces = rng.randint(3, 7); ordered = rng.chance(80)
                for _ in range(pieces):
                    if ordered:
                        for _j in range(rng.randint(5, 14)):
                            gid += 1
                            if gid >= ng: gid = 1
                            m[code] = gid; code += 1
                    else:
                        for _j in range(rng.randint(1, 5)):
                            gid = rng.randint(1, ng - 1); m[code] = gid; code += 1
                    ordered = not ordered
                segs = []
                for c in sorted(m):
                    if segs and segs[-1][1] == c - 1 and (m[c] - c) % 65536 == segs[-1][2]: segs[-1][1] = c
                    else: segs.append([c, c, (m[c] - c) % 65536])
                segs.append([0xFFFF, 0xFFFF, 1])
                n = len(segs); sr = 2 * (1 << (n.bit_length() - 1)); es = n.bit_length() - 1
                sub = _st.pack(">HHHHHHH", 4, 16 + 8 * n, 0, 2 * n, sr, es, 2 * n - sr)
                sub += b"".join(_st.pack(">H", e_) for _s, e_, _d in segs) + b"\0\0" + b"".join(_st.pack(">H", s_) for s_, _e, _d in segs)
                sub += b"".join(_st.pack(">H", d_) for _s, _e, d_ in segs) + b"\0\0" * n
                tbl = _st.pack(">HHHHL", 0, 1, 3, 1, 12) + sub
                t = _DT("cmap"); t.data = tbl; f.tables["cmap"] = t
                b = io.BytesIO(); f.save(b)
                back = TTFont(io.BytesIO(b.getvalue())).getBestCmap()
                order = f.getGlyphOrder()
                if back != {c: order[g] for c, g in m.items()}: continue          # the hand-packed table must mean what was intended
                made += 1
                yield "generated+hand-packed-cmap4(%d codes, %d segments, #%d)" % (len(m), n, q), b.getvalue(), -1
            except Exception:
                continue
        # a corpus font with an unknown table transplanted in
        ps = cover(3)
        if ps:
            f = TTFont(ps[0], lazy=True); t = newTable("zqxj"); t.data = rng.bytes(37); f["zqxj"] = t
            b = io.BytesIO(); f.save(b); yield corpus.rel(ps[0]) + "+unknown-table", b.getvalue(), -1
    def run_recompile():
        for label, data, fn in inputs():
            try:
                t0 = TTFont(io.BytesIO(data), lazy=True, fontNumber=fn); tags0 = list(t0.reader.keys()); flavor = t0.flavor
                raw0 = {t: t0.reader[t] for t in tags0}
            except Exception:
                continue
            if "Silf" in tags0: yield ((label, "Silf"), "F8:Silf"); continue
            for lazy in (None, True, False):
                bad = None
                try:
                    g1 = _recompile(data, lazy, fn)
                except Exception as e:
                    yield ((label, lazy), "recompiling raised %r" % (e,)); continue
                try:
                    g2 = _recompile(g1, lazy)
                    g3 = _recompile(g2, lazy)
                    if g3 != g2:
                        a, b = _tables(g2), _tables(g3)
                        bad = "second-generation file is not a fixed point; tables differing: %r" % ([t for t in a if a[t] != b.get(t)],)
                    else:
                        # decoded content: original vs first generation (derived fields excepted)
                        if fn == -1 and flavor is None:
                            d0, d1 = _dump_tables(data), _dump_tables(g1)
                            diff = [t for t in d0 if t not in DERIVED and d0[t] != d1.get(t) and not d0[t].startswith(b"EXC")]
                            # glyf: boxes are derived too, but only as the true extent of the outline
                            if diff: bad = "tables decode to different content after recompiling: %r" % (diff,)
                        elif flavor in ("woff", "woff2"):
                            a = raw0; b = _tables(g1)
                            diff = [t for t in a if t not in DERIVED and t not in ("glyf", "loca", "hmtx") and t in b and _dump_one(data, t) != _dump_one(g1, t)]
                            if diff: bad = "tables of the %s decode to different content after recompiling: %r" % (flavor, diff)
                        if bad is None:
                            o0 = TTFont(io.BytesIO(data), fontNumber=fn).getGlyphOrder(); o1 = TTFont(io.BytesIO(g1)).getGlyphOrder()
                            if o0 != o1: bad = "glyph names changed after recompiling"
                        unk = [t for t in tags0 if t in ("zqxj", "TeSt", "TesU", "TesV")]
                        b1 = _tables(g1)
                        for t in unk:
                            if b1.get(t) != raw0[t]: bad = "table %r without a decoder was not carried through byte for byte" % t
                except Exception as e:
                    bad = "re-reading the recompiled font raised %r" % (e,)
                yield ((label, lazy), bad)
    def run_passthrough():
        for label, data, fn in inputs():
            try:
                t0 = TTFont(io.BytesIO(data), lazy=True, fontNumber=fn); tags0 = list(t0.reader.keys())
                raw0 = {t: t0.reader[t] for t in tags0}
            except Exception:
                continue
            if "Silf" in tags0: continue
            for lazy in (None, True):
                touched = rng.sample(tags0, rng.randint(0, max(0, len(tags0) - 1)))
                try:
                    f = TTFont(io.BytesIO(data), lazy=lazy, recalcTimestamp=False, fontNumber=fn)
                    for t in touched: f[t]
                    b = io.BytesIO(); f.save(b)
                    loaded = [t for t in tags0 if f.isLoaded(t)]
                    out = _tables(b.getvalue())
                    bad = None
                    for t in tags0:
                        if t not in loaded and t != "head" and out.get(t) != raw0[t]:
                            if t in ("glyf", "loca") and f.flavor == "woff2": continue
                            bad = "untouched table %r changed (touched %r)" % (t, touched); break
                except Exception as e:
                    bad = None
                yield ((label, "passthrough", lazy, len(touched)), bad)
    return [Sweep("recompile", run_recompile), Sweep("passthrough", run_passthrough)]

def _dump_one(data, tag):
    from fontTools.ttLib import TTFont
    from fontTools.misc.xmlWriter import XMLWriter
    f = TTFont(io.BytesIO(data), lazy=False, recalcTimestamp=False)
    b = io.BytesIO(); w = XMLWriter(b); f[tag].toXML(w, f); w.close(); return b.getvalue()

def classify(sweep, case, failure):
    if str(failure).startswith("F8:"): return "F8"
    return None

def witness(fid):
    if fid == "F8":
        from fontTools.ttLib import TTFont
        for p in corpus.binaries((".ttf",)):
            try:
                f = TTFont(p, lazy=True)
                if "Silf" in f.reader.keys():
                    try:
                        g = TTFont(p); g["Silf"]; b = io.BytesIO(); g.save(b); return None
                    except Exception as e:
                        return "Silf: %r" % (e,)
            except Exception:
                continue
    return None
