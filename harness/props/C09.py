"""C09 — variation arithmetic is exact."""
import math
from fractions import Fraction as F
from lib.ser import Ok, Err, res, Raw, Opt
from lib.deser import decode
from vcheck import Corr, Sweep

RULE = ("rational / dyadic inputs: locations on the lattice {0,+-1/4,..,+-1} and random rationals; tents and limits over every "
        "ordering pattern on a 1/8 lattice; piecewise maps with 1-6 keys; master sets of 2-7 locations on 1-3 axes. Model values are exact "
        "rationals; the implementation's floats are compared to them within 1e-9 (decisions exactly).")
TRUSTED = ["binary64 rounding of the implementation's divisions (compared within 1e-9 to the exact model)"]
ASSUMPTIONS = ["supportScalar modelled for ot=True, extrapolate=False; VariationModel's support construction is exercised by sweeps only"]

def N(tier, q, t): return q if tier == "quick" else t
LAT = [F(k, 8) for k in range(-8, 9)]

def closeQ(q, x, tol=1e-9):
    return abs(float(q) - float(x)) <= tol * max(1.0, abs(float(q)))

def correspondences(tier, rng):
    from fontTools.varLib import models
    from fontTools.varLib.instancer import solver, NormalizedAxisTripleAndDistances as NAT
    n = N(tier, 1200, 20000)
    out = []
    # normalizeValue (exact with Fractions)
    cases = []
    for _ in range(n):
        tr = sorted(F(rng.randint(-40, 40), rng.choice([1, 2, 4])) for _ in range(3))
        if rng.chance(10): tr[1] = tr[0]
        if rng.chance(10): tr[2] = tr[1]
        if rng.chance(5): tr = [tr[2], tr[1], tr[0]]
        v = rng.choice(tr + [F(rng.randint(-60, 60), rng.choice([1, 3, 8]))])
        cases.append((v, tr[0], tr[1], tr[2]))
    def impl_norm(x):
        v, lo, d, hi = x
        return res(lambda: F(models.normalizeValue(v, (lo, d, hi))))
    out.append(Corr("normalizeValue", cases, impl_norm))
    # tentval / supportScalar
    cases = []
    for _ in range(n):
        t = [rng.choice(LAT) * rng.choice([1, 1, 2]) for _ in range(3)]
        if rng.chance(85): t = sorted(t)
        cases.append((tuple(t), rng.choice(LAT + [F(rng.randint(-16, 16), 16)])))
    def cmp_scalar(x, io, mo):
        q = decode(mo, "Q"); return closeQ(q, io_val(x))
    def io_val(x):
        t, v = x
        return models.supportScalar({"a": v}, {"a": t})
    out.append(Corr("tentval", cases, lambda x: 0, compare=lambda x, io, mo: closeQ(decode(mo, "Q"), io_val(x))))
    cases = []
    for _ in range(n // 2):
        k = rng.randint(1, 3)
        sup = [(a, tuple(sorted(rng.choice(LAT) for _ in range(3)))) for a in range(k)]
        loc = [(a, rng.choice(LAT)) for a in rng.sample(range(3), rng.randint(0, 3))]
        cases.append((loc, sup))
    def ss_val(x):
        loc, sup = x
        return models.supportScalar({a: v for a, v in loc}, {a: t for a, t in sup})
    out.append(Corr("supportScalar", cases, lambda x: 0, compare=lambda x, io, mo: closeQ(decode(mo, "Q"), ss_val(x))))
    # piecewiseLinearMap (exact with Fractions)
    cases = []
    for _ in range(n):
        k = rng.randint(0, 6)
        keys = rng.sample(range(-20, 21), k)
        m = [(F(kk, 4), F(rng.randint(-40, 40), 4)) for kk in keys]
        v = rng.choice([F(rng.randint(-100, 100), 16)] + [kk for kk, _ in m])
        cases.append((v, m))
    out.append(Corr("piecewiseLinearMap", cases, lambda x: F(models.piecewiseLinearMap(x[0], dict(x[1])))))
    # renormalizeValue
    def gen_lim():
        a = sorted(rng.choice(LAT) for _ in range(3))
        k = rng.below(6)
        if k == 0: a[0] = a[1]
        if k == 1: a[2] = a[1]
        if k == 2: a = [a[1], a[1], a[1]]
        return (a[0], a[1], a[2], F(rng.choice([1, 1, 2, 3, 7])), F(rng.choice([1, 1, 2, 5])))
    cases = [(gen_lim(), rng.choice(LAT + [F(rng.randint(-20, 20), 16)])) for _ in range(n)]
    def impl_renorm(x):
        L, v = x
        if L[0] == L[1] == L[2] and v != L[1] or (L[1] == L[2] and v > L[1]) or (L[0] == L[1] and v < L[1]):
            return None
        return F(NAT(*L).renormalizeValue(v))
    cases = [c for c in cases if impl_renorm_ok(c)] if False else cases
    def cmp_renorm(x, io, mo):
        L, v = x
        try:
            r = NAT(*L).renormalizeValue(v)
        except ZeroDivisionError:
            return True       # the model's x/0 = 0 has no counterpart; callers never pass such values
        return decode(mo, "Q") == F(r)
    out.append(Corr("renormalizeValue", cases, lambda x: 0, compare=cmp_renorm))
    # rebaseTent on dyadic floats; model on their exact rationals
    cases = []
    G = [F(k, 8) for k in range(-8, 9)]
    for _ in range(n):
        t = sorted(rng.choice(G + [F(k, 4) for k in (-8, -6, 6, 8)]) for _ in range(3))
        if t[1] == 0: continue
        if t[0] < 0 < t[2] and rng.chance(80): continue
        L = gen_lim()
        cases.append((tuple(t), L))
    SOL = ("res", ("list", ("tuple", "Q", ("opt", ("tuple", "Q", "Q", "Q")))))
    def impl_rebase(x):
        t, L = x
        return solver.rebaseTent(tuple(float(v) for v in t), NAT(*[float(v) for v in L]))
    def cmp_rebase(x, io, mo):
        m = decode(mo, SOL)
        try:
            r = impl_rebase(x)
        except AssertionError:
            return m == ("err", 5)
        except ZeroDivisionError:
            return True
        if isinstance(m, tuple) and m and m[0] == "err": return False
        if len(r) != len(m): return None if any(abs(float(s)) < 1e-12 for s, _ in m) else False
        for (s1, t1), (s2, t2) in zip(r, m):
            if not closeQ(s2, s1): return False
            if (t1 is None) != (t2 is None): return False
            if t1 is not None and not all(closeQ(b, a) for a, b in zip(t1, t2)): return False
        return True
    def oracle_rebase(x):
        """the PROPERTY on the implementation: the rebased tents sum to the original tent on the new range"""
        t, L = x
        l, p, u = t
        if not ((l < p or p <= L[0]) and (p < u or p >= L[2])): return None      # tents continuous on the new range (hypothesis `good` of solve_exact)
        if l < 0 < u: return None
        try:
            sols = impl_rebase(x)
        except (AssertionError, ZeroDivisionError):
            return None
        nat = NAT(*L)
        lo, d, hi = L[0], L[1], L[2]
        for k in range(0, 33):
            xx = lo + (hi - lo) * F(k, 32)
            want = models.supportScalar({"a": xx}, {"a": t})
            nx = nat.renormalizeValue(xx) if not (lo == d == hi) else 0
            got = 0.0
            for s, tt in sols:
                got += s * (1.0 if tt is None else models.supportScalar({"a": nx}, {"a": tt}))
            if abs(got - float(want)) > 1e-9:
                return "rebased tents give %.9g at x=%s where the tent is %.9g (tent %s, limits %s)" % (got, xx, float(want), t, L[:3])
        return None
    out.append(Corr("rebaseTent", cases, lambda x: 0, compare=cmp_rebase, oracle=oracle_rebase))
    # ONE VariationModel over a history of getSubModel / reorderMasters calls: which locations answer, and the index maps
    from fontTools.varLib.errors import VariationModelError
    from lib.ser import Raw, Ok, Err
    from lib import ser as S_
    cases = []
    for _ in range(N(tier, 400, 6000)):
        axes, locs = _rand_locations(rng, rng.randint(1, 3))
        nl = len(locs); pats = []; ops = []
        for _s in range(rng.randint(2, 8)):
            if rng.chance(60) or not ops:
                if pats and rng.chance(45): pat = rng.choice(pats)
                else:
                    k = nl if rng.chance(90) else max(0, nl + rng.choice([-1, 1]))
                    pat = [rng.chance(70) for _ in range(k)] if rng.chance(85) else [True] * k
                    pats.append(pat)
                ops.append((0, pat))
            else:
                mp = list(range(nl)); rng.shuffle(mp)
                r_ = rng.below(12)
                if r_ == 0 and nl > 1: mp[rng.below(nl)] = mp[rng.below(nl)]            # a master dropped, another doubled
                elif r_ == 1: mp[rng.below(nl)] = nl + rng.below(2)                      # out of range
                elif r_ == 2: mp = [i - nl for i in mp]                                   # Python's negative indices
                ops.append((1, mp))
        cases.append((axes, locs, ops))
    def norm(l): return tuple(sorted((k_, v_) for k_, v_ in l.items() if v_ != 0))
    def vm_setup(x):
        axes, locs, ops = x
        m = models.VariationModel(locs, axisOrder=axes)
        ids = {norm(l): i for i, l in enumerate(locs)}
        return m, ids
    def enc_vm(x):
        axes, locs, ops = x
        m, ids = vm_setup(x)
        return (ids[()], [ids[norm(l)] for l in m.locations], list(range(len(locs))), [Raw([0, len(o[1])] + [1 if b else 0 for b in o[1]]) if o[0] == 0 else Raw([1, len(o[1])] + list(o[1])) for o in ops])
    def impl_vm(x):
        axes, locs, ops = x
        m, ids = vm_setup(x)
        outs = []
        for o in ops:
            try:
                if o[0] == 0:
                    sub, _items = m.getSubModel([1 if b else None for b in o[1]])
                    outs.append(Ok([[ids[norm(l)] for l in sub.origLocations]]))
                else:
                    m.reorderMasters(list(range(len(m.origLocations))), o[1])
                    outs.append(Ok([[ids[norm(l)] for l in m.origLocations], list(m.mapping), list(m.reverseMapping)]))
            except AssertionError: outs.append(Err(S_.ASSERT))
            except VariationModelError: outs.append(Err(S_.LIB))
            except IndexError: outs.append(Err(S_.INDEX))
            except ValueError: outs.append(Err(S_.VALUE))
        return Ok(outs)
    def oracle_vm(x):
        """the PROPERTY on the implementation: whatever the history, a request is answered by the model of exactly the masters present now"""
        axes, locs, ops = x
        m, ids = vm_setup(x)
        for o in ops:
            try:
                if o[0] == 0:
                    items = [1 if b else None for b in o[1]]
                    sub, _ = m.getSubModel(items)
                    want = [l for l, b in zip(m.origLocations, o[1]) if b]
                    if len(o[1]) == len(m.origLocations) and [norm(l) for l in sub.origLocations] != [norm(l) for l in want]:
                        return "getSubModel(%r) answers with the model of %r, the masters present are %r" % (o[1], sub.origLocations, want)
                else:
                    m.reorderMasters(list(range(len(m.origLocations))), o[1])
            except ValueError: return None          # a half-failed reorderMasters: the object is no longer consistent (caller error)
            except Exception: pass
        return None
    out.append(Corr("vm_history", cases, impl_vm, enc=enc_vm, oracle=oracle_vm))
    return out

# ------------------------------------------------------------------ sweeps
def _rand_locations(rng, naxes):
    axes = ["a", "b", "c"][:naxes]
    locs = [{}]
    vals = [F(-1), F(-1, 2), F(1, 4), F(1, 2), F(3, 4), F(1), F(-1, 4)]
    tries = 0
    while len(locs) < rng.randint(2, 7) and tries < 50:
        tries += 1
        loc = {}
        for a in axes:
            if rng.chance(60): loc[a] = rng.choice(vals)
        if loc and loc not in locs: locs.append(loc)
    rng.shuffle(locs)
    return axes, locs

def sweeps(tier, rng):
    from fontTools.varLib import models, iup, varStore, builder
    from fontTools.ttLib.tables import otTables as ot
    n = N(tier, 300, 6000) if tier != "search" else 1500
    def run_models():
        for i in range(n):
            axes, locs = _rand_locations(rng, rng.randint(1, 3))
            try:
                m = models.VariationModel(locs, axisOrder=axes)
            except Exception as e:
                yield (("model", locs), "VariationModel raised %r" % (e,)); continue
            masters = [F(rng.randint(-1000, 1000)) for _ in locs]
            deltas = m.getDeltas(masters)
            bad = None
            for k, loc in enumerate(locs):
                v = m.interpolateFromDeltas(loc, deltas)
                if v is None: v = 0
                if abs(float(v) - float(masters[k])) > 1e-9: bad = "master %d (%r) reproduced as %r instead of %r" % (k, loc, float(v), float(masters[k])); break
                ms = m.getMasterScalars(loc)
                v2 = sum(float(a) * float(b) for a, b in zip(ms, masters))
                if abs(v2 - float(masters[k])) > 1e-7: bad = "master-scalar weighting gives %r at master %d (%r)" % (v2, k, float(masters[k])); break
            if bad is None:
                probe = {a: rng.choice([F(1, 8), F(-3, 8), F(5, 8), F(1), F(0)]) for a in axes}
                v1 = m.interpolateFromDeltas(probe, deltas) or 0
                v2 = sum(float(a) * float(b) for a, b in zip(m.getMasterScalars(probe), masters))
                if abs(float(v1) - v2) > 1e-7: bad = "deltas give %r but master weights give %r at %r" % (float(v1), v2, probe)
                # with rounding: within half a unit at every master
                rd = m.getDeltas(masters, round=round)
                for k, loc in enumerate(locs):
                    v = m.interpolateFromDeltas(loc, rd) or 0
                    if abs(float(v) - float(masters[k])) > 0.5 + 1e-9: bad = "rounded deltas reproduce master %d as %r (true %r)" % (k, float(v), float(masters[k])); break
            yield (("model", locs), bad)
    def run_model_history():
        """ONE model object used over a history of sparse (None-containing) master lists and reorderMasters calls answers every
        request like a model freshly built for the current master order"""
        from fontTools.varLib.models import supportScalar
        for i in range(max(40, n // 3)):
            axes, locs = _rand_locations(rng, rng.randint(1, 3))
            if len(locs) < 3: continue
            try: m = models.VariationModel(locs, axisOrder=axes)
            except Exception: continue
            cur = list(locs); bad = None; hist = []
            dflt = lambda L: next(j for j, l in enumerate(L) if not any(l.values()))
            pats = []
            for step in range(rng.randint(3, 7)):
                if rng.chance(35) and step > 0:
                    mp = list(range(len(cur))); rng.shuffle(mp)
                    m.reorderMasters(list(cur), mp); cur = [cur[j] for j in mp]; hist.append(("reorder", mp)); continue
                vals = [F(rng.randint(-1000, 1000)) for _ in cur]
                # a sparse list: some non-default masters missing; positional patterns are reused across the history
                if pats and rng.chance(50): pat = rng.choice(pats)
                else:
                    pat = [rng.chance(65) for _ in cur]; pats.append(pat)
                items = [v if (keep or j == dflt(cur)) else None for j, (v, keep) in enumerate(zip(vals, pat))]
                hist.append(("deltas", [None if v is None else int(v) for v in items]))
                try:
                    deltas, supports = m.getDeltasAndSupports(items)
                    fresh = models.VariationModel(list(cur), axisOrder=axes)
                    d2, s2 = fresh.getDeltasAndSupports(items)
                    if [float(x) for x in deltas] != [float(x) for x in d2] or supports != s2:
                        bad = "after %r the model answers %r / %r, a fresh model for the same masters %r / %r" % (hist, [float(x) for x in deltas], supports, [float(x) for x in d2], s2); break
                    for j, (loc, v) in enumerate(zip(cur, items)):
                        if v is None: continue
                        got = sum(float(d) * float(supportScalar(loc, sup)) for d, sup in zip(deltas, supports))
                        if abs(got - float(v)) > 1e-7: bad = "after %r master %d (%r) is reproduced as %r instead of %r" % (hist, j, loc, got, float(v)); break
                    if bad: break
                except Exception as e:
                    bad = "history %r raised %r" % (hist, e); break
            yield (("model-history", locs, hist), bad)
    def run_iup():
        for i in range(n):
            k = rng.randint(1, 9)
            fam = rng.below(6)
            coords = [(rng.randint(-10, 10), rng.randint(-10, 10)) for _ in range(k)]
            if fam == 0: deltas = [(rng.randint(-3, 3), rng.randint(-3, 3)) for _ in range(k)]
            elif fam == 1: deltas = [(rng.choice([-1, 1]), rng.choice([-1, 1])) for _ in range(k)]
            elif fam == 2:
                d0 = (rng.randint(-5, 5), rng.randint(-5, 5)); deltas = [d0 if rng.chance(70) else (d0[0] + 1, d0[1]) for _ in range(k)]
            elif fam == 3: deltas = [(c[0] // 2 + rng.choice([0, 0, 1]), c[1] // 3) for c in coords]
            elif fam == 4:
                # small deltas clustered near (but not at) zero: the "nothing needs encoding" / "all the same" shortcuts are nearby
                d0 = (rng.randint(-2, 2), rng.randint(-2, 2)); deltas = [(d0[0] + rng.randint(-1, 1), d0[1] + rng.randint(-1, 1)) for _ in range(k)]
            else:
                # fractional deltas (unrounded master differences)
                d0 = (rng.randint(-6, 6) / 4, rng.randint(-6, 6) / 4); deltas = [(d0[0] + rng.randint(-2, 2) / 4, d0[1] + rng.randint(-2, 2) / 4) for _ in range(k)]
            ends = sorted(set([k - 1] + ([rng.randint(0, k - 1)] if k > 2 and rng.chance(40) else [])))
            tol = rng.choice([0, 0, 0.5, 1]) if fam < 4 else rng.choice([0.5, 1, 1, 2])
            phantom = [(0, 0)] * 4
            allc = coords + phantom; alld = deltas + [(0, 0)] * 4
            allends = ends
            try:
                opt = iup.iup_delta_optimize(alld, allc, allends, tolerance=tol)
                full = iup.iup_delta([d for d in opt], allc, allends)
                bad = None
                for j, (a, b) in enumerate(zip(full, alld)):
                    if abs(complex(*a) - complex(*b)) > tol + 1e-9:
                        bad = "point %d reconstructed as %r, true delta %r (tolerance %g); coords %r deltas %r" % (j, a, b, tol, coords, deltas); break
                for j, d in enumerate(opt):
                    if d is not None and tuple(d) != tuple(alld[j]) and tol == 0: bad = "explicit delta changed"
            except Exception as e:
                bad = "iup raised %r" % (e,)
            yield (("iup", coords, deltas, ends, tol), bad)
    def run_store():
        from fontTools.varLib.varStore import OnlineVarStoreBuilder, VarStoreInstancer
        from fontTools.ttLib.tables.otTables import VarRegionAxis
        for i in range(max(30, n // 6)):
            axes, locs = _rand_locations(rng, rng.randint(1, 2))
            try:
                model = models.VariationModel(locs, axisOrder=axes)
            except Exception:
                continue
            sb = OnlineVarStoreBuilder(axes); sb.setModel(model)
            idxs = []; vals = []
            pool = []                                                  # rows recur: the builder's cache has to give each its OWN index
            def row():
                if pool and rng.chance(35): return list(rng.choice(pool))
                r_ = [rng.choice([0, 0, rng.randint(-300, 300), rng.randint(-40000, 40000)]) for _ in locs]; pool.append(r_); return r_
            for _ in range(rng.randint(3, 30)):
                if rng.chance(30):
                    batch = [row() for _b in range(rng.randint(2, 4))]
                    bases, first = sb.storeMastersMany(batch)
                    for j_, (b_, m_) in enumerate(zip(bases, batch)): idxs.append(first + j_); vals.append((b_, m_))
                else:
                    masters = row()
                    base, vi = sb.storeMasters(masters)
                    idxs.append(vi); vals.append((base, masters))
            store = sb.finish()
            class FakeFvarAxis:
                def __init__(s, tag): s.axisTag = tag
            fv = [FakeFvarAxis(a) for a in axes]
            def evaluate(st, mapping, loc):
                inst = VarStoreInstancer(st, fv, loc)
                return [inst[mapping.get(v, v)] if v != 0xFFFFFFFF else 0 for v in idxs]
            probes = [{a: float(rng.choice([0, 0.25, -0.5, 1, -1, 0.75])) for a in axes} for _ in range(4)] + [ {a: float(v) for a, v in l.items()} for l in locs]
            before = [evaluate(store, {}, p) for p in probes]
            bad = None
            # values at masters
            for li, l in enumerate(locs):
                got = evaluate(store, {}, {a: float(v) for a, v in l.items()})
                for (base, masters), g in zip(vals, got):
                    if abs(base + g - masters[li]) > 0.5 * (len(locs)) + 1e-6: bad = "store reproduces master %d as %r (true %r)" % (li, base + g, masters[li])
            import copy
            st2 = copy.deepcopy(store)
            mapping = st2.optimize()
            after = [evaluate(st2, mapping, p) for p in probes]
            if bad is None and any(abs(a - b) > 1e-6 for A, B in zip(before, after) for a, b in zip(A, B)): bad = "VarStore.optimize changed values"
            st3 = copy.deepcopy(store)
            used = set(rng.sample(idxs, max(1, len(idxs) // 2)))
            m3 = st3.subset_varidxes(used)
            st3.prune_regions()
            for p, B in zip(probes, before):
                inst = VarStoreInstancer(st3, fv, p)
                for v, b in zip(idxs, B):
                    if v in used and abs(inst[m3[v]] - b) > 1e-6 and bad is None: bad = "subset_varidxes/prune_regions changed a retained value (%r -> %r)" % (b, inst[m3[v]])
            yield (("varstore", locs, len(idxs)), bad)
    return [Sweep("variation-model", run_models), Sweep("variation-model-history", run_model_history), Sweep("iup", run_iup), Sweep("varstore", run_store)]

def witness(fid): return None
