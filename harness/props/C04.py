"""C04 — every saved file is a valid container with consistent derived fields."""
import io, struct
from lib.ser import Ok, Err, res, Raw, Opt
from lib import corpus, sfntspec, glyfspec
from vcheck import Corr, Sweep

RULE = ("writer state machine: random table lists (0-7 tables, sizes around multiples of 4, with/without head, duplicate tags, "
        "wrong numTables); checksums on random byte strings of every length mod 4; search fields for boundary n. "
        "Sweeps: corpus + generated fonts saved in each flavour and validated by an independent spec reader.")
TRUSTED = ["zlib/brotli (WOFF/WOFF2 compression) are outside the model", "harness/lib/sfntspec.py and glyfspec.py (independent readers written from the specs)"]
ASSUMPTIONS = ["sfnt writer modelled for flavor=None; WOFF/WOFF2/TTC are covered by the implementation-side sweep only"]

def N(tier, q, t): return q if tier == "quick" else t

def correspondences(tier, rng):
    from fontTools.ttLib import sfnt, getSearchRange
    from fontTools.ttLib.ttFont import maxPowerOfTwo
    out = []
    n = N(tier, 600, 6000)
    # calcChecksum
    cases = [list(rng.bytes(k)) for k in range(0, 24)] + [list(rng.bytes(rng.randint(0, 300))) for _ in range(n)] + \
            [[255] * k for k in (4, 8, 4096, 4100, 8191)]
    out.append(Corr("calcChecksum", cases, lambda d: sfnt.calcChecksum(bytes(d)),
                    oracle=lambda d: None if sfnt.calcChecksum(bytes(d)) == sfntspec.u32sum(bytes(d)) else "calcChecksum differs from the spec sum"))
    # search range
    ns = sorted(set(list(range(0, 70)) + [2**k + d for k in range(1, 17) for d in (-1, 0, 1)] + [rng.randint(0, 70000) for _ in range(200)]))
    def spec_sr(n):
        if n < 1: return None
        sr, es, rs = getSearchRange(n, 16)
        e = 0
        while (1 << (e + 1)) <= n: e += 1
        if (sr, es, rs) != (16 << e, e, 16 * n - (16 << e)): return "getSearchRange(%d) = %r" % (n, (sr, es, rs))
    out.append(Corr("getSearchRange", [(n_, 16) for n_ in ns] + [(n_, s) for n_ in (0, 1, 5, 8, 300) for s in (1, 2, 4, 6)],
                    lambda x: tuple(getSearchRange(*x)), oracle=lambda x: spec_sr(x[0]) if x[1] == 16 else None))
    out.append(Corr("maxPowerOfTwo", ns, lambda x: maxPowerOfTwo(x)))
    # writer state machine
    TAGS = [b"head", b"OS/2", b"cmap", b"glyf", b"loca", b"maxp", b"zzzz", b"AAAA", b"a b ", b"CFF ", b"hhea", b"name"]
    cases = []
    for _ in range(n):
        k = rng.randint(0, 7)
        tags = rng.sample(TAGS, k)
        if rng.chance(8) and k >= 2: tags[1] = tags[0]            # duplicate -> TTLibError
        ts = []
        for t in tags:
            ln = rng.choice([0, 1, 2, 3, 4, 5, 7, 8, 11, 12, 13, 16, 54, rng.randint(0, 90)])
            if t == b"head" and rng.chance(70): ln = max(ln, 12 + rng.randint(0, 60))    # the rest: a damaged head, down to 0 bytes
            ts.append((list(t), list(rng.bytes(ln))))
        num = k if not rng.chance(6) else k + rng.choice([-1, 1])
        ver = rng.choice([b"\0\1\0\0", b"OTTO", b"true"])
        cases.append((list(ver), max(num, 0), ts))
    def impl_write(x):
        ver, num, ts = x
        def go():
            f = io.BytesIO()
            w = sfnt.SFNTWriter(f, num, sfntVersion=bytes(ver).decode("latin-1"))
            for t, d in ts: w[bytes(t).decode("latin-1")] = bytes(d)
            w.close()
            return list(f.getvalue())
        return res(go)
    def oracle_write(x):
        r = impl_write(x)
        if isinstance(r, Err): return None
        ver, num, ts = x
        P = []
        try:
            tabs = sfntspec.check_sfnt(bytes(r.v), problems=P)
        except sfntspec.Invalid as e:
            return "independent reader rejects the file: %s" % e
        if num == 0: P = [p for p in P if "numTables == 0" not in p]
        # a damaged head table without room for checkSumAdjustment cannot make the file sum to 0xB1B0AFBA; what is asked of such a
        # file is that every table comes back exactly as written
        if any(bytes(t) == b"head" and len(d) < 12 for t, d in ts): P = [p for p in P if "whole-file checksum" not in p]
        for t, d in ts:
            got = tabs.get(bytes(t))
            if got is None: P.append("table %r missing" % bytes(t)); continue
            if bytes(t) == b"head":
                if len(got) != len(d) or got[:8] != bytes(d)[:8] or got[12:] != bytes(d)[12:]: P.append("head content changed")
                if len(d) < 12 and got != bytes(d): P.append("a head table without room for checkSumAdjustment was modified")
            elif got != bytes(d): P.append("table %r content changed" % bytes(t))
        return "; ".join(P) if P else None
    # the order in which TTFont.save compiles the tables (TTFont._writeTable with the declared dependencies)
    from fontTools.ttLib import TTFont as _TTFont
    from fontTools.ttLib.tables.DefaultTable import DefaultTable as _DT
    POOL = ["head", "hhea", "hmtx", "vhea", "vmtx", "maxp", "loca", "glyf", "OS/2", "name", "ltag", "gvar", "fvar", "avar", "cvar", "cvt ", "CFF ", "EBLC", "EBDT", "EBSC", "post", "zzzz"]
    ocases = []
    for _ in range(N(tier, 300, 4000)):
        pres = rng.sample(POOL, rng.randint(1, len(POOL)))
        ocases.append(sorted(pres))
    def impl_order(pres):
        def go():
            f = _TTFont(); order = []
            for t in pres:
                d = _DT(t); d.data = b"\0\0\0\0"; f.tables[t] = d      # raw tables: compiling them has no side effects
            orig = _TTFont.getTableData
            def spy(self, tag, _o=order):
                _o.append(str(tag)); return orig(self, tag)
            _TTFont.getTableData = spy
            try: f.save(io.BytesIO(), reorderTables=None)
            finally: _TTFont.getTableData = orig
            return Opt([[ord(c) for c in t] for t in order], some=True)
        return res(go)
    def enc_order(pres):
        f = _TTFont()
        for t in pres:
            d = _DT(t); d.data = b"\0\0\0\0"; f.tables[t] = d
        tags = [t for t in f.keys() if t != "GlyphOrder"]          # the order save walks the tables in (TTFont.keys: sortedTagList)
        return ([[ord(c) for c in t] for t in pres], [[ord(c) for c in t] for t in tags])
    out_order = Corr("save_order", ocases, impl_order, enc=enc_order,
                     compare=lambda x, i_, m_: bool(i_) and i_[0] == 0 and list(i_[1:]) == list(m_))
    out.append(Corr("write_sfnt", cases, impl_write, oracle=oracle_write)); out.append(out_order)
    # WOFF2 transformed glyf: the point triplets of a simple glyph (all delta classes and their boundaries)
    import array
    from fontTools.ttLib.woff2 import WOFF2GlyfTable
    from fontTools.ttLib.tables._g_l_y_f import Glyph, GlyphCoordinates
    BOUND = [0, 1, 2, 15, 16, 17, 63, 64, 65, 66, 255, 256, 257, 767, 768, 769, 770, 1023, 1024, 1279, 1280, 1281, 4095, 4096, 4097, 65535]
    def gen_pts():
        k = rng.randint(0, 8); pts = []; x = y = 0
        for _ in range(k):
            fam = rng.below(6)
            if fam == 0: dx, dy = 0, rng.choice(BOUND) * rng.choice([1, -1])
            elif fam == 1: dx, dy = rng.choice(BOUND) * rng.choice([1, -1]), 0
            elif fam == 2: dx, dy = rng.choice(BOUND) * rng.choice([1, -1]), rng.choice(BOUND) * rng.choice([1, -1])
            elif fam == 3: dx, dy = rng.randint(-70, 70), rng.randint(-70, 70)
            elif fam == 4: dx, dy = rng.randint(-5000, 5000), rng.randint(-5000, 5000)
            else: dx, dy = rng.choice([65535, 65536, -65536, 70000, rng.randint(-65535, 65535)]), rng.randint(-800, 800)
            x += dx; y += dy; pts.append((x, y, rng.chance(60)))
        return pts
    tcases = [gen_pts() for _ in range(N(tier, 800, 12000))]
    def impl_enc(pts):
        def go():
            t = WOFF2GlyfTable(); t.flagStream = b""; t.glyphStream = b""
            g = Glyph(); g.coordinates = GlyphCoordinates([(x, y) for x, y, _ in pts]); g.flags = array.array("B", [1 if on else 0 for _, _, on in pts])
            t._encodeTriplets(g)
            return (list(t.flagStream), list(t.glyphStream))
        return res(go)
    def oracle_enc(pts):
        """the PROPERTY on the implementation: the transformed point data reconstruct the points"""
        r = impl_enc(pts)
        if isinstance(r, Err) or not pts: return None
        t = WOFF2GlyfTable(); t.flagStream = bytes(r.v[0]) + b"\x07"; t.glyphStream = bytes(r.v[1]) + b"\x09\x08"
        g = Glyph(); g.endPtsOfContours = [len(pts) - 1]
        t._decodeTriplets(g)
        got = [(x, y, bool(f)) for (x, y), f in zip(g.coordinates, g.flags)]
        if got != [(x, y, on) for x, y, on in pts]: return "triplets decode to %r, encoded %r" % (got, pts)
        if (t.flagStream, t.glyphStream) != (b"\x07", b"\x09\x08"): return "decoding consumed the wrong number of bytes"
        return None
    out.append(Corr("encodeTriplets", tcases, impl_enc, oracle=oracle_enc))
    dcases = []
    for pts in tcases[: len(tcases) // 2]:
        r = impl_enc(pts)
        if isinstance(r, Err): continue
        fs, ts = list(r.v[0]), list(r.v[1]); n_ = len(pts); r_ = rng.below(8)
        if r_ == 0 and ts: ts = ts[:rng.randint(0, len(ts) - 1)]                       # glyph stream cut short
        elif r_ == 1 and fs: fs = fs[:rng.randint(0, len(fs) - 1)]                     # flag stream cut short
        elif r_ == 2 and fs: fs[rng.below(len(fs))] = rng.below(256)                   # another class: the byte count changes
        elif r_ == 3: fs = [rng.below(256) for _ in range(n_)]; ts = [rng.below(256) for _ in range(rng.randint(0, 4 * n_ + 2))]
        elif r_ == 4: fs += [rng.below(256)]; ts += [rng.below(256) for _ in range(3)]  # following data stay
        dcases.append((n_, fs, ts))
    def impl_dec(x):
        n_, fs, ts = x
        def go():
            t = WOFF2GlyfTable(); t.flagStream = bytes(fs); t.glyphStream = bytes(ts)
            g = Glyph(); g.endPtsOfContours = [n_ - 1]
            t._decodeTriplets(g)
            return (([(x_, y_, bool(f)) for (x_, y_), f in zip(g.coordinates, g.flags)], list(t.flagStream)), list(t.glyphStream))
        return res(go)
    out.append(Corr("decodeTriplets", [c for c in dcases if c[0] >= 1], impl_dec))
    # maxp's composite statistics: glyph trees (empty / simple / composite, nested up to four levels, deeper components first or last)
    from fontTools.ttLib import TTFont, newTable
    from fontTools.ttLib.tables._g_l_y_f import GlyphComponent
    def gen_tree(depth):
        k = rng.below(10)
        if depth == 0 or k < 4: return ("s", rng.randint(1, 9), rng.randint(1, 3)) if k else ("e",)
        return ("c", [gen_tree(depth - 1) for _ in range(rng.randint(1, 4))])
    def enc_tree(t):
        if t[0] == "e": return [0]
        if t[0] == "s": return [1, t[1], t[2]]
        out_ = [2, len(t[1])]
        for c in t[1]: out_ += enc_tree(c)
        return out_
    def build(trees):
        """a glyf table holding the trees: every node becomes a glyph; returns (font, glyf, [name of each tree's root])"""
        f = TTFont(); glyf = newTable("glyf"); glyf.glyphs = {}; order = [".notdef"]; glyf.glyphs[".notdef"] = Glyph()
        def add(t):
            name = "n%d" % len(order); order.append(name)
            g = Glyph()
            if t[0] == "e": pass
            elif t[0] == "s":
                g.numberOfContours = t[2]; g.coordinates = GlyphCoordinates([(i, i) for i in range(t[1])]); g.flags = array.array("B", [1] * t[1])
                g.endPtsOfContours = list(range(t[2] - 1)) + [t[1] - 1] if t[2] <= t[1] else [t[1] - 1] * t[2]
            else:
                g.numberOfContours = -1; g.components = []
                for c in t[1]:
                    comp = GlyphComponent(); comp.glyphName = add(c); comp.x = comp.y = 0; comp.flags = 0; g.components.append(comp)
            glyf.glyphs[name] = g
            return name
        roots = [add(t) for t in trees]
        f.setGlyphOrder(order); glyf.glyphOrder = order; f["glyf"] = glyf
        return f, glyf, roots
    mcases = [("c", [gen_tree(3) for _ in range(rng.randint(1, 4))]) for _ in range(N(tier, 400, 5000))]
    def impl_maxp(t):
        f, glyf, roots = build([t])
        v = glyf[roots[0]].getCompositeMaxpValues(glyf)
        return ((v.nPoints, v.nContours), v.maxComponentDepth)
    out.append(Corr("compositeMaxp", mcases, impl_maxp, enc=lambda t: Raw(enc_tree(t))))
    fcases = [[gen_tree(3) for _ in range(rng.randint(0, 6))] for _ in range(N(tier, 200, 2500))]
    def impl_recalc(trees):
        f, glyf, roots = build(trees)
        # the composite part of maxp.recalc over the ROOT glyphs only (inner nodes are glyphs of the font too: include them all, as recalc does)
        mp = mc = me = md = 0
        for name in f.getGlyphOrder():
            g = glyf[name]
            if g.numberOfContours and g.isComposite():
                v = g.getCompositeMaxpValues(glyf); mp = max(mp, v.nPoints); mc = max(mc, v.nContours); me = max(me, len(g.components)); md = max(md, v.maxComponentDepth)
        return (((mp, mc), me), md)
    def enc_font(trees):
        # every node of every tree is a glyph of the font: list them all, as the model's recalc_composites folds over a glyph list
        nodes = []
        def walk(t):
            nodes.append(t)
            if t[0] == "c":
                for c in t[1]: walk(c)
        for t in trees: walk(t)
        flat = [len(nodes)]
        for t in nodes: flat += enc_tree(t)
        return Raw(flat)
    out.append(Corr("recalcComposites", fcases, impl_recalc, enc=enc_font))
    return out

# ------------------------------------------------------------------ implementation-side sweeps
def _save(font, **kw):
    b = io.BytesIO(); font.save(b, **kw); return b.getvalue()

def _composite_bounds(font):
    """recompute composite glyph boxes from the component placement of the SAVED font"""
    from fontTools.misc.roundTools import otRound
    glyf = font["glyf"]; out = {}
    for gid, name in enumerate(font.getGlyphOrder()):
        g = glyf[name]
        if g.isComposite():
            try:
                coords, _, _ = g.getCoordinates(glyf)
                if len(coords) == 0: out[gid] = None; continue
                xs = [c[0] for c in coords]; ys = [c[1] for c in coords]
                out[gid] = (otRound(min(xs)), otRound(min(ys)), otRound(max(xs)), otRound(max(ys)))
            except Exception:
                out[gid] = None
    return out

def validate_saved(data, label, derived=True, expect_tables=None):
    """all container + derived-field checks on one saved file; returns list of problems"""
    from fontTools.ttLib import TTFont
    P = []
    try:
        kind, tabs, P = sfntspec.check_any(data)
    except sfntspec.Invalid as e:
        return ["independent reader rejects the file: %s" % e]
    except Exception as e:
        return ["independent reader crashed: %r" % e]
    if kind == "woff2" or tabs is None or kind == "ttc": return P
    if expect_tables is not None:
        for t, d in expect_tables.items():
            if t in (b"head",):
                if tabs.get(t, b"")[:8] != d[:8] or tabs.get(t, b"")[12:] != d[12:]: P.append("flavour changed head content")
            elif tabs.get(t) != d: P.append("flavour changed table %r" % t)
    if derived and b"glyf" in tabs and b"loca" in tabs and b"maxp" in tabs and b"head" in tabs:
        try:
            f2 = TTFont(io.BytesIO(data), lazy=False)
            cb = _composite_bounds(f2)
        except Exception:
            cb = None
        P += glyfspec.check_truetype(tabs, cb)
    elif derived and b"hhea" in tabs and b"hmtx" in tabs and b"maxp" in tabs:
        n = struct.unpack(">H", tabs[b"maxp"][4:6])[0]
        P += glyfspec.check_hmetrics(tabs[b"hhea"], tabs[b"hmtx"], n, None, "h")
    return P

def _load_all(path):
    f = corpus.open_font(path, lazy=False)
    for tag in list(f.keys()):
        try: f[tag]
        except Exception: pass
    if "glyf" in f:
        glyf = f["glyf"]
        for name in f.getGlyphOrder():
            g = glyf[name]
            if hasattr(g, "expand"): g.expand(glyf)
    return f

def boundary_font():
    """a generated TrueType font whose point deltas sit on every WOFF2 triplet / glyf coordinate boundary"""
    from fontTools.fontBuilder import FontBuilder
    from fontTools.pens.ttGlyphPen import TTGlyphPen
    B = [0, 1, 255, 256, 257, 511, 512, 767, 768, 1023, 1024, 1279, 1280, 1281, 1535, 1536, 2047, 2048, 4095, 4096, 12000]
    glyphs = {}; order = [".notdef"]
    pen = TTGlyphPen(None); pen.moveTo((0, 0)); pen.lineTo((100, 0)); pen.lineTo((100, 100)); pen.closePath(); glyphs[".notdef"] = pen.glyph()
    i = 0
    for dx in B:
        for dy in (B if dx in (0, 1, 12000) else [0, 1, 64, 65, 768, 769]):
            for sx, sy in ((1, 1), (-1, 1), (1, -1)):
                name = "g%03d" % i; i += 1
                pen = TTGlyphPen(None)
                x0, y0 = 7, -3
                pen.moveTo((x0, y0)); pen.lineTo((x0 + sx * dx, y0 + sy * dy)); pen.lineTo((x0 + sx * dx + 13, y0 + sy * dy + 29))
                pen.qCurveTo((x0 + 40, y0 + 700), (x0 - 5, y0 + 350)); pen.closePath()
                glyphs[name] = pen.glyph(); order.append(name)
    # composites incl. a flat (hairline) component sticking out
    pen = TTGlyphPen(None); pen.moveTo((20, 710)); pen.lineTo((620, 710)); pen.lineTo((300, 710)); pen.closePath()
    glyphs["hair"] = pen.glyph(); order.append("hair")
    pen = TTGlyphPen(None); pen.moveTo((55, -40)); pen.lineTo((55, 900)); pen.lineTo((55, 100)); pen.closePath()
    glyphs["vhair"] = pen.glyph(); order.append("vhair")
    pen = TTGlyphPen(glyphs); pen.addComponent("g000", (1, 0, 0, 1, 100, 0)); pen.addComponent("hair", (1, 0, 0, 1, 0, 0)); glyphs["comp1"] = pen.glyph(); order.append("comp1")
    pen = TTGlyphPen(glyphs); pen.addComponent("g001", (1, 0, 0, 1, 300, 10)); pen.addComponent("vhair", (1, 0, 0, 1, -200, 5)); glyphs["comp2"] = pen.glyph(); order.append("comp2")
    pen = TTGlyphPen(glyphs); pen.addComponent("comp1", (1, 0, 0, 1, 5, 5)); pen.addComponent("g002", (0.5, 0, 0, 0.5, 10, 10)); glyphs["comp3"] = pen.glyph(); order.append("comp3")
    # glyph records of odd byte length: with glyf.padding 0/1 the offsets become odd, which only the long loca format can hold
    for k, pts in enumerate(([(100, 0), (250, 400), (700, 0)], [(100, 0), (250, 400), (700, 0), (300, -50), (255, -60), (11, 12)])):
        pen = TTGlyphPen(None); pen.moveTo(pts[0])
        for q in pts[1:]: pen.lineTo(q)
        pen.closePath(); glyphs["odd%d" % k] = pen.glyph(); order.append("odd%d" % k)
    # nesting: a composite whose EARLIER component nests deeper than a later one (no other glyph of the font nests as deep)
    pen = TTGlyphPen(glyphs); pen.addComponent("g003", (1, 0, 0, 1, 0, 0)); glyphs["lvl1"] = pen.glyph(); order.append("lvl1")
    pen = TTGlyphPen(glyphs); pen.addComponent("lvl1", (1, 0, 0, 1, 30, 0)); glyphs["lvl2"] = pen.glyph(); order.append("lvl2")
    pen = TTGlyphPen(glyphs); pen.addComponent("lvl2", (1, 0, 0, 1, 0, 0)); pen.addComponent("lvl1", (1, 0, 0, 1, 50, 0)); glyphs["deepfirst"] = pen.glyph(); order.append("deepfirst")
    pen = TTGlyphPen(glyphs); pen.addComponent("lvl1", (1, 0, 0, 1, 0, 0)); pen.addComponent("g004", (1, 0, 0, 1, 0, 9)); pen.addComponent("g005", (1, 0, 0, 1, 0, 9)); glyphs["wide"] = pen.glyph(); order.append("wide")
    fb = FontBuilder(2048, isTTF=True)
    fb.setupGlyphOrder(order)
    fb.setupCharacterMap({0x41 + k: n for k, n in enumerate(order[1:60])})
    fb.setupGlyf(glyphs)
    adv = {n: (600 + (k % 7) * 100 if k < len(order) - 9 else 777, (k % 5) * 10 - 20) for k, n in enumerate(order)}
    fb.setupHorizontalMetrics(adv)
    fb.setupHorizontalHeader(ascent=1600, descent=-400)
    # vertical metrics too: vhea.numberOfVMetrics is derived from vmtx at save time exactly as hhea's count is from hmtx
    fb.setupVerticalMetrics({n: (1000 + (k % 3) * 100 if k < len(order) - 6 else 1234, (k % 4) * 7) for k, n in enumerate(order)})
    fb.setupVerticalHeader(ascent=1024, descent=-1024)
    fb.setupNameTable({"familyName": "Boundary", "styleName": "Regular"})
    fb.setupOS2(); fb.setupPost(); fb.setupMaxp() if hasattr(fb, "setupMaxp") else None
    return fb.font

def sweeps(tier, rng):
    from fontTools.ttLib import TTFont
    fonts = [p for p in corpus.binaries((".ttf", ".otf"))]
    pick = corpus.pick(rng, fonts, 14 if tier == "quick" else 40 if tier == "search" else len(fonts))
    def run_corpus():
        for path in pick:
            try:
                f = _load_all(path)
            except Exception:
                continue
            for flavor in (None, "woff"):
                for reorder in ((True,) if tier == "quick" else (True, False, None)):
                    f.flavor = flavor
                    try:
                        data = _save(f, reorderTables=reorder)
                    except Exception as e:
                        yield ((corpus.rel(path), flavor, reorder), None)   # cannot save: other properties' business
                        continue
                    P = validate_saved(data, path)
                    yield ((corpus.rel(path), flavor, reorder), "; ".join(P[:6]) if P else None)
            f.flavor = None
    def run_generated():
        f = boundary_font()
        plain = _save(f)
        P = validate_saved(plain, "generated")
        yield (("generated-boundary-font", None), "; ".join(P[:6]) if P else None)
        f1 = TTFont(io.BytesIO(plain), lazy=False)
        ref = {n: (list(f1["glyf"][n].getCoordinates(f1["glyf"])[0]), f1["hmtx"][n]) for n in f1.getGlyphOrder()}
        kind, tabs, _ = sfntspec.check_any(plain)
        for flavor in ("woff", "woff2"):
            f1.flavor = flavor
            data = _save(f1)
            P = validate_saved(data, "generated", expect_tables=tabs if flavor == "woff" else None)
            f2 = TTFont(io.BytesIO(data), lazy=False)
            got = {n: (list(f2["glyf"][n].getCoordinates(f2["glyf"])[0]), f2["hmtx"][n]) for n in f2.getGlyphOrder()}
            bad = [n for n in ref if ref[n] != got.get(n)]
            if bad: P.append("flavour %s changed outline/metrics of %s: %r -> %r" % (flavor, bad[0], ref[bad[0]][0][:4], got[bad[0]][0][:4]))
            # back to plain sfnt: derived fields must still be right
            f2.flavor = None
            P += validate_saved(_save(f2), "generated-roundtrip")
            yield (("generated-boundary-font", flavor), "; ".join(P[:6]) if P else None)
        for pad in (0, 1, 2, 4):
            f3 = TTFont(io.BytesIO(plain), lazy=False)
            f3["glyf"].padding = pad
            for n in f3.getGlyphOrder(): f3["glyf"][n].expand(f3["glyf"])
            P = validate_saved(_save(f3), "generated-pad%d" % pad)
            yield (("generated-boundary-font", "padding=%d" % pad), "; ".join(P[:6]) if P else None)
            # the same font as WOFF2 (glyph data re-aligned to 4 bytes: the compact loca format may change): the tables the WOFF2
            # file reconstructs to — read raw, not re-saved — must agree with each other
            f3.flavor = "woff2"; data = _save(f3)
            r = TTFont(io.BytesIO(data), lazy=True).reader
            raw = {t.encode("latin-1"): r[t] for t in r.keys()}
            P = glyfspec.check_truetype(raw, None)
            yield (("generated-boundary-font", "padding=%d" % pad, "woff2-reconstructed"), "; ".join(P[:6]) if P else None)
    def run_breakeven():
        """WOFF: tables whose zlib stream is exactly as long as the table (compLength == origLength means 'stored raw')"""
        import zlib
        from fontTools.ttLib import newTable
        f = boundary_font()
        found = []
        for base in (300, 280, 310, 200, 150, 8, 12, 20):
            rnd = rng.bytes(base)
            for k in range(0, 80):
                pl = rnd + b"\0" * k
                if len(zlib.compress(pl, 6)) == len(pl): found.append(pl); break
        for tag, pl in zip(["TeSt", "TesU", "TesV", "TesW"], found):
            t = newTable(tag); t.data = pl; f[tag] = t
        plain = _save(f)
        kind, tabs, _ = sfntspec.check_any(plain)
        for reorder in (True, False):
            f1 = TTFont(io.BytesIO(plain), lazy=False); f1.flavor = "woff"
            b = io.BytesIO(); f1.save(b, reorderTables=reorder); data = b.getvalue()
            P = validate_saved(data, "woff-breakeven", expect_tables=tabs)
            f2 = TTFont(io.BytesIO(data), lazy=True)
            for tag in ("TeSt", "TesU", "TesV", "TesW"):
                if tag in f and f2.reader[tag] != f[tag].data: P.append("table %s (%d bytes, zlib stream equally long) reads back differently" % (tag, len(f[tag].data)))
            yield (("woff-breakeven", len(found), reorder), "; ".join(P[:6]) if P else None)
    def run_ttc_members():
        """a collection of fonts whose same-tag tables have equal length and checksum but different bytes (the same metrics in
        another glyph order): every member must read back with ITS tables, shared or not"""
        from fontTools.ttLib import TTCollection
        from fontTools.fontBuilder import FontBuilder
        from fontTools.pens.ttGlyphPen import TTGlyphPen
        def member(order):
            fb = FontBuilder(1000, isTTF=True); fb.setupGlyphOrder([".notdef"] + order); fb.setupCharacterMap({ord(c): c for c in order})
            def box(w):
                pen = TTGlyphPen(None); pen.moveTo((0, 0)); pen.lineTo((w, 0)); pen.lineTo((w, 500)); pen.lineTo((0, 500)); pen.closePath(); return pen.glyph()
            adv = {"A": (600, 40), "B": (700, 60), "C": (800, 80), ".notdef": (500, 0)}
            fb.setupGlyf({g: box(adv[g][0] - 100) for g in [".notdef"] + order}); fb.setupHorizontalMetrics({g: adv[g] for g in [".notdef"] + order})
            fb.setupHorizontalHeader(ascent=800, descent=-200); fb.setupNameTable({"familyName": "T", "styleName": "".join(order)}); fb.setupOS2(); fb.setupPost()
            b = io.BytesIO(); fb.save(b); return b.getvalue()
        orders = [["A", "B", "C"], ["B", "A", "C"], ["C", "B", "A"]]
        rng.shuffle(orders)
        alone = [member(o) for o in orders]
        for shared in (True, False):
            c = TTCollection(); c.fonts = [TTFont(io.BytesIO(d), lazy=False) for d in alone]
            b = io.BytesIO(); c.save(b, shareTables=shared); data = b.getvalue()
            try: kind, fontsT, P = sfntspec.check_any(data)
            except Exception as e: P = ["independent reader: %r" % e]
            for i, d in enumerate(alone):
                f0 = TTFont(io.BytesIO(d), lazy=True); f1 = TTFont(io.BytesIO(data), fontNumber=i, lazy=True)
                for tag in f0.reader.keys():
                    if tag == "head": continue            # checkSumAdjustment is per file
                    if f0.reader[tag] != f1.reader[tag]: P.append("member %d (%s): table %s differs from the font saved alone" % (i, "".join(orders[i]), tag)); break
            yield (("ttc-members", shared, tuple("".join(o) for o in orders)), "; ".join(P[:6]) if P else None)
    def run_ttc():
        from fontTools.ttLib import TTCollection
        import os
        for p in corpus.binaries((".ttc",))[: (2 if tier == "quick" else 20)]:
            try:
                c = TTCollection(p, lazy=False)
            except Exception:
                continue
            for shared in (True, False):
                b = io.BytesIO(); c.save(b, shareTables=shared)
                try:
                    kind, fontsT, P = sfntspec.check_any(b.getvalue())
                except Exception as e:
                    P = ["independent reader: %r" % e]
                yield ((corpus.rel(p), "ttc", shared), "; ".join(P[:6]) if P else None)
    return [Sweep("saved-corpus-fonts", run_corpus), Sweep("generated-font-flavours", run_generated), Sweep("ttc", run_ttc),
            Sweep("woff-breakeven", run_breakeven), Sweep("ttc-members", run_ttc_members)]

def witness(fid):
    return None
