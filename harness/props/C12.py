"""C12 — rewriting a CFF charstring never changes what it draws."""
import io, os
from lib.ser import Ok, Err, res, Raw, Opt
from lib.deser import decode
from lib import corpus, geom as G
from vcheck import Corr, Sweep

RULE = ("operators x argument counts 0..26 (every arity class mod 2/4/6/8, legal and illegal), integer arguments with zeros placed to "
        "trigger each peephole rule; programs from the operator grammar with hints, hintmask, flex, width prefix; all charstrings of corpus "
        "CFF/CFF2 fonts and of a generated CFF font with subroutines shared between hints and path.")
TRUSTED = []
ASSUMPTIONS = ["arguments are integers in the Coq model (only additions are involved); blend operators are sweep-only"]

OPS = ["rmoveto", "hmoveto", "vmoveto", "rlineto", "hlineto", "vlineto", "rrcurveto", "hhcurveto", "vvcurveto", "hvcurveto", "vhcurveto", "rcurveline", "rlinecurve"]
def N(tier, q, t): return q if tier == "quick" else t

class _Priv:
    nominalWidthX = 0; defaultWidthX = 0; Subrs = []; vstore = None

def draw_program(program, private=None, globalSubrs=()):
    from fontTools.misc.psCharStrings import T2CharString
    from fontTools.pens.recordingPen import RecordingPen
    cs = T2CharString(program=list(program), private=private or _Priv(), globalSubrs=list(globalSubrs))
    pen = RecordingPen(); cs.draw(pen); return pen.value, cs.width

def rel_segments(calls, start=(0, 0)):
    out = []; cur = start
    for op, a in calls:
        if op == "moveTo": out.append([0, a[0][0] - cur[0], a[0][1] - cur[1]]); cur = a[0]
        elif op == "lineTo": out.append([1, a[0][0] - cur[0], a[0][1] - cur[1]]); cur = a[0]
        elif op == "curveTo":
            p = cur; seg = [2]
            for q in a: seg += [q[0] - p[0], q[1] - p[1]]; p = q
            out.append(seg); cur = a[2]
    return out

def correspondences(tier, rng):
    from fontTools.cffLib.specializer import _GeneralizerDecombinerCommandsMap as GM
    n = N(tier, 2000, 40000)
    cases = []
    for op_i, op in enumerate(OPS):
        for k in range(0, 27):
            for _ in range(max(1, n // (len(OPS) * 27))):
                args = [rng.choice([0, 0, 1, -1, 5, -7, 100, rng.randint(-500, 500)]) for _ in range(k)]
                cases.append((op_i, args))
    def impl_interp(x):
        op_i, args = x
        def go():
            op = OPS[op_i]
            pre = [0, 0, "rmoveto"]          # the width (if any) is consumed by the first stack-clearing operator
            calls, _ = draw_program(pre + list(args) + [op, "endchar"])
            segs = rel_segments(calls)[1:]
            # closing lines added by the pen when a contour ends are not part of the operator's own output
            return [Raw(s) for s in segs]
        return res(go)
    def cmp_interp(x, io_, mo):
        # the interpreter raises (ValueError/TypeError/IndexError) on malformed argument counts; the model says ValueError
        if io_[0] == 1 and mo[0] == 1: return True
        if io_[0] != mo[0]:
            return False
        return io_ == mo
    def wellformed(x):
        try:
            list(getattr(GM, OPS[x[0]])(list(x[1]))); return True
        except ValueError:
            return False
    # the interpreter is lenient on malformed argument counts (extra arguments are ignored); the property only
    # concerns well-formed programs, so the interpreter model is compared on those
    out = [Corr("interp", [c for c in cases if wellformed(c)], impl_interp, compare=cmp_interp)]
    def impl_gen(x):
        op_i, args = x
        def go():
            return [(OPS.index(o), list(a)) for o, a in getattr(GM, OPS[op_i])(list(args))]
        return res(go)
    def oracle_gen(x):
        """the PROPERTY on the implementation: the generalised commands draw what the operator draws"""
        op_i, args = x
        op = OPS[op_i]
        try:
            cmds = list(getattr(GM, op)(list(args)))
        except ValueError:
            return None
        prog = []
        for o, a in cmds: prog += list(a) + [o]
        pre = [0, 0, "rmoveto"]
        try:
            a_, wa = draw_program(pre + list(args) + [op, "endchar"])
        except Exception as e:
            return "generalize accepts %s %r but the interpreter raises %r" % (op, args, e)
        b_, wb = draw_program(pre + prog + ["endchar"])
        return None if a_ == b_ else "%s %r draws %r, its generalisation draws %r" % (op, args, a_, b_)
    out.append(Corr("generalize", cases, impl_gen, oracle=oracle_gen))
    # ---- the specialiser (phases 1-6) on generalised command lists, every maxstack / preserveTopology setting
    from fontTools.cffLib.specializer import specializeCommands
    def gen_segs():
        Zv = lambda: rng.choice([0, 0, 0, 1, -1, 3, -4, 20, rng.randint(-300, 300)])
        segs = []
        k = rng.choice([1, 2, 3, 5, 8, 14, 30])
        mode = rng.below(5)
        for _ in range(rng.randint(1, k)):
            t = rng.below(10)
            if mode == 1: t = 1 + rng.below(3) if rng.chance(85) else t     # mostly lines
            if mode in (2, 3): t = 4 + rng.below(6) if rng.chance(85) else t     # mostly curves
            if mode == 4: t = rng.choice([1, 2, 4, 5, 6]) if rng.chance(92) else t
            if t == 0: segs.append([0, Zv(), Zv()])
            elif t <= 3:
                a, b = Zv(), Zv()
                if mode == 4 and rng.chance(90): a, b = a or 2, b or -2                 # general lines and curves: the r-operator combinations
                elif rng.chance(50): a, b = rng.choice([(a, 0), (0, b), (a or 1, 0), (0, b or 1)])
                segs.append([1, a, b])
            else:
                v = [Zv() for _ in range(6)]
                # first / last control vectors: horizontal, vertical, zero or general, chained so that neighbours can combine
                for pos in (0, 4):
                    c = rng.below(5)
                    if mode == 4 and rng.chance(90): c = 3; v[pos] = v[pos] or 5; v[pos + 1] = v[pos + 1] or -5
                    if mode == 3 and segs and segs[-1][0] == 2 and pos == 0 and rng.chance(70):
                        px, py = segs[-1][5], segs[-1][6]; c = 0 if py == 0 and px else 1 if px == 0 and py else c
                    if c == 0: v[pos + 1] = 0; v[pos] = v[pos] or 7
                    elif c == 1: v[pos] = 0; v[pos + 1] = v[pos + 1] or -7
                    elif c == 2: v[pos] = v[pos + 1] = 0
                segs.append([2] + v)
        return segs
    SOPS = {"rmoveto": 0, "hmoveto": 1, "vmoveto": 2, "rlineto": 3, "hlineto": 4, "vlineto": 5, "rrcurveto": 6, "hhcurveto": 7,
            "vvcurveto": 8, "hvcurveto": 9, "vhcurveto": 10, "rcurveline": 11, "rlinecurve": 12}
    NAMES = {0: "rmoveto", 1: "rlineto", 2: "rrcurveto"}
    scases = []
    for _ in range(N(tier, 3000, 40000)):
        scases.append((rng.chance(35), rng.choice([0, 5, 7, 10, 13, 14, 20, 48, 48, 48, 513]), gen_segs()))
    def impl_spec(x):
        pt, ms, segs = x
        def go():
            cmds = [(NAMES[s_[0]], list(s_[1:])) for s_ in segs]
            outc = specializeCommands(cmds, generalizeFirst=False, preserveTopology=pt, maxstack=ms)
            return [(SOPS[o], [int(v) for v in a]) for o, a in outc]
        return res(go)
    def oracle_spec(x):
        """the PROPERTY on the implementation: the specialised commands fill what the generalised ones fill"""
        pt, ms, segs = x
        cmds = [(NAMES[s_[0]], list(s_[1:])) for s_ in segs]
        try:
            outc = specializeCommands(cmds, generalizeFirst=False, preserveTopology=pt, maxstack=ms)
        except Exception as e:
            return "specializeCommands raised %r" % (e,)
        def prog(cl):
            p_ = []
            for o, a in cl: p_ += list(a) + [o]
            return p_
        pre = [0, 0, "rmoveto"]
        try:
            a_, _ = draw_program(pre + prog(cmds) + ["endchar"]); b_, _ = draw_program(pre + prog(outc) + ["endchar"])
        except Exception as e:
            return "the interpreter raised %r on %r" % (e, outc)
        return None if G.fill_canon(a_) == G.fill_canon(b_) else "specialised %r draws %r, generalised draws %r" % (outc, b_, a_)
    out.append(Corr("specialize", scases, impl_spec, oracle=oracle_spec))
    # ---- generalizeFirst=True on lists of arbitrary path commands (every operator, legal and illegal argument counts)
    def gen_cmds():
        Zv = lambda: rng.choice([0, 0, 0, 1, -1, 3, -4, 20, rng.randint(-300, 300)])
        cmds = []
        for _ in range(rng.randint(1, 7)):
            op_i = rng.below(len(OPS))
            op = OPS[op_i]
            if rng.chance(8): k = rng.randint(0, 14)                     # possibly illegal
            elif op == "rmoveto": k = 2
            elif op in ("hmoveto", "vmoveto"): k = 1
            elif op == "rlineto": k = 2 * rng.randint(1, 4)
            elif op in ("hlineto", "vlineto"): k = rng.randint(1, 6)
            elif op == "rrcurveto": k = 6 * rng.randint(1, 3)
            elif op in ("hhcurveto", "vvcurveto"): k = 4 * rng.randint(1, 3) + rng.below(2)
            elif op in ("hvcurveto", "vhcurveto"): k = 4 * rng.randint(1, 4) + rng.below(2)
            elif op == "rcurveline": k = 6 * rng.randint(1, 2) + 2
            else: k = 2 * rng.randint(1, 3) + 6
            cmds.append((op_i, [Zv() for _ in range(k)]))
        return cmds
    ccases = [(rng.chance(35), rng.choice([0, 7, 13, 20, 48, 48, 513]), gen_cmds()) for _ in range(N(tier, 2000, 30000))]
    def impl_speccmd(x):
        pt, ms, cmds = x
        def go():
            outc = specializeCommands([(OPS[o], list(a)) for o, a in cmds], generalizeFirst=True, preserveTopology=pt, maxstack=ms)
            return [(SOPS[o], [int(v) for v in a]) for o, a in outc]
        return res(go)
    out.append(Corr("specialize_commands", ccases, impl_speccmd))
    # ---- programToCommands / commandsToProgram on whole programs (width, hints, masks, stray arguments, mask without bytes)
    from fontTools.cffLib.specializer import programToCommands, commandsToProgram
    PID = {"rmoveto": 0, "hmoveto": 1, "vmoveto": 2, "hstem": 20, "hstemhm": 21, "vstem": 22, "vstemhm": 23, "cntrmask": 24, "hintmask": 25, "endchar": 30}
    for i_, o_ in enumerate(OPS): PID.setdefault(o_, i_)
    def opid(o): return PID.get(o, 40 + (sum(map(ord, o)) % 50))
    def tok(t): return Raw([1, opid(t)]) if isinstance(t, str) else Raw([2, len(t)] + list(t)) if isinstance(t, bytes) else Raw([0, int(t)])
    pcases = []
    for _ in range(N(tier, 800, 10000)):
        p_ = gen_program(rng)
        r_ = rng.below(10)
        if r_ == 0: p_ = p_[:rng.randint(0, len(p_))]                       # cut anywhere: stray arguments, a mask operator without its bytes
        elif r_ == 1: p_ = p_[:-1] + [rng.randint(-9, 9)]
        elif r_ == 2: p_ = [rng.randint(0, 900)] + p_
        pcases.append(p_)
    def impl_p2c(p_):
        def go():
            return [(Opt(opid(o), some=True) if o else Opt(None, some=False), [tok(a) for a in args]) for o, args in programToCommands(list(p_))]
        r = res(go)
        return r
    def cmp_p2c(x, i_, m_):
        # a mask operator at the very end of the token list: next(it) raises StopIteration (the model says IndexError)
        if i_ and m_ and i_[0] == 1 and m_[0] == 1: return True
        return list(i_) == list(m_)
    def oracle_p2c(p_):
        try: cs = programToCommands(list(p_))
        except Exception: return None
        back = commandsToProgram(cs)
        return None if back == list(p_) else "commandsToProgram(programToCommands(p)) = %r for p = %r" % (back, p_)
    out.append(Corr("programToCommands", pcases, impl_p2c, enc=lambda p_: ([tok(t) for t in p_],), compare=cmp_p2c, oracle=oracle_p2c))
    return out

def gen_program(rng, width=True):
    """a well-formed Type 2 program from the operator grammar (no subroutines)"""
    prog = []
    Z = lambda: rng.choice([0, 0, 0, 1, -1, 3, -4, 20, rng.randint(-300, 300)])
    if width and rng.chance(40): prog.append(rng.randint(-200, 700))
    nh = 0
    if rng.chance(40):
        k = rng.randint(1, 3); prog += [v for _ in range(k) for v in (rng.randint(0, 50), rng.randint(1, 60))] + [rng.choice(["hstem", "hstemhm"])]; nh += k
        if rng.chance(60):
            k = rng.randint(1, 3); prog += [v for _ in range(k) for v in (rng.randint(0, 50), rng.randint(1, 60))] + [rng.choice(["vstem", "vstemhm"])]; nh += k
        if rng.chance(50) and nh:
            prog += ["hintmask", bytes([rng.below(256) for _ in range((nh + 7) // 8)])]
    for c in range(rng.randint(1, 3)):
        k = rng.below(3)
        if k == 0: prog += [Z(), Z(), "rmoveto"]
        elif k == 1: prog += [Z(), "hmoveto"]
        else: prog += [Z(), "vmoveto"]
        for _ in range(rng.randint(0, 6)):
            op = rng.choice(OPS[3:] + ["hflex", "flex", "hflex1", "flex1", "zcurves", "zcurves"])
            if op == "zcurves":
                # consecutive curves whose first / last control vectors are zero in every combination
                for _c in range(rng.randint(2, 4)):
                    v1 = (0, 0) if rng.chance(45) else (rng.choice([0, Z()]), rng.choice([0, Z()]))
                    v3 = (0, 0) if rng.chance(45) else (rng.choice([0, Z()]), rng.choice([0, Z()]))
                    prog += [v1[0], v1[1], Z(), Z(), v3[0], v3[1]]
                    if rng.chance(50): prog.append("rrcurveto")
                if not isinstance(prog[-1], str): prog.append("rrcurveto")
                continue
            if op == "rlineto": prog += [Z() for _ in range(2 * rng.randint(1, 4))] + [op]
            elif op in ("hlineto", "vlineto"): prog += [Z() for _ in range(rng.randint(1, 6))] + [op]
            elif op == "rrcurveto": prog += [Z() for _ in range(6 * rng.randint(1, 3))] + [op]
            elif op in ("hhcurveto", "vvcurveto"): prog += [Z() for _ in range(4 * rng.randint(1, 3) + rng.below(2))] + [op]
            elif op in ("hvcurveto", "vhcurveto"): prog += [Z() for _ in range(4 * rng.randint(1, 4) + rng.below(2))] + [op]
            elif op == "rcurveline": prog += [Z() for _ in range(6 * rng.randint(1, 2) + 2)] + [op]
            elif op == "rlinecurve": prog += [Z() for _ in range(2 * rng.randint(1, 3) + 6)] + [op]
            elif op == "hflex": prog += [Z() for _ in range(7)] + [op]
            elif op == "flex": prog += [Z() for _ in range(12)] + [50, op]
            elif op == "hflex1": prog += [Z() for _ in range(9)] + [op]
            elif op == "flex1": 
                a = [Z() for _ in range(10)]
                if rng.chance(30):      # |dx| == |dy| tie
                    sx = a[0] + a[2] + a[4] + a[6] + a[8]; sy = a[1] + a[3] + a[5] + a[7]
                    a[9] = rng.choice([1, -1]) * sx - sy
                prog += a + [Z(), op]
    prog.append("endchar")
    return prog

def t2_spec_draw(program):
    """an independent Type 2 interpreter written from Adobe TN#5177 (path operators, flex, hints, width); returns
    (pen calls, width or None)"""
    stack = []; calls = []; x = y = 0; open_ = False; width = None; seen = False; nh = 0
    def take_width(parity_even):
        nonlocal width, seen
        if not seen:
            seen = True
            if (len(stack) % 2 == 1) == parity_even:
                width = stack.pop(0)
    def move(dx, dy):
        nonlocal x, y, open_
        if open_: calls.append(("closePath", ()))
        x += dx; y += dy; calls.append(("moveTo", ((x, y),))); open_ = True
    def line(dx, dy):
        nonlocal x, y
        x += dx; y += dy; calls.append(("lineTo", ((x, y),)))
    def curve(a, b, c, d, e, f):
        nonlocal x, y
        p1 = (x + a, y + b); p2 = (p1[0] + c, p1[1] + d); x, y = p2[0] + e, p2[1] + f
        calls.append(("curveTo", (p1, p2, (x, y))))
    it = iter(program)
    for t in it:
        if not isinstance(t, str): stack.append(t); continue
        a = stack
        if t in ("hstem", "vstem", "hstemhm", "vstemhm"):
            take_width(True); nh += len(stack) // 2
        elif t in ("hintmask", "cntrmask"):
            take_width(True); nh += len(stack) // 2; next(it)
        elif t == "rmoveto": take_width(True); move(stack[0], stack[1])
        elif t == "hmoveto": take_width(False); move(stack[0], 0)
        elif t == "vmoveto": take_width(False); move(0, stack[0])
        elif t == "endchar":
            take_width(True)
            if open_: calls.append(("closePath", ()))
            break
        elif t == "rlineto":
            for i in range(0, len(a), 2): line(a[i], a[i + 1])
        elif t in ("hlineto", "vlineto"):
            h = t == "hlineto"
            for v in a:
                line(v, 0) if h else line(0, v); h = not h
        elif t == "rrcurveto":
            for i in range(0, len(a), 6): curve(*a[i:i + 6])
        elif t == "hhcurveto":
            dy1 = 0; b = list(a)
            if len(b) % 2: dy1 = b.pop(0)
            for i in range(0, len(b), 4): curve(b[i], dy1, b[i + 1], b[i + 2], b[i + 3], 0); dy1 = 0
        elif t == "vvcurveto":
            dx1 = 0; b = list(a)
            if len(b) % 2: dx1 = b.pop(0)
            for i in range(0, len(b), 4): curve(dx1, b[i], b[i + 1], b[i + 2], 0, b[i + 3]); dx1 = 0
        elif t in ("hvcurveto", "vhcurveto"):
            h = t == "hvcurveto"; b = list(a)
            while b:
                g = b[:4]; b = b[4:]
                last = b.pop(0) if len(b) == 1 else 0
                if h: curve(g[0], 0, g[1], g[2], last, g[3])
                else: curve(0, g[0], g[1], g[2], g[3], last)
                h = not h
        elif t == "rcurveline":
            for i in range(0, len(a) - 2, 6): curve(*a[i:i + 6])
            line(a[-2], a[-1])
        elif t == "rlinecurve":
            for i in range(0, len(a) - 6, 2): line(a[i], a[i + 1])
            curve(*a[-6:])
        elif t == "hflex":
            dx1, dx2, dy2, dx3, dx4, dx5, dx6 = a; curve(dx1, 0, dx2, dy2, dx3, 0); curve(dx4, 0, dx5, -dy2, dx6, 0)
        elif t == "flex":
            curve(*a[0:6]); curve(*a[6:12])
        elif t == "hflex1":
            dx1, dy1, dx2, dy2, dx3, dx4, dx5, dy5, dx6 = a; curve(dx1, dy1, dx2, dy2, dx3, 0); curve(dx4, 0, dx5, dy5, dx6, -(dy1 + dy2 + dy5))
        elif t == "flex1":
            dx = a[0] + a[2] + a[4] + a[6] + a[8]; dy = a[1] + a[3] + a[5] + a[7] + a[9]
            curve(*a[0:6])
            if abs(dx) > abs(dy): curve(a[6], a[7], a[8], a[9], a[10], -dy)
            else: curve(a[6], a[7], a[8], a[9], -dx, a[10])
        stack = []
    return calls, width

def sweeps(tier, rng):
    from fontTools.cffLib.specializer import specializeProgram, generalizeProgram, programToCommands, commandsToProgram, specializeCommands, generalizeCommands
    from fontTools.misc.psCharStrings import T2CharString
    from fontTools.ttLib import TTFont
    n = N(tier, 400, 8000) if tier != "search" else 2000
    def run_programs():
        for i in range(n):
            prog = gen_program(rng)
            bad = None
            try:
                ref, w0 = draw_program(prog)
            except Exception as e:
                yield (("program", prog), "the interpreter raised %r on a well-formed program" % (e,)); continue
            # the implementation against the independent interpreter written from the Type 2 specification
            try:
                sp, sw = t2_spec_draw(prog)
                if G.canon(sp) != G.canon(ref): bad = "the interpreter draws %r, the Type 2 specification says %r" % (ref[:6], sp[:6])
            except Exception as e:
                bad = None
            for name, fn, exact in (("generalize", lambda p_: generalizeProgram(p_), True), ("specialize", lambda p_: specializeProgram(p_), False),
                                    ("specialize+topology", lambda p_: specializeProgram(p_, preserveTopology=True), False),
                                    ("generalize+specialize", lambda p_: specializeProgram(generalizeProgram(p_)), False)):
                if bad: break
                body = [t for t in prog if not isinstance(t, bytes)]
                try:
                    out = fn(list(prog[:-1]))
                    got, w1 = draw_program(list(out) + ["endchar"])
                    if w0 != w1: bad = "%s changed the advance width %r -> %r" % (name, w0, w1)
                    elif exact and G.canon(got) != G.canon(ref): bad = "%s changed the outline: %r -> %r" % (name, prog, out)
                    elif not exact and G.fill_canon(got) != G.fill_canon(ref): bad = "%s changed the filled outline: %r -> %r" % (name, prog, out)
                    # stack limit and arities of the emitted program
                    depth = 0
                    for t in out:
                        if isinstance(t, str): depth = 0
                        else:
                            depth += 1
                            if depth > 48: bad = "%s emitted more than 48 operands for one operator" % name
                    if bad is None:
                        from fontTools.cffLib.specializer import _GeneralizerDecombinerCommandsMap as GM
                        for op, args in programToCommands(list(out)):
                            if op and hasattr(GM, op):
                                try: list(getattr(GM, op)(list(args)))
                                except ValueError: bad = "%s emitted %s with %d arguments (illegal arity)" % (name, op, len(args)); break
                except Exception as e:
                    bad = "%s raised %r on %r" % (name, e, prog)
            yield (("program", i), bad)
    def run_bytecode():
        for i in range(n):
            prog = gen_program(rng)
            bad = None
            try:
                cs = T2CharString(program=list(prog), private=_Priv()); cs.compile()
                cs2 = T2CharString(bytecode=cs.bytecode, private=_Priv()); cs2.decompile()
                if cs2.program != [t for t in prog]: bad = "program changed after compile/decompile: %r -> %r" % (prog, cs2.program)
            except Exception as e:
                bad = "compile/decompile raised %r" % (e,)
            yield (("bytecode", i), bad)
    def subr_font(default_w=500, nominal_w=0):
        """CFF font whose local subroutines mix stem hints with path operators and are followed by hintmasks; hinted glyphs whose
        advance is exactly nominalWidthX (explicit width argument 0) or exactly defaultWidthX (written explicitly all the same)"""
        from fontTools.fontBuilder import FontBuilder
        from fontTools.cffLib import SubrsIndex
        fb = FontBuilder(1000, isTTF=False)
        order = [".notdef", "A", "B", "C", "D", "E", "F", "G", "H"]
        fb.setupGlyphOrder(order); fb.setupCharacterMap({65 + i: n_ for i, n_ in enumerate(order[1:])})
        def cs(*program): return T2CharString(program=list(program))
        subrs = SubrsIndex()
        subrs.append(cs(10, 20, "hstemhm", 30, 40, "vstemhm", 100, 200, "rmoveto", "return"))          # stems + one path operator
        subrs.append(cs("hintmask", b"\xc0", "return"))                                                # hintmask only
        subrs.append(cs(10, 20, "hstemhm", 30, 40, "vstemhm", 100, 200, "rmoveto", 5, 6, "rlineto", "return"))
        subrs.append(cs(50, 0, 0, 50, -50, 0, "rlineto", "return"))                                     # path only
        bias = 107
        box = [50, 0, 0, 50, -50, 0, "rlineto"]
        chars = {
            ".notdef": cs(500, 0, "hmoveto", "endchar"),
            "A": cs(620, 0 - bias, "callsubr", 1 - bias, "callsubr", *box, "endchar"),
            "B": cs(0 - bias, "callsubr", "hintmask", b"\xc0", *box, "endchar"),
            "C": cs(640, 2 - bias, "callsubr", "hintmask", b"\xc0", *box, "endchar"),
            "D": cs(0 - bias, "callsubr", 5, 6, "rlineto", "hintmask", b"\x80", *box, "endchar"),
            "E": cs(10, 20, "hstem", 30, 40, "vstem", 7, 8, "rmoveto", 3 - bias, "callsubr", "endchar"),
            "F": cs(0, 10, 20, "hstem", 30, 40, "vstem", 7, 8, "rmoveto", *box, "endchar"),                      # width = nominalWidthX
            "G": cs(default_w - nominal_w, 10, 20, "hstem", 7, 8, "rmoveto", *box, "endchar"),                   # width = defaultWidthX, explicit
            "H": cs(0, 0 - bias, "callsubr", "hintmask", b"\xc0", *box, "endchar"),                             # width = nominal, hints in a subroutine
        }
        fb.setupCFF("Gen-CFF", {"FullName": "Gen CFF"}, chars, {"defaultWidthX": default_w, "nominalWidthX": nominal_w, "Subrs": subrs})
        fb.setupHorizontalMetrics({n_: (500, 0) for n_ in order}); fb.setupHorizontalHeader(ascent=800, descent=-200)
        fb.setupNameTable({"familyName": "G", "styleName": "R"}); fb.setupOS2(); fb.setupPost()
        b = io.BytesIO(); fb.save(b); return b.getvalue()
    def glyph_snapshot(font):
        from fontTools.pens.recordingPen import RecordingPen
        gs = font.getGlyphSet(); out = {}
        for gid, n_ in enumerate(font.getGlyphOrder()):       # keyed by glyph id: CFF2 carries no glyph names
            pen = RecordingPen(); gs[n_].draw(pen); out[gid] = (G.fill_canon(pen.value), gs[n_].width)
        if "CFF " in font:
            # the width a CFF charstring itself declares (defaultWidthX / nominalWidthX arithmetic)
            from fontTools.pens.basePen import NullPen
            cs_ = font["CFF "].cff[0].CharStrings
            for gid, n_ in enumerate(font.getGlyphOrder()):
                if n_ in cs_:
                    c = cs_[n_]; c.draw(NullPen()); out[gid] = out[gid] + (c.width,)
        return out
    def run_fonts():
        fonts = [(corpus.rel(p), open(p, "rb").read()) for p in corpus.pick(rng, [q for q in corpus.binaries((".otf",)) if os.path.getsize(q) < 300000], 4 if tier == "quick" else 20 if tier == "search" else 200)]
        for dw, nw in ((500, 0), (500, 600), (620, 560)):
            try: fonts.append(("generated-CFF-with-subroutines-%d-%d" % (dw, nw), subr_font(dw, nw)))
            except Exception as e: fonts.append(("generated-CFF(build failed: %r)" % (e,), None))
        for label, data in fonts:
            if data is None: yield ((label, "build"), "could not build the generated CFF font"); continue
            try:
                f0 = TTFont(io.BytesIO(data)); 
                if "CFF " not in f0 and "CFF2" not in f0: continue
                ref = glyph_snapshot(f0)
            except Exception:
                continue
            tag = "CFF " if "CFF " in f0 else "CFF2"
            ops = [("desubroutinize", lambda f: f[tag].cff.desubroutinize()), ("remove_hints", lambda f: f[tag].cff.remove_hints()),
                   ("desubroutinize+remove_hints", lambda f: (f[tag].cff.desubroutinize(), f[tag].cff.remove_hints())),
                   ("remove_unused_subroutines", lambda f: f[tag].cff.remove_unused_subroutines())]
            if tag == "CFF ":
                def to2(f):
                    from fontTools.cffLib.CFFToCFF2 import convertCFFToCFF2
                    convertCFFToCFF2(f)
                def roundtrip2(f):
                    from fontTools.cffLib.CFFToCFF2 import convertCFFToCFF2
                    from fontTools.cffLib.CFF2ToCFF import convertCFF2ToCFF
                    convertCFFToCFF2(f); convertCFF2ToCFF(f)
                ops += [("CFF->CFF2", to2), ("CFF->CFF2->CFF", roundtrip2)]
                def spec(f):
                    from fontTools.cffLib.specializer import specializeProgram
                    cs_ = f["CFF "].cff[0].CharStrings
                    for n_ in f.getGlyphOrder():
                        c = cs_[n_]; c.decompile()
                        if any(isinstance(t, str) and t in ("callsubr", "callgsubr", "hintmask", "cntrmask", "hstem", "vstem", "hstemhm", "vstemhm") for t in c.program): continue
                        c.program = specializeProgram(c.program)
                ops.append(("specialize-all", spec))
            for name, fn in ops:
                bad = None
                try:
                    # CFF2->CFF renames the glyphs inside the CFF to cidNNNNN: like the converter's own command line, save without
                    # recalculating boxes (hhea would look charstrings up by the font's glyph names)
                    f = TTFont(io.BytesIO(data), recalcBBoxes=(name != "CFF->CFF2->CFF")); fn(f)
                    b = io.BytesIO(); f.save(b); f2 = TTFont(io.BytesIO(b.getvalue()))
                    got = glyph_snapshot(f2)
                    for n_ in ref:
                        if got.get(n_) != ref[n_]:
                            keepw = name.startswith("CFF->CFF2")      # CFF2 has no widths in charstrings; hmtx is authoritative
                            if got.get(n_, (None,))[0] != ref[n_][0] or not keepw:
                                bad = "%s changed glyph %r: %r -> %r" % (name, n_, ref[n_], got.get(n_)); break
                    if bad is None and name.endswith("remove_hints"):
                        cs_ = f2[tag if tag in f2 else "CFF2"].cff[0].CharStrings
                        for n_ in f2.getGlyphOrder():
                            c = cs_[n_]; c.decompile()
                            if any(isinstance(t, str) and t in ("hstem", "vstem", "hstemhm", "vstemhm", "hintmask", "cntrmask") for t in c.program):
                                bad = "remove_hints left hint operators in %r" % n_; break
                except Exception as e:
                    bad = "%s raised %r" % (name, e)          # F14 (IndexError in callsubr) was repaired in /repo
                yield ((label, name), bad)
    def run_widths():
        from fontTools.cffLib.width import optimizeWidths
        for i in range(max(20, n // 4)):
            widths = [rng.choice([500, 500, 600, rng.randint(0, 1200)]) for _ in range(rng.randint(1, 40))]
            try:
                d, nom = optimizeWidths(widths)
                # re-encode every width against the chosen pair and read it back
                bad = None
                for w in widths:
                    prog = ([] if w == d else [w - nom]) + [0, "hmoveto", "endchar"]
                    class P(_Priv): pass
                    P.defaultWidthX = d; P.nominalWidthX = nom
                    _, w1 = draw_program(prog, private=P())
                    if w1 != w: bad = "width %d decodes as %r with default %d nominal %d" % (w, w1, d, nom); break
            except Exception as e:
                bad = "optimizeWidths raised %r" % (e,)
            yield (("widths", i), bad)
    return [Sweep("programs", run_programs), Sweep("bytecode", run_bytecode), Sweep("cff-fonts", run_fonts), Sweep("widths", run_widths)]

def classify(sweep, case, failure):
    return None

def witness(fid):
    if fid == "F14":
        from fontTools.ttLib import TTFont
        from fontTools.cffLib.CFFToCFF2 import convertCFFToCFF2
        from fontTools.cffLib.CFF2ToCFF import convertCFF2ToCFF
        p = corpus.find("cmap_subtableselection_font1.otf")
        if not p: return None
        f = TTFont(p); convertCFFToCFF2(f)
        try:
            convertCFF2ToCFF(f); return None
        except IndexError:
            return "IndexError"
    return None
